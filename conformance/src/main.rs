use vmconf::*;
trait Out { fn out(&self) -> String; }
macro_rules! int { ($($t:ty),*) => { $(impl Out for $t { fn out(&self) -> String { format!("{}", self) } })* } }
int!(i64, u64, usize, i32, u32, u8, bool);
impl Out for f64 { fn out(&self) -> String { if self.is_nan() { "fNaN".into() } else { format!("f{}", self.to_bits()) } } }
impl Out for () { fn out(&self) -> String { "()".into() } }
impl Out for String { fn out(&self) -> String { format!("{:?}", self) } }
impl Out for std::cmp::Ordering { fn out(&self) -> String { format!("{:?}", self) } }
impl Out for Lvl { fn out(&self) -> String { format!("{:?}", self) } }
impl Out for u16 { fn out(&self) -> String { format!("{}", self) } }
impl Out for i8 { fn out(&self) -> String { format!("{}", self) } }
impl Out for P { fn out(&self) -> String { format!("P({},{})", self.x.out(), self.n.out()) } }
impl<T: Out> Out for Option<T> { fn out(&self) -> String { match self { Some(v) => format!("Some({})", v.out()), None => "None".into() } } }
impl<T: Out, E: Out> Out for Result<T, E> { fn out(&self) -> String { match self { Ok(v) => format!("Ok({})", v.out()), Err(v) => format!("Err({})", v.out()) } } }
impl<T: Out> Out for Vec<T> { fn out(&self) -> String { format!("[{}]", self.iter().map(|x| x.out()).collect::<Vec<_>>().join(",")) } }
impl<T: Out, const N: usize> Out for [T; N] { fn out(&self) -> String { format!("[{}]", self.iter().map(|x| x.out()).collect::<Vec<_>>().join(",")) } }
impl<A: Out, B: Out> Out for (A, B) { fn out(&self) -> String { format!("({},{})", self.0.out(), self.1.out()) } }
impl<A: Out, B: Out, C: Out> Out for (A, B, C) { fn out(&self) -> String { format!("({},{},{})", self.0.out(), self.1.out(), self.2.out()) } }
impl<A: Out, B: Out, C: Out, D: Out> Out for (A, B, C, D) { fn out(&self) -> String { format!("({},{},{},{})", self.0.out(), self.1.out(), self.2.out(), self.3.out()) } }
impl<A: Out, B: Out, C: Out, D: Out, F: Out> Out for (A, B, C, D, F) { fn out(&self) -> String { format!("({},{},{},{},{})", self.0.out(), self.1.out(), self.2.out(), self.3.out(), self.4.out()) } }

type Case = (Vec<f64>, Vec<i64>, f64, f64, i64, i64, usize);
fn cases() -> Vec<Case> {
    vec![
        (vec![1.5, -2.0, 0.25, 4.0], vec![3, -1, 4, 0, 2], 0.75, -1.25, 2, 3, 1),
        (vec![0.1, 0.2, 0.3], vec![2, 4, 6], -3.5, 2.0, -4, 0, 4),
        (vec![-1.0, f64::INFINITY, 2.0, 1e-300, 7.0], vec![1, 1, -2, 5, 5, 0], f64::NAN, 0.0, 7, -2, 0),
        (vec![2.0, 2.0], vec![-7, 8], 1e300, -0.0, i64::MAX, 1, 9),
        (vec![3.0, 1.0, 2.0], vec![0, 1, 2, 3], 2.5, 1e-3, 6, 10, 3),
    ]
}
macro_rules! run { ($($f:ident),* $(,)?) => { { $( for (k, c) in cases().iter().enumerate() {
    let r = std::panic::catch_unwind(|| $f(&c.0, &c.1, c.2, c.3, c.4, c.5, c.6));
    match r { Ok(v) => println!("{}|{}|{}", stringify!($f), k, v.out()), Err(_) => println!("{}|{}|PANIC", stringify!($f), k) } } )* } } }
fn main() {
    std::panic::set_hook(Box::new(|_| {}));
    for (k, c) in cases().iter().enumerate() {
        println!("CASE|{}|{}|{}|{}|{}|{}|{}|{}", k, c.0.iter().map(|x| x.to_bits().to_string()).collect::<Vec<_>>().join(","), c.1.iter().map(|x| x.to_string()).collect::<Vec<_>>().join(","), c.2.to_bits(), c.3.to_bits(), c.4, c.5, c.6);
    }
    include!("list.rs")
}
