//! Conformance suite for the std-library models of the MIR VM (/verif/mirsmt): every function below uses one std idiom a
//! maintainer might reach for in a refactor.  tools/conformance.py runs each function natively (src/main.rs) and in the VM on the
//! crate's MIR dump with the same concrete inputs and compares the results; a function the VM cannot execute is reported as a
//! gap of the models, a differing result as a wrong model.
#![allow(clippy::all)]
#![allow(unused)]
use std::collections::{BTreeMap, HashMap, HashSet, VecDeque};

// ------------------------------------------------------------------ integers
pub fn i001(xs: &[f64], ns: &[i64], a: f64, b: f64, i: i64, j: i64, u: usize) -> usize { u.saturating_sub(i.unsigned_abs() as usize) }
pub fn i002(xs: &[f64], ns: &[i64], a: f64, b: f64, i: i64, j: i64, u: usize) -> Option<i64> { i.checked_add(j) }
pub fn i003(xs: &[f64], ns: &[i64], a: f64, b: f64, i: i64, j: i64, u: usize) -> Option<i64> { i.checked_sub(j) }
pub fn i004(xs: &[f64], ns: &[i64], a: f64, b: f64, i: i64, j: i64, u: usize) -> Option<i64> { i.checked_mul(j) }
pub fn i005(xs: &[f64], ns: &[i64], a: f64, b: f64, i: i64, j: i64, u: usize) -> Option<i64> { i.checked_div(j) }
pub fn i006(xs: &[f64], ns: &[i64], a: f64, b: f64, i: i64, j: i64, u: usize) -> i64 { i.wrapping_add(j).wrapping_mul(3) }
pub fn i007(xs: &[f64], ns: &[i64], a: f64, b: f64, i: i64, j: i64, u: usize) -> (i64, i64, i64) { (i.min(j), i.max(j), i.clamp(-3, 7)) }
pub fn i008(xs: &[f64], ns: &[i64], a: f64, b: f64, i: i64, j: i64, u: usize) -> (i64, i64, i64) { (i.abs(), i.signum(), i.pow(2)) }
pub fn i009(xs: &[f64], ns: &[i64], a: f64, b: f64, i: i64, j: i64, u: usize) -> (i64, i64) { (i.rem_euclid(5), i.div_euclid(5)) }
pub fn i010(xs: &[f64], ns: &[i64], a: f64, b: f64, i: i64, j: i64, u: usize) -> u64 { i.abs_diff(j) }
pub fn i011(xs: &[f64], ns: &[i64], a: f64, b: f64, i: i64, j: i64, u: usize) -> (usize, usize, bool) { (u.div_ceil(3), u.next_power_of_two(), u.is_power_of_two()) }
pub fn i012(xs: &[f64], ns: &[i64], a: f64, b: f64, i: i64, j: i64, u: usize) -> (u32, u32, u32) { ((u as u64).leading_zeros(), (u as u64).trailing_zeros(), (u as u64).count_ones()) }
pub fn i013(xs: &[f64], ns: &[i64], a: f64, b: f64, i: i64, j: i64, u: usize) -> (f64, f64) { (i as f64, u as f64) }
pub fn i014(xs: &[f64], ns: &[i64], a: f64, b: f64, i: i64, j: i64, u: usize) -> (i64, usize, u8) { (a as i64, b as usize, a as u8) }
pub fn i015(xs: &[f64], ns: &[i64], a: f64, b: f64, i: i64, j: i64, u: usize) -> (u8, u32, i32) { (i as u8, u as u32, j as i32) }
pub fn i016(xs: &[f64], ns: &[i64], a: f64, b: f64, i: i64, j: i64, u: usize) -> i64 { i % j }
pub fn i017(xs: &[f64], ns: &[i64], a: f64, b: f64, i: i64, j: i64, u: usize) -> i64 { i / j }
pub fn i018(xs: &[f64], ns: &[i64], a: f64, b: f64, i: i64, j: i64, u: usize) -> (i64, i64, i64, i64, i64) { (i << 2, i >> 1, i & j, i | j, i ^ j) }
pub fn i019(xs: &[f64], ns: &[i64], a: f64, b: f64, i: i64, j: i64, u: usize) -> (i64, i64) { (!i, -i) }
pub fn i020(xs: &[f64], ns: &[i64], a: f64, b: f64, i: i64, j: i64, u: usize) -> usize { u - (i.unsigned_abs() as usize) }
pub fn i021(xs: &[f64], ns: &[i64], a: f64, b: f64, i: i64, j: i64, u: usize) -> (i64, bool) { i.overflowing_add(j) }
pub fn i022(xs: &[f64], ns: &[i64], a: f64, b: f64, i: i64, j: i64, u: usize) -> i64 { i.saturating_add(j).saturating_mul(2) }
pub fn i023(xs: &[f64], ns: &[i64], a: f64, b: f64, i: i64, j: i64, u: usize) -> Result<usize, ()> { usize::try_from(i).map_err(|_| ()) }
pub fn i024(xs: &[f64], ns: &[i64], a: f64, b: f64, i: i64, j: i64, u: usize) -> Result<i32, ()> { let r: Result<i32, _> = (i * 1_000_000_000).try_into(); r.map_err(|_| ()) }
pub fn i025(xs: &[f64], ns: &[i64], a: f64, b: f64, i: i64, j: i64, u: usize) -> (u64, i64) { (u64::MAX.wrapping_add(u as u64), i64::MIN.wrapping_sub(1)) }
pub fn i026(xs: &[f64], ns: &[i64], a: f64, b: f64, i: i64, j: i64, u: usize) -> std::cmp::Ordering { i.cmp(&j) }
pub fn i027(xs: &[f64], ns: &[i64], a: f64, b: f64, i: i64, j: i64, u: usize) -> (usize, usize) { (u.min(3).max(1), usize::MAX.min(u)) }
pub fn i028(xs: &[f64], ns: &[i64], a: f64, b: f64, i: i64, j: i64, u: usize) -> u64 { (u as u64).pow(3) + 2u64.pow(u as u32 % 8) }
pub fn i029(xs: &[f64], ns: &[i64], a: f64, b: f64, i: i64, j: i64, u: usize) -> i64 { let mut s = 0i64; for k in 0..u { s += k as i64 * i; } s }
pub fn i030(xs: &[f64], ns: &[i64], a: f64, b: f64, i: i64, j: i64, u: usize) -> i64 { let mut s = 0; for k in (0..=u).rev().step_by(2) { s = s * 3 + k as i64; } s }

// ------------------------------------------------------------------ floats
pub fn f001(xs: &[f64], ns: &[i64], a: f64, b: f64, i: i64, j: i64, u: usize) -> (f64, f64, f64) { (a.max(b), a.min(b), a.abs()) }
pub fn f002(xs: &[f64], ns: &[i64], a: f64, b: f64, i: i64, j: i64, u: usize) -> (f64, f64, f64) { (a.abs().sqrt(), (a / 8.0).exp(), a.abs().ln()) }
pub fn f003(xs: &[f64], ns: &[i64], a: f64, b: f64, i: i64, j: i64, u: usize) -> (f64, f64) { (a.powi(3), a.mul_add(b, 1.0)) }
pub fn f004(xs: &[f64], ns: &[i64], a: f64, b: f64, i: i64, j: i64, u: usize) -> (f64, f64, f64, f64, f64) { (a.floor(), a.ceil(), a.round(), a.trunc(), a.fract()) }
pub fn f005(xs: &[f64], ns: &[i64], a: f64, b: f64, i: i64, j: i64, u: usize) -> (f64, f64, f64) { (a.signum(), a.copysign(b), a.recip()) }
pub fn f006(xs: &[f64], ns: &[i64], a: f64, b: f64, i: i64, j: i64, u: usize) -> (bool, bool, bool, bool) { (a.is_nan(), a.is_finite(), a.is_infinite(), a.is_sign_negative()) }
pub fn f007(xs: &[f64], ns: &[i64], a: f64, b: f64, i: i64, j: i64, u: usize) -> f64 { a.clamp(0.0, 1.0) }
pub fn f008(xs: &[f64], ns: &[i64], a: f64, b: f64, i: i64, j: i64, u: usize) -> (u64, f64) { (a.to_bits(), f64::from_bits(b.to_bits() ^ (1u64 << 63))) }
pub fn f009(xs: &[f64], ns: &[i64], a: f64, b: f64, i: i64, j: i64, u: usize) -> (std::cmp::Ordering, Option<std::cmp::Ordering>) { (a.total_cmp(&b), a.partial_cmp(&b)) }
pub fn f010(xs: &[f64], ns: &[i64], a: f64, b: f64, i: i64, j: i64, u: usize) -> (bool, bool, bool, bool, bool) { (a == b, a != b, a < b, a <= b, a > b) }
pub fn f011(xs: &[f64], ns: &[i64], a: f64, b: f64, i: i64, j: i64, u: usize) -> (f64, f64) { (a % b, a.rem_euclid(b)) }
pub fn f012(xs: &[f64], ns: &[i64], a: f64, b: f64, i: i64, j: i64, u: usize) -> (f64, f64, f64, f64) { (f64::EPSILON, f64::MAX, f64::MIN_POSITIVE, f64::INFINITY) }
pub fn f013(xs: &[f64], ns: &[i64], a: f64, b: f64, i: i64, j: i64, u: usize) -> (f64, f64) { (a as f32 as f64, (a as f32 * 3.0f32) as f64) }
pub fn f014(xs: &[f64], ns: &[i64], a: f64, b: f64, i: i64, j: i64, u: usize) -> (f64, f64) { ((a / 8.0).exp_m1(), a.abs().ln_1p()) }
pub fn f015(xs: &[f64], ns: &[i64], a: f64, b: f64, i: i64, j: i64, u: usize) -> f64 { a.hypot(b) }
pub fn f016(xs: &[f64], ns: &[i64], a: f64, b: f64, i: i64, j: i64, u: usize) -> f64 { (a - b) * (a + b) / (1.0 + a * a) - b }
pub fn f017(xs: &[f64], ns: &[i64], a: f64, b: f64, i: i64, j: i64, u: usize) -> f64 { -a + f64::NAN.max(b) }
pub fn f018(xs: &[f64], ns: &[i64], a: f64, b: f64, i: i64, j: i64, u: usize) -> f64 { let mut s = a; s += b; s -= 1.0; s *= 2.0; s /= 3.0; s }
pub fn f019(xs: &[f64], ns: &[i64], a: f64, b: f64, i: i64, j: i64, u: usize) -> f64 { if a.is_nan() || b.is_nan() { f64::NAN } else if a > b { a } else { b } }
pub fn f020(xs: &[f64], ns: &[i64], a: f64, b: f64, i: i64, j: i64, u: usize) -> f64 { a.abs().powf(0.5) + 2f64.powf(b.clamp(-4.0, 4.0)) }
pub fn f021(xs: &[f64], ns: &[i64], a: f64, b: f64, i: i64, j: i64, u: usize) -> (f64, f64) { ((a / 4.0).tanh(), (a / 4.0).sin() + (b / 4.0).cos()) }
pub fn f022(xs: &[f64], ns: &[i64], a: f64, b: f64, i: i64, j: i64, u: usize) -> (f64, f64) { (a.abs().log10(), a.abs().log2()) }
pub fn f023(xs: &[f64], ns: &[i64], a: f64, b: f64, i: i64, j: i64, u: usize) -> f64 { f64::from(i as i32) + f64::from(u as u32) + f64::from(1.5f32) }

// ------------------------------------------------------------------ Option / Result
fn pick(ns: &[i64], k: usize) -> Option<i64> { ns.get(k).copied() }
fn even(i: i64) -> Result<i64, String> { if i % 2 == 0 { Ok(i / 2) } else { Err(format!("odd {}", i)) } }
fn evenu(i: i64) -> Result<i64, u8> { if i % 2 == 0 { Ok(i / 2) } else { Err((i & 7) as u8) } }
pub fn o001(xs: &[f64], ns: &[i64], a: f64, b: f64, i: i64, j: i64, u: usize) -> Option<i64> { pick(ns, u).map(|x| x + 1) }
pub fn o002(xs: &[f64], ns: &[i64], a: f64, b: f64, i: i64, j: i64, u: usize) -> Option<i64> { pick(ns, u).and_then(|x| pick(ns, x.unsigned_abs() as usize)) }
pub fn o003(xs: &[f64], ns: &[i64], a: f64, b: f64, i: i64, j: i64, u: usize) -> Option<i64> { pick(ns, u).filter(|x| *x > 0) }
pub fn o004(xs: &[f64], ns: &[i64], a: f64, b: f64, i: i64, j: i64, u: usize) -> (i64, i64, i64) { (pick(ns, u).unwrap_or(-1), pick(ns, u).unwrap_or_else(|| i * 2), pick(ns, u).unwrap_or_default()) }
pub fn o005(xs: &[f64], ns: &[i64], a: f64, b: f64, i: i64, j: i64, u: usize) -> (i64, i64) { (pick(ns, u).map_or(7, |x| x * 2), pick(ns, u).map_or_else(|| j, |x| x - 1)) }
pub fn o006(xs: &[f64], ns: &[i64], a: f64, b: f64, i: i64, j: i64, u: usize) -> (Result<i64, u8>, Result<i64, u8>) { (pick(ns, u).ok_or(3u8), pick(ns, u).ok_or_else(|| (j & 3) as u8)) }
pub fn o007(xs: &[f64], ns: &[i64], a: f64, b: f64, i: i64, j: i64, u: usize) -> (Option<i64>, Option<i64>, Option<i64>) { (pick(ns, u).or(Some(i)), pick(ns, u).or_else(|| pick(ns, 0)), pick(ns, u).xor(pick(ns, 99))) }
pub fn o008(xs: &[f64], ns: &[i64], a: f64, b: f64, i: i64, j: i64, u: usize) -> Option<(i64, i64)> { pick(ns, u).zip(pick(ns, 1)) }
pub fn o009(xs: &[f64], ns: &[i64], a: f64, b: f64, i: i64, j: i64, u: usize) -> (Option<i64>, Option<i64>) { let mut o = pick(ns, u); let t = o.take(); (o, t) }
pub fn o010(xs: &[f64], ns: &[i64], a: f64, b: f64, i: i64, j: i64, u: usize) -> (Option<i64>, Option<i64>) { let mut o = pick(ns, u); let old = o.replace(i); (o, old) }
pub fn o011(xs: &[f64], ns: &[i64], a: f64, b: f64, i: i64, j: i64, u: usize) -> (i64, Option<i64>) { let mut o = pick(ns, u); let v = *o.get_or_insert(j); (v, o) }
pub fn o012(xs: &[f64], ns: &[i64], a: f64, b: f64, i: i64, j: i64, u: usize) -> (i64, Option<i64>) { let mut o = pick(ns, u); { let r = o.get_or_insert_with(|| i + j); *r += 1; } (o.unwrap(), o) }
pub fn o013(xs: &[f64], ns: &[i64], a: f64, b: f64, i: i64, j: i64, u: usize) -> (bool, bool, bool) { (pick(ns, u).is_some_and(|x| x > 0), pick(ns, u).is_none(), pick(ns, u).is_some()) }
pub fn o014(xs: &[f64], ns: &[i64], a: f64, b: f64, i: i64, j: i64, u: usize) -> Option<i64> { let o = ns.get(u); o.cloned() }
pub fn o015(xs: &[f64], ns: &[i64], a: f64, b: f64, i: i64, j: i64, u: usize) -> i64 { let mut o = pick(ns, u); if let Some(x) = o.as_mut() { *x += 10; } o.as_ref().map(|x| *x).unwrap_or(0) }
pub fn o016(xs: &[f64], ns: &[i64], a: f64, b: f64, i: i64, j: i64, u: usize) -> i64 { pick(ns, u).expect("element") }
pub fn o017(xs: &[f64], ns: &[i64], a: f64, b: f64, i: i64, j: i64, u: usize) -> i64 { pick(ns, u).unwrap() }
fn q1(ns: &[i64], u: usize) -> Option<i64> { let x = pick(ns, u)?; let y = pick(ns, x.unsigned_abs() as usize)?; Some(x + y) }
pub fn o018(xs: &[f64], ns: &[i64], a: f64, b: f64, i: i64, j: i64, u: usize) -> Option<i64> { q1(ns, u) }
pub fn o019(xs: &[f64], ns: &[i64], a: f64, b: f64, i: i64, j: i64, u: usize) -> i64 { let Some(x) = pick(ns, u) else { return -5; }; x * 2 }
pub fn o020(xs: &[f64], ns: &[i64], a: f64, b: f64, i: i64, j: i64, u: usize) -> (bool, bool) { (matches!(pick(ns, u), Some(x) if x > 1), matches!(pick(ns, u), None | Some(0))) }
pub fn o021(xs: &[f64], ns: &[i64], a: f64, b: f64, i: i64, j: i64, u: usize) -> Result<i64, u8> { evenu(i).map(|x| x + 1) }
pub fn o022(xs: &[f64], ns: &[i64], a: f64, b: f64, i: i64, j: i64, u: usize) -> Result<i64, i64> { evenu(i).map_err(|e| e as i64 * 10) }
pub fn o023(xs: &[f64], ns: &[i64], a: f64, b: f64, i: i64, j: i64, u: usize) -> Result<i64, u8> { evenu(i).and_then(evenu) }
pub fn o024(xs: &[f64], ns: &[i64], a: f64, b: f64, i: i64, j: i64, u: usize) -> Result<i64, u8> { evenu(i).or_else(|e| evenu(j + e as i64)) }
pub fn o025(xs: &[f64], ns: &[i64], a: f64, b: f64, i: i64, j: i64, u: usize) -> (i64, i64, i64) { (evenu(i).unwrap_or(-1), evenu(i).unwrap_or_else(|e| e as i64), evenu(i).unwrap_or_default()) }
pub fn o026(xs: &[f64], ns: &[i64], a: f64, b: f64, i: i64, j: i64, u: usize) -> (Option<i64>, Option<u8>) { (evenu(i).ok(), evenu(i).err()) }
pub fn o027(xs: &[f64], ns: &[i64], a: f64, b: f64, i: i64, j: i64, u: usize) -> (bool, bool, bool) { (evenu(i).is_ok(), evenu(i).is_err(), evenu(i).is_ok_and(|x| x > 0)) }
fn q2(i: i64, j: i64) -> Result<i64, u8> { let x = evenu(i)?; let y = evenu(j)?; Ok(x + y) }
pub fn o028(xs: &[f64], ns: &[i64], a: f64, b: f64, i: i64, j: i64, u: usize) -> Result<i64, u8> { q2(i, j) }
pub fn o029(xs: &[f64], ns: &[i64], a: f64, b: f64, i: i64, j: i64, u: usize) -> Result<Vec<i64>, u8> { ns.iter().map(|&x| evenu(x)).collect() }
pub fn o030(xs: &[f64], ns: &[i64], a: f64, b: f64, i: i64, j: i64, u: usize) -> Option<Vec<i64>> { ns.iter().map(|&x| if x >= 0 { Some(x) } else { None }).collect() }
pub fn o031(xs: &[f64], ns: &[i64], a: f64, b: f64, i: i64, j: i64, u: usize) -> Result<Option<i64>, u8> { pick(ns, u).map(evenu).transpose() }
pub fn o032(xs: &[f64], ns: &[i64], a: f64, b: f64, i: i64, j: i64, u: usize) -> Option<Result<i64, u8>> { let r: Result<Option<i64>, u8> = evenu(i).map(|x| if x > 0 { Some(x) } else { None }); r.transpose() }
pub fn o033(xs: &[f64], ns: &[i64], a: f64, b: f64, i: i64, j: i64, u: usize) -> i64 { evenu(i).unwrap() }
pub fn o034(xs: &[f64], ns: &[i64], a: f64, b: f64, i: i64, j: i64, u: usize) -> i64 { evenu(i).expect("even") }
pub fn o035(xs: &[f64], ns: &[i64], a: f64, b: f64, i: i64, j: i64, u: usize) -> Option<Option<i64>> { Some(pick(ns, u)).filter(|o| o.is_some()) }
pub fn o036(xs: &[f64], ns: &[i64], a: f64, b: f64, i: i64, j: i64, u: usize) -> Option<i64> { Some(pick(ns, u)).flatten() }
pub fn o037(xs: &[f64], ns: &[i64], a: f64, b: f64, i: i64, j: i64, u: usize) -> bool { even(i).is_err() && even(j).map(|x| x > 0).unwrap_or(false) }
pub fn o038(xs: &[f64], ns: &[i64], a: f64, b: f64, i: i64, j: i64, u: usize) -> Option<i64> { pick(ns, u).and(pick(ns, 0)) }
pub fn o039(xs: &[f64], ns: &[i64], a: f64, b: f64, i: i64, j: i64, u: usize) -> i64 { let mut o: Option<i64> = None; let r = o.insert(i); *r += j; o.unwrap() }
pub fn o040(xs: &[f64], ns: &[i64], a: f64, b: f64, i: i64, j: i64, u: usize) -> i64 { let mut total = 0; for x in pick(ns, u) { total += x; } for x in evenu(i) { total += x; } total }
pub fn o041(xs: &[f64], ns: &[i64], a: f64, b: f64, i: i64, j: i64, u: usize) -> i64 { pick(ns, u).iter().chain(pick(ns, 0).iter()).sum() }
pub fn o042(xs: &[f64], ns: &[i64], a: f64, b: f64, i: i64, j: i64, u: usize) -> bool { pick(ns, u).is_none_or(|x| x < 3) }
pub fn o043(xs: &[f64], ns: &[i64], a: f64, b: f64, i: i64, j: i64, u: usize) -> Option<i64> { pick(ns, u).inspect(|x| { let _ = x; }).map(|x| x) }
pub fn o044(xs: &[f64], ns: &[i64], a: f64, b: f64, i: i64, j: i64, u: usize) -> Result<i64, u8> { evenu(i).and(evenu(j)) }
pub fn o045(xs: &[f64], ns: &[i64], a: f64, b: f64, i: i64, j: i64, u: usize) -> Result<i64, u8> { evenu(i).or(evenu(j)) }
pub fn o046(xs: &[f64], ns: &[i64], a: f64, b: f64, i: i64, j: i64, u: usize) -> (i64, i64) { (evenu(i).map_or(-9, |x| x), evenu(i).map_or_else(|e| e as i64, |x| -x)) }

// ------------------------------------------------------------------ iterators
pub fn t001(xs: &[f64], ns: &[i64], a: f64, b: f64, i: i64, j: i64, u: usize) -> (f64, i64, i64, usize) { (xs.iter().sum(), ns.iter().sum(), ns.iter().map(|x| x % 3 + 1).product(), ns.iter().count()) }
pub fn t002(xs: &[f64], ns: &[i64], a: f64, b: f64, i: i64, j: i64, u: usize) -> (Option<i64>, Option<i64>) { (ns.iter().copied().min(), ns.iter().copied().max()) }
pub fn t003(xs: &[f64], ns: &[i64], a: f64, b: f64, i: i64, j: i64, u: usize) -> f64 { xs.iter().fold(a, |acc, x| acc * 0.5 + x) }
pub fn t004(xs: &[f64], ns: &[i64], a: f64, b: f64, i: i64, j: i64, u: usize) -> Vec<i64> { ns.iter().filter(|x| **x % 2 == 0).map(|x| x * 3).collect() }
pub fn t005(xs: &[f64], ns: &[i64], a: f64, b: f64, i: i64, j: i64, u: usize) -> Vec<i64> { ns.iter().filter_map(|&x| if x > 0 { Some(x - 1) } else { None }).collect() }
pub fn t006(xs: &[f64], ns: &[i64], a: f64, b: f64, i: i64, j: i64, u: usize) -> i64 { ns.iter().enumerate().map(|(k, x)| k as i64 * x).sum() }
pub fn t007(xs: &[f64], ns: &[i64], a: f64, b: f64, i: i64, j: i64, u: usize) -> f64 { xs.iter().zip(ns.iter()).map(|(x, n)| x * *n as f64).sum() }
pub fn t008(xs: &[f64], ns: &[i64], a: f64, b: f64, i: i64, j: i64, u: usize) -> Vec<i64> { ns.iter().rev().skip(1).take(3).cloned().collect() }
pub fn t009(xs: &[f64], ns: &[i64], a: f64, b: f64, i: i64, j: i64, u: usize) -> Vec<i64> { ns.iter().step_by(2).chain(ns.iter().take(1)).copied().collect() }
pub fn t010(xs: &[f64], ns: &[i64], a: f64, b: f64, i: i64, j: i64, u: usize) -> (bool, bool) { (ns.iter().any(|&x| x == i), ns.iter().all(|&x| x > j)) }
pub fn t011(xs: &[f64], ns: &[i64], a: f64, b: f64, i: i64, j: i64, u: usize) -> (Option<usize>, Option<usize>) { (ns.iter().position(|&x| x == i), ns.iter().rposition(|&x| x > 0)) }
pub fn t012(xs: &[f64], ns: &[i64], a: f64, b: f64, i: i64, j: i64, u: usize) -> (Option<i64>, Option<i64>) { (ns.iter().find(|x| **x > 1).copied(), ns.iter().find_map(|&x| if x < 0 { Some(-x) } else { None })) }
pub fn t013(xs: &[f64], ns: &[i64], a: f64, b: f64, i: i64, j: i64, u: usize) -> (Option<i64>, Option<i64>) { (ns.iter().last().copied(), ns.iter().nth(u).copied()) }
pub fn t014(xs: &[f64], ns: &[i64], a: f64, b: f64, i: i64, j: i64, u: usize) -> (Option<f64>, Option<f64>) { (xs.iter().copied().min_by(|p, q| p.partial_cmp(q).unwrap()), xs.iter().copied().max_by(|p, q| p.total_cmp(q))) }
pub fn t015(xs: &[f64], ns: &[i64], a: f64, b: f64, i: i64, j: i64, u: usize) -> (Option<i64>, Option<i64>) { (ns.iter().copied().min_by_key(|x| (x - 2).abs()), ns.iter().copied().max_by_key(|x| (x - 2).abs())) }
pub fn t016(xs: &[f64], ns: &[i64], a: f64, b: f64, i: i64, j: i64, u: usize) -> (Vec<i64>, Vec<i64>) { (ns.iter().copied().take_while(|&x| x > 0).collect(), ns.iter().copied().skip_while(|&x| x > 0).collect()) }
pub fn t017(xs: &[f64], ns: &[i64], a: f64, b: f64, i: i64, j: i64, u: usize) -> Vec<i64> { ns.iter().flat_map(|&x| vec![x, -x]).collect() }
pub fn t018(xs: &[f64], ns: &[i64], a: f64, b: f64, i: i64, j: i64, u: usize) -> Vec<i64> { vec![ns.to_vec(), vec![i, j]].into_iter().flatten().collect() }
pub fn t019(xs: &[f64], ns: &[i64], a: f64, b: f64, i: i64, j: i64, u: usize) -> Vec<i64> { ns.iter().scan(0i64, |st, &x| { *st += x; Some(*st) }).collect() }
pub fn t020(xs: &[f64], ns: &[i64], a: f64, b: f64, i: i64, j: i64, u: usize) -> Vec<i64> { ns.windows(2).map(|w| w[1] - w[0]).collect() }
pub fn t021(xs: &[f64], ns: &[i64], a: f64, b: f64, i: i64, j: i64, u: usize) -> Vec<i64> { ns.chunks(2).map(|c| c.iter().sum()).collect() }
pub fn t022(xs: &[f64], ns: &[i64], a: f64, b: f64, i: i64, j: i64, u: usize) -> (Vec<i64>, usize) { let c = ns.chunks_exact(2); let r = c.remainder().len(); (c.map(|c| c[0] * c[1]).collect(), r) }
pub fn t023(xs: &[f64], ns: &[i64], a: f64, b: f64, i: i64, j: i64, u: usize) -> i64 { let mut it = ns.iter().peekable(); let mut s = 0; while let Some(x) = it.next() { if let Some(&&nx) = it.peek() { s += x * nx; } else { s += x; } } s }
pub fn t024(xs: &[f64], ns: &[i64], a: f64, b: f64, i: i64, j: i64, u: usize) -> Vec<i64> { ns.iter().cycle().take(u + 2).copied().collect() }
pub fn t025(xs: &[f64], ns: &[i64], a: f64, b: f64, i: i64, j: i64, u: usize) -> i64 { let mut s = 0; ns.iter().for_each(|x| s += x * 2); s }
pub fn t026(xs: &[f64], ns: &[i64], a: f64, b: f64, i: i64, j: i64, u: usize) -> Result<(), u8> { ns.iter().try_for_each(|&x| evenu(x).map(|_| ())) }
pub fn t027(xs: &[f64], ns: &[i64], a: f64, b: f64, i: i64, j: i64, u: usize) -> Option<i64> { ns.iter().try_fold(0i64, |acc, &x| acc.checked_add(x * 1_000_000_000_000_000_000)) }
pub fn t028(xs: &[f64], ns: &[i64], a: f64, b: f64, i: i64, j: i64, u: usize) -> Option<i64> { ns.iter().copied().reduce(|p, q| p * 2 - q) }
pub fn t029(xs: &[f64], ns: &[i64], a: f64, b: f64, i: i64, j: i64, u: usize) -> (Vec<i64>, Vec<f64>) { ns.iter().zip(xs.iter()).map(|(n, x)| (*n + 1, *x * 2.0)).unzip() }
pub fn t030(xs: &[f64], ns: &[i64], a: f64, b: f64, i: i64, j: i64, u: usize) -> (Vec<i64>, Vec<i64>) { ns.iter().partition(|x| **x > 0) }
pub fn t031(xs: &[f64], ns: &[i64], a: f64, b: f64, i: i64, j: i64, u: usize) -> Vec<f64> { std::iter::repeat(a).take(u).chain(std::iter::once(b)).collect() }
pub fn t032(xs: &[f64], ns: &[i64], a: f64, b: f64, i: i64, j: i64, u: usize) -> Vec<usize> { (0..u).map(|k| k * k).collect() }
pub fn t033(xs: &[f64], ns: &[i64], a: f64, b: f64, i: i64, j: i64, u: usize) -> Vec<usize> { (1..=u).rev().collect() }
pub fn t034(xs: &[f64], ns: &[i64], a: f64, b: f64, i: i64, j: i64, u: usize) -> Vec<i64> { std::iter::successors(Some(i), |&x| if x.abs() < 50 { Some(x * 2 + 1) } else { None }).collect() }
pub fn t035(xs: &[f64], ns: &[i64], a: f64, b: f64, i: i64, j: i64, u: usize) -> Vec<i64> { let mut c = 0; std::iter::from_fn(|| { c += 1; if c <= u as i64 { Some(c * i) } else { None } }).collect() }
pub fn t036(xs: &[f64], ns: &[i64], a: f64, b: f64, i: i64, j: i64, u: usize) -> (bool, bool) { (ns.iter().eq(ns.iter().rev()), ns.iter().lt(ns.iter().skip(1))) }
pub fn t037(xs: &[f64], ns: &[i64], a: f64, b: f64, i: i64, j: i64, u: usize) -> i64 { ns.iter().rev().enumerate().map(|(k, x)| x << k).sum() }
pub fn t038(xs: &[f64], ns: &[i64], a: f64, b: f64, i: i64, j: i64, u: usize) -> f64 { xs.iter().map(|x| x * x).sum::<f64>() / xs.len() as f64 }
pub fn t039(xs: &[f64], ns: &[i64], a: f64, b: f64, i: i64, j: i64, u: usize) -> usize { xs.iter().filter(|x| x.is_finite()).count() }
pub fn t040(xs: &[f64], ns: &[i64], a: f64, b: f64, i: i64, j: i64, u: usize) -> Vec<(usize, i64)> { ns.iter().copied().enumerate().filter(|(k, _)| k % 2 == 1).collect() }
pub fn t041(xs: &[f64], ns: &[i64], a: f64, b: f64, i: i64, j: i64, u: usize) -> i64 { let mut s = 0; for (k, (x, n)) in xs.iter().zip(ns).enumerate().skip(1) { if *x > 0.0 { s += *n * k as i64; } else { continue; } if s > 100 { break; } } s }
pub fn t042(xs: &[f64], ns: &[i64], a: f64, b: f64, i: i64, j: i64, u: usize) -> Vec<i64> { let v: Vec<i64> = ns.to_vec(); v.into_iter().map(|x| x - 1).filter(|x| x % 2 != 0).collect() }
pub fn t043(xs: &[f64], ns: &[i64], a: f64, b: f64, i: i64, j: i64, u: usize) -> i64 { ns.iter().map(|x| x.abs()).max().unwrap_or(0) }
pub fn t044(xs: &[f64], ns: &[i64], a: f64, b: f64, i: i64, j: i64, u: usize) -> Vec<i64> { ns.iter().copied().fuse().inspect(|_| ()).collect() }
pub fn t045(xs: &[f64], ns: &[i64], a: f64, b: f64, i: i64, j: i64, u: usize) -> Vec<i64> { let mut v = Vec::new(); v.extend(ns.iter().map(|x| x + i)); v.extend_from_slice(&[j, j]); v }
pub fn t046(xs: &[f64], ns: &[i64], a: f64, b: f64, i: i64, j: i64, u: usize) -> (i64, usize) { let mut n = 0usize; let s = ns.iter().map(|x| { n += 1; x * n as i64 }).sum(); (s, n) }
pub fn t047(xs: &[f64], ns: &[i64], a: f64, b: f64, i: i64, j: i64, u: usize) -> Vec<Vec<i64>> { ns.chunks(3).map(|c| c.to_vec()).collect() }
pub fn t048(xs: &[f64], ns: &[i64], a: f64, b: f64, i: i64, j: i64, u: usize) -> usize { ns.iter().map(|x| x % 3).collect::<HashSet<_>>().len() }
pub fn t049(xs: &[f64], ns: &[i64], a: f64, b: f64, i: i64, j: i64, u: usize) -> bool { ns.iter().is_sorted() || xs.is_sorted_by(|p, q| p <= q) }
pub fn t050(xs: &[f64], ns: &[i64], a: f64, b: f64, i: i64, j: i64, u: usize) -> Option<(usize, i64)> { ns.iter().copied().enumerate().max_by_key(|&(_, x)| x) }
pub fn t051(xs: &[f64], ns: &[i64], a: f64, b: f64, i: i64, j: i64, u: usize) -> f64 { xs.iter().copied().fold(f64::NEG_INFINITY, f64::max) }
pub fn t052(xs: &[f64], ns: &[i64], a: f64, b: f64, i: i64, j: i64, u: usize) -> Vec<i64> { ns.iter().zip(ns.iter().skip(1)).zip(ns.iter().skip(2)).map(|((p, q), r)| p + q * r).collect() }
pub fn t053(xs: &[f64], ns: &[i64], a: f64, b: f64, i: i64, j: i64, u: usize) -> Vec<i64> { ns.iter().map_while(|&x| if x != 0 { Some(10 / x) } else { None }).collect() }
pub fn t054(xs: &[f64], ns: &[i64], a: f64, b: f64, i: i64, j: i64, u: usize) -> usize { ns.iter().skip(u).len() + ns.iter().take(u).len() }
pub fn t055(xs: &[f64], ns: &[i64], a: f64, b: f64, i: i64, j: i64, u: usize) -> Vec<i64> { let mut it = ns.iter(); let first = it.next().copied().unwrap_or(0); it.map(|x| x - first).collect() }
pub fn t056(xs: &[f64], ns: &[i64], a: f64, b: f64, i: i64, j: i64, u: usize) -> Vec<i64> { ns.iter().rev().copied().collect::<Vec<_>>().into_iter().rev().collect() }
pub fn t057(xs: &[f64], ns: &[i64], a: f64, b: f64, i: i64, j: i64, u: usize) -> i64 { ns.iter().flat_map(|&x| (0..x.clamp(0, 3)).map(move |k| k * x)).sum() }
pub fn t058(xs: &[f64], ns: &[i64], a: f64, b: f64, i: i64, j: i64, u: usize) -> Vec<i64> { ns.iter().filter(|&&x| x != i).cloned().collect::<VecDeque<_>>().into_iter().collect() }
pub fn t059(xs: &[f64], ns: &[i64], a: f64, b: f64, i: i64, j: i64, u: usize) -> (usize, Option<usize>) { ns.iter().filter(|x| **x > 0).size_hint() }
pub fn t060(xs: &[f64], ns: &[i64], a: f64, b: f64, i: i64, j: i64, u: usize) -> Vec<i64> { ns.iter().copied().rev().skip_while(|&x| x <= 0).step_by(2).collect() }

// ------------------------------------------------------------------ slices and Vec
pub fn v001(xs: &[f64], ns: &[i64], a: f64, b: f64, i: i64, j: i64, u: usize) -> Vec<i64> { let mut v = ns.to_vec(); v.sort(); v }
pub fn v002(xs: &[f64], ns: &[i64], a: f64, b: f64, i: i64, j: i64, u: usize) -> Vec<i64> { let mut v = ns.to_vec(); v.sort_unstable_by(|p, q| q.cmp(p)); v }
pub fn v003(xs: &[f64], ns: &[i64], a: f64, b: f64, i: i64, j: i64, u: usize) -> Vec<i64> { let mut v = ns.to_vec(); v.sort_by_key(|x| (x.abs(), *x)); v }
pub fn v004(xs: &[f64], ns: &[i64], a: f64, b: f64, i: i64, j: i64, u: usize) -> Vec<f64> { let mut v = xs.to_vec(); v.sort_by(|p, q| p.partial_cmp(q).unwrap()); v }
pub fn v005(xs: &[f64], ns: &[i64], a: f64, b: f64, i: i64, j: i64, u: usize) -> Vec<i64> { let mut v = ns.to_vec(); v.sort(); v.dedup(); v.reverse(); v }
pub fn v006(xs: &[f64], ns: &[i64], a: f64, b: f64, i: i64, j: i64, u: usize) -> (Result<usize, usize>, bool) { let mut v = ns.to_vec(); v.sort(); (v.binary_search(&i), v.contains(&j)) }
pub fn v007(xs: &[f64], ns: &[i64], a: f64, b: f64, i: i64, j: i64, u: usize) -> (Option<i64>, Option<i64>) { (ns.first().copied(), ns.last().copied()) }
pub fn v008(xs: &[f64], ns: &[i64], a: f64, b: f64, i: i64, j: i64, u: usize) -> (i64, usize) { match ns.split_first() { Some((h, t)) => (*h, t.len()), None => (0, 0) } }
pub fn v009(xs: &[f64], ns: &[i64], a: f64, b: f64, i: i64, j: i64, u: usize) -> (i64, i64) { let (l, r) = ns.split_at(u.min(ns.len())); (l.iter().sum(), r.iter().sum()) }
pub fn v010(xs: &[f64], ns: &[i64], a: f64, b: f64, i: i64, j: i64, u: usize) -> (Option<i64>, Option<usize>) { (ns.get(u).copied(), ns.get(1..3).map(|s| s.len())) }
pub fn v011(xs: &[f64], ns: &[i64], a: f64, b: f64, i: i64, j: i64, u: usize) -> Vec<i64> { [ns, &[i, j]].concat() }
pub fn v012(xs: &[f64], ns: &[i64], a: f64, b: f64, i: i64, j: i64, u: usize) -> Vec<i64> { let mut v = ns.to_vec(); let n = v.len(); if n >= 2 { v.swap(0, n - 1); } v }
pub fn v013(xs: &[f64], ns: &[i64], a: f64, b: f64, i: i64, j: i64, u: usize) -> Vec<f64> { let mut v = xs.to_vec(); v[1..].fill(a); v }
pub fn v014(xs: &[f64], ns: &[i64], a: f64, b: f64, i: i64, j: i64, u: usize) -> Vec<i64> { let mut v = vec![0i64; ns.len()]; v.copy_from_slice(ns); v[0] += 1; v }
pub fn v015(xs: &[f64], ns: &[i64], a: f64, b: f64, i: i64, j: i64, u: usize) -> Vec<f64> { let mut v = xs.to_vec(); v.iter_mut().for_each(|x| *x = *x * 2.0 + a); v }
pub fn v016(xs: &[f64], ns: &[i64], a: f64, b: f64, i: i64, j: i64, u: usize) -> Vec<i64> { let mut v = ns.to_vec(); v.retain(|x| x % 2 == 0); v }
pub fn v017(xs: &[f64], ns: &[i64], a: f64, b: f64, i: i64, j: i64, u: usize) -> (Vec<i64>, Vec<i64>) { let mut v = ns.to_vec(); let k = u.min(v.len()); let d: Vec<i64> = v.drain(..k).collect(); (d, v) }
pub fn v018(xs: &[f64], ns: &[i64], a: f64, b: f64, i: i64, j: i64, u: usize) -> Vec<i64> { let mut v = ns.to_vec(); v.truncate(u); v.insert(0, i); v.push(j); v }
pub fn v019(xs: &[f64], ns: &[i64], a: f64, b: f64, i: i64, j: i64, u: usize) -> (i64, Option<i64>, Vec<i64>) { let mut v = ns.to_vec(); let r = v.remove(1); let p = v.pop(); (r, p, v) }
pub fn v020(xs: &[f64], ns: &[i64], a: f64, b: f64, i: i64, j: i64, u: usize) -> (i64, Vec<i64>) { let mut v = ns.to_vec(); let r = v.swap_remove(0); (r, v) }
pub fn v021(xs: &[f64], ns: &[i64], a: f64, b: f64, i: i64, j: i64, u: usize) -> (bool, usize, bool) { let mut v = ns.to_vec(); let e0 = v.is_empty(); v.clear(); (e0, v.len(), v.is_empty()) }
pub fn v022(xs: &[f64], ns: &[i64], a: f64, b: f64, i: i64, j: i64, u: usize) -> Vec<i64> { let mut v = ns.to_vec(); v.resize(u + 1, i); v }
pub fn v023(xs: &[f64], ns: &[i64], a: f64, b: f64, i: i64, j: i64, u: usize) -> Vec<f64> { let mut v = Vec::with_capacity(u); for k in 0..u { v.push(a * k as f64); } v }
pub fn v024(xs: &[f64], ns: &[i64], a: f64, b: f64, i: i64, j: i64, u: usize) -> (Vec<i64>, Vec<i64>) { let mut v = ns.to_vec(); let mut w = vec![i, j]; v.append(&mut w); let t = v.split_off(2); (v, t) }
pub fn v025(xs: &[f64], ns: &[i64], a: f64, b: f64, i: i64, j: i64, u: usize) -> Vec<i64> { let mut v = ns.to_vec(); v.rotate_left(1); v }
pub fn v026(xs: &[f64], ns: &[i64], a: f64, b: f64, i: i64, j: i64, u: usize) -> (bool, bool) { (ns.starts_with(&[3]), ns.ends_with(&[i])) }
pub fn v027(xs: &[f64], ns: &[i64], a: f64, b: f64, i: i64, j: i64, u: usize) -> i64 { let mut v = ns.to_vec(); if let Some(l) = v.last_mut() { *l += 100; } if let Some(f) = v.first_mut() { *f -= 100; } v.iter().sum() }
pub fn v028(xs: &[f64], ns: &[i64], a: f64, b: f64, i: i64, j: i64, u: usize) -> i64 { ns[u] }
pub fn v029(xs: &[f64], ns: &[i64], a: f64, b: f64, i: i64, j: i64, u: usize) -> i64 { ns[1..u].iter().sum() }
pub fn v030(xs: &[f64], ns: &[i64], a: f64, b: f64, i: i64, j: i64, u: usize) -> i64 { match ns { [] => 0, [x] => *x, [f, .., l] => f * 10 + l } }
pub fn v031(xs: &[f64], ns: &[i64], a: f64, b: f64, i: i64, j: i64, u: usize) -> [i64; 3] { let arr = [i, j, u as i64]; arr.map(|x| x * 2) }
pub fn v032(xs: &[f64], ns: &[i64], a: f64, b: f64, i: i64, j: i64, u: usize) -> i64 { let arr = [[1i64, 2], [3, 4]]; let mut s = 0; for r in arr.iter() { for c in r { s = s * i + c; } } s }
pub fn v033(xs: &[f64], ns: &[i64], a: f64, b: f64, i: i64, j: i64, u: usize) -> Vec<i64> { let mut v = ns.to_vec(); for k in 1..v.len() { v[k] += v[k - 1]; } v }
pub fn v034(xs: &[f64], ns: &[i64], a: f64, b: f64, i: i64, j: i64, u: usize) -> Vec<f64> { let mut out = vec![0.0; xs.len()]; for (o, (x, n)) in out.iter_mut().zip(xs.iter().zip(ns)) { *o = x + *n as f64; } out }
pub fn v035(xs: &[f64], ns: &[i64], a: f64, b: f64, i: i64, j: i64, u: usize) -> (usize, usize) { let v: Vec<Vec<i64>> = vec![ns.to_vec(); 2]; (v.len(), v.iter().map(|r| r.len()).sum()) }
pub fn v036(xs: &[f64], ns: &[i64], a: f64, b: f64, i: i64, j: i64, u: usize) -> Vec<i64> { let mut v = ns.to_vec(); v.dedup_by_key(|x| *x / 2); v }
pub fn v037(xs: &[f64], ns: &[i64], a: f64, b: f64, i: i64, j: i64, u: usize) -> Vec<i64> { let b: Box<[i64]> = ns.to_vec().into_boxed_slice(); b.iter().map(|x| x + 1).collect() }
pub fn v038(xs: &[f64], ns: &[i64], a: f64, b: f64, i: i64, j: i64, u: usize) -> (i64, i64) { let mut p = i; let mut q = j; std::mem::swap(&mut p, &mut q); let old = std::mem::replace(&mut p, 9); (old + p, q) }
pub fn v039(xs: &[f64], ns: &[i64], a: f64, b: f64, i: i64, j: i64, u: usize) -> (Vec<i64>, usize) { let mut v = ns.to_vec(); let t = std::mem::take(&mut v); (t, v.len()) }
pub fn v040(xs: &[f64], ns: &[i64], a: f64, b: f64, i: i64, j: i64, u: usize) -> bool { ns.to_vec() == ns && ns != &[i][..] && xs.to_vec() == xs }
pub fn v041(xs: &[f64], ns: &[i64], a: f64, b: f64, i: i64, j: i64, u: usize) -> Vec<i64> { let mut v = ns.to_vec(); let (l, r) = v.split_at_mut(1); l[0] += r[0]; r[0] = 0; v }
pub fn v042(xs: &[f64], ns: &[i64], a: f64, b: f64, i: i64, j: i64, u: usize) -> Vec<i64> { let mut d: VecDeque<i64> = VecDeque::new(); for &x in ns { if x > 0 { d.push_back(x); } else { d.push_front(x); } } let f = d.pop_front(); let mut v: Vec<i64> = d.into_iter().collect(); v.push(f.unwrap_or(0)); v }
pub fn v043(xs: &[f64], ns: &[i64], a: f64, b: f64, i: i64, j: i64, u: usize) -> usize { ns.iter().rev().take_while(|x| **x <= 0).count() + ns.len() / 2 + ns.len() % 2 }
pub fn v044(xs: &[f64], ns: &[i64], a: f64, b: f64, i: i64, j: i64, u: usize) -> Vec<i64> { let mut v = ns.to_vec(); v.iter_mut().enumerate().for_each(|(k, x)| *x *= k as i64); v.iter_mut().rev().take(1).for_each(|x| *x = i); v }
pub fn v045(xs: &[f64], ns: &[i64], a: f64, b: f64, i: i64, j: i64, u: usize) -> i64 { let v = ns.to_vec(); let r = &v; let s: &[i64] = r.as_slice(); s.iter().sum::<i64>() + r.len() as i64 + r.capacity().min(0) as i64 }

// ------------------------------------------------------------------ control flow, structs, enums, closures
#[derive(Clone, Copy, Debug, PartialEq, Default)]
pub struct P { pub x: f64, pub n: i64 }
impl P { fn scale(&mut self, k: f64) -> &mut Self { self.x *= k; self.n += 1; self } fn norm(&self) -> f64 { self.x.abs() + self.n as f64 } }
#[derive(Clone, Debug, PartialEq)]
pub enum E { A, B(i64), C { p: P, tag: u8 } }
fn mk(i: i64, a: f64) -> E { match i.rem_euclid(3) { 0 => E::A, 1 => E::B(i), _ => E::C { p: P { x: a, n: i }, tag: 7 } } }
pub fn c001(xs: &[f64], ns: &[i64], a: f64, b: f64, i: i64, j: i64, u: usize) -> (f64, i64) { let mut p = P { x: a, n: i }; p.scale(b).scale(2.0); (p.x, p.n) }
pub fn c002(xs: &[f64], ns: &[i64], a: f64, b: f64, i: i64, j: i64, u: usize) -> f64 { match mk(i, a) { E::A => -1.0, E::B(k) if k > 2 => k as f64, E::B(_) => 0.5, E::C { p, tag } => p.norm() + tag as f64 } }
pub fn c003(xs: &[f64], ns: &[i64], a: f64, b: f64, i: i64, j: i64, u: usize) -> (bool, bool) { (mk(i, a) == mk(j, a), mk(i, a) == mk(i, b)) }
pub fn c004(xs: &[f64], ns: &[i64], a: f64, b: f64, i: i64, j: i64, u: usize) -> i64 { let mut k = i; let r = loop { k += 3; if k % 7 == 0 { break k * 2; } if k > 100 { break -1; } }; r }
pub fn c005(xs: &[f64], ns: &[i64], a: f64, b: f64, i: i64, j: i64, u: usize) -> i64 { let mut s = 0; 'outer: for p in 0..4i64 { for q in 0..4i64 { if p * q == i.abs() { break 'outer; } if q > p { continue 'outer; } s += p + q; } } s }
pub fn c006(xs: &[f64], ns: &[i64], a: f64, b: f64, i: i64, j: i64, u: usize) -> i64 { match i { i64::MIN..=-1 => -1, 0 => 0, 1 | 2 => 12, 3..=9 if j > 0 => 39, _ => 99 } }
pub fn c007(xs: &[f64], ns: &[i64], a: f64, b: f64, i: i64, j: i64, u: usize) -> i64 { let k = 3; let add = |x: i64| x + k; let mut acc = 0; let mut bump = |x: i64| { acc += add(x); acc }; bump(i); bump(j) }
pub fn c008(xs: &[f64], ns: &[i64], a: f64, b: f64, i: i64, j: i64, u: usize) -> i64 { fn apply<F: Fn(i64) -> i64>(f: F, x: i64) -> i64 { f(f(x)) } apply(|x| x * 2 + i, j) }
pub fn c009(xs: &[f64], ns: &[i64], a: f64, b: f64, i: i64, j: i64, u: usize) -> i64 { let fs: Vec<Box<dyn Fn(i64) -> i64>> = vec![Box::new(|x| x + 1), Box::new(move |x| x * i)]; fs.iter().fold(j, |acc, f| f(acc)) }
pub fn c010(xs: &[f64], ns: &[i64], a: f64, b: f64, i: i64, j: i64, u: usize) -> (i64, f64) { let t = (i, a); let (p, q) = t; let P { x, n } = P { x: q, n: p }; (n + 1, x) }
pub fn c011(xs: &[f64], ns: &[i64], a: f64, b: f64, i: i64, j: i64, u: usize) -> P { let d = P::default(); P { n: i, ..d } }
pub fn c012(xs: &[f64], ns: &[i64], a: f64, b: f64, i: i64, j: i64, u: usize) -> i64 { let mut k = u as i64; let mut steps = 0; while k != 1 && steps < 50 { k = if k % 2 == 0 { k / 2 } else { 3 * k + 1 }; steps += 1; if k == 0 { break; } } steps }
pub fn c013(xs: &[f64], ns: &[i64], a: f64, b: f64, i: i64, j: i64, u: usize) -> i64 { let b = Box::new(P { x: a, n: i }); let c = b.clone(); (*b).n + c.n + Box::new(j).abs() }
pub fn c014(xs: &[f64], ns: &[i64], a: f64, b: f64, i: i64, j: i64, u: usize) -> i64 { assert!(i != 3, "three"); debug_assert!(j != 12345); if i == 4 { panic!("four"); } if i == 5 { unreachable!(); } i }
pub fn c015(xs: &[f64], ns: &[i64], a: f64, b: f64, i: i64, j: i64, u: usize) -> i64 { assert_eq!(i % 2, 0, "parity"); assert_ne!(j, 77); i / 2 }
pub fn c016(xs: &[f64], ns: &[i64], a: f64, b: f64, i: i64, j: i64, u: usize) -> (usize, bool, bool) { let s = String::from("ab"); let mut t = s.clone(); t.push_str("cd"); if i > 0 { t.push('e'); } (t.len(), t == "abcd", s.is_empty()) }
pub fn c017(xs: &[f64], ns: &[i64], a: f64, b: f64, i: i64, j: i64, u: usize) -> i64 { let pairs: Vec<(i64, f64)> = ns.iter().copied().zip(xs.iter().copied()).collect(); pairs.iter().filter(|(_, x)| *x > 0.0).map(|(n, _)| n).sum() }
pub fn c018(xs: &[f64], ns: &[i64], a: f64, b: f64, i: i64, j: i64, u: usize) -> i64 { let o: Option<&P> = None; let p = P { x: a, n: i }; let r = o.unwrap_or(&p); let q = Some(&p); r.n + q.map(|p| p.n).unwrap_or(0) }
pub fn c019(xs: &[f64], ns: &[i64], a: f64, b: f64, i: i64, j: i64, u: usize) -> u8 { let e = mk(i, a); if let E::C { tag, .. } = &e { *tag } else if let E::B(k) = e { (k & 0xff) as u8 } else { 0 } }
pub fn c020(xs: &[f64], ns: &[i64], a: f64, b: f64, i: i64, j: i64, u: usize) -> i64 { let v: Vec<E> = (0..4).map(|k| mk(k + i, a)).collect(); v.iter().map(|e| match e { E::A => 1, E::B(k) => *k, E::C { p, .. } => p.n * 100 }).sum() }
pub fn c021(xs: &[f64], ns: &[i64], a: f64, b: f64, i: i64, j: i64, u: usize) -> i64 { let mut m: HashMap<i64, i64> = HashMap::new(); for &x in ns { *m.entry(x % 3).or_insert(0) += x; } m.get(&0).copied().unwrap_or(-1) + m.len() as i64 * 1000 + if m.contains_key(&1) { 7 } else { 0 } }
pub fn c022(xs: &[f64], ns: &[i64], a: f64, b: f64, i: i64, j: i64, u: usize) -> (Option<i64>, Option<i64>, usize) { let mut m = HashMap::new(); m.insert("a", i); let old = m.insert("a", j); let r = m.remove("a"); (old, r, m.len()) }
pub fn c023(xs: &[f64], ns: &[i64], a: f64, b: f64, i: i64, j: i64, u: usize) -> Vec<(i64, i64)> { let mut m: BTreeMap<i64, i64> = BTreeMap::new(); for &x in ns { *m.entry(x.abs()).or_default() += 1; } m.into_iter().collect() }
pub fn c024(xs: &[f64], ns: &[i64], a: f64, b: f64, i: i64, j: i64, u: usize) -> i64 { let c = std::cell::Cell::new(i); c.set(c.get() + j); let r = std::cell::RefCell::new(vec![1i64]); r.borrow_mut().push(c.get()); let s: i64 = r.borrow().iter().sum(); s }
pub fn c025(xs: &[f64], ns: &[i64], a: f64, b: f64, i: i64, j: i64, u: usize) -> i64 { let r = std::rc::Rc::new(std::cell::RefCell::new(i)); let r2 = r.clone(); *r2.borrow_mut() += j; let n = std::rc::Rc::strong_count(&r) as i64; let v = *r.borrow(); v * 10 + n }
pub fn c026(xs: &[f64], ns: &[i64], a: f64, b: f64, i: i64, j: i64, u: usize) -> i64 { let m = std::sync::Mutex::new(i); { let mut g = m.lock().unwrap(); *g += j; } let a = std::sync::Arc::new(m); let b = a.clone(); let v = *b.lock().unwrap(); v }
pub fn c027(xs: &[f64], ns: &[i64], a: f64, b: f64, i: i64, j: i64, u: usize) -> (u64, bool) { let t = std::time::Duration::from_millis(u as u64 * 10); (t.as_millis() as u64, t.is_zero()) }
pub fn c028(xs: &[f64], ns: &[i64], a: f64, b: f64, i: i64, j: i64, u: usize) -> i64 { let (tx, rx) = std::sync::mpsc::channel::<i64>(); tx.send(i).unwrap(); tx.send(j).unwrap(); drop(tx); let mut s = 0; while let Ok(v) = rx.recv() { s = s * 10 + v; } s }
pub fn c029(xs: &[f64], ns: &[i64], a: f64, b: f64, i: i64, j: i64, u: usize) -> (Option<i64>, bool) { let (tx, rx) = std::sync::mpsc::sync_channel::<i64>(1); let full = tx.try_send(i).is_ok() && tx.try_send(j).is_err(); (rx.try_recv().ok(), full) }
pub fn c030(xs: &[f64], ns: &[i64], a: f64, b: f64, i: i64, j: i64, u: usize) -> i64 { let s: &[i64] = if u > 2 { &ns[..2] } else { ns }; let t: Vec<i64> = s.iter().map(|x| x + 1).collect(); t.iter().rev().fold(0, |acc, x| acc * 10 + x) }

// ------------------------------------------------------------------ second batch: traits, consts, more slices / iterators / control flow
pub const K: usize = 4;
pub const SCALE: f64 = 0.5;
pub static TABLE: [i64; 3] = [10, 20, 30];
pub trait Shape { fn area(&self) -> f64; fn name(&self) -> i64 { 0 } }
pub struct Sq(pub f64);
pub struct Rect(pub f64, pub f64);
impl Shape for Sq { fn area(&self) -> f64 { self.0 * self.0 } fn name(&self) -> i64 { 1 } }
impl Shape for Rect { fn area(&self) -> f64 { self.0 * self.1 } }
fn total<S: Shape>(s: &S, k: f64) -> f64 { s.area() * k + s.name() as f64 }
#[derive(Clone, Debug, PartialEq, PartialOrd, Default)]
pub struct Rec { pub key: i64, pub w: f64, pub tags: Vec<i64> }
#[derive(Clone, Copy, Debug, PartialEq, Eq, PartialOrd, Ord, Hash)]
pub enum Lvl { Low = 1, Mid = 5, High = 9 }
pub fn d001(xs: &[f64], ns: &[i64], a: f64, b: f64, i: i64, j: i64, u: usize) -> (usize, f64, i64) { (K + u, SCALE * a, TABLE[u % 3] + TABLE.iter().sum::<i64>()) }
pub fn d002(xs: &[f64], ns: &[i64], a: f64, b: f64, i: i64, j: i64, u: usize) -> (f64, f64) { (total(&Sq(a), 2.0), total(&Rect(a, b), 0.5)) }
pub fn d003(xs: &[f64], ns: &[i64], a: f64, b: f64, i: i64, j: i64, u: usize) -> f64 { let v: Vec<Box<dyn Shape>> = vec![Box::new(Sq(a)), Box::new(Rect(b, 2.0))]; v.iter().map(|s| s.area() + s.name() as f64).sum() }
pub fn d004(xs: &[f64], ns: &[i64], a: f64, b: f64, i: i64, j: i64, u: usize) -> f64 { let s: &dyn Shape = if i > 0 { &Sq(a) } else { &Rect(a, b) }; s.area() }
pub fn d005(xs: &[f64], ns: &[i64], a: f64, b: f64, i: i64, j: i64, u: usize) -> (bool, bool, bool) { let p = Rec { key: i, w: a, tags: ns.to_vec() }; let q = Rec { key: j, ..p.clone() }; (p == q, p < q, p.clone() == p) }
pub fn d006(xs: &[f64], ns: &[i64], a: f64, b: f64, i: i64, j: i64, u: usize) -> (i64, usize, f64) { let r = Rec::default(); (r.key, r.tags.len(), r.w) }
pub fn d007(xs: &[f64], ns: &[i64], a: f64, b: f64, i: i64, j: i64, u: usize) -> (i64, bool, Lvl) { let l = if i > 3 { Lvl::High } else if i > 0 { Lvl::Mid } else { Lvl::Low }; (l as i64, l > Lvl::Low, l.max(Lvl::Mid)) }
pub fn d008(xs: &[f64], ns: &[i64], a: f64, b: f64, i: i64, j: i64, u: usize) -> (bool, bool) { ((i, a) < (j, b), (i, j) <= (j, i)) }
pub fn d009(xs: &[f64], ns: &[i64], a: f64, b: f64, i: i64, j: i64, u: usize) -> f64 { use std::f64::consts::{PI, LN_2, E, FRAC_PI_2, SQRT_2, TAU, LN_10}; PI + LN_2 * E - FRAC_PI_2 / SQRT_2 + TAU - LN_10 }
pub fn d010(xs: &[f64], ns: &[i64], a: f64, b: f64, i: i64, j: i64, u: usize) -> Vec<f64> { let mut v = xs.to_vec(); v.sort_by(|p, q| p.total_cmp(q)); v }
pub fn d011(xs: &[f64], ns: &[i64], a: f64, b: f64, i: i64, j: i64, u: usize) -> Vec<f64> { let mut v = xs.to_vec(); v.sort_by(f64::total_cmp); v.reverse(); v }
pub fn d012(xs: &[f64], ns: &[i64], a: f64, b: f64, i: i64, j: i64, u: usize) -> (Option<f64>, Option<f64>) { (xs.iter().copied().min_by(|p, q| p.total_cmp(q)), xs.iter().copied().reduce(f64::max)) }
pub fn d013(xs: &[f64], ns: &[i64], a: f64, b: f64, i: i64, j: i64, u: usize) -> Vec<i64> { let mut v = ns.to_vec(); for c in v.chunks_mut(2) { c[0] += 100; } v }
pub fn d014(xs: &[f64], ns: &[i64], a: f64, b: f64, i: i64, j: i64, u: usize) -> Vec<f64> { let mut v = xs.to_vec(); for (o, n) in v.iter_mut().zip(ns.iter()) { *o += *n as f64; } v }
pub fn d015(xs: &[f64], ns: &[i64], a: f64, b: f64, i: i64, j: i64, u: usize) -> Vec<i64> { let mut v: Vec<i64> = Vec::new(); v.extend(ns.iter()); v.extend(ns.iter().rev().copied()); v }
pub fn d016(xs: &[f64], ns: &[i64], a: f64, b: f64, i: i64, j: i64, u: usize) -> (Vec<i64>, Vec<i64>, Vec<f64>) { (Vec::from(ns), ns.into(), xs.to_owned()) }
pub fn d017(xs: &[f64], ns: &[i64], a: f64, b: f64, i: i64, j: i64, u: usize) -> i64 { let v: Vec<Option<i64>> = ns.iter().map(|&x| if x > 0 { Some(x) } else { None }).collect(); v.iter().flatten().sum::<i64>() + v.iter().filter(|o| o.is_none()).count() as i64 * 100 }
pub fn d018(xs: &[f64], ns: &[i64], a: f64, b: f64, i: i64, j: i64, u: usize) -> (i64, i64) { (std::cmp::max(i, j), std::cmp::min(u as i64, 3)) }
pub fn d019(xs: &[f64], ns: &[i64], a: f64, b: f64, i: i64, j: i64, u: usize) -> (usize, bool, Vec<usize>) { ((2..u + 2).len(), (0..u).contains(&3), (0..u + 3).rev().skip(1).step_by(2).collect()) }
pub fn d020(xs: &[f64], ns: &[i64], a: f64, b: f64, i: i64, j: i64, u: usize) -> Vec<(usize, i64)> { ns.iter().copied().enumerate().skip(1).step_by(2).collect() }
pub fn d021(xs: &[f64], ns: &[i64], a: f64, b: f64, i: i64, j: i64, u: usize) -> (usize, bool) { (ns.iter().position(|&x| x == i).map_or(99, |p| p + 1), ns.get(u).is_some_and(|&x| x > 0)) }
pub fn d022(xs: &[f64], ns: &[i64], a: f64, b: f64, i: i64, j: i64, u: usize) -> usize { let v = ns.to_vec(); let f = move || v.len() + u; f() }
pub fn d023(xs: &[f64], ns: &[i64], a: f64, b: f64, i: i64, j: i64, u: usize) -> Option<i64> { let f = |k: usize| -> Option<i64> { let x = ns.get(k)?; let y = ns.get(k + 1)?; Some(x * y) }; f(u).or_else(|| f(0)) }
pub fn d024(xs: &[f64], ns: &[i64], a: f64, b: f64, i: i64, j: i64, u: usize) -> i64 { let r = 'blk: { if i > 5 { break 'blk 1; } if j > 5 { break 'blk 2; } 3 }; r * 10 }
pub fn d025(xs: &[f64], ns: &[i64], a: f64, b: f64, i: i64, j: i64, u: usize) -> i64 { let mut stack = ns.to_vec(); let mut s = 0; while let Some(x) = stack.pop() { if x < 0 { continue; } s = s * 2 + x; if s > 40 { break; } } s }
pub fn d026(xs: &[f64], ns: &[i64], a: f64, b: f64, i: i64, j: i64, u: usize) -> i64 { let o = ns.get(u); let p = ns.get(1); if let (Some(x), Some(y)) = (o, p) { x + y } else if let Some(y) = p { *y } else { -1 } }
pub fn d027(xs: &[f64], ns: &[i64], a: f64, b: f64, i: i64, j: i64, u: usize) -> [f64; 3] { let mut arr = [0.0f64; 3]; for (k, x) in xs.iter().take(3).enumerate() { arr[k] = *x * 2.0; } arr }
pub fn d028(xs: &[f64], ns: &[i64], a: f64, b: f64, i: i64, j: i64, u: usize) -> i64 { let arr = [i, j, 7]; let mut s = 0; for x in arr { s = s * 3 + x; } s + arr.len() as i64 + arr.iter().max().copied().unwrap_or(0) }
pub fn d029(xs: &[f64], ns: &[i64], a: f64, b: f64, i: i64, j: i64, u: usize) -> f64 { let g = [[a, b], [b, a]]; g[u % 2][(u + 1) % 2] + g.iter().map(|r| r[0]).sum::<f64>() }
pub fn d030(xs: &[f64], ns: &[i64], a: f64, b: f64, i: i64, j: i64, u: usize) -> (i64, i64) { let t = (i, (j, u as i64)); let (p, (q, r)) = t; let swap = |(x, y): (i64, i64)| (y, x); let (s, _) = swap((p, q)); (s, r) }
pub fn d031(xs: &[f64], ns: &[i64], a: f64, b: f64, i: i64, j: i64, u: usize) -> Vec<i64> { let recs: Vec<Rec> = ns.iter().map(|&k| Rec { key: k, w: k as f64 * a, tags: vec![k; 2] }).collect(); let mut keys: Vec<i64> = recs.iter().filter(|r| r.w >= 0.0).map(|r| r.key + r.tags.len() as i64).collect(); keys.sort_unstable(); keys }
pub fn d032(xs: &[f64], ns: &[i64], a: f64, b: f64, i: i64, j: i64, u: usize) -> Option<i64> { let recs: Vec<Rec> = ns.iter().map(|&k| Rec { key: k, w: k as f64, tags: vec![] }).collect(); recs.iter().max_by(|p, q| p.w.partial_cmp(&q.w).unwrap()).map(|r| r.key) }
pub fn d033(xs: &[f64], ns: &[i64], a: f64, b: f64, i: i64, j: i64, u: usize) -> f64 { let mean = xs.iter().sum::<f64>() / xs.len() as f64; let var = xs.iter().map(|x| (x - mean).powi(2)).sum::<f64>() / (xs.len() as f64 - 1.0); var.sqrt() }
pub fn d034(xs: &[f64], ns: &[i64], a: f64, b: f64, i: i64, j: i64, u: usize) -> (f64, f64) { let (mut lo, mut hi) = (f64::INFINITY, f64::NEG_INFINITY); for &x in xs { if x < lo { lo = x; } if x > hi { hi = x; } } (lo, hi) }
pub fn d035(xs: &[f64], ns: &[i64], a: f64, b: f64, i: i64, j: i64, u: usize) -> bool { xs.iter().all(|x| x.is_finite()) && !xs.iter().any(|x| x.is_nan()) && xs.iter().copied().fold(0.0, |s: f64, x| s + x.abs()) > 1.0 }
pub fn d036(xs: &[f64], ns: &[i64], a: f64, b: f64, i: i64, j: i64, u: usize) -> u64 { let w = (u as u64).wrapping_sub(3); (w >> 60) + (w & 0xff) + (u as u64).rotate_left(3) + (i as u64 ^ j as u64).swap_bytes() % 7 }
pub fn d037(xs: &[f64], ns: &[i64], a: f64, b: f64, i: i64, j: i64, u: usize) -> (i32, u16, i8, u64) { ((i * 3) as i32, (u * 70000 + 5) as u16, (j - 200) as i8, i as u64) }
pub fn d038(xs: &[f64], ns: &[i64], a: f64, b: f64, i: i64, j: i64, u: usize) -> (i64, u64, usize) { ((a * 1e10) as i64, (-a) as u64, (b * 3.7) as usize) }
pub fn d039(xs: &[f64], ns: &[i64], a: f64, b: f64, i: i64, j: i64, u: usize) -> Result<f64, String> { fn inv(x: f64) -> Result<f64, String> { if x == 0.0 { Err("zero".to_string()) } else { Ok(1.0 / x) } } let p = inv(a)?; let q = inv(b).map_err(|e| e + "!")?; Ok(p + q) }
pub fn d040(xs: &[f64], ns: &[i64], a: f64, b: f64, i: i64, j: i64, u: usize) -> Vec<i64> { fn rec(k: i64, acc: &mut Vec<i64>) { if k <= 0 { return; } acc.push(k); rec(k - 2, acc); } let mut v = Vec::new(); rec(i.clamp(0, 9), &mut v); v }
pub fn d041(xs: &[f64], ns: &[i64], a: f64, b: f64, i: i64, j: i64, u: usize) -> (i64, i64) { struct Ctr { n: i64 } impl Ctr { fn bump(&mut self) -> i64 { self.n += 1; self.n } fn into_n(self) -> i64 { self.n } } let mut c = Ctr { n: i }; let x = c.bump() + c.bump(); (x, c.into_n()) }
pub fn d042(xs: &[f64], ns: &[i64], a: f64, b: f64, i: i64, j: i64, u: usize) -> i64 { let make = |k: i64| move |x: i64| x * k + j; let f = make(i); let g = make(2); f(g(1)) }
pub fn d043(xs: &[f64], ns: &[i64], a: f64, b: f64, i: i64, j: i64, u: usize) -> Vec<i64> { let mut out = Vec::new(); let mut it = ns.iter(); while let Some(&x) = it.next() { if x == 0 { if let Some(&y) = it.next() { out.push(y * 10); } } else { out.push(x); } } out }
pub fn d044(xs: &[f64], ns: &[i64], a: f64, b: f64, i: i64, j: i64, u: usize) -> Vec<i64> { let mut it = ns.iter().copied(); let firsts: Vec<i64> = it.by_ref().take(2).collect(); let rest: i64 = it.sum(); let mut v = firsts; v.push(rest); v }
pub fn d045(xs: &[f64], ns: &[i64], a: f64, b: f64, i: i64, j: i64, u: usize) -> (Option<i64>, Option<i64>, usize) { let mut it = ns.iter().copied(); let f = it.next(); let l = it.next_back(); (f, l, it.len()) }
pub fn d046(xs: &[f64], ns: &[i64], a: f64, b: f64, i: i64, j: i64, u: usize) -> (i64, i64) { let (evens, odds): (Vec<i64>, Vec<i64>) = ns.iter().partition(|&&x| x % 2 == 0); (evens.iter().sum(), odds.iter().product()) }
pub fn d047(xs: &[f64], ns: &[i64], a: f64, b: f64, i: i64, j: i64, u: usize) -> f64 { xs.iter().zip(xs.iter().skip(1)).map(|(p, q)| (q - p).abs()).fold(0.0, f64::max) }
pub fn d048(xs: &[f64], ns: &[i64], a: f64, b: f64, i: i64, j: i64, u: usize) -> Vec<f64> { xs.iter().map(|&x| if x.is_nan() { 0.0 } else { x.clamp(-1.0, 1.0) }).collect::<Vec<_>>().into_iter().rev().collect() }
pub fn d049(xs: &[f64], ns: &[i64], a: f64, b: f64, i: i64, j: i64, u: usize) -> usize { let mut n = u; let mut c = 0; while n > 0 { n = n.saturating_sub(3); c += 1; } c + usize::MAX.saturating_add(u).min(5) }
pub fn d050(xs: &[f64], ns: &[i64], a: f64, b: f64, i: i64, j: i64, u: usize) -> (f64, f64) { let mut acc = (0.0f64, 0.0f64); for (k, &x) in xs.iter().enumerate() { let d = x - acc.0; acc.0 += d / (k as f64 + 1.0); acc.1 += d * (x - acc.0); } acc }
pub fn d051(xs: &[f64], ns: &[i64], a: f64, b: f64, i: i64, j: i64, u: usize) -> String { let mut s = String::new(); for &n in ns.iter().take(2) { if n > 0 { s.push_str("p"); } else { s.push_str("n"); } } s }
pub fn d052(xs: &[f64], ns: &[i64], a: f64, b: f64, i: i64, j: i64, u: usize) -> (bool, usize) { let names = ["alpha", "beta", "gamma"]; (names.contains(&"beta"), names.iter().position(|&n| n == "gamma").unwrap_or(9) + names[u % 3].len()) }
pub fn d053(xs: &[f64], ns: &[i64], a: f64, b: f64, i: i64, j: i64, u: usize) -> i64 { let v: Vec<(String, i64)> = vec![("a".to_string(), i), ("b".to_string(), j)]; v.iter().find(|(k, _)| k == "b").map(|(_, x)| *x).unwrap_or(0) }
pub fn d054(xs: &[f64], ns: &[i64], a: f64, b: f64, i: i64, j: i64, u: usize) -> Vec<i64> { let mut grid = vec![vec![0i64; 3]; 2]; for r in 0..2 { for c in 0..3 { grid[r][c] = (r * 3 + c) as i64 * i; } } grid.concat() }
pub fn d055(xs: &[f64], ns: &[i64], a: f64, b: f64, i: i64, j: i64, u: usize) -> (Vec<i64>, i64) { let mut v = ns.to_vec(); let last = v.last().copied().unwrap_or(0); v.iter_mut().filter(|x| **x < 0).for_each(|x| *x = 0); (v, last) }
pub fn d056(xs: &[f64], ns: &[i64], a: f64, b: f64, i: i64, j: i64, u: usize) -> f64 { let w: Vec<f64> = xs.iter().map(|x| x.abs()).collect(); let s: f64 = w.iter().sum(); if s > 0.0 && s.is_finite() { w.iter().map(|x| x / s).map(|p| if p > 0.0 { -p * p.ln() } else { 0.0 }).sum() } else { -1.0 } }
pub fn d057(xs: &[f64], ns: &[i64], a: f64, b: f64, i: i64, j: i64, u: usize) -> (u32, i64, usize) { let e = 3u32; (e.pow(2) + 2u32.saturating_sub(5), 10i64.pow(e) - (-2i64).pow(3), 1usize << (u % 8)) }
pub fn d058(xs: &[f64], ns: &[i64], a: f64, b: f64, i: i64, j: i64, u: usize) -> Vec<i64> { let mut v = ns.to_vec(); v.sort_by(|p, q| q.abs().cmp(&p.abs()).then(p.cmp(q))); v }
pub fn d059(xs: &[f64], ns: &[i64], a: f64, b: f64, i: i64, j: i64, u: usize) -> Option<usize> { (a > 0.0).then(|| u + 1).or((b > 0.0).then_some(7)) }
pub fn d060(xs: &[f64], ns: &[i64], a: f64, b: f64, i: i64, j: i64, u: usize) -> (i64, i64) { let mut a1 = [1i64, 2, 3]; let mut b1 = [9i64, 8, 7]; a1.swap(0, 2); std::mem::swap(&mut a1, &mut b1); a1[1] += i; (a1.iter().sum(), b1[0]) }

// ------------------------------------------------------------------ third batch: variant constructors as functions, assorted
pub fn g001(xs: &[f64], ns: &[i64], a: f64, b: f64, i: i64, j: i64, u: usize) -> Vec<Option<i64>> { ns.iter().copied().map(Some).collect() }
pub fn g002(xs: &[f64], ns: &[i64], a: f64, b: f64, i: i64, j: i64, u: usize) -> Result<i64, u8> { ns.get(u).copied().map(Ok).unwrap_or(Err(9)) }
pub fn g003(xs: &[f64], ns: &[i64], a: f64, b: f64, i: i64, j: i64, u: usize) -> i64 { let v: Vec<E> = ns.iter().copied().map(E::B).collect(); v.iter().map(|e| if let E::B(k) = e { *k } else { 0 }).sum() }
pub fn g004(xs: &[f64], ns: &[i64], a: f64, b: f64, i: i64, j: i64, u: usize) -> Result<f64, i64> { xs.get(u).copied().ok_or(i).map_err(|e| e * 2) }
pub fn g005(xs: &[f64], ns: &[i64], a: f64, b: f64, i: i64, j: i64, u: usize) -> Option<f64> { xs.iter().copied().map(f64::abs).reduce(f64::min) }
pub fn g006(xs: &[f64], ns: &[i64], a: f64, b: f64, i: i64, j: i64, u: usize) -> Vec<i64> { ns.iter().copied().map(i64::abs).map(|x| x.pow(2)).collect() }
pub fn g007(xs: &[f64], ns: &[i64], a: f64, b: f64, i: i64, j: i64, u: usize) -> (i64, i64) { let (mut lo, mut hi) = (i64::MAX, i64::MIN); ns.iter().for_each(|&x| { lo = lo.min(x); hi = hi.max(x); }); (lo, hi) }
pub fn g008(xs: &[f64], ns: &[i64], a: f64, b: f64, i: i64, j: i64, u: usize) -> usize { ns.iter().filter(|&&x| x > 0).map(|_| 1usize).sum::<usize>() + xs.iter().rev().position(|&x| x > 1.0).unwrap_or(0) }
pub fn g009(xs: &[f64], ns: &[i64], a: f64, b: f64, i: i64, j: i64, u: usize) -> i64 { match a.partial_cmp(&b) { Some(std::cmp::Ordering::Greater) => 1, Some(std::cmp::Ordering::Less | std::cmp::Ordering::Equal) | None => -1 } }
pub fn g010(xs: &[f64], ns: &[i64], a: f64, b: f64, i: i64, j: i64, u: usize) -> i64 { match i.cmp(&j) { std::cmp::Ordering::Less => -7, std::cmp::Ordering::Equal => 0, std::cmp::Ordering::Greater => 7 } }
pub fn g011(xs: &[f64], ns: &[i64], a: f64, b: f64, i: i64, j: i64, u: usize) -> i64 { match i - j { -1 => 10, -2 => 20, 0 => 30, _ => 40 } }
pub fn g012(xs: &[f64], ns: &[i64], a: f64, b: f64, i: i64, j: i64, u: usize) -> i64 { let d: VecDeque<Vec<i64>> = ns.iter().map(|&x| vec![x, x + 1]).collect(); if d.is_empty() { 0 } else { d[u % d.len()][1] + d[0][..][0] } }
pub fn g013(xs: &[f64], ns: &[i64], a: f64, b: f64, i: i64, j: i64, u: usize) -> (Vec<f64>, Option<f64>) { let mut buf = vec![0f64; xs.len()].into_boxed_slice(); buf.copy_from_slice(xs); let mut o: Option<f64> = None; o.replace(a); (buf.into_vec(), o) }
pub fn g014(xs: &[f64], ns: &[i64], a: f64, b: f64, i: i64, j: i64, u: usize) -> (Option<Vec<f64>>, Option<Vec<i64>>, Option<i64>) { let bx: Option<Box<[f64]>> = if u % 2 == 0 { Some(xs.to_vec().into_boxed_slice()) } else { None }; let c = bx.clone(); let v: Option<Vec<i64>> = Some(ns.to_vec()); let w = v.clone(); let k = Some(i).clone(); (c.map(|b| b.into_vec()), w, k) }
