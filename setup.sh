#!/bin/bash
# builds everything the checks need from files on disk only (offline)
set -e
cd "$(dirname "$0")"
export CARGO_NET_OFFLINE=true
mkdir -p .cache evidence
# warm the nightly target dir used for MIR dumps (dependencies only change with Cargo.lock)
python3-vt -c "
import sys; sys.path.insert(0, '.')
from mirsmt.driver import dump_mir
p, h, dt = dump_mir(); print('MIR dump', p, h, '%.1fs' % dt)
p, h, dt = dump_mir('zarr'); print('MIR dump (zarr)', p, h, '%.1fs' % dt)
"
python3-vt -c "
import sys; sys.path.insert(0, '.')
from mirsmt import native
print('native replay build', native.build())
print('native zarr replay build', native.build_zarr())
"
echo setup done
