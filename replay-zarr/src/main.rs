//! Model validation for C15 / C14 through the real build: the same seeded run is stored by the HashMap backend and by the sync Zarr backend
//! (MemoryStore, given draw chunk size); a fresh reader of the Zarr store must see the HashMap values, warm-up and sampling separately.
//! usage: verif-replay-zarr '<json {"chunk":..,"num_tune":..,"num_draws":..}>' -> one JSON line {"confirmed": <mismatch found>, ...}
use std::{collections::HashMap, sync::Arc, time::Duration};

use anyhow::Context;
use nuts_rs::{CpuLogpFunc, CpuMath, DiagNutsSettings, HashMapConfig, HashMapValue, LogpError, Model, Sampler, SamplerWaitResult, ZarrConfig};
use nuts_storable::HasDims;
use rand::prelude::Rng;
use rand_distr::{Distribution, StandardNormal};
use serde_json::{Value, json};
use thiserror::Error;
use zarrs::{
    array::{Array, ArraySubset},
    storage::{ReadableListableStorageTraits, store::MemoryStore},
};

const DIM: usize = 3;
const CHAINS: usize = 2;

#[derive(Clone)]
struct NormalLogp {
    mu: f64,
}
#[derive(Error, Debug)]
enum NormalLogpError {}
impl LogpError for NormalLogpError {
    fn is_recoverable(&self) -> bool {
        true
    }
}
impl HasDims for NormalLogp {
    fn dim_sizes(&self) -> HashMap<String, u64> {
        HashMap::from([("unconstrained_parameter".to_string(), DIM as u64), ("dim".to_string(), DIM as u64)])
    }
}
impl CpuLogpFunc for NormalLogp {
    type LogpError = NormalLogpError;
    type FlowParameters = ();
    type ExpandedVector = Vec<f64>;
    fn dim(&self) -> usize {
        DIM
    }
    fn logp(&mut self, position: &[f64], grad: &mut [f64]) -> Result<f64, Self::LogpError> {
        let mut logp = 0f64;
        for (p, g) in position.iter().zip(grad.iter_mut()) {
            let diff = p - self.mu;
            logp -= diff * diff / 2.;
            *g = -diff;
        }
        Ok(logp)
    }
    fn expand_vector<R>(&mut self, _rng: &mut R, array: &[f64]) -> Result<Self::ExpandedVector, nuts_rs::CpuMathError>
    where
        R: rand::Rng + ?Sized,
    {
        Ok(array.to_vec())
    }
}
struct NormalModel;
impl Model for NormalModel {
    type Math<'model>
        = CpuMath<NormalLogp>
    where
        Self: 'model;
    fn math<R: Rng + ?Sized>(&self, _rng: &mut R) -> anyhow::Result<Self::Math<'_>> {
        Ok(CpuMath::new(NormalLogp { mu: 0.5 }))
    }
    fn init_position<R: Rng + ?Sized>(&self, rng: &mut R, position: &mut [f64]) -> anyhow::Result<()> {
        let normal = StandardNormal;
        position.iter_mut().for_each(|x| *x = normal.sample(rng));
        Ok(())
    }
}
fn settings(num_tune: u64, num_draws: u64) -> DiagNutsSettings {
    DiagNutsSettings { seed: 42, num_chains: CHAINS, num_tune, num_draws, ..Default::default() }
}
fn wait<F: Send + 'static>(mut sampler: Sampler<F>) -> anyhow::Result<F> {
    loop {
        match sampler.wait_timeout(Duration::from_secs(1)) {
            SamplerWaitResult::Trace(trace) => return Ok(trace),
            SamplerWaitResult::Timeout(new_sampler) => sampler = new_sampler,
            SamplerWaitResult::Err(err, _trace) => return Err(err),
        }
    }
}
fn reference(num_tune: u64, num_draws: u64) -> anyhow::Result<Vec<(Vec<f64>, Vec<f64>)>> {
    let sampler = Sampler::new(NormalModel, settings(num_tune, num_draws), HashMapConfig::new(), CHAINS, None)?;
    let chains = wait(sampler)?;
    let mut out = Vec::new();
    for chain in chains {
        let HashMapValue::F64(value) = chain.draws["value"].clone() else { anyhow::bail!("unexpected type for value") };
        let HashMapValue::F64(logp) = chain.stats["logp"].clone() else { anyhow::bail!("unexpected type for logp") };
        out.push((value, logp));
    }
    Ok(out)
}
fn read_f64(store: &Arc<dyn ReadableListableStorageTraits>, path: &str) -> anyhow::Result<Vec<f64>> {
    let array = Array::open(store.clone(), path).with_context(|| format!("open {path}"))?;
    let data: Vec<f64> = array.retrieve_array_subset(&ArraySubset::new_with_shape(array.shape().to_vec()))?;
    Ok(data)
}
fn bits(v: &[f64]) -> Vec<u64> {
    v.iter().map(|x| x.to_bits()).collect()
}
fn run(chunk: u64, num_tune: u64, num_draws: u64) -> anyhow::Result<Vec<String>> {
    let reference = reference(num_tune, num_draws)?;
    let store = Arc::new(MemoryStore::new());
    let config = ZarrConfig::new(store.clone()).with_chunk_size(chunk);
    let sampler = Sampler::new(NormalModel, settings(num_tune, num_draws), config, CHAINS, None)?;
    wait(sampler)?;
    let store: Arc<dyn ReadableListableStorageTraits> = store;
    let (nt, nd) = (num_tune as usize, num_draws as usize);
    let mut problems = vec![];
    let wv = read_f64(&store, "/warmup_posterior/value")?;
    let sv = read_f64(&store, "/posterior/value")?;
    let wl = read_f64(&store, "/warmup_sample_stats/logp")?;
    let sl = read_f64(&store, "/sample_stats/logp")?;
    if wv.len() != CHAINS * nt * DIM || sv.len() != CHAINS * nd * DIM || wl.len() != CHAINS * nt || sl.len() != CHAINS * nd {
        problems.push(format!("array sizes {} {} {} {}", wv.len(), sv.len(), wl.len(), sl.len()));
        return Ok(problems);
    }
    for (chain, (rv, rl)) in reference.iter().enumerate() {
        let (rwv, rsv) = rv.split_at(nt * DIM);
        let (rwl, rsl) = rl.split_at(nt);
        if bits(&wl[chain * nt..(chain + 1) * nt]) != bits(rwl) { problems.push(format!("warmup_sample_stats/logp chain {chain}")); }
        if bits(&sl[chain * nd..(chain + 1) * nd]) != bits(rsl) { problems.push(format!("sample_stats/logp chain {chain}")); }
        if bits(&wv[chain * nt * DIM..(chain + 1) * nt * DIM]) != bits(rwv) { problems.push(format!("warmup_posterior/value chain {chain}")); }
        if bits(&sv[chain * nd * DIM..(chain + 1) * nd * DIM]) != bits(rsv) { problems.push(format!("posterior/value chain {chain}")); }
    }
    Ok(problems)
}
fn main() {
    let args: Vec<String> = std::env::args().collect();
    let p: Value = args.get(1).and_then(|s| serde_json::from_str(s).ok()).unwrap_or(json!({}));
    let (c, t, d) = (p["chunk"].as_u64().unwrap_or(10), p["num_tune"].as_u64().unwrap_or(15), p["num_draws"].as_u64().unwrap_or(13));
    let out = match run(c, t, d) {
        Ok(problems) => json!({"confirmed": !problems.is_empty(), "problems": problems, "chunk": c, "num_tune": t, "num_draws": d}),
        Err(e) => json!({"confirmed": true, "error": format!("{e:#}"), "chunk": c, "num_tune": t, "num_draws": d}),
    };
    println!("{}", out);
}
