#!/usr/bin/env python3
"""Systematic mutation campaign (not part of any verdict): single-token mutants of the source regions the properties are anchored in are
generated, each is applied to a scratch worktree of /repo, the checks responsible for that file run on it (quick tier, VERIF_REPO/VERIF_OUT),
and only for mutants that no check flags the crate's own test suite is run to see whether the tests notice.  Output: mutants_results.json with
one row per mutant: flagged (by which obligation) / does not compile / killed by the tests only / SURVIVOR (neither checks nor tests notice:
an equivalent mutant or a gap).  usage: mutants.py [-jN] [--max N] [--seed S] [file-substring ...]"""
import subprocess, json, os, re, sys, time, random, queue, threading, shutil
V = os.path.dirname(os.path.dirname(os.path.abspath(__file__))); R = '/repo'

FILES = {   # file -> checks that own it
 'src/nuts.rs': ['C03', 'C01', 'C05'],
 'src/adapt_strategy.rs': ['C06', 'C09'],
 'src/stepsize/dual_avg.rs': ['C07'], 'src/stepsize/adam.rs': ['C07'], 'src/stepsize/adapt.rs': ['C07', 'C06'],
 'src/dynamics/transformed_hamiltonian.rs': ['C02', 'C05', 'C16', 'C18'],
 'src/dynamics/state.rs': ['C03'], 'src/dynamics/hamiltonian.rs': ['C16', 'C05'],
 'src/transform/diagonal.rs': ['C02', 'C08', 'C16'], 'src/transform/adapt/diagonal.rs': ['C08', 'C09', 'C05'], 'src/transform/adapt/low_rank.rs': ['C09', 'C08'],
 'src/transform/low_rank.rs': ['C02', 'C08', 'C16'],
 'src/mclmc.rs': ['C18', 'C06'], 'src/chain.rs': ['C03', 'C16', 'C06'],
 'src/math/util.rs': ['C17', 'C01'], 'src/math/cpu_math.rs': ['C17', 'C08', 'C18'],
 'src/storage/zarr/common.rs': ['C15'], 'src/storage/zarr/sync_impl.rs': ['C15'], 'src/storage/zarr/async_impl.rs': ['C15'], 'src/storage/hashmap.rs': ['C14'], 'src/storage/csv.rs': ['C14'],
 'src/sampler.rs': ['C13', 'C12', 'C16', 'C18'], 'src/external_adapt_strategy.rs': ['C06', 'C05'],
}
OPS = [  # (regex, replacement) applied to one occurrence at a time
 (r' < ', ' <= '), (r' <= ', ' < '), (r' > ', ' >= '), (r' >= ', ' > '), (r' == ', ' != '), (r' != ', ' == '),
 (r' \+ ', ' - '), (r' - ', ' + '), (r' \* ', ' / '), (r' / ', ' * '), (r' \+= ', ' -= '), (r' -= ', ' += '), (r' \*= ', ' /= '),
 (r' && ', ' || '), (r' \|\| ', ' && '), (r'\btrue\b', 'false'), (r'\bfalse\b', 'true'),
 (r'\.min\(', '.max('), (r'\.max\(', '.min('), (r'\b0\.5\b', '1.0'), (r'\b2\.0\b', '1.0'), (r'\b2\.\B', '1.'), (r'\b1\.0\b', '2.0'), (r'\b0\b(?![.\w])', '1'), (r'\b1\b(?![.\w])', '0'),
 (r'\.is_some\(\)', '.is_none()'), (r'\.is_none\(\)', '.is_some()'), (r'if !', 'if '), (r'\bForward\b', 'Backward'), (r'\.exp\(\)', '.ln()'), (r'\.abs\(\)', ''),
]
SKIP_LINE = re.compile(r'^\s*(//|#\[|use |pub use |mod |assert|debug_assert|///)|\bpanic!|\bexpect\(|unreachable!|\bformat!|println!|\.context\(|bail!|anyhow!')

def sh(cmd, cwd=V, timeout=3000, env=None):
    import signal
    p = subprocess.Popen(cmd, shell=True, cwd=cwd, stdout=subprocess.PIPE, stderr=subprocess.STDOUT, text=True, env=env, start_new_session=True)
    try:
        out, _ = p.communicate(timeout=timeout); return p.returncode, out
    except subprocess.TimeoutExpired:
        try: os.killpg(p.pid, signal.SIGKILL)
        except OSError: pass
        try: out, _ = p.communicate(timeout=30)
        except Exception: out = ''
        return 124, (out or '') + '\ntimeout'

def gen(files, seed, maxn):
    rnd = random.Random(seed); muts = []
    for f in files:
        src = open(os.path.join(R, f)).read().split('\n')
        end = next((i for i, l in enumerate(src) if l.strip().startswith('#[cfg(test)]')), len(src))
        for i in range(end):
            line = src[i]
            if SKIP_LINE.search(line) or not line.strip(): continue
            code = line.split('//')[0]
            for (rx, rep) in OPS:
                for mm in re.finditer(rx, code):
                    new = code[:mm.start()] + mm.expand(rep) if False else code[:mm.start()] + rep + code[mm.end():]
                    muts.append({'file': f, 'line': i + 1, 'old': line.strip(), 'new': (new + line[len(code):]).strip(), 'col': mm.start(), 'op': '%s -> %s' % (rx, rep), '_newline': new + line[len(code):]})
    rnd.shuffle(muts)
    # spread over files: round-robin by file
    by = {}
    for mu in muts: by.setdefault(mu['file'], []).append(mu)
    out = []
    while len(out) < maxn and any(by.values()):
        for f in list(by):
            if by[f] and len(out) < maxn: out.append(by[f].pop())
    for k, mu in enumerate(out): mu['id'] = 'x%03d' % k
    return out

def main():
    args = sys.argv[1:]; nj = 6; maxn = 120; seed = 1; filt = []
    i = 0
    while i < len(args):
        a = args[i]
        if a.startswith('-j'): nj = int(a[2:])
        elif a == '--max': maxn = int(args[i + 1]); i += 1
        elif a == '--seed': seed = int(args[i + 1]); i += 1
        else: filt.append(a)
        i += 1
    files = [f for f in FILES if not filt or any(x in f for x in filt)]
    muts = gen(files, seed, maxn)
    base = '/tmp/verif-mutants-%d' % os.getpid(); os.makedirs(base)
    q = queue.Queue(); [q.put(mu) for mu in muts]; results = []; lk = threading.Lock()
    def worker(k):
        wt = '%s/wt%d' % (base, k); outd = '%s/out%d' % (base, k); os.makedirs(outd)
        sh('git worktree add --detach %s HEAD -f' % wt, R)
        tenv = dict(os.environ, CARGO_NET_OFFLINE='true', CARGO_TARGET_DIR='%s/target%d' % (base, k))
        try:
            while True:
                try: mu = q.get_nowait()
                except queue.Empty: break
                t0 = time.time(); p = os.path.join(wt, mu['file']); src = open(p).read().split('\n')
                src[mu['line'] - 1] = mu['_newline']; open(p, 'w').write('\n'.join(src))
                row = {k_: v for k_, v in mu.items() if not k_.startswith('_')}; row['checks'] = {}; verdict = None
                env = dict(os.environ, VERIF_REPO=wt, VERIF_OUT=outd)
                for c in FILES[mu['file']]:
                    rc, out = sh('./check %s' % c, env=env, timeout=900)
                    viol = re.findall(r'VIOLATION property=\S+ replay=\S+/(\S+)\.json', out)
                    row['checks'][c] = {'exit': rc, 'obligations': viol[:4]}
                    if rc == 1 and viol: verdict = 'flagged'; break
                    if 'MIR dump failed' in out: verdict = 'does not compile'; break
                    if rc == 2: row['checks'][c]['tail'] = out[-400:]
                if verdict is None:
                    rc, out = sh('cargo test --workspace --no-fail-fast --offline 2>&1 | grep -E "^test result|FAILED|error(\\[|:)" | head -20', wt, env=tenv, timeout=900)
                    if rc == 124: verdict = 'killed by the test suite only (the tests hang)'
                    elif 'error' in out and 'test result' not in out: verdict = 'does not compile'
                    elif 'FAILED' in out: verdict = 'killed by the test suite only'
                    elif any(v.get('exit') == 2 for v in row['checks'].values()): verdict = 'inconclusive (a check could not run on the mutant) and tests pass'
                    else: verdict = 'SURVIVOR'
                row['verdict'] = verdict; row['seconds'] = round(time.time() - t0, 1)
                sh('git checkout -- .', wt)
                with lk:
                    results.append(row); print(row['id'], mu['file'], mu['line'], verdict, row['checks'].get(FILES[mu['file']][0], {}).get('obligations', ''), '|', mu['old'][:70], '=>', mu['new'][:70], flush=True)
        finally:
            sh('git worktree remove --force %s' % wt, R)
    ths = [threading.Thread(target=worker, args=(k,)) for k in range(min(nj, max(1, len(muts))))]
    [t.start() for t in ths]; [t.join() for t in ths]
    shutil.rmtree(base, ignore_errors=True); sh('git worktree prune', R)
    results.sort(key=lambda r: r['id'])
    tally = {}
    for r in results: tally[r['verdict']] = tally.get(r['verdict'], 0) + 1
    out = os.path.join(V, 'mutants_results.json')
    prev = json.load(open(out)) if os.path.exists(out) else {'runs': []}
    prev['runs'].append({'at': time.strftime('%Y-%m-%dT%H:%M:%SZ', time.gmtime()), 'seed': seed, 'files': files, 'tally': tally, 'results': results})
    json.dump(prev, open(out, 'w'), indent=1)
    print(tally)

if __name__ == '__main__': main()
