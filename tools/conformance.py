#!/usr/bin/env python3
"""Conformance of the VM's std-library models (not part of any verdict): every function of /verif/conformance/src/lib.rs - one std idiom
each - is run natively and in the VM (CONC policy: python doubles) on the crate's MIR dump with the same concrete inputs; results are
compared value by value.  Output: conformance_results.json {function: pass | mismatch (case, native, vm) | unmodelled (what)}.
usage: conformance.py [name-prefix ...]"""
import sys, os, subprocess, json, struct, math, time, re, traceback
V = os.path.dirname(os.path.dirname(os.path.abspath(__file__))); sys.path.insert(0, V)
C = os.path.join(V, 'conformance'); CACHE = os.path.join(V, '.cache')
from mirsmt.mir import Mir
from mirsmt.vm import VM, Machine, Struct, Enum, Seq, Ref, SliceRef, Str, Opaque, UNIT, Unmodelled, VMError
from mirsmt.alg import ConcAlg, Fl
from mirsmt.mathenv import install_misc

def env(): return dict(os.environ, CARGO_NET_OFFLINE='true')
def native():
    e = dict(env(), CARGO_TARGET_DIR=os.path.join(CACHE, 'target-conformance'))
    subprocess.check_call(['cargo', 'build', '--offline', '-q'], cwd=C, env=e)
    out = subprocess.run([os.path.join(e['CARGO_TARGET_DIR'], 'debug', 'vmconf-native')], stdout=subprocess.PIPE, text=True).stdout
    cases = {}; res = {}
    for l in out.splitlines():
        p = l.split('|')
        if p[0] == 'CASE':
            f = lambda b: struct.unpack('<d', struct.pack('<Q', int(b)))[0]
            cases[int(p[1])] = ([f(x) for x in p[2].split(',')], [int(x) for x in p[3].split(',')], f(p[4]), f(p[5]), int(p[6]), int(p[7]), int(p[8]))
        else: res[(p[0], int(p[1]))] = '|'.join(p[2:])
    return cases, res
def dump():
    e = dict(env(), CARGO_TARGET_DIR=os.path.join(CACHE, 'target-conformance-mir'))
    subprocess.call(['touch', os.path.join(C, 'src', 'lib.rs')])
    p = subprocess.run(['cargo', '+nightly', 'rustc', '--offline', '--lib', '--', '-Zunpretty=mir', '-Zmir-include-spans=yes', '-C', 'debug-assertions=off', '-C', 'overflow-checks=on'], cwd=C, env=e, stdout=subprocess.PIPE, stderr=subprocess.PIPE)
    if p.returncode != 0 or len(p.stdout) < 10000: sys.stderr.write(p.stderr.decode()[-3000:]); raise SystemExit('MIR dump of the conformance crate failed')
    path = os.path.join(CACHE, 'conformance.mir'); open(path, 'wb').write(p.stdout); return path

def ser(vm, m, v):
    while isinstance(v, Ref): v = vm.read_at(m, v.cell, v.path)
    if isinstance(v, bool): return 'true' if v else 'false'
    if isinstance(v, int): return str(v)
    if isinstance(v, Fl):
        x = v.v
        if isinstance(x, float): return 'fNaN' if math.isnan(x) else 'f%d' % struct.unpack('<Q', struct.pack('<d', x))[0]
        return 'f?%r' % (x,)
    if isinstance(v, Str): return json.dumps(v.s)
    if isinstance(v, SliceRef): return '[' + ','.join(ser(vm, m, vm.read_at(m, r.cell, r.path)) for r in [v.elem_ref(k) for k in range(v.count)]) + ']'
    if isinstance(v, Seq): return '[' + ','.join(ser(vm, m, x) for x in v.items) + ']'
    if isinstance(v, Enum):
        if v.f: return '%s(%s)' % (v.name, ','.join(ser(vm, m, x) for x in v.f))
        return v.name
    if isinstance(v, Struct):
        if len(v.f) == 0: return '()'
        if getattr(v, 'ty', None) == 'P': return 'P(%s)' % ','.join(ser(vm, m, x) for x in v.f)
        return '(' + ','.join(ser(vm, m, x) for x in v.f) + ')'
    if v is UNIT: return '()'
    return '?%r' % (v,)

def main():
    only = sys.argv[1:]
    t0 = time.time(); cases, nat = native(); mir = Mir(dump(), C)
    names = sorted({f for (f, _) in nat}); results = {}
    for f in names:
        if only and not any(f.startswith(o) for o in only): continue
        fn = mir.get(f); verdict = 'pass'; detail = None
        for k, c in sorted(cases.items()):
            A = ConcAlg(); vm = VM(mir, A); install_misc(vm); vm.loop_bound = 10000; vm.max_stmts = 2000000
            m = Machine(); xs = m.alloc(Seq([Fl(x) for x in c[0]])); ns = m.alloc(Seq(list(c[1])))
            args = [SliceRef(xs, (), 0, len(c[0])), SliceRef(ns, (), 0, len(c[1])), Fl(c[2]), Fl(c[3]), c[4], c[5], c[6]]
            try:
                outs = vm.run(fn, args, m)
                if len(outs) != 1: got = 'FORK(%d)' % len(outs)
                else:
                    (m2, kind, v) = outs[0]; got = 'PANIC' if kind == 'panic' else ser(vm, m2, v)
            except Unmodelled as e: verdict = 'unmodelled'; detail = str(e)[:300]; break
            except Exception as e: verdict = 'vm error'; detail = '%s: %s' % (type(e).__name__, str(e)[:300]); break
            want = nat[(f, k)]
            if got != want: verdict = 'mismatch'; detail = {'case': k, 'native': want[:200], 'vm': got[:200]}; break
        results[f] = {'verdict': verdict, 'detail': detail}
        if verdict != 'pass': print(f, verdict, detail, flush=True)
    tally = {}
    for r in results.values(): tally[r['verdict']] = tally.get(r['verdict'], 0) + 1
    print(tally, '%.1fs' % (time.time() - t0))
    if not only: json.dump({'at': time.strftime('%Y-%m-%dT%H:%M:%SZ', time.gmtime()), 'tally': tally, 'results': results}, open(os.path.join(V, 'conformance_results.json'), 'w'), indent=1)

if __name__ == '__main__': main()
