#!/usr/bin/env python3
"""confirm a seeded defect produced by a sub-agent in its scratch worktree, then file it under /verif/seeded/<name>/ and remove the worktree.
usage: confirm_seed.py <worktree> <name>"""
import sys, os, json, subprocess, shutil, re
wt, name = sys.argv[1], sys.argv[2]
sd = os.path.join(wt, 'SEEDED'); meta = json.load(open(os.path.join(sd, 'meta.json')))
env = dict(os.environ, CARGO_NET_OFFLINE='true', CARGO_TARGET_DIR=os.path.join(wt, 'target'))
def sh(cmd, check=False):
    p = subprocess.run(cmd, shell=True, cwd=wt, env=env, stdout=subprocess.PIPE, stderr=subprocess.STDOUT, text=True)
    return p.returncode, p.stdout
log = []
def step(what, cmd):
    rc, out = sh(cmd); log.append({'what': what, 'cmd': cmd, 'rc': rc, 'tail': out[-600:]}); print(what, '->', rc); return rc, out
# clean state
sh('git checkout -- . ; git clean -fdq -e SEEDED -e target')
demo_cmd = meta['demo_cmd']
demo_cmd = re.sub(r'^cd \S+ && ', '', demo_cmd)
has_demo_diff = os.path.exists(os.path.join(sd, 'demo.diff'))
if has_demo_diff and 'demo.diff' not in demo_cmd: step('apply demo', 'git apply SEEDED/demo.diff')
rc_clean, _ = step('demo on clean tree (must pass)', demo_cmd)
sh('git checkout -- . ; git clean -fdq -e SEEDED -e target')
rc_apply, _ = step('apply defect', 'git apply SEEDED/patch.diff')
rc_suite, out = step('existing suite with defect (must pass)', 'cargo test --workspace --no-fail-fast --offline 2>&1 | grep -E "^test result|FAILED|panicked" ')
suite_ok = 'FAILED' not in out and 'test result: ok' in out
if has_demo_diff and 'demo.diff' not in demo_cmd: sh('git apply SEEDED/demo.diff')
rc_def, _ = step('demo with defect (must fail)', demo_cmd)
sh('git checkout -- . ; git clean -fdq -e SEEDED -e target')
ok = rc_clean == 0 and rc_apply == 0 and suite_ok and rc_def != 0
print('CONFIRMED' if ok else 'NOT CONFIRMED')
meta['confirmed_by_main'] = ok; meta['confirmation_log'] = log
dst = os.path.join('/verif/seeded', name)
if ok:
    shutil.rmtree(dst, ignore_errors=True); shutil.copytree(sd, dst)
    json.dump(meta, open(os.path.join(dst, 'meta.json'), 'w'), indent=1)
    subprocess.run(['git', '-C', '/repo', 'worktree', 'remove', '--force', wt]); shutil.rmtree(wt, ignore_errors=True)
else:
    json.dump(meta, open(os.path.join(sd, 'confirm_failed.json'), 'w'), indent=1)
