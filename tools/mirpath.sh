#!/bin/bash
# prints the path of the MIR dump of /repo's current tree (generating it if needed); arg: optional feature list
cd "$(dirname "$0")/.."
python3-vt -c "
import sys; sys.path.insert(0,'.')
from mirsmt.driver import dump_mir
print(dump_mir('$1')[0])" 2>/dev/null | tail -1
