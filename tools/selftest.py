#!/usr/bin/env python3
"""Self-test of the checks (not part of any verdict): applies a fixed list of small source mutations, one at a time, to scratch worktrees of
/repo under /tmp (VERIF_REPO / VERIF_OUT point the checks at them; /repo and /verif/evidence are not touched), runs the named check (quick
tier), expects exit 1 with a VIOLATION line (exit 0 for the entries marked EQUIVALENT).  Seeded changes under /verif/seeded/ are run too.
Writes /verif/selftest_results.json when run without a filter.  usage: selftest.py [-jN] [mutation ids | property ids | seed names]"""
import subprocess, json, os, re, sys, time, glob
V = os.path.dirname(os.path.dirname(os.path.abspath(__file__))); R = '/repo'

# (id, check, file, perl -0 substitution, what it breaks).  'equiv' entries must NOT be flagged (semantics-preserving refactors).
MUTATIONS = [
 ('m01', 'C01', 'src/nuts.rs', r's/            self.log_size\n        \} else \{\n            log_size\n        \};/            self.log_size\n        } else {\n            self.log_size\n        };/', 'biased progressive sampling inside sub-trees'),
 ('m02', 'C01', 'src/nuts.rs', r's/Direction::Backward => \(&other.left, &self.right\)/Direction::Backward => (&other.left, &self.left)/', 'asymmetric U-turn span'),
 ('m03', 'C01', 'src/math/util.rs', r's/return a \+ 2f64.ln\(\);/return a + 2f64.ln_1p();/', 'logaddexp tie branch'),
 ('m04', 'C02', 'src/dynamics/transformed_hamiltonian.rs', r's/math.axpy\(&self.transformed_gradient, &mut self.velocity, epsilon \/ 2.\);/math.axpy(&self.transformed_gradient, &mut self.velocity, epsilon);/', 'full instead of half velocity step'),
 ('m05', 'C02', 'src/transform/diagonal.rs', r's/math.array_mult\(untransformed_gradient, &self.stds, transformed_gradient\);/math.array_mult(untransformed_gradient, &self.inv_stds, transformed_gradient);/', 'gradient pulled back with 1\/sigma'),
 ('m06', 'C02', 'src/transform/diagonal.rs', r's/self.logdet = math.array_sum_ln\(&self.inv_stds\);\n        self.id \+= 1;\n    \}\n\n    pub\(crate\) fn logdet/self.logdet = math.array_sum_ln(&self.stds);\n        self.id += 1;\n    }\n\n    pub(crate) fn logdet/', 'log-determinant sign in set_transform'),
 ('m07', 'C03', 'src/nuts.rs', r's/if self.depth > 0 \{\n                if !turning \{\n                    turning = hamiltonian.is_turning\(math, &self.right, &other.right\);/if self.depth > 1 {\n                if !turning {\n                    turning = hamiltonian.is_turning(math, \&self.right, \&other.right);/', 'extra U-turn checks skipped at depth 1'),
 ('m08', 'C03', 'src/nuts.rs', r's/let info = tree.info\(true, None\);/let info = tree.info(false, None);/', 'maxdepth flag never set'),
 ('m09', 'C03', 'src/dynamics/state.rs', r's/if \(Rc::strong_count\(&rc\) == 1\)/if (Rc::strong_count(\&rc) >= 1)/', 'pool recycles live buffers'),
 ('m10', 'C03', 'src/chain.rs', r's/self.state = state;\n        self.last_info = Some\(info\);/self.last_info = Some(info);/', 'next trajectory does not start from the draw'),
 ('m11', 'C05', 'src/dynamics/transformed_hamiltonian.rs', r's/if !logp_error.is_recoverable\(\) \{/if logp_error.is_recoverable() {/', 'recoverable / unrecoverable swapped'),
 ('m12', 'C05', 'src/transform/adapt/diagonal.rs', r's/self.is_good = idx.abs\(\) > 4;/self.is_good = idx.abs() >= 0;/', 'divergent draws near the start feed the mass matrix'),
 ('m13', 'C06', 'src/adapt_strategy.rs', r's/if draw >= self.num_tune \{/if draw > self.num_tune {/', 'one extra tuning draw'),
 ('m14', 'C06', 'src/adapt_strategy.rs', r's/if draw < self.final_step_size_window \{/if draw <= self.final_step_size_window {/', 'mass matrix touched on the first draw of the final window'),
 ('m15', 'C07', 'src/stepsize/dual_avg.rs', r's/w \* \(target - accept_stat\)/w * (accept_stat - target)/', 'dual averaging sign'),
 ('m16', 'C07', 'src/stepsize/adam.rs', r's/\(1.0 - self.settings.beta1\) \* gradient;/(1.0 - self.settings.beta1) * (target - accept_stat);/', 'Adam first moment sign'),
 ('m17', 'C07', 'src/stepsize/dual_avg.rs', r's/\.add\(2. \* diff.min\(0.\).exp\(\) \/ \(1. \+ diff.exp\(\)\)\);/.add(2. * diff.exp() \/ (1. + diff.exp()));/', 'symmetric acceptance statistic can exceed 1'),
 ('m18', 'C08', 'src/transform/diagonal.rs', r's/math.array_mult\(&var, grad_mean, &mut self.mean\);/math.array_mult(&self.stds, grad_mean, &mut self.mean);/', 'mean shifted by sigma instead of sigma^2'),
 ('m19', 'C08', 'src/math/cpu_math.rs', r's/if \(!val.is_finite\(\)\) \| \(val == 0f64\) \{\n                    if let Some\(fill_val\) = fill_invalid \{\n                        \*std_out = fill_val.sqrt\(\);\n                        \*inv_std_out = fill_val.recip\(\).sqrt\(\);\n                    \}\n                \} else \{\n                    let val = val.clamp/if !val.is_finite() {\n                    if let Some(fill_val) = fill_invalid {\n                        *std_out = fill_val.sqrt();\n                        *inv_std_out = fill_val.recip().sqrt();\n                    }\n                } else {\n                    let val = val.clamp/', 'zero estimate accepted (draw_grad)'),
 ('m20', 'C09', 'src/adapt_strategy.rs', r's/self.has_initial_mass_matrix = false;\n//', 'step-size search re-run on every change'),
 ('m21', 'C09', 'src/transform/adapt/diagonal.rs', r's/if collector.is_good \{/if true {/', 'rejected draws counted'),
 ('m22', 'C13', 'src/sampler.rs', r's/\.context\("Failed to generate a new initial position"\)\?;/.context("Failed to generate a new initial position").ok();/', 'init_position error swallowed'),
 ('m23', 'C14', 'src/storage/hashmap.rs', r's/\(HashMapValue::F64\(vec\), Value::F64\(v\)\) => vec.extend\(v\),/(HashMapValue::F64(vec), Value::F64(v)) => vec.extend(v.into_iter().rev()),/', 'vector statistics stored reversed'),
 ('m24', 'C15', 'src/storage/zarr/common.rs', r's/self.current_chunk as u64 \* self.full_at as u64 \+ self.len as u64/self.current_chunk as u64 * self.full_at as u64/', 'total_pushed ignores the partial chunk'),
 ('m25', 'C16', 'src/dynamics/hamiltonian.rs', r's/divergence_draw: info.map\(\|_\| draw\),/divergence_draw: Some(draw),/', 'divergence_draw present on every draw'),
 ('m26', 'C17', 'src/math/util.rs', r's/out1 = simd.mul_add_e_f64s\(\*x1, \*y1, out1\);/out1 = simd.mul_add_e_f64s(*x1, *y1, out0);/', 'unrolled dot product drops an accumulator'),
 ('m27', 'C17', 'src/math/cpu_math.rs', r's/array1.try_as_col_major_mut\(\).unwrap\(\).as_slice_mut\(\),\n            array2.try_as_col_major\(\).unwrap\(\).as_slice\(\),\n        \)\n    \}\n\n    fn array_recip/array1.try_as_col_major_mut().unwrap().as_slice_mut(),\n            array2.try_as_col_major().unwrap().as_slice(),\n        );\n        self.fill_array(array1, 1.0)\n    }\n\n    fn array_recip/', 'array_mult_inplace result overwritten at the dispatch layer'),
 ('m28', 'C18', 'src/mclmc.rs', r's/remaining = prev_remaining - 1;\n                            factor \*= 2.0;/remaining = prev_remaining - 1;/', 'factor never doubled back after a retry'),
 ('m29', 'C18', 'src/mclmc.rs', r's/&& self.draw_count == self.switch_draw/&& self.draw_count + 1 == self.switch_draw/', 'switch one draw early'),
 ('m30', 'C13', 'src/sampler.rs', r's/chain.flush\(\)\?;/let _ = chain.flush();/', 'controller ignores a failing flush'),
 ('m31', 'C13', 'src/sampler.rs', r's/Ok\(\(Some\(err\), trace\)\) => return SamplerWaitResult::Err\(err, Some\(trace\)\),/Ok((Some(_err), trace)) => return SamplerWaitResult::Trace(trace),/', 'wait_timeout reports success although finalisation failed'),
 ('m32', 'C13', 'src/sampler.rs', r's/                result\?;\n                Ok\(output\)/                let _ = result;\n                Ok(output)/', 'controller drops the command-loop error'),
 ('m33', 'C13', 'src/sampler.rs', r's/Ok\(Err\(e\)\) => return SamplerWaitResult::Err\(e, None\),/Ok(Err(_e)) => remaining = timeout.checked_sub(start.elapsed()),/', 'wait_timeout keeps waiting after a chain error'),
 ('m34', 'C09', 'src/transform/adapt/low_rank.rs', r's/self.background_split = self.draws.len\(\);\n        assert/self.background_split = 0;\n        assert/', 'low-rank window: a switch forgets where the background starts (stale draws are never dropped)'),
 ('m35', 'C09', 'src/transform/adapt/low_rank.rs', r's/math.write_to_slice\(&collector.grad, &mut grad\);\n            self.grads.push_back\(grad\);/math.write_to_slice(&collector.draw, &mut grad);\n            self.grads.push_back(grad);/', 'low-rank window stores the draw as its own gradient'),
 ('m36', 'C09', 'src/transform/adapt/low_rank.rs', r's/for _ in 0..self.background_split \{/for _ in 1..self.background_split {/', 'low-rank switch keeps one stale draw'),
 ('e03', 'C07', 'src/stepsize/dual_avg.rs', r's/\(1\. - w\) \* self\.hbar \+ w \* \(target - accept_stat\);/w * (target - accept_stat) + self.hbar * (1. - w);/', 'EQUIVALENT over the reals (operands commuted)'),
 ('e04', 'C06', 'src/adapt_strategy.rs', r's/if draw >= self\.num_tune \{/if !(draw < self.num_tune) {/', 'EQUIVALENT (negated comparison)'),
 ('e05', 'C09', 'src/adapt_strategy.rs', r's/if could_switch && \(!is_late\) \{/if !is_late \&\& could_switch {/', 'EQUIVALENT (operands of && swapped, both pure)'),
 ('e06', 'C18', 'src/mclmc.rs', r's/if remaining_stack\.len\(\) >= max_halvings\.try_into\(\)\.unwrap\(\) \{/let limit: usize = max_halvings.try_into().unwrap();\n                    if !(remaining_stack.len() < limit) {/', 'EQUIVALENT (limit hoisted, comparison negated)'),
 ('e07', 'C15', 'src/storage/zarr/common.rs', r's/if self\.len == self\.full_at \{\n            Some\(self\.finish_chunk\(\)\)/if !(self.len < self.full_at) {\n            Some(self.finish_chunk())/', 'EQUIVALENT on reachable states (len never exceeds full_at)'),
 ('e08', 'C01', 'src/nuts.rs', r's/let \(first, last\) = match direction \{\n            Direction::Forward => \(&self\.left, &other\.right\),\n            Direction::Backward => \(&other\.left, &self\.right\),\n        \};/let (first, last) = if matches!(direction, Direction::Backward) {\n            (\&other.left, \&self.right)\n        } else {\n            (\&self.left, \&other.right)\n        };/', 'EQUIVALENT (match rewritten as if/else)'),
 ('e09', 'C08', 'src/math/cpu_math.rs', r's/if \(!val\.is_finite\(\)\) \| \(val == 0f64\) \{\n                    if let Some\(fill_val\) = fill_invalid \{\n                        \*std_out = fill_val\.sqrt\(\);\n                        \*inv_std_out = fill_val\.recip\(\)\.sqrt\(\);\n                    \}\n                \} else \{\n                    let val = val\.clamp/if val == 0f64 || !val.is_finite() {\n                    if let Some(fill_val) = fill_invalid {\n                        *std_out = fill_val.sqrt();\n                        *inv_std_out = fill_val.recip().sqrt();\n                    }\n                } else {\n                    let val = val.clamp/', 'EQUIVALENT (short-circuit or, operands swapped)'),
 ('e10', 'C02', 'src/dynamics/transformed_hamiltonian.rs', r's/math\.axpy\(&self\.transformed_gradient, &mut self\.velocity, epsilon \/ 2\.\);/math.axpy(\&self.transformed_gradient, \&mut self.velocity, 0.5 * epsilon);/', 'EQUIVALENT (eps\/2 written as 0.5*eps: exact in binary floating point and over the reals)'),
 ('e11', 'C14', 'src/storage/hashmap.rs', r's/\(HashMapValue::F64\(vec\), Value::F64\(v\)\) => vec\.extend\(v\),/(HashMapValue::F64(vec), Value::F64(v)) => {\n                for x in v {\n                    vec.push(x);\n                }\n            }/', 'EQUIVALENT (extend written as a push loop)'),
 ('e12', 'C13', 'src/sampler.rs', r's/            \.as_mut\(\)\n            \.map\(\|v\| v\.flush\(\)\)\n            \.transpose\(\)\?;\n        Ok\(\(\)\)/            .as_mut()\n            .map_or(Ok(()), |v| v.flush())/', 'EQUIVALENT (map+transpose+? written as map_or)'),
 ('m37', 'C15', 'src/storage/zarr/async_impl.rs', r's/                join_handle\n                    \.context\("Failed to await async chunk write operation"\)\?\n                    \.context\("Chunk write operation failed"\)\?;/                let _ = join_handle;/', 'async flush ignores the result of a queued chunk write'),
 ('m38', 'C15', 'src/storage/zarr/async_impl.rs', r's/&self\.arrays\.warmup_param_arrays\[key\]\n                \} else \{\n                    &self\.arrays\.sample_param_arrays\[key\]\n                \};\n                store_zarr_chunk_sync\(&self\.rt_handle, array, temp_chunk, self\.chain\)\?;\n            \}\n        \}\n\n        \/\/ Join all pending writes/\&self.arrays.sample_param_arrays[key]\n                } else {\n                    \&self.arrays.warmup_param_arrays[key]\n                };\n                store_zarr_chunk_sync(\&self.rt_handle, array, temp_chunk, self.chain)?;\n            }\n        }\n\n        \/\/ Join all pending writes/', 'async flush writes partial statistic chunks into the array of the other phase'),
 ('m39', 'C15', 'src/storage/zarr/sync_impl.rs', r's/            self\.last_sample_was_warmup = false;\n        \}\n\n        for \(name, value\) in stats/        }\n\n        for (name, value) in stats/', 'sync backend never leaves the warm-up phase (flush keeps writing partial chunks into the warm-up arrays)'),
 ('m40', 'C15', 'src/storage/zarr/sync_impl.rs', r's/let array = if is_warmup \{\n                &self\.arrays\.warmup_draw_arrays\[name\]\n            \} else \{\n                &self\.arrays\.sample_draw_arrays\[name\]/let array = if !is_warmup {\n                \&self.arrays.warmup_draw_arrays[name]\n            } else {\n                \&self.arrays.sample_draw_arrays[name]/', 'sync backend writes full draw chunks into the array of the other phase'),
 ('m41', 'C18', 'src/math/cpu_math.rs', r's/let coeff_p = 2\.0 \* zeta;/let coeff_p = zeta;/', 'ESH update: weight of the old momentum halved'),
 ('m42', 'C18', 'src/math/cpu_math.rs', r's/let arg = momentum_proj \+ \(1\.0 - momentum_proj\) \* zeta \* zeta;/let arg = momentum_proj + (1.0 - momentum_proj) * zeta;/', 'ESH update: reported kinetic-energy change uses zeta instead of zeta^2'),
 ('m43', 'C18', 'src/math/cpu_math.rs', r's/let delta = step_size \* grad_norm \/ dims_m1;/let delta = step_size * grad_norm * dims_m1;/', 'ESH update: delta scaled by (n-1) instead of 1\/(n-1)'),
 ('m44', 'C12', 'src/sampler.rs', r's/                        Ok\(ChainCommand::Pause\) => \{\n                            msg = stop_marker_rx\.recv\(\)\.map_err\(\|e\| e\.into\(\)\);\n                            continue;\n                        \}/                        Ok(ChainCommand::Pause) => {\n                            msg = stop_marker_rx.try_recv();\n                            continue;\n                        }/', 'a paused chain polls instead of blocking: it goes on drawing as soon as the queue is empty'),
 ('m45', 'C12', 'src/sampler.rs', r's/                                for chain in chains\.iter\(\) \{\n                                    \/\/ This failes if the thread is done\.\n                                    \/\/ We just want to ignore those threads\.\n                                    let _ = chain\.pause\(\);/                                for chain in chains.iter().skip(1) {\n                                    \/\/ This failes if the thread is done.\n                                    \/\/ We just want to ignore those threads.\n                                    let _ = chain.pause();/', 'pause() is answered although the first chain was never told to pause'),
 ('m46', 'C12', 'src/sampler.rs', r's/let _ = chain\.resume\(\);/let _ = chain.pause();/', 'Continue sends Pause to the chains'),
 ('m47', 'C12', 'src/sampler.rs', r's/                    draw \+= 1;\n                    if draw == draws \{\n                        break;\n                    \}\n\n                    msg = stop_marker_rx\.try_recv\(\);/                    draw += 1;\n                    if draw == draws {\n                        break;\n                    }\n                    if draw % 2 == 0 {\n                        msg = stop_marker_rx.try_recv();\n                    }/', 'the command channel is polled only after every second draw'),
 ('m48', 'C15', 'src/storage/zarr/async_impl.rs', r's/while writes_guard\.len\(\) >= max_queued_writes \{/while writes_guard.len() > max_queued_writes {/', 'async write queue may hold one write more than max_queued_writes'),
 ('m49', 'C15', 'src/storage/zarr/async_impl.rs', r's/                out\.context\("Failed to await previous trace write operation"\)\?\n                    \.context\("Chunk write operation failed"\)\?;/                let _ = out;/', 'queue_write drops the result of an earlier write it reaps'),
 ('e13', 'C12', 'src/sampler.rs', r's/                        Err\(TryRecvError::Empty\) => \{\}\n                        Ok\(ChainCommand::Pause\) => \{\n                            msg = stop_marker_rx\.recv\(\)\.map_err\(\|e\| e\.into\(\)\);\n                            continue;\n                        \}\n                        Ok\(ChainCommand::Resume\) => \{\}/                        Ok(ChainCommand::Pause) => {\n                            msg = stop_marker_rx.recv().map_err(|e| e.into());\n                            continue;\n                        }\n                        Err(TryRecvError::Empty) | Ok(ChainCommand::Resume) => {}/', 'EQUIVALENT (match arms merged and reordered)'),
 ('e14', 'C03', 'src/nuts.rs', r's/            if self\.depth > 0 \{\n                if !turning \{/            if self.depth >= 1 {\n                if !turning {/', 'EQUIVALENT (depth > 0 as depth >= 1 on an unsigned depth)'),
 ('e15', 'C13', 'src/sampler.rs', r's/                    Ok\(\(None, trace\)\) => return SamplerWaitResult::Trace\(trace\),\n                    Err\(err\) => return SamplerWaitResult::Err\(err, None\),/                    Err(err) => return SamplerWaitResult::Err(err, None),\n                    Ok((None, trace)) => return SamplerWaitResult::Trace(trace),/', 'EQUIVALENT (match arms reordered)'),
 ('m50', 'C17', 'src/math/cpu_math.rs', r's/            \.for_each\(\|\(s, &v\)\| \*s \*= v - 1\.0\);\n\n        \/\/ dest = rhs \+ U \* scratch/            .for_each(|(s, \&v)| *s *= v);\n\n        \/\/ dest = rhs + U * scratch/', 'apply_lowrank_transform scales the projection by vals instead of vals - 1'),
 ('m51', 'C17', 'src/math/cpu_math.rs', r's/let inner_prod = vecs \* \(vals\.as_diagonal\(\) \* \(&trafo\) - \(&trafo\)\) \+ rhs;\n        let scaled = stds\.as_diagonal\(\) \* inner_prod;/let inner_prod = vecs * (vals.as_diagonal() * (\&trafo) - (\&trafo)) + rhs;\n        let scaled = inner_prod;/', 'array_mult_eigs forgets the outer diagonal scaling'),
 ('m52', 'C06', 'src/adapt_strategy.rs', r's/let is_last = draw == self\.num_tune - 1;\n        self\.step_size\.update_stepsize\(rng, hamiltonian, is_last\);\n        Ok\(\(\)\)\n    \}\n\n    fn new_collector/let is_last = draw != self.num_tune - 1;\n        self.step_size.update_stepsize(rng, hamiltonian, is_last);\n        Ok(())\n    }\n\n    fn new_collector/', 'final window: the averaged step is installed on every draw except the last tuning draw (found by the mutation campaign)'),
 ('m53', 'C02', 'src/dynamics/transformed_hamiltonian.rs', r's/let epsilon = \(sign as f64\) \* self\.step_size \* step_size_factor;/let epsilon = (sign as f64) * self.step_size \/ step_size_factor;/', 'leapfrog divides by the step-size factor (mutation campaign)'),
 ('m54', 'C18', 'src/dynamics/transformed_hamiltonian.rs', r's/let nu = \(\(2\.0 \* half_step \/ momentum_decoherence_length\)\.exp_m1\(\) \/ n\)\.sqrt\(\);/let nu = ((2.0 * half_step * momentum_decoherence_length).exp_m1() \/ n).sqrt();/', 'microcanonical refresh noise scale uses h*L instead of h\/L (mutation campaign)'),
 ('m55', 'C07', 'src/stepsize/adapt.rs', r's/                dir,\n                1\.0,\n                state\.point\(\)\.initial_energy\(\),/                dir,\n                1.1,\n                state.point().initial_energy(),/', 'step-size search measures the acceptance of a step 10% larger than the one it adopts (mutation campaign)'),
 ('m56', 'C14', 'src/storage/hashmap.rs', r's/if first_error\.is_none\(\) \{/if first_error.is_some() {/', 'HashMap trace assembly never records a per-chain error (mutation campaign)'),
 ('m57', 'C08', 'src/transform/diagonal.rs', r's/math\.axpy\(position, &mut self\.mean, 1\.0\);/math.axpy(position, \&mut self.mean, 2.0);/', 'initial mass matrix: mean uses twice the position (mutation campaign)'),
 ('m58', 'C05', 'src/external_adapt_strategy.rs', r's/            if !math\.array_all_finite\(point\.gradient\(\)\) \{\n                return;\n            \}\n\n            self\.draws\.push\(math\.copy_array\(point\.position\(\)\)\);\n            self\.grads\.push\(math\.copy_array\(point\.gradient\(\)\)\);\n            self\.logps\.push\(point\.logp\(\)\);\n        \}\n    \}\n\n    fn register_draw/            if math.array_all_finite(point.gradient()) {\n                return;\n            }\n\n            self.draws.push(math.copy_array(point.position()));\n            self.grads.push(math.copy_array(point.gradient()));\n            self.logps.push(point.logp());\n        }\n    }\n\n    fn register_draw/', 'flow collector keeps exactly the points with a non-finite gradient (mutation campaign)'),
 ('m59', 'C18', 'src/mclmc.rs', r's/                    remaining -= 1;\n/                    remaining -= 0;\n/', 'the step loop of the MCLMC kernel never counts a step down (does not terminate; mutation campaign)'),
 ('m60', 'C02', 'src/transform/diagonal.rs', r's/        self\.logdet = math\.array_sum_ln\(&self\.inv_stds\);\n        self\.id \+= 1;\n    \}\n\n    pub\(crate\) fn logdet/        self.logdet = math.array_sum_ln(\&self.inv_stds);\n        self.id += 0;\n    }\n\n    pub(crate) fn logdet/', 'set_transform does not bump the id (mutation campaign)'),
 ('m61', 'C08', 'src/transform/low_rank.rs', r's/self\.logdet = inner\.logdet\(\) \+ self\.diag\.logdet\(\);/self.logdet = inner.logdet() - self.diag.logdet();/', 'low-rank update subtracts the diagonal log-determinant (mutation campaign)'),
 ('m62', 'C08', 'src/transform/low_rank.rs', r's/        self\.inner = Some\(inner\);\n        self\.id \+= 1;/        self.inner = Some(inner);\n        self.id += 0;/', 'low-rank update does not bump the id (mutation campaign)'),
 ('m63', 'C08', 'src/transform/low_rank.rs', r's/vals\.iter_mut\(\)\.for_each\(\|x\| \*x = x\.recip\(\)\);/vals.iter_mut().for_each(|x| *x = x.sqrt().recip());/', 'InnerMatrix::new stores lambda^(-1\/4) as the inverse square root'),
 ('m64', 'C18', 'src/mclmc.rs', r's/        self\.draw_count \+= 1;\n        self\.state = state;\n        self\.last_info = Some\(info\);\n        Ok\(\(position, progress\)\)/        self.draw_count -= 1;\n        self.state = state;\n        self.last_info = Some(info);\n        Ok((position, progress))/', 'MclmcChain::draw counts draws down (mutation campaign)'),
 ('m66', 'C03', 'src/nuts.rs', r's/            direction,\n            1\.0,\n            start\.point\(\)\.initial_energy\(\),\n            options\.max_energy_error,/            direction,\n            1.1,\n            start.point().initial_energy(),\n            options.max_energy_error,/', 'the tree integrates with 1.1 x the step size it reports (mutation campaign)'),
 ('m67', 'C03', 'src/nuts.rs', r's/            start\.point\(\)\.initial_energy\(\),\n            options\.max_energy_error,\n            collector,/            start.point().initial_energy(),\n            1000.0,\n            collector,/', 'the tree ignores the configured max_energy_error'),
 ('m68', 'C02', 'src/dynamics/transformed_hamiltonian.rs', r's/out\.kinetic_energy = self\.kinetic_energy\n                    \+ math\.esh_momentum_update\(/out.kinetic_energy = self.kinetic_energy\n                    - math.esh_momentum_update(/', 'first microcanonical half-step subtracts the reported kinetic-energy change (mutation campaign)'),
 ('m69', 'C08', 'src/transform/adapt/diagonal.rs', r's/        if self\.current_count\(\) < 3 \{\n            return false;/        if self.current_count() < 3 {\n            return true;/', 'diagonal adapt reports a change with fewer than three samples (mutation campaign)'),
 ('m70', 'C06', 'src/external_adapt_strategy.rs', r's/\(\(num_tune as f64\) \* \(1f64 - options\.step_size_window\)\)\.floor\(\) as u64/((num_tune as f64) * (1f64 + options.step_size_window)).floor() as u64/', 'flow adaptation: final window placed after the end of warm-up (mutation campaign)'),
 ('m71', 'C09', 'src/transform/adapt/low_rank.rs', r's/            background_split: 0,/            background_split: 1,/', 'low-rank strategy starts with a background split of 1: the first switch drops the start point only by accident of the count (mutation campaign)'),
 ('m72', 'C03', 'src/nuts.rs', r's/        self\.depth \+= 1;/        self.depth += 0;/', 'merge_into never increases the depth: the doubling loop does not terminate (mutation campaign)'),
 ('e16', 'C06', 'src/adapt_strategy.rs', r's/let final_second_step_size = num_tune\.saturating_sub\(step_size_window\);/let final_second_step_size = ((1.0 - options.step_size_window).max(0.0) * num_tune_f).floor() as u64; let _ = step_size_window;/', 'NOT A VIOLATION: the final window is still the last step_size_window fraction of warm-up, only rounded the other way (at most one draw)'),
 ('e17', 'C09', 'src/transform/adapt/low_rank.rs', r's/        for _ in 0\.\.self\.background_split \{\n            self\.draws\.pop_front\(\)\.expect\("Could not drop draw"\);\n            self\.grads\.pop_front\(\)\.expect\("Could not drop gradient"\);\n        \}/        let keep = self.draws.len() - self.background_split;\n        while self.draws.len() > keep {\n            self.draws.pop_front().expect("Could not drop draw");\n            self.grads.pop_front().expect("Could not drop gradient");\n        }/', 'EQUIVALENT (drop loop written as a while over the remaining length)'),
 ('e18', 'C12', 'src/sampler.rs', r's/                    draw \+= 1;\n                    if draw == draws \{\n                        break;\n                    \}/                    draw += 1;\n                    if draw >= draws {\n                        break;\n                    }/', 'EQUIVALENT (== as >= on a counter that advances by one)'),
 ('m73', 'C18', 'src/sampler.rs', r's/let switch_draw = \(self\.trajectory_switch_fraction \* self\.num_tune as f64\) as u64;\n        let rng = ChaCha8Rng::try_from_rng\(rng\)\.expect\("Could not seed rng"\);\n        let stats_options = self\.stats_options::<M>\(\);\n        MclmcChain::new\(\n            math,\n            hamiltonian,\n            strategy,/let switch_draw = (self.trajectory_switch_fraction \/ self.num_tune as f64) as u64;\n        let rng = ChaCha8Rng::try_from_rng(rng).expect("Could not seed rng");\n        let stats_options = self.stats_options::<M>();\n        MclmcChain::new(\n            math,\n            hamiltonian,\n            strategy,/', 'an MCLMC preset computes the switch draw as fraction \/ num_tune (mutation campaign)'),
 ('m74', 'C08', 'src/transform/low_rank.rs', r's/        self\.logdet = self\.diag\.logdet\(\);\n        self\.id \+= 1;/        self.logdet = self.diag.logdet();\n        self.id += 0;/', 'update_from_grad does not bump the id (mutation campaign)'),
 ('m75', 'C08', 'src/transform/diagonal.rs', r's/        math\.copy_into\(draw_mean, &mut self\.mean\);\n        self\.logdet = math\.array_sum_ln\(&self\.inv_stds\);\n        self\.id \+= 1;/        math.copy_into(draw_mean, \&mut self.mean);\n        self.logdet = math.array_sum_ln(\&self.inv_stds);\n        self.id -= 1;/', 'update_diag_draw counts the id down (mutation campaign)'),
 ('m76', 'C08', 'src/math/cpu_math.rs', r's/                \} else \{\n                    let val = val\.clamp\(clamp\.0, clamp\.1\);\n                    \*std_out = val\.sqrt\(\);\n                    \*inv_std_out = val\.recip\(\)\.sqrt\(\);\n                \}\n            \}\);\n        \}\);\n    \}\n\n    fn array_update_var_inv_std_grad/                } else {\n                    let val = val.clamp(clamp.1, clamp.1);\n                    *std_out = val.sqrt();\n                    *inv_std_out = val.recip().sqrt();\n                }\n            });\n        });\n    }\n\n    fn array_update_var_inv_std_grad/', 'draw-grad scale kernel clamps to the upper bound only (mutation campaign)'),
 ('m77', 'C02', 'src/dynamics/transformed_hamiltonian.rs', r's/            if self\.kinetic_energy_kind == KineticEnergyKind::Microcanonical \{\n                math\.array_normalize\(&mut point\.velocity\);/            if self.kinetic_energy_kind != KineticEnergyKind::Microcanonical {\n                math.array_normalize(\&mut point.velocity);/', 'fresh momentum is normalised for the Euclidean kind and not for the microcanonical one (mutation campaign)'),
 ('m78', 'C05', 'src/dynamics/transformed_hamiltonian.rs', r's/        if !math\.array_all_finite\(&self\.untransformed_gradient\) \{\n            return false;\n        \}\n        if !math\.array_all_finite\(&self\.untransformed_position\) \{\n            return false;\n        \}\n        true\n    \}\n\n    fn check_all/        if math.array_all_finite(\&self.untransformed_gradient) {\n            return false;\n        }\n        if !math.array_all_finite(\&self.untransformed_position) {\n            return false;\n        }\n        true\n    }\n\n    fn check_all/', 'check_untransformed accepts exactly the non-finite gradients (mutation campaign)'),
 ('m79', 'C06', 'src/chain.rs', r's/            draw_count: 0,/            draw_count: 1,/', 'a new NUTS chain starts counting draws at 1 (mutation campaign)'),
 ('m80', 'C07', 'src/stepsize/adapt.rs', r's/    pub fn update_estimator_early\(&mut self\) \{\n        match self\.adaptation\.as_mut\(\) \{\n            None => \{\}\n            Some\(Either::Left\(adapt\)\) => \{\n                adapt\.advance\(self\.last_mean_tree_accept,/    pub fn update_estimator_early(\&mut self) {\n        match self.adaptation.as_mut() {\n            None => {}\n            Some(Either::Left(adapt)) => {\n                adapt.advance(self.last_sym_mean_tree_accept,/', 'early dual-averaging updates are fed the symmetric statistic'),
 ('m81', 'C08', 'src/transform/adapt/low_rank.rs', r's/let sigma = \(draw_var \/ grad_var\)\.sqrt\(\)\.sqrt\(\);/let sigma = (draw_var \/ grad_var).sqrt();/', 'low-rank rescaling uses the variance ratio\'s square root instead of its fourth root'),
 ('m82', 'C08', 'src/transform/adapt/low_rank.rs', r's/mu\[row\] = draw_mean \+ sigma \* sigma \* grad_mean;/mu[row] = draw_mean - sigma * sigma * grad_mean;/', 'low-rank translation moves away from the mode'),
 ('m83', 'C08', 'src/transform/adapt/low_rank.rs', r's/            \.for_each\(\|v\| \*v = \(\*v\) \* grad_scale\);/            .for_each(|v| *v = (*v) * draw_scale);/', 'low-rank rescaling divides the gradients by sigma'),
 ('m84', 'C15', 'src/storage/zarr/async_impl.rs', r's/            data\.chunk_idx as u64 \* data\.full_at as u64,\n        \];\n        let shape = vec!\[1u64, data\.len as u64\];\n        let subset = ArraySubset::new_with_start_shape\(start, shape\)\n            \.context\("Failed to build string chunk subset"\)\?;\n        return array\n            \.async_store/            data.chunk_idx as u64 * data.len as u64,\n        ];\n        let shape = vec![1u64, data.len as u64];\n        let subset = ArraySubset::new_with_start_shape(start, shape)\n            .context("Failed to build string chunk subset")?;\n        return array\n            .async_store/', 'async writer: string chunks start at chunk_idx * len instead of chunk_idx * chunk size'),
 ('m85', 'C15', 'src/storage/zarr/async_impl.rs', r's/(async fn store_zarr_chunk_async.*?)shape\[1\] = data\.len as u64;/$1shape[1] = data.full_at as u64;/s', 'async writer: partial chunk subset has the full chunk length'),
 ('m86', 'C15', 'src/storage/zarr/async_impl.rs', r's/(async fn store_zarr_chunk_async.*?)let chunk_vec: Vec<_> = once\(chain_chunk_index as u64\)\n        \.chain\(once\(data\.chunk_idx as u64\)\)/$1let chunk_vec: Vec<_> = once(data.chunk_idx as u64)\n        .chain(once(chain_chunk_index as u64))/s', 'async writer: chain row and chunk index swapped'),
 ('m87', 'C14', 'src/storage/csv.rs', r's/                \} else \{\n                    vec\[0\]\.to_string\(\)\n                \}\n            \}\n            Value::I64/                } else {\n                    vec[1].to_string()\n                }\n            }\n            Value::I64/', 'CSV: an unsigned vector cell prints its second element'),
 ('m88', 'C14', 'src/storage/csv.rs', r's/if vec\[0\] \{ "1" \} else \{ "0" \}\.to_string\(\)/if vec[0] { "0" } else { "1" }.to_string()/', 'CSV: boolean vector cells print inverted'),
 ('m89', 'C07', 'src/stepsize/adapt.rs', r's/hamiltonian\.initialize_trajectory\(math, &mut state, true, rng\)\?;\n\n        let mut collector = AcceptanceRateCollector::new\(\);\n\n        collector\.register_init\(math, &state, options\);\n\n        \*hamiltonian\.step_size_mut\(\) = self\.options\.initial_step;\n\n        let state_next/hamiltonian.initialize_trajectory(math, \&mut state, false, rng)?;\n\n        let mut collector = AcceptanceRateCollector::new();\n\n        collector.register_init(math, \&state, options);\n\n        *hamiltonian.step_size_mut() = self.options.initial_step;\n\n        let state_next/', 'step-size search starts without resampling the momentum (mutation campaign 5)'),
 ('m90', 'C14', 'src/storage/csv.rs', r's/dim_idx \+ 1,/dim_idx + 0,/', 'CSV: the column enumeration recurses without advancing the dimension (mutation campaign 5: the check stopped with exit 2)'),
 ('e19', 'C07', 'src/stepsize/adapt.rs', r's/let dir = if accept_stat > self\.options\.target_accept \{/let dir = if accept_stat >= self.options.target_accept {/', 'NOT A VIOLATION: a tie between the first trial and the target is resolved the other way'),
 ('e20', 'C05', 'src/external_adapt_strategy.rs', r's/            if energy_error > self\.max_energy_error \{\n                return;\n            \}\n\n            if !math\.array_all_finite\(point\.position\(\)\) \{\n                return;\n            \}\n            if !math\.array_all_finite\(point\.gradient\(\)\) \{\n                return;\n            \}\n\n            self\.draws\.push\(math\.copy_array\(point\.position\(\)\)\);\n            self\.grads\.push\(math\.copy_array\(point\.gradient\(\)\)\);\n            self\.logps\.push\(point\.logp\(\)\);\n        \}\n    \}\n\n    fn register_draw/            if energy_error >= self.max_energy_error {\n                return;\n            }\n\n            if !math.array_all_finite(point.position()) {\n                return;\n            }\n            if !math.array_all_finite(point.gradient()) {\n                return;\n            }\n\n            self.draws.push(math.copy_array(point.position()));\n            self.grads.push(math.copy_array(point.gradient()));\n            self.logps.push(point.logp());\n        }\n    }\n\n    fn register_draw/', 'NOT A VIOLATION: an energy error exactly at the limit is dropped by the flow collector'),
 ('e21', 'C05', 'src/transform/adapt/diagonal.rs', r's/self\.is_good = idx\.abs\(\) > 4;/self.is_good = idx.abs() > 6;/', 'NOT A VIOLATION: divergent draws are rejected a little further from the start'),
 ('e01', 'C18', 'src/mclmc.rs', r's/&& self.draw_count == self.switch_draw/&& self.draw_count >= self.switch_draw/', 'EQUIVALENT on reachable states: must not be flagged'),
 ('e02', 'C08', 'src/math/cpu_math.rs', r's/\*mean \+= diff \* diff_scale;\n                \*var \+= diff \* diff;/*mean += diff * diff_scale;\n                *var += diff * (x - *mean);/', 'EQUIVALENT for the property (ratio of variances unchanged): must not be flagged'),
]

def sh(cmd, cwd=V, timeout=2400, env=None):
    p = subprocess.run(cmd, shell=True, cwd=cwd, stdout=subprocess.PIPE, stderr=subprocess.STDOUT, text=True, timeout=timeout, env=env)
    return p.returncode, p.stdout

def clean(wt):
    rc, out = sh('git status --porcelain', wt)
    return out.strip() == ''

def run_check(cid, wt, outd):
    env = dict(os.environ, VERIF_REPO=wt, VERIF_OUT=outd)
    rc, out = sh('./check %s' % cid, env=env)
    viol = re.findall(r'VIOLATION property=\S+ replay=\S+/(\S+)\.json', out)
    if rc not in (0, 1): print('--- %s exit %s, tail of output:\n%s\n---' % (cid, rc, out[-1500:]), flush=True)
    return rc, viol

def job(item, wt, outd):
    kind = item[0]
    if kind == 'mut':
        _, mid, cid, f, subst, what = item
        t0 = time.time()
        sh("perl -0pi -e '%s' %s" % (subst.replace("'", "'\\''"), f), wt)
        applied = not clean(wt)
        rc, viol = (None, [])
        if applied:
            try: rc, viol = run_check(cid, wt, outd)
            finally: sh('git checkout -- .', wt)
        expect_flag = not mid.startswith('e')
        ok = applied and ((rc == 1 and bool(viol)) if expect_flag else (rc == 0))
        print(mid, cid, 'applied' if applied else 'NOT APPLIED', 'exit', rc, viol[:3], 'OK' if ok else '*** UNEXPECTED ***', flush=True)
        return [{'id': mid, 'check': cid, 'what': what, 'applied': applied, 'exit': rc, 'obligations': viol[:6], 'as_expected': bool(ok), 'seconds': round(time.time() - t0, 1)}]
    _, name, d, checks = item
    rc0, out = sh('git apply --check %s/patch.diff' % d, wt)
    if rc0 != 0:
        print(name, 'patch does not apply'); return [{'id': name, 'check': checks[0], 'applied': False, 'as_expected': False, 'what': 'seeded change (patch no longer applies)'}]
    sh('git apply %s/patch.diff' % d, wt); res = []
    try:
        for c in checks:
            t0 = time.time(); rc, viol = run_check(c, wt, outd)
            ok = rc == 1 and bool(viol)
            if name in OUTSIDE: ok = rc == 0          # documented as outside every claim: the check must stay quiet rather than stop with exit 2
            res.append({'id': name, 'check': c, 'what': 'seeded change' + (' (outside the claim: %s)' % OUTSIDE[name] if name in OUTSIDE else ''), 'applied': True, 'exit': rc, 'obligations': viol[:6], 'as_expected': ok, 'seconds': round(time.time() - t0, 1)})
            print(name, c, 'exit', rc, viol[:3], ('OK' if name not in OUTSIDE else 'not caught, as documented (outside)') if ok else '*** MISSED ***', flush=True)
    finally: sh('git checkout -- . && git clean -fdq', wt)
    return res

OUTSIDE = {'C08-4': 'floating-point cancellation in rescale_points; identical over the exact reals C08 is decided in'}

def main():
    import queue, threading, shutil
    args = [a for a in sys.argv[1:] if not a.startswith('-j')]; nj = int(next((a[2:] for a in sys.argv[1:] if a.startswith('-j')), '4'))
    only = set(args)
    items = []
    for (mid, cid, f, subst, what) in MUTATIONS:
        if only and mid not in only and cid not in only: continue
        items.append(('mut', mid, cid, f, subst, what))
    for d in sorted(glob.glob(os.path.join(V, 'seeded', '*'))):
        name = os.path.basename(d); cid = name.split('-')[0]
        if only and name not in only and cid not in only: continue
        items.append(('seed', name, d, {'C03-2': ['C02'], 'C05-2': ['C05', 'C03'], 'C02-3': ['C17'], 'C05-4': ['C17'], 'C16-4': ['C18'], 'C09-4': ['C08'], 'C02-4': ['C17']}.get(name, [cid])))
    base = '/tmp/verif-selftest-%d' % os.getpid(); os.makedirs(base)
    q = queue.Queue(); [q.put(i) for i in items]; results = []; lk = threading.Lock()
    def worker(k):
        wt = '%s/wt%d' % (base, k); outd = '%s/out%d' % (base, k); os.makedirs(outd)
        # scratch copy of /repo's current working tree (not of HEAD): worktree at HEAD + the working-tree diff
        sh('git worktree add --detach %s HEAD -f' % wt, R)
        rc, dirty = sh('git status --porcelain', R)
        if dirty.strip():    # /repo has uncommitted changes: carry them over and make them the scratch baseline
            sh('git diff HEAD | (cd %s && git apply -)' % wt, R); sh('git add -A && git -c user.email=x -c user.name=x commit -qm wt', wt)
        try:
            while True:
                try: it = q.get_nowait()
                except queue.Empty: break
                try: r = job(it, wt, outd)
                except Exception as e: r = [{'id': it[1], 'check': '?', 'as_expected': False, 'what': 'self-test error: %r' % (e,)}]
                with lk: results.extend(r)
        finally:
            sh('git worktree remove --force %s' % wt, R)
    ths = [threading.Thread(target=worker, args=(k,)) for k in range(min(nj, max(1, len(items))))]
    [t.start() for t in ths]; [t.join() for t in ths]
    shutil.rmtree(base, ignore_errors=True); sh('git worktree prune', R)
    results.sort(key=lambda r: r['id'])
    if not only: json.dump({'at': time.strftime('%Y-%m-%dT%H:%M:%SZ', time.gmtime()), 'results': results}, open(os.path.join(V, 'selftest_results.json'), 'w'), indent=1)
    bad = [r for r in results if not r['as_expected']]
    for r in bad: print('UNEXPECTED', r)
    print('%d/%d as expected' % (len(results) - len(bad), len(results)))
    sys.exit(0 if not bad else 1)

if __name__ == '__main__': main()
