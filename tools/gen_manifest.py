#!/usr/bin/env python3
"""regenerates MANIFEST.json from the table below (kept in one place so that it stays valid)"""
import json, os
V = os.path.dirname(os.path.dirname(os.path.abspath(__file__)))
CHECKS = {
 'C07': dict(level='model_checking', design='4/C07',
   text='Bounded symbolic verification: DualAverage::{new,advance,current_step_size*}, Adam::advance, AcceptanceRateCollector::register_leapfrog and RunningMean::current are executed symbolically from the MIR of the current tree; monotonicity (relational 1-step induction), the clamp/positivity bounds, the documented recurrences, the Adam sign rule and the [0,1] range of every acceptance statistic are discharged as SMT queries over all real-valued states. One inductive step covers histories of any length; rounding is outside the claim.',
   note='floats as exact reals; exp/ln/sqrt/pow uninterpreted with the listed axiom instances; rustc MIR printer, the mirsmt translator (validated on seeded inputs against closed formulas in doubles) and z3 are trusted',
   technique='SMT (z3) over symbolic execution of rustc MIR; relational one-step induction over the reals'),
 'C17': dict(level='model_checking', design='4/C17',
   text='Bounded symbolic verification of the ten SIMD kernels of src/math/util.rs: the real WithSimd::with_simd bodies and all their closures are executed from the MIR for every length 0..=130 and lane counts 2, 4 and 8 with every element symbolic; element-wise kernels must produce, element by element, the documented scalar formula (equal over the reals and one of the listed IEEE expression shapes, so NaN/inf propagate identically) and leave every other element untouched; reductions must equal the exact sum of the scalar terms and feed exactly those product terms to the add/fma tree.',
   note='pulp::Simd is modelled lane-wise (the x86 intrinsics behind V3/V4 are trusted); lengths above 130 and the faer-based low-rank products are outside; rustc MIR printer, mirsmt translator (validated on seeded concrete inputs), z3',
   technique='SMT (z3) over symbolic execution of rustc MIR; one query per (kernel, lanes, length, policy) with all element values symbolic'),
 'C01': dict(level='model_checking', design='4/C01',
   text='Bounded symbolic verification of the real nuts::draw / NutsTree::{new,extend,merge_into,single_step,info} MIR against an oracle Hamiltonian with arbitrary positive site weights, an arbitrary U-turn bit per ordered pair of sites and arbitrary random words: (1) re-rooting invariance - from every point of every accepted trajectory the mirrored doubling choices rebuild the same trajectory with the same depth and stop reason; (2) detailed balance w[r] P(r->k|B) = w[k] P(k->r|B) of the multinomial selection for all weights (selection probabilities obtained by expanding the accept bits of the merged draw expression); (3) one fair direction bit per attempted doubling; plus the lemma logaddexp(a,b) = ln(e^a+e^b) from its own MIR.',
   note='maxdepth <= 3 (re-rooting) / <= 2 (detailed balance) in the quick tier, 4 / 3 thorough; exact reals with weights in log normal form; rounding, deeper trees and the integrator (C02) are outside; oracle Hamiltonian, rand contracts, MIR printer, translator, z3 trusted',
   technique='SMT (z3) over symbolic execution of rustc MIR with an oracle environment; path pairs (forward, re-rooted) and NRA queries for detailed balance'),
 'C03': dict(level='model_checking', design='4/C03',
   text='Bounded symbolic verification of nuts::draw from the MIR with faults enabled (every leapfrog ok / divergent / unrecoverable, symbolic per site) for every maxdepth and mindepth within the bound: the returned state is the start or a state reached in the accepted trajectory (never in a rejected or faulty sub-tree), depth/steps/index bounds hold, index 0 iff unmoved, the stop reason and depth agree on every path with an independent symbolic reference of the doubling and U-turn rule over the same tables (never earlier or later), the maxdepth flag is exact, momentum is refreshed exactly once before the first step, dim = 0 and target_integration_time = Some(t) are covered separately.',
   note='one transition from an arbitrary chain state; maxdepth <= 3 quick / <= 5 thorough; State handles abstract (the Rc pool protocol is not decided here); statistics extraction of NutsChain and the pool are listed as outside until built',
   technique='SMT (z3) over symbolic execution of rustc MIR with an oracle environment; differential against a symbolic reference rule'),
 'C05': dict(level='model_checking', design='4/C05',
   text='Bounded symbolic verification: (1) the real TransformedHamiltonian::leapfrog MIR for the three kinetic-energy kinds and both directions with the density/transformation as an arbitrary-result oracle - unrecoverable error => Err, recoverable => Divergence carrying the error, non-finite or too large energy error => Divergence with that error, otherwise Ok with finite energy error and finite log-density, collector notified exactly once; (2) the tree discards the faulty sub-tree at every fault position and returns Err iff the first fault reached is unrecoverable, with no reachable panic; (5) the mass-matrix collector rejects divergent draws near the start; (6) init_state rejects non-finite or zero-gradient starts.',
   note='FP64u policy for the energy comparison (uninterpreted arithmetic, IEEE comparisons, lemma proved bit-precisely); one inductive chain step; step-size search and variance update guards are claimed under C07/C08 once built; user-code panics outside',
   technique='SMT (z3) over symbolic execution of rustc MIR; fault position and kind are symbolic variables'),
 'C02': dict(level='model_checking', design='4/C02',
   text='Bounded symbolic verification of the real TransformedHamiltonian::leapfrog / initialize_trajectory, TransformedPoint half-steps and DiagMassMatrix / LowRankMassMatrix transformation functions from the MIR over exact reals (dimension 1-2 quick, 1-3 thorough; rank 0 and 1): the step in whitened coordinates is the leapfrog scheme with the density evaluated at x\' = F(y\') and the gradient pulled back by J^T; for diagonal / rank-0 transformations it equals the textbook leapfrog for M^-1 = F F^T in the original space directly, for rank 1 through the discharged premises (F affine with Jacobian J, pull-back = J^T, F^-T J^T = id); forward then backward step returns to the start; the transformation is a bijection with consistent inverse, gradient pull-back and log-determinant; initialize_trajectory starts every trajectory with index 0, energy of the current transformation and N(0,I) momentum; ExactNormal conserves energy exactly on a standard normal.',
   note='Math methods by algebraic meaning (C17 checks the CPU kernels), density as an uninterpreted function with uninterpreted gradient, low-rank representation invariant (unit eigenvector, vals_sqrt_inv = 1/vals_sqrt) assumed; rounding, rank > 1, the O(eps^2) statement and the ESH closed form are outside',
   technique='SMT (z3, NRA + uninterpreted functions) over symbolic execution of rustc MIR; differential against the textbook scheme'),
 'C06': dict(level='model_checking', design='4/C06',
   text='One call of the real GlobalStrategy::adapt(draw) MIR (with the real step-size Strategy / DualAverage / Adam code inlined) from an arbitrary schedule state satisfying an inductive invariant, for dual averaging, Adam and fixed step size with and without jitter: the invariant is preserved and established by GlobalStrategy::new (which must not panic for any num_tune >= 0), is_tuning() after adapt(d) <=> d < num_tune, the mass-matrix strategy is not touched from the final step-size window on, after warm-up no estimator advances and the installed step is (final averaged step) x jitter, the last tuning draw installs the averaged step; Progress.tuning is read after adapt() in NutsChain::draw and MclmcChain::draw (dominance on the MIR CFG). One inductive step covers warm-ups of any length.',
   note='mass-matrix strategy, Hamiltonian, RNG and the step-size search are environment oracles; integers < 2^32, 1 <= growth <= 1024, 0 < jitter < 1; exact reals; three genuine defects found this way were repaired (fix: commits, see known_findings.json)',
   technique='SMT (z3) over symbolic execution of rustc MIR; one-step induction from an arbitrary state + CFG dominance check'),
 'C09': dict(level='model_checking', design='4/C09',
   text='Same one-step exploration of GlobalStrategy::adapt as C06, asserting the window schedule against a reference written from the property: a switch happens iff the background estimator holds a full window of accepted draws and the next (grown) window still fits before the final step-size window; after a switch the foreground is the old background and the background is empty; window size grows by the factor only on main-phase switches and never shrinks; A::adapt is called on switches and every update_freq draws; the first transformation change re-runs the step-size search, later ones do not; the symmetric acceptance statistic is used exactly when no further window fits and in the final window. The oracle contract of the mass-matrix strategy is checked on the real DiagAdaptStrategy (update_estimators counts a draw iff it is good, switch swaps and empties).',
   note='as C06; the low-rank strategy window (VecDeque) contract is listed as outside until built',
   technique='SMT (z3) over symbolic execution of rustc MIR; one-step induction, differential against a reference schedule'),
 'C08': dict(level='model_checking', design='4/C08',
   text='Bounded symbolic verification of the diagonal mass-matrix estimator from the MIR: (A) the real RunningVariance::add_sample / per-element closure of CpuMath::array_update_variance on n = 3..4 (thorough 6) symbolic draws of a Gaussian coordinate give var_grad s^4 = var_draw and mean_grad s^2 = -(mean_draw - m); (B) from any estimator state with those relations the real DiagAdaptStrategy::adapt / DiagMassMatrix::update_diag_draw_grad / the real per-element closure install std = s, inv_std = 1/s, mean = m, logdet = -ln s exactly (reals with sqrt axioms); (2) the three per-element closures array_update_var_inv_std_{draw,draw_grad,grad} keep every scale finite and > 0 for arbitrary FP64 inputs (NaN, inf, 0, negative) and leave the previous value in place for an invalid estimate; (3) LowRankMassMatrix::update changes nothing when an input is non-finite.',
   note='gradient-based estimator only; FP64u policy with IEEE lemmas proved bit-precisely in the run; the low-rank estimation pipeline (faer SVD/QR/eigen) is outside and "recovers a full covariance" is not claimed',
   technique='SMT (z3) over symbolic execution of rustc MIR; polynomial identities over the reals + FP64 guard predicates'),
}
NA = {
 'C04': 'statistical closed-loop claim (moments within Monte-Carlo error over >=1000 adapted draws); no bounded symbolic encoding exists for a solver to decide',
 'C10': 'quantifies over OS/rayon thread interleavings; Kani has no thread model and an SMT encoding would be a hand model of mpsc/rayon/Mutex rather than of the code',
 'C11': 'deadlock freedom / prefix consistency over all interleavings of rendezvous channels, mailboxes and a scoped pool; same reason as C10',
 'C12': 'bounded pause latency over all interleavings; same reason as C10',
 'C19': 'depends entirely on serde derive output and serde_json parsing/printing, which neither Kani nor the MIR translator can encode within reach',
}
PENDING = 'check not built yet in this session (planned in DESIGN.md section 4); not claimed until it runs'
ALL = ['C%02d' % i for i in range(1, 20)]
def main():
    checks = []
    for pid, c in sorted(CHECKS.items()):
        checks.append({'property_id': pid, 'quick_cmd': './check %s --tier quick' % pid, 'thorough_cmd': './check %s --tier thorough' % pid,
                       'evidence_file': '/verif/evidence/%s.json' % pid, 'replay_cmd_template': './check %s --replay {path}' % pid, 'engine': c.get('engine', 'mirsmt'),
                       'level_claimed': {'category': c['level'], 'text': c['text'], 'design_ref': c['design']}, 'level_note': c['note'], 'technique': c['technique']})
    na = [{'property_id': p, 'reason': NA.get(p, PENDING)} for p in ALL if p not in CHECKS]
    man = {'version': 1, 'setup_cmd': './setup.sh',
           'hooks': {'guard': 'cargo feature "verif"', 'enable': 'cargo build --features verif (only the native replay crate /verif/replay uses it; engine S reads the shipped code with hooks off)',
                     'baseline_off_cmd': 'cd /repo && cargo test --workspace --no-fail-fast --offline', 'source_commits': HOOK_COMMITS, 'add_only': True},
           'engines': [{'name': 'mirsmt', 'path': '/verif/mirsmt', 'serves_properties': sorted(CHECKS), 'kind_free_text': 'symbolic executor over rustc MIR (regenerated from /repo per run) + z3; bounded, solver-decided'}],
           'checks': checks, 'not_applicable': na,
           'notes': 'exit 0 = held within the stated bounds; 1 = VIOLATION (replayed); 2 = inconclusive (never a pass). See DESIGN.md.'}
    json.dump(man, open(os.path.join(V, 'MANIFEST.json'), 'w'), indent=1)
HOOK_COMMITS = []
if __name__ == '__main__': main()
