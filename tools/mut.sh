#!/bin/bash
# usage: tools/mut.sh <file under /repo> <perl-substitution> <check id>...   (applies, runs checks, reverts)
f=$1; e=$2; shift 2
cd /repo && perl -0pi -e "$e" "$f" && git diff --stat | head -3
if git diff --quiet; then echo "MUTATION DID NOT APPLY"; exit 3; fi
cd /verif
for id in "$@"; do ./check $id 2>&1 | grep -v "^  \|WARNING" | cut -c1-300 | tail -6; echo "exit=${PIPESTATUS[0]}"; done
git -C /repo checkout -- .
