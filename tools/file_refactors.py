#!/usr/bin/env python3
"""file the behaviour-preserving refactorings a sub-agent left in <worktree>/REFACTORS/ under /verif/refactors/<pid>-rN/ (patch.diff + meta.json)
after re-checking them: the patch applies to the clean tree and the crate's test suite passes with it.  usage: file_refactors.py <worktree> <pid> [extra checks ...]"""
import sys, os, json, subprocess, shutil
wt, pid = sys.argv[1], sys.argv[2]; extra = [a for a in sys.argv[3:] if not a.startswith('--')]
SUB = next((a.split('=')[1] for a in sys.argv[3:] if a.startswith('--dir=')), 'REFACTORS'); TAG = next((a.split('=')[1] for a in sys.argv[3:] if a.startswith('--tag=')), 'r')
V = os.path.dirname(os.path.dirname(os.path.abspath(__file__)))
OWN = {'src/nuts.rs': ['C01', 'C03', 'C05'], 'src/adapt_strategy.rs': ['C06', 'C09'], 'src/stepsize/dual_avg.rs': ['C07'], 'src/stepsize/adam.rs': ['C07'], 'src/stepsize/adapt.rs': ['C07', 'C06', 'C09'],
       'src/dynamics/transformed_hamiltonian.rs': ['C02', 'C05', 'C16', 'C18'], 'src/dynamics/state.rs': ['C03'], 'src/dynamics/hamiltonian.rs': ['C16', 'C05'], 'src/transform/diagonal.rs': ['C02', 'C08', 'C16'],
       'src/transform/adapt/diagonal.rs': ['C08', 'C09', 'C05'], 'src/transform/adapt/low_rank.rs': ['C09', 'C08'], 'src/transform/low_rank.rs': ['C02', 'C08', 'C16'], 'src/mclmc.rs': ['C18', 'C06'],
       'src/chain.rs': ['C03', 'C16', 'C06'], 'src/math/util.rs': ['C17', 'C01'], 'src/math/cpu_math.rs': ['C17', 'C08', 'C18'], 'src/storage/zarr/common.rs': ['C15'], 'src/storage/zarr/sync_impl.rs': ['C15'],
       'src/storage/zarr/async_impl.rs': ['C15'], 'src/storage/hashmap.rs': ['C14'], 'src/storage/csv.rs': ['C14'], 'src/sampler.rs': ['C13', 'C12', 'C16', 'C18', 'C19'], 'src/external_adapt_strategy.rs': ['C06', 'C05']}
env = dict(os.environ, CARGO_NET_OFFLINE='true', CARGO_TARGET_DIR=os.path.join(wt, 'target'))
def sh(cmd):
    p = subprocess.run(cmd, shell=True, cwd=wt, env=env, stdout=subprocess.PIPE, stderr=subprocess.STDOUT, text=True); return p.returncode, p.stdout
try: notes = json.load(open(os.path.join(wt, SUB, 'notes.json')))
except Exception as e: notes = []
sh('git checkout -- . ; git clean -fdq -e REFACTORS -e REFACTORS2 -e REFACTORS3 -e target'); kept = 0
for k in range(1, 9):
    pf = os.path.join(wt, SUB, 'refactor-%d.diff' % k)
    if not os.path.exists(pf): continue
    rc, out = sh('git apply --check %s/refactor-%d.diff' % (SUB, k))
    if rc != 0: print(pid, k, 'does not apply'); continue
    sh('git apply %s/refactor-%d.diff' % (SUB, k))
    rc, files = sh('git diff --name-only'); files = [f for f in files.split() if f]
    rc, out = sh('cargo test --workspace --no-fail-fast --offline 2>&1 | grep -E "^test result|FAILED|^error" ')
    ok = 'FAILED' not in out and 'test result: ok' in out and 'error' not in out
    sh('git checkout -- .')
    if not ok: print(pid, k, 'test suite fails with the refactoring:', out[-300:]); continue
    checks = []
    for f in files:
        for c in OWN.get(f, []):
            if c not in checks: checks.append(c)
    for c in [pid] + extra:
        if c not in checks: checks.append(c)
    d = os.path.join(V, 'refactors', '%s-%s%d' % (pid, TAG, k)); shutil.rmtree(d, ignore_errors=True); os.makedirs(d)
    shutil.copy(pf, os.path.join(d, 'patch.diff'))
    note = next((n for n in notes if str(n.get('patch', '')).endswith('refactor-%d.diff' % k)), {})
    json.dump({'property': pid, 'files': files, 'checks': checks, 'note': note, 'suite_passes': True}, open(os.path.join(d, 'meta.json'), 'w'), indent=1)
    kept += 1; print(pid, k, 'filed:', files, '->', checks)
print(pid, 'kept', kept)
subprocess.run(['git', '-C', '/repo', 'worktree', 'remove', '--force', wt]); shutil.rmtree(wt, ignore_errors=True)
