"""Throw-away proof of concept #3: execute the real MIR of two SIMD kernels (Axpy, VectorDot) for a
concrete length n and lane count L with symbolic element values; compare with the scalar formula."""
import re, sys, time
from z3 import *
sys.path.insert(0, '/tmp/probe-keep')
from vm2 import load, find, split_args, skip_type

RNE = RoundNearestTiesToEven()
F64 = Float64()
# UF abstraction of the IEEE operations: equality under congruence implies equality under IEEE semantics
FS = DeclareSort('F64abs')
FMA_U = Function('fma', FS, FS, FS, FS); ADD_U = Function('fadd', FS, FS, FS); MUL_U = Function('fmul', FS, FS, FS)

class HRef:                      # reference to buf[off : off+w] viewed with a shape
    def __init__(self, hid, off, shape): self.hid = hid; self.off = off; self.shape = shape   # shape: 'f64' | 'vec' | 'arr4'
class Slice:                     # &[T] over a buffer
    def __init__(self, hid, off, count, shape): self.hid = hid; self.off = off; self.count = count; self.shape = shape
class LRef:                      # reference to a local of a frame (with field path)
    def __init__(self, frame, local, path=()): self.frame = frame; self.local = local; self.path = tuple(path)
class Tup:
    def __init__(self, f): self.f = list(f)

class K:
    def __init__(self, funcs, L, real=False):
        self.funcs = funcs; self.L = L; self.real = real; self.heap = {}; self.nstmt = 0
    def width(self, shape): return {'f64': 1, 'vec': self.L, 'arr4': 4 * self.L}[shape]
    # arithmetic
    def fma(self, a, b, c): return a * b + c if self.real else FMA_U(a, b, c)
    def add(self, a, b): return a + b if self.real else ADD_U(a, b)
    def mul(self, a, b): return a * b if self.real else MUL_U(a, b)
    def const(self, s): return RealVal(s) if self.real else Const('c_' + s.replace('.', '_').replace('-', 'm'), FS)
    # heap views
    def hread(self, r):
        buf = self.heap[r.hid]
        if r.shape == 'f64': return buf[r.off]
        if r.shape == 'vec': return tuple(buf[r.off:r.off + self.L])
        return Tup([tuple(buf[r.off + k * self.L: r.off + (k + 1) * self.L]) for k in range(4)])
    def hwrite(self, r, v):
        buf = self.heap[r.hid]
        if r.shape == 'f64': buf[r.off] = v
        elif r.shape == 'vec':
            for i in range(self.L): buf[r.off + i] = v[i]
        else: raise Exception('arr4 write')
    # places
    def parse_place(self, s, i=0):
        if s[i] == '_':
            m = re.match(r'_\d+', s[i:]); loc, pr, j = m.group(0), [], i + len(m.group(0))
        else:
            assert s[i] == '(', s[i:]
            if s[i + 1] == '*':
                loc, pr, j = self.parse_place(s, i + 2); assert s[j] == ')'; pr = pr + [('deref',)]; j += 1
            else:
                loc, pr, j = self.parse_place(s, i + 1)
                m = re.match(r'\.(\d+): ', s[j:]); assert m, s[j:]
                k = skip_type(s, j + len(m.group(0))); pr = pr + [('field', int(m.group(1)))]; j = k + 1
        m = re.match(r'\[(\d+) of (\d+)\]', s[j:])
        if m: pr = pr + [('index', int(m.group(1)))]; j += len(m.group(0))
        return loc, pr, j
    def resolve(self, fr, loc, pr):
        """returns ('local', frame, local, path) or ('heap', HRef)"""
        cur = ('local', fr, loc, [])
        for p in pr:
            if p[0] == 'deref':
                v = self.rd(cur)
                if isinstance(v, HRef): cur = ('heap', v)
                elif isinstance(v, LRef): cur = ('local', v.frame, v.local, list(v.path))
                else: raise Exception('deref of %r' % (v,))
            elif p[0] == 'field':
                assert cur[0] == 'local'; cur = ('local', cur[1], cur[2], cur[3] + [p[1]])
            elif p[0] == 'index':
                assert cur[0] == 'heap' and cur[1].shape == 'arr4'; r = cur[1]; cur = ('heap', HRef(r.hid, r.off + p[1] * self.L, 'vec'))
        return cur
    def rd(self, cur):
        if cur[0] == 'heap': return self.hread(cur[1])
        v = cur[1][cur[2]]
        for f in cur[3]: v = v.f[f]
        return v
    def wr(self, cur, val):
        if cur[0] == 'heap': return self.hwrite(cur[1], val)
        if not cur[3]: cur[1][cur[2]] = val; return
        v = cur[1][cur[2]]
        for f in cur[3][:-1]: v = v.f[f]
        v.f[cur[3][-1]] = val
    def operand(self, fr, o):
        o = re.sub(r'^no_retag ', '', o.strip())
        m = re.match(r'^(copy|move) (.*)$', o)
        if m: loc, pr, j = self.parse_place(m.group(2)); return self.rd(self.resolve(fr, loc, pr))
        m = re.match(r'^const (-?[\d.]+)f64$', o)
        if m: return self.const(m.group(1))
        raise Exception('operand? ' + o)
    # execution (straight line + concrete branches)
    def call(self, name, args):
        fr = {'_%d' % (i + 1): a for i, a in enumerate(args)}; bbs = self.funcs[name]; bb = 0
        while True:
            nxt = None
            for st in bbs[bb]:
                self.nstmt += 1
                if st.startswith('Storage'): continue
                if st == 'return;': return fr.get('_0')
                m = re.match(r'^goto -> bb(\d+);$', st)
                if m: nxt = int(m.group(1)); break
                m = re.match(r'^switchInt\((.*)\) -> \[0: bb(\d+), otherwise: bb(\d+)\];$', st)
                if m:
                    c = self.operand(fr, m.group(1)); assert isinstance(c, bool); nxt = int(m.group(3)) if c else int(m.group(2)); break
                m = re.match(r'^(\S.*?) = (.*) -> \[return: bb(\d+), unwind.*\];$', st)
                if m and m.group(2).endswith(')') and not re.match(r'^(Eq|PtrMetadata|Add|Mul|Sub)\(', m.group(2)):
                    rhs = m.group(2); depth = 0; i = len(rhs) - 1
                    while i >= 0:
                        if rhs[i] == ')': depth += 1
                        elif rhs[i] == '(':
                            depth -= 1
                            if depth == 0: break
                        i -= 1
                    callee, argstr = rhs[:i], rhs[i + 1:-1]
                    v = self.intrinsic(fr, callee, [self.operand(fr, a) for a in split_args(argstr)])
                    loc, pr, j = self.parse_place(m.group(1)); self.wr(self.resolve(fr, loc, pr), v); nxt = int(m.group(3)); break
                m = re.match(r'^(\S.*?) = (.*);$', st)
                assert m, st
                lhs, rhs = m.group(1), m.group(2)
                loc, pr, j = self.parse_place(lhs); dst = self.resolve(fr, loc, pr)
                mm = re.match(r'^PtrMetadata\((.*)\)$', rhs)
                if mm: self.wr(dst, self.operand(fr, mm.group(1)).count); continue
                mm = re.match(r'^(Eq|Add|Mul|Sub)\((.*)\)$', rhs)
                if mm:
                    a, b = [self.operand(fr, x) for x in split_args(mm.group(2))]
                    self.wr(dst, {'Eq': lambda: a == b, 'Add': lambda: self.add(a, b), 'Mul': lambda: self.mul(a, b), 'Sub': lambda: self.add(a, -b)}[mm.group(1)]()); continue
                mm = re.match(r'^&(mut )?(.*)$', rhs)
                if mm:
                    loc2, pr2, j = self.parse_place(mm.group(2)); cur = self.resolve(fr, loc2, pr2)
                    self.wr(dst, cur[1] if cur[0] == 'heap' else LRef(cur[1], cur[2], cur[3])); continue
                mm = re.match(r'^\{closure@.*?\} \{ (.*) \}$', rhs)
                if mm:
                    self.wr(dst, Tup([self.operand(fr, p.split(': ', 1)[1]) for p in split_args(mm.group(1))])); continue
                self.wr(dst, self.operand(fr, rhs))
            bb = nxt
    def intrinsic(self, fr, c, a):
        L = self.L
        if c.endswith('::as_simd_f64s') or c.endswith('::as_mut_simd_f64s'):
            s = a[0]; nv = s.count // L
            return Tup([Slice(s.hid, s.off, nv, 'vec'), Slice(s.hid, s.off + nv * L, s.count - nv * L, 'f64')])
        if c.startswith('as_arrays::<4') or c.startswith('as_arrays_mut::<4'):
            s = a[0]; ng = s.count // 4
            return Tup([Slice(s.hid, s.off, ng, 'arr4'), Slice(s.hid, s.off + ng * 4 * L, s.count - ng * 4, 'vec')])
        if c.endswith('::splat_f64s'): return tuple([a[1]] * L)
        if c.endswith('::mul_add_e_f64s') or c.endswith('::mul_add_f64s'): return tuple(self.fma(x, y, z) for x, y, z in zip(a[1], a[2], a[3]))
        if c.endswith('::add_f64s'): return tuple(self.add(x, y) for x, y in zip(a[1], a[2]))
        if c.endswith('::reduce_sum_f64s'):
            v = list(a[1]); n = L
            while n > 1:
                n //= 2
                for i in range(n): v[i] = self.add(v[i], v[i + n])
            return v[0]
        if 'as IntoIterator>::into_iter' in c or c.endswith('>::iter') or c.endswith('>::iter_mut'):
            s = a[0]
            if isinstance(s, list): return s
            w = self.width(s.shape); return [HRef(s.hid, s.off + i * w, s.shape) for i in range(s.count)]
        if 'as Iterator>::zip::<' in c:
            x, y = a
            if isinstance(y, Slice): w = self.width(y.shape); y = [HRef(y.hid, y.off + i * w, y.shape) for i in range(y.count)]
            return [Tup([p, q]) for p, q in zip(x, y)]
        if 'as Iterator>::for_each::<' in c:
            clo = re.search(r'for_each::<\{closure@(src/[\w/.]+:\d+:\d+): \d+:\d+\}>', c).group(1)
            fn = [f for f in self.funcs if ('{closure@%s:' % clo) in f and re.search(r'::\{closure#\d+\}\(_1: &mut \{closure@', f)]
            assert len(fn) == 1, (clo, fn)
            holder = {'env': a[1]}
            for item in a[0]: self.call(fn[0], [LRef(holder, 'env'), item])
            return None
        if c == 'std::f64::<impl f64>::mul_add': return self.fma(a[0], a[1], a[2])
        if c == 'panic': raise Exception('panic reached')
        raise Exception('intrinsic? ' + c)

def fresh(name, n, real): return [Real('%s%d' % (name, i)) if real else Const('%s%d' % (name, i), FS) for i in range(n)]
def same(a, b, real): return a == b

if __name__ == '__main__':
    funcs = load(sys.argv[1]); NMAX = int(sys.argv[2]); t0 = time.time()
    axpy = find(funcs, r'^fn util::<impl at src/math/util.rs:408:1: 408:31>::with_simd\(')
    dot = find(funcs, r'^fn util::<impl at src/math/util.rs:354:1: 354:36>::with_simd\(')
    nq = 0; stm = 0
    for L in (2, 4, 8):
        for n in range(0, NMAX + 1):
            # ---- axpy, FP64 bit-level
            k = K(funcs, L); x = fresh('x', n + 2, False); y = fresh('y', n + 2, False); a = Const('a', FS)
            k.heap = {0: list(x), 1: list(y)}
            k.call(axpy, [Tup([Slice(0, 0, n, 'f64'), Slice(1, 0, n, 'f64'), a]), 'simd'])
            s = Solver(); bad = [Not(same(k.heap[1][i], FMA_U(a, x[i], y[i]), False)) for i in range(n)]
            bad += [k.heap[1][i] != y[i] for i in range(n, n + 2)]
            s.add(Or(bad)) if bad else s.add(BoolVal(False)); r = s.check(); nq += 1; stm += k.nstmt
            assert r == unsat, ('axpy', L, n, r)
            # ---- dot, reals: exact sum of products
            k = K(funcs, L, real=True); x = fresh('x', n, True); y = fresh('y', n, True); k.heap = {0: list(x), 1: list(y)}
            out = k.call(dot, [Tup([Slice(0, 0, n, 'f64'), Slice(1, 0, n, 'f64')]), 'simd'])
            s = Solver(); s.add(out != Sum([x[i] * y[i] for i in range(n)]) if n else out != 0); r = s.check(); nq += 1; stm += k.nstmt
            assert r == unsat, ('dot', L, n, r)
    print('axpy (FP64 bit-exact) and vector_dot (reals) == scalar formula for lanes {2,4,8}, n = 0..%d:' % NMAX, nq, 'queries unsat,', stm, 'MIR statements,', '%.1fs' % (time.time() - t0))
