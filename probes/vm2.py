"""Throw-away proof of concept #2: symbolic execution of the real MIR of nuts::draw / NutsTree::*
with an oracle Hamiltonian, path enumeration, and the re-rooting invariance query (C01.1)."""
import re, sys, time, itertools
from z3 import *

# ----------------------------------------------------------------------------- MIR loading
def load(path):
    funcs = {}; cur = None
    for line in open(path).read().split('\n'):
        line = re.sub(r'\s*//.*$', '', line)
        if line.startswith('fn '):
            cur = line; funcs[cur] = []
        elif cur is not None:
            funcs[cur].append(line)
            if line == '}': cur = None
    out = {}
    for hdr, body in funcs.items():
        bbs = {}; b = None
        for l in body:
            m = re.match(r'^\s*bb(\d+)( \(cleanup\))?: \{$', l)
            if m: b = int(m.group(1)); bbs[b] = []; continue
            if b is not None:
                if l.strip() == '}': b = None; continue
                if l.strip(): bbs[b].append(l.strip())
        name = re.match(r'^fn (.*?)\(_1|^fn (.*?)\(\)', hdr)
        out[hdr] = bbs
    return out

def find(funcs, pat):
    hits = [f for f in funcs if re.search(pat, f)]
    assert len(hits) == 1, (pat, hits[:3])
    return hits[0]

# ----------------------------------------------------------------------------- values
FIELDS = {'NutsTree': ['left', 'right', 'draw', 'log_size', 'depth', 'is_main', '_phantom2'],
          'SampleInfo': ['depth', 'divergence_info', 'reached_maxdepth'],
          'Range': ['start', 'end'],
          'NutsOptions': ['maxdepth', 'mindepth', 'check_turning', 'store_divergences', 'target_integration_time', 'extra_doublings', 'max_energy_error']}
VARIANTS = {'Ok': 0, 'Err': 1, 'Turning': 2, 'Diverging': 3, 'None': 0, 'Some': 1, 'Forward': 0, 'Backward': 1,
            'Continue': 0, 'Break': 1}
LF_VARIANTS = {'Ok': 0, 'Divergence': 1, 'Err': 2}

class Struct:
    def __init__(self, fields): self.f = tuple(fields)
    def set(self, i, v): l = list(self.f); l[i] = v; return Struct(l)
    def __repr__(self): return 'S' + repr(self.f)
class Enum:
    def __init__(self, idx, name, fields, family=None): self.idx = idx; self.name = name; self.f = tuple(fields)
    def set(self, i, v): l = list(self.f); l[i] = v; return Enum(self.idx, self.name, l)
    def __repr__(self): return 'E%s%r' % (self.name, self.f)
class Ref:
    def __init__(self, frame, local, projs=()): self.frame = frame; self.local = local; self.projs = tuple(projs)
    def __repr__(self): return 'Ref(%s,%s,%s)' % (self.frame, self.local, self.projs)
class StateH:
    def __init__(self, sid): self.sid = sid
    def __repr__(self): return 'State#%d' % self.sid
class Opaque:
    def __init__(self, n): self.n = n
    def __repr__(self): return 'Opaque(%s)' % self.n
UNIT = Struct(())

# ----------------------------------------------------------------------------- place parsing
def skip_type(s, i):
    depth = 0
    while i < len(s):
        c = s[i]
        if s.startswith('->', i): i += 2; continue
        if c in '(<[': depth += 1
        elif c in ')>]':
            if depth == 0 and c == ')': return i
            depth -= 1
        i += 1
    raise Exception('type?')

def parse_place(s, i=0):
    """returns (local, projs, next_index); projs: ('deref',) ('field', n) ('as', Name)"""
    if s[i] == '_':
        m = re.match(r'_\d+', s[i:]); return m.group(0), [], i + len(m.group(0))
    assert s[i] == '(', s[i:]
    if s[i + 1] == '*':
        loc, pr, j = parse_place(s, i + 2); assert s[j] == ')', s[j:]; return loc, pr + [('deref',)], j + 1
    loc, pr, j = parse_place(s, i + 1)
    if s.startswith(' as ', j):
        m = re.match(r' as (\w+)\)', s[j:]); return loc, pr + [('as', m.group(1))], j + len(m.group(0))
    m = re.match(r'\.(\d+): ', s[j:]); assert m, s[j:]
    k = skip_type(s, j + len(m.group(0)))
    return loc, pr + [('field', int(m.group(1)))], k + 1

def split_args(s):
    out = []; depth = 0; cur = ''; i = 0
    while i < len(s):
        if s.startswith('->', i): cur += '->'; i += 2; continue
        ch = s[i]
        if ch in '(<[{': depth += 1
        if ch in ')>]}': depth -= 1
        if ch == ',' and depth == 0: out.append(cur.strip()); cur = ''
        else: cur += ch
        i += 1
    if cur.strip(): out.append(cur.strip())
    return out

# ----------------------------------------------------------------------------- machine
class Frame:
    def __init__(self, fn, locs, ret): self.fn = fn; self.bb = 0; self.i = 0; self.locs = locs; self.ret = ret
    def clone(self): f = Frame(self.fn, dict(self.locs), self.ret); f.bb = self.bb; f.i = self.i; return f

class Machine:
    def __init__(self): self.frames = []; self.pc = []; self.states = {}; self.nstate = 0; self.log = []; self.dirs = []; self.sched = None; self.done = None
    def clone(self):
        m = Machine(); m.frames = [f.clone() for f in self.frames]; m.pc = list(self.pc); m.states = dict(self.states)
        m.nstate = self.nstate; m.log = list(self.log); m.dirs = list(self.dirs); m.sched = self.sched; return m

def E(site): return Real('E_%d' % site)
def TURN(i, j): return Bool('turn_%d_%d' % (i, j))
LAE = Function('logaddexp', RealSort(), RealSort(), RealSort())
EXPF = Function('exp', RealSort(), RealSort())

class VM:
    def __init__(self, funcs, maxdepth, start_site, dir_oracle):
        self.funcs = funcs; self.maxdepth = maxdepth; self.start = start_site; self.dir_oracle = dir_oracle
        self.solver = Solver(); self.finished = []; self.nq = 0; self.steps = 0
        self.fn = {k: find(funcs, p) for k, p in {
            'draw': r'^fn draw\(_1: &mut M', 'new': r'nuts.rs:93:1: 93:78>::new\(', 'extend': r'nuts.rs:93:1: 93:78>::extend\(',
            'merge_into': r'nuts.rs:93:1: 93:78>::merge_into\(', 'single_step': r'nuts.rs:93:1: 93:78>::single_step\(',
            'info': r'nuts.rs:93:1: 93:78>::info\('}.items()}
    def feasible(self, pc):
        self.nq += 1; self.solver.push(); self.solver.add(*pc); r = self.solver.check(); self.solver.pop(); return r == sat
    # ---- memory
    def read(self, m, fi, local, projs):
        v = m.frames[fi].locs.get(local)
        for p in projs:
            if p[0] == 'deref':
                assert isinstance(v, Ref), (local, projs, v); v = self.read(m, v.frame, v.local, v.projs)
            elif p[0] == 'field': v = v.f[p[1]]
            elif p[0] == 'as': assert isinstance(v, Enum) and v.name == p[1], (v, p)
        return v
    def write(self, m, fi, local, projs, val):
        # resolve derefs to a base (frame, local, projs-without-deref)
        base_f, base_l, path = fi, local, []
        cur = m.frames[fi].locs.get(local)
        for p in projs:
            if p[0] == 'deref':
                r = cur if not path else self.read(m, base_f, base_l, path)
                r = self.read(m, base_f, base_l, path)
                assert isinstance(r, Ref), r
                base_f, base_l, path = r.frame, r.local, list(r.projs)
            else: path.append(p)
        def upd(v, path):
            if not path: return val
            p = path[0]
            if p[0] == 'as': return upd(v, path[1:])
            if p[0] == 'field': return v.set(p[1], upd(v.f[p[1]], path[1:]))
            if p[0] == 'deref':
                raise Exception('nested deref in path')
        m.frames[base_f].locs[base_l] = upd(m.frames[base_f].locs.get(base_l), path)
    def operand(self, m, o):
        fi = len(m.frames) - 1
        mm = re.match(r'^(copy|move) (.*)$', o)
        if mm:
            loc, pr, j = parse_place(mm.group(2)); return self.read(m, fi, loc, pr)
        mm = re.match(r'^const (-?[\d.]+(?:[eE][+-]?\d+)?)f64$', o)
        if mm: return RealVal(mm.group(1))
        mm = re.match(r'^const (-?\d+)_(u64|i64|usize)$', o)
        if mm: return int(mm.group(1))
        if o == 'const true': return True
        if o == 'const false': return False
        if o.startswith('const PhantomData') or o.startswith('const '): return Opaque(o)
        raise Exception('operand? ' + o)
    # ---- rvalue
    def rvalue(self, m, rhs):
        fi = len(m.frames) - 1
        mm = re.match(r'^(Eq|Ne|Lt|Le|Gt|Ge|Add|Sub|Mul|Div|AddWithOverflow)\((.*)\)$', rhs)
        if mm:
            a, b = [self.operand(m, x) for x in split_args(mm.group(2))]; op = mm.group(1)
            if op == 'AddWithOverflow': return Struct((a + b, False))
            return {'Eq': lambda: a == b, 'Ne': lambda: a != b, 'Lt': lambda: a < b, 'Le': lambda: a <= b, 'Gt': lambda: a > b,
                    'Ge': lambda: a >= b, 'Add': lambda: a + b, 'Sub': lambda: a - b, 'Mul': lambda: a * b, 'Div': lambda: a / b}[op]()
        mm = re.match(r'^(Not|Neg)\((.*)\)$', rhs)
        if mm:
            a = self.operand(m, mm.group(2))
            return (Not(a) if is_expr(a) else (not a)) if mm.group(1) == 'Not' else -a
        mm = re.match(r'^discriminant\((.*)\)$', rhs)
        if mm:
            loc, pr, j = parse_place(mm.group(1)); v = self.read(m, fi, loc, pr); assert isinstance(v, Enum), v; return v.idx
        mm = re.match(r'^&(mut )?(.*)$', rhs)
        if mm:
            loc, pr, j = parse_place(mm.group(2))
            # normalise: a ref through a deref re-borrows the target
            if pr and pr[-1] == ('deref',) :
                return self.read(m, fi, loc, pr[:-1])
            if any(p[0] == 'deref' for p in pr):
                k = max(i for i, p in enumerate(pr) if p[0] == 'deref'); base = self.read(m, fi, loc, pr[:k])
                return Ref(base.frame, base.local, base.projs + tuple(pr[k + 1:]))
            return Ref(fi, loc, pr)
        mm = re.match(r'^(copy|move|const) ', rhs)
        if mm and ' as ' in rhs and rhs.endswith(')') and re.search(r' as \w+ \(\w+\)$', rhs):
            o = re.sub(r' as \w+ \(\w+\)$', '', rhs); v = self.operand(m, o)
            return ToReal(v) if is_expr(v) and v.sort() == IntSort() else (RealVal(v) if 'IntToFloat' in rhs and isinstance(v, int) else v)
        if mm: return self.operand(m, rhs)
        if rhs.startswith('('):   # tuple
            return Struct([self.operand(m, x) for x in split_args(rhs[1:-1])])
        mm = re.match(r'^(?:[\w:]+::)?(\w+)::<.*?> \{ (.*) \}$', rhs) or re.match(r'^(\w+) \{ (.*) \}$', rhs)
        if mm:
            names = FIELDS[mm.group(1)]; vals = [None] * len(names)
            for part in split_args(mm.group(2)):
                k, v = part.split(': ', 1); vals[names.index(k)] = self.operand(m, v)
            return Struct(vals)
        mm = re.match(r'^(?:[\w:]+::)?(\w+)::<.*>::(\w+)(?:\((.*)\))?$', rhs)
        if mm:
            var = mm.group(2); args = [self.operand(m, x) for x in split_args(mm.group(3))] if mm.group(3) else []
            return Enum(VARIANTS[var], var, args)
        raise Exception('rvalue? ' + rhs)
    # ---- calls
    def call(self, m, dest, callee, args, target):
        """returns list of successor machines"""
        fi = len(m.frames) - 1
        def ret(mm, v):
            loc, pr, j = parse_place(dest); self.write(mm, len(mm.frames) - 1, loc, pr, v)
            mm.frames[-1].bb = target; mm.frames[-1].i = 0; return [mm]
        for key in ('new', 'extend', 'merge_into', 'single_step', 'info'):
            if re.match(r'^NutsTree::<M, H, C>::%s(::<R>)?$' % key, callee):
                vals = [self.operand(m, a) for a in args]
                f = Frame(self.fn[key], {'_%d' % (i + 1): v for i, v in enumerate(vals)}, (dest, target))
                m.frames.append(f); return [m]
        A = lambda i: self.operand(m, args[i])
        def st_of(v):
            while isinstance(v, Ref): v = self.read(m, v.frame, v.local, v.projs)
            assert isinstance(v, StateH), v; return m.states[v.sid], v
        if callee.endswith('as Clone>::clone'): s, h = st_of(A(0)); return ret(m, h)
        if callee.endswith('::index_in_trajectory'): s, h = st_of(A(0)); return ret(m, s['idx'])
        if callee.endswith('::point'): s, h = st_of(A(0)); return ret(m, h)
        if callee.endswith('Point<M>>::initial_energy'): s, h = st_of(A(0)); return ret(m, s['e0'])
        if callee.endswith('Point<M>>::energy_error'): s, h = st_of(A(0)); return ret(m, s['e'] - s['e0'])
        if callee.endswith('::initialize_trajectory::<R>'):
            s, h = st_of(A(2)); ns = dict(s); ns['idx'] = 0; ns['e0'] = ns['e']; m.states = dict(m.states); m.states[h.sid] = ns
            m.log.append(('init', ns['site'])); return ret(m, Enum(0, 'Ok', [UNIT]))
        if callee.endswith('as Try>::branch'):
            v = A(0); return ret(m, Enum(0, 'Continue', [v.f[0]]) if v.name == 'Ok' else Enum(1, 'Break', [Enum(1, 'Err', v.f)]))
        if 'Collector' in callee: m.log.append((callee.split('::')[-1],)); return ret(m, UNIT)
        if callee.endswith('Math>::dim'): return ret(m, 1)
        if callee.endswith('RngExt>::random::<Direction>'):
            outs = []
            for name in self.dir_oracle(m):
                mm = m.clone(); mm.dirs.append(name); outs += ret(mm, Enum(VARIANTS[name], name, []))
            return outs
        if callee.endswith('RngExt>::random_bool'):
            p = A(1); outs = []
            for b in (True, False):
                mm = m.clone(); mm.log.append(('rbool', b, p)); outs += ret(mm, b)
            return outs
        if callee == 'logaddexp': return ret(m, LAE(A(0), A(1)))
        if callee == 'std::f64::<impl f64>::exp': return ret(m, EXPF(A(0)))
        if callee.endswith('Hamiltonian<M>>::is_turning'):
            (s1, _), (s2, _) = st_of(A(2)), st_of(A(3))
            a, b = (s1, s2) if s1['idx'] < s2['idx'] else (s2, s1)
            return ret(m, TURN(a['site'], b['site']))
        if callee.endswith('Hamiltonian<M>>::leapfrog::<C>'):
            s, h = st_of(A(2)); d = A(3); sign = 1 if d.name == 'Forward' else -1
            site = s['site'] + sign; sid = m.nstate; m.nstate += 1
            m.states = dict(m.states); m.states[sid] = {'idx': s['idx'] + sign, 'site': site, 'e': E(site), 'e0': s['e0']}
            m.log.append(('leapfrog', site))
            m.pc.append(E(site) - A(5) <= A(6))      # property's premise: below the divergence limit
            return ret(m, Enum(0, 'Ok', [StateH(sid)]))
        if callee.startswith('<std::ops::Range<u64> as IntoIterator>'): return ret(m, A(0))
        if callee.startswith('<std::ops::Range<u64> as Iterator>::next'):
            r = self.operand(m, args[0]); rng = self.read(m, r.frame, r.local, r.projs); lo, hi = rng.f
            assert isinstance(lo, int) and isinstance(hi, int)
            if lo < hi: self.write(m, r.frame, r.local, r.projs, Struct((lo + 1, hi))); return ret(m, Enum(1, 'Some', [lo]))
            return ret(m, Enum(0, 'None', []))
        if callee == 'panic': m.done = ('panic', args[0]); return [m]
        raise Exception('callee? ' + callee)
    # ---- main loop
    def run(self):
        m = Machine()
        m.states[0] = {'idx': 0, 'site': self.start, 'e': E(self.start), 'e0': E(self.start)}; m.nstate = 1
        opts = Struct((self.maxdepth, 0, True, False, Enum(0, 'None', []), 0, RealVal(1000)))
        f0 = Frame('<harness>', {'math': Opaque('math'), 'init': StateH(0), 'rng': Opaque('rng'), 'ham': Opaque('ham'), 'opts': opts, 'coll': Opaque('coll')}, None)
        m.frames.append(f0)
        m.frames.append(Frame(self.fn['draw'], {'_1': Ref(0, 'math'), '_2': Ref(0, 'init'), '_3': Ref(0, 'rng'), '_4': Ref(0, 'ham'), '_5': Ref(0, 'opts'), '_6': Ref(0, 'coll')}, ('_0', -1)))
        f0.locs['_0'] = None
        work = [m]
        while work:
            m = work.pop()
            while True:
                self.steps += 1
                fr = m.frames[-1]; st = self.funcs[fr.fn][fr.bb][fr.i]; fr.i += 1
                if st.startswith('Storage'): continue
                if st == 'return;':
                    v = fr.locs.get('_0'); dest, target = fr.ret; m.frames.pop()
                    if target == -1: m.done = ('return', v); self.finished.append(m); break
                    loc, pr, j = parse_place(dest); self.write(m, len(m.frames) - 1, loc, pr, v if v is not None else UNIT)
                    m.frames[-1].bb = target; m.frames[-1].i = 0; continue
                if st == 'unreachable;': raise Exception('unreachable reached')
                mm = re.match(r'^goto -> bb(\d+);$', st)
                if mm: fr.bb = int(mm.group(1)); fr.i = 0; continue
                mm = re.match(r'^drop\((.*)\) -> \[return: bb(\d+), unwind.*\];$', st)
                if mm: fr.bb = int(mm.group(2)); fr.i = 0; continue
                mm = re.match(r'^assert\(.*\) -> \[success: bb(\d+), unwind.*\];$', st)
                if mm: fr.bb = int(mm.group(1)); fr.i = 0; continue
                mm = re.match(r'^switchInt\((.*)\) -> \[(.*)\];$', st)
                if mm:
                    c = self.operand(m, mm.group(1)); arms = {}
                    for a in split_args(mm.group(2)):
                        k, t = a.split(': '); arms[k] = int(t[2:])
                    if is_expr(c):
                        succ = []
                        for cond, tgt in ((Not(c), arms['0']), (c, arms['otherwise'])):
                            if self.feasible(m.pc + [cond]):
                                m2 = m.clone(); m2.pc.append(cond); m2.frames[-1].bb = tgt; m2.frames[-1].i = 0; succ.append(m2)
                        work += succ; break
                    key = str(int(c)) if not isinstance(c, bool) else ('1' if c else '0')
                    fr.bb = arms.get(key, arms.get('otherwise')); fr.i = 0; continue
                mm = split_call(st)
                if mm and not re.match(r'^(Eq|Ne|Lt|Le|Gt|Ge|Add|Sub|Mul|Div|AddWithOverflow|Not|Neg|discriminant)$', mm.group(2)) \
                        and not re.match(r'^[\w:]*::<.*>::(Ok|Err|Some|Turning|Diverging)$', mm.group(2)):
                    succ = self.call(m, mm.group(1), mm.group(2), split_args(mm.group(3)), int(mm.group(4)) if mm.group(4) else None)
                    if len(succ) == 1 and succ[0] is m and m.done is None: continue
                    for s in succ:
                        if s.done is not None: self.finished.append(s)
                        else: work.append(s)
                    break
                mm = re.match(r'^(\S.*?) = (.*);$', st)
                if mm:
                    v = self.rvalue(m, mm.group(2)); loc, pr, j = parse_place(mm.group(1)); self.write(m, len(m.frames) - 1, loc, pr, v); continue
                raise Exception('stmt? ' + st)
        return self.finished

class _M:
    def __init__(self, g): self.g = g
    def group(self, i): return self.g[i - 1]
def split_call(st):
    m = re.match(r'^(\S.*?) = (.*) -> (?:\[return: bb(\d+), unwind.*\]|bb(\d+)|unwind.*);$', st)
    if not m or not m.group(2).endswith(')'): return None
    rhs = m.group(2); depth = 0; i = len(rhs) - 1
    while i >= 0:
        if rhs[i] == ')': depth += 1
        elif rhs[i] == '(':
            depth -= 1
            if depth == 0: break
        i -= 1
    if i <= 0: return None
    return _M((m.group(1), rhs[:i], rhs[i + 1:-1], m.group(3) or m.group(4)))

def summarize(m):
    kind, v = m.done
    if kind == 'panic': return ('panic', v)
    assert v.name == 'Ok', v
    st, info = v.f[0].f
    sites = [m.states[0]['site']] + [e[1] for e in m.log if e[0] == 'leapfrog']
    s = m.states[st.sid]
    return {'draw_site': s['site'], 'depth': info.f[0], 'maxdepth_flag': info.f[2], 'visited': (min(sites), max(sites)), 'nleap': len(sites) - 1,
            'dirs': tuple(m.dirs), 'pc': m.pc}

if __name__ == '__main__':
    funcs = load(sys.argv[1]); D = int(sys.argv[2]); t0 = time.time()
    vm = VM(funcs, D, 0, lambda m: ['Forward', 'Backward'])
    paths = [summarize(m) for m in vm.run()]
    print('maxdepth', D, 'paths', len(paths), 'feasibility queries', vm.nq, 'MIR statements executed', vm.steps, '%.1fs' % (time.time() - t0))
    import collections
    print(' by (depth,flag,nleap):', sorted(collections.Counter((p['depth'], p['maxdepth_flag'], p['nleap']) for p in paths if isinstance(p, dict)).items()))
    print(' panics:', [p for p in paths if not isinstance(p, dict)][:3])
    # structural assertions of C03 on every path
    for p in paths:
        d = p['depth']; span = 2 ** d - 1
        assert d <= D and span <= p['nleap'] <= 2 * span + 1, p
        assert p['visited'][0] <= p['draw_site'] <= p['visited'][1]
    print(' C03 bookkeeping bounds hold on all paths')
