//! Probe: real nuts.rs tree + real StatePool, mock Hamiltonian/Point (oracle trajectory).
#![allow(unused)]
use std::collections::HashMap;
use nuts_rs::verif_api::*;
use nuts_rs::{LogpError, Math};
use nuts_storable::HasDims;

pub const MAXN: usize = 15;
pub const OFF: i64 = 7;

#[derive(Debug)]
pub struct OErr;
impl std::fmt::Display for OErr { fn fmt(&self, _f: &mut std::fmt::Formatter<'_>) -> std::fmt::Result { Ok(()) } }
impl std::error::Error for OErr {}
impl LogpError for OErr { fn is_recoverable(&self) -> bool { false } }

pub struct NoMath;
impl HasDims for NoMath { fn dim_sizes(&self) -> HashMap<String, u64> { HashMap::new() } }
type V = ();
impl Math for NoMath {
    type Vector = V; type EigVectors = (); type EigValues = (); type LogpErr = OErr; type Err = OErr;
    type FlowParameters = (); type ExpandedVector = ();
    fn new_array(&mut self) -> V {}
    fn new_eig_vectors<'a>(&'a mut self, _vals: impl ExactSizeIterator<Item = &'a [f64]>) {}
    fn new_eig_values(&mut self, _vals: &[f64]) {}
    fn logp_array(&mut self, _p: &V, _g: &mut V) -> Result<f64, OErr> { unimplemented!() }
    fn logp(&mut self, _p: &[f64], _g: &mut [f64]) -> Result<f64, OErr> { unimplemented!() }
    fn init_position<R: rand::Rng + ?Sized>(&mut self, _rng: &mut R, _p: &mut V, _g: &mut V) -> Result<f64, OErr> { unimplemented!() }
    fn expand_vector<R: rand::Rng + ?Sized>(&mut self, _rng: &mut R, _a: &V) -> Result<(), OErr> { Ok(()) }
    fn dim(&self) -> usize { 1 }
    fn scalar_prods3(&mut self, _a: &V, _b: &V, _c: &V, _x: &V, _y: &V) -> (f64, f64) { unimplemented!() }
    fn scalar_prods2(&mut self, _p1: &V, _p2: &V, _x: &V, _y: &V) -> (f64, f64) { unimplemented!() }
    fn sq_norm_sum(&mut self, _x: &V, _y: &V) -> f64 { 0.0 }
    fn read_from_slice(&mut self, _d: &mut V, _s: &[f64]) {}
    fn write_to_slice(&mut self, _s: &V, _d: &mut [f64]) {}
    fn eigs_as_array(&mut self, _s: &()) -> Box<[f64]> { Box::new([]) }
    fn copy_into(&mut self, _a: &V, _d: &mut V) {}
    fn axpy_out(&mut self, _x: &V, _y: &V, _a: f64, _o: &mut V) {}
    fn axpy(&mut self, _x: &V, _y: &mut V, _a: f64) {}
    fn fill_array(&mut self, _a: &mut V, _v: f64) {}
    fn array_all_finite(&mut self, _a: &V) -> bool { true }
    fn array_all_finite_and_nonzero(&mut self, _a: &V) -> bool { true }
    fn array_mult(&mut self, _a: &V, _b: &V, _d: &mut V) {}
    fn array_mult_inplace(&mut self, _a: &mut V, _b: &V) {}
    fn array_recip(&mut self, _a: &V, _d: &mut V) {}
    fn apply_lowrank_transform(&mut self, _v: &(), _l: &(), _r: &V, _d: &mut V) {}
    fn apply_lowrank_transform_inplace(&mut self, _v: &(), _l: &(), _r: &mut V) {}
    fn array_mult_eigs(&mut self, _s: &V, _r: &V, _d: &mut V, _v: &(), _l: &()) {}
    fn std_norm_flow(&mut self, _p: &V, _po: &mut V, _v: &mut V, _e: f64) {}
    fn std_norm_grad_flow(&mut self, _p: &V, _g: &V, _v: &V, _vo: &mut V, _e: f64) {}
    fn std_norm_grad_flow_inplace(&mut self, _p: &V, _g: &V, _v: &mut V, _e: f64) {}
    fn array_normalize(&mut self, _v: &mut V) {}
    fn esh_momentum_update(&mut self, _g: &V, _m: &mut V, _s: f64) -> f64 { 0.0 }
    fn array_vector_dot(&mut self, _a: &V, _b: &V) -> f64 { 0.0 }
    fn array_gaussian<R: rand::Rng + ?Sized>(&mut self, _rng: &mut R, _d: &mut V, _s: &V) {}
    fn array_gaussian_eigs<R: rand::Rng + ?Sized>(&mut self, _rng: &mut R, _d: &mut V, _s: &V, _l: &(), _v: &()) {}
    fn array_update_variance(&mut self, _m: &mut V, _v: &mut V, _x: &V, _d: f64) {}
    fn array_update_var_inv_std_draw(&mut self, _i: &mut V, _s: &mut V, _d: &V, _sc: f64, _f: Option<f64>, _c: (f64, f64)) {}
    fn array_update_var_inv_std_draw_grad(&mut self, _i: &mut V, _s: &mut V, _d: &V, _g: &V, _f: Option<f64>, _c: (f64, f64)) {}
    fn array_update_var_inv_std_grad(&mut self, _i: &mut V, _s: &mut V, _g: &V, _f: f64, _c: (f64, f64)) {}
    fn inv_transform_normalize(&mut self, _p: &(), _a: &V, _b: &V, _c: &mut V, _d: &mut V) -> Result<f64, OErr> { unimplemented!() }
    fn init_from_untransformed_position(&mut self, _p: &(), _a: &V, _b: &mut V, _c: &mut V, _d: &mut V) -> Result<(f64, f64), OErr> { unimplemented!() }
    fn init_from_transformed_position(&mut self, _p: &(), _a: &mut V, _b: &mut V, _c: &V, _d: &mut V) -> Result<(f64, f64), OErr> { unimplemented!() }
    fn update_transformation<'a, R: rand::Rng + ?Sized>(&'a mut self, _rng: &mut R, _p: impl ExactSizeIterator<Item = &'a V>, _g: impl ExactSizeIterator<Item = &'a V>, _l: impl ExactSizeIterator<Item = &'a f64>, _params: &'a mut ()) -> Result<(), OErr> { unimplemented!() }
    fn new_transformation<R: rand::Rng + ?Sized>(&mut self, _rng: &mut R, _dim: usize, _chain: u64) -> Result<(), OErr> { Ok(()) }
    fn init_transformation<R: rand::Rng + ?Sized>(&mut self, _rng: &mut R, _a: &V, _b: &V, _chain: u64) -> Result<(), OErr> { Ok(()) }
    fn transformation_id(&self, _params: &()) -> Result<i64, OErr> { Ok(0) }
}

#[derive(Debug)]
pub struct OPoint { pub idx: i64, pub site: i64, pub energy: f64, pub init_energy: f64 }
impl SamplerStats<NoMath> for OPoint {
    type Stats = (); type StatsOptions = ();
    fn extract_stats(&self, _m: &mut NoMath, _o: ()) {}
}
impl Point<NoMath> for OPoint {
    fn position(&self) -> &() { &() }
    fn gradient(&self) -> &() { &() }
    fn index_in_trajectory(&self) -> i64 { self.idx }
    fn energy(&self) -> f64 { self.energy }
    fn logp(&self) -> f64 { 0.0 }
    fn initial_energy(&self) -> f64 { self.init_energy }
    fn new(_m: &mut NoMath) -> Self { OPoint { idx: 0, site: 0, energy: 0.0, init_energy: 0.0 } }
    fn copy_into(&self, _m: &mut NoMath, o: &mut Self) { o.idx = self.idx; o.site = self.site; o.energy = self.energy; o.init_energy = self.init_energy; }
}

/// Oracle trajectory: energies per absolute site, turning per ordered pair of sites, divergence per site.
pub struct OHam {
    pub pool: StatePool<NoMath, OPoint>,
    pub energy: [Option<f64>; MAXN],
    pub turn: std::cell::RefCell<[[Option<bool>; MAXN]; MAXN]>,
    pub start_site: i64,
    pub step: f64,
    pub nleap: u32,
}
impl SamplerStats<NoMath> for OHam {
    type Stats = (); type StatsOptions = ();
    fn extract_stats(&self, _m: &mut NoMath, _o: ()) {}
}
#[cfg(kani)] fn any_f64() -> f64 { kani::any() }
#[cfg(not(kani))] fn any_f64() -> f64 { 0.0 }
#[cfg(kani)] fn any_bool() -> bool { kani::any() }
#[cfg(not(kani))] fn any_bool() -> bool { false }
#[cfg(kani)] fn assume(b: bool) { kani::assume(b) }
#[cfg(not(kani))] fn assume(_b: bool) {}

impl OHam {
    fn e(&mut self, site: i64) -> f64 {
        let k = (site + OFF) as usize;
        match self.energy[k] { Some(v) => v, None => { let v = any_f64(); assume(v >= -100.0 && v <= 100.0); self.energy[k] = Some(v); v } }
    }
}
impl Hamiltonian<NoMath> for OHam {
    type Point = OPoint;
    fn leapfrog<C: Collector<NoMath, OPoint>>(&mut self, math: &mut NoMath, start: &State<NoMath, OPoint>, dir: Direction, _f: f64, baseline: f64, max_err: f64, collector: &mut C) -> LeapfrogResult<NoMath, OPoint> {
        self.nleap += 1;
        let sign = match dir { Direction::Forward => 1, Direction::Backward => -1 };
        let mut out = self.pool.new_state(math);
        let site = start.point().site + sign;
        let en = self.e(site);
        {
            let p = out.try_point_mut().expect("fresh");
            p.idx = start.point().idx + sign;
            p.site = site;
            p.energy = en;
            p.init_energy = start.point().init_energy;
        }
        let err = en - baseline;
        if err > max_err {
            let info = nuts_rs::DivergenceInfo { start_momentum: None, start_location: None, start_gradient: None, end_location: None, energy_error: Some(err), end_idx_in_trajectory: None, start_idx_in_trajectory: None, logp_function_error: None };
            collector.register_leapfrog(math, start, &out, Some(&info));
            return LeapfrogResult::Divergence(info);
        }
        collector.register_leapfrog(math, start, &out, None);
        LeapfrogResult::Ok(out)
    }
    fn is_turning(&self, _m: &mut NoMath, s1: &State<NoMath, OPoint>, s2: &State<NoMath, OPoint>) -> bool {
        let (a, b) = if s1.index_in_trajectory() < s2.index_in_trajectory() { (s1, s2) } else { (s2, s1) };
        let i = (a.point().site + OFF) as usize; let j = (b.point().site + OFF) as usize;
        // interior mutability avoided: table must be pre-filled lazily by caller; here nondet w/o memo is unsound for re-rooting,
        // so use memo via raw pointer
        let mut t = self.turn.borrow_mut();
        match t[i][j] { Some(v) => v, None => { let v = any_bool(); t[i][j] = Some(v); v } }
    }
    fn init_state(&mut self, math: &mut NoMath, _init: &[f64]) -> Result<State<NoMath, OPoint>, nuts_rs::NutsError> {
        let mut s = self.pool.new_state(math);
        let site = self.start_site;
        let en = self.e(site);
        { let p = s.try_point_mut().expect("fresh"); p.idx = 0; p.site = site; p.energy = en; p.init_energy = en; }
        Ok(s)
    }
    fn init_state_untransformed(&mut self, math: &mut NoMath, init: &[f64]) -> Result<State<NoMath, OPoint>, nuts_rs::NutsError> { self.init_state(math, init) }
    fn initialize_trajectory<R: rand::Rng + ?Sized>(&self, _m: &mut NoMath, state: &mut State<NoMath, OPoint>, _r: bool, _rng: &mut R) -> Result<(), nuts_rs::NutsError> {
        let p = state.try_point_mut().expect("State has other references");
        p.idx = 0; p.init_energy = p.energy;
        Ok(())
    }
    fn pool(&mut self) -> &mut StatePool<NoMath, OPoint> { &mut self.pool }
    fn copy_state(&mut self, math: &mut NoMath, state: &State<NoMath, OPoint>) -> State<NoMath, OPoint> { self.pool.copy_state(math, state) }
    fn step_size(&self) -> f64 { self.step }
    fn step_size_mut(&mut self) -> &mut f64 { &mut self.step }
}

pub struct ScriptRng { pub n32: u32, pub n64: u32, pub dirs: [bool; 8] }
impl rand::rand_core::TryRng for ScriptRng {
    type Error = core::convert::Infallible;
    fn try_next_u32(&mut self) -> Result<u32, Self::Error> {
        let b = any_bool();
        if (self.n32 as usize) < 8 { self.dirs[self.n32 as usize] = b; }
        self.n32 += 1;
        Ok(if b { 0x8000_0000 } else { 0 })
    }
    fn try_next_u64(&mut self) -> Result<u64, Self::Error> { self.n64 += 1; Ok(any_u64()) }
    fn try_fill_bytes(&mut self, dst: &mut [u8]) -> Result<(), Self::Error> { for b in dst.iter_mut() { *b = 0; } Ok(()) }
}
#[cfg(kani)] fn any_u64() -> u64 { kani::any() }
#[cfg(not(kani))] fn any_u64() -> u64 { 0 }

#[cfg(kani)]
mod h {
    use super::*;
    fn tag(s: &mut State<NoMath, OPoint>, t: i64) -> bool { match s.try_point_mut() { Ok(p) => { p.site = t; true } Err(_) => false } }
    #[kani::proof] #[kani::unwind(4)]
    fn pool_guarded() {
        let mut math = NoMath;
        let pool: StatePool<NoMath, OPoint> = StatePool::new(&mut math, 10);
        let mut a = pool.new_state(&mut math);
        assert!(tag(&mut a, 1));
        let b = if kani::any() { Some(a.clone()) } else { None };
        // shared => not writable; unshared => writable
        assert!(tag(&mut a, 2) == b.is_none());
        let a_tag = a.point().site;
        let mut c = pool.new_state(&mut math);          // must be a different buffer than a (a is live)
        assert!(tag(&mut c, 3));
        assert!(a.point().site == a_tag);
        if kani::any() { drop(b); } else { std::mem::forget(b); }   // forget = leak: buffer must never be recycled
        let drop_a: bool = kani::any();
        let a_opt = if drop_a { drop(a); None } else { Some(a) };
        let mut d = pool.new_state(&mut math);          // may recycle a's buffer only if no live handle remains
        assert!(tag(&mut d, 4));
        if let Some(a) = a_opt.as_ref() { assert!(a.point().site == a_tag); }
        assert!(c.point().site == 3);
        let e = if kani::any() { Some(pool.copy_state(&mut math, &c)) } else { None };
        if let Some(e) = e.as_ref() { assert!(e.point().site == 3); }
        assert!(tag(&mut c, 5));
        if let Some(e) = e.as_ref() { assert!(e.point().site == 3); }
        assert!(d.point().site == 4);
        kani::cover!(drop_a);
        std::mem::forget(a_opt); std::mem::forget(c); std::mem::forget(d); std::mem::forget(e); std::mem::forget(pool);
    }
}
