use std::collections::HashMap;
use nuts_rs::{LogpError, Math};
use nuts_storable::HasDims;

pub const MAXN: usize = 15;
pub const OFF: i64 = 7;

#[derive(Debug)]
pub struct OracleErr { pub recoverable: bool }
impl std::fmt::Display for OracleErr {
    fn fmt(&self, _f: &mut std::fmt::Formatter<'_>) -> std::fmt::Result { Ok(()) }
}
impl std::error::Error for OracleErr {}
impl LogpError for OracleErr { fn is_recoverable(&self) -> bool { self.recoverable } }

#[derive(Debug)]
pub struct OracleMathErr;
impl std::fmt::Display for OracleMathErr {
    fn fmt(&self, _f: &mut std::fmt::Formatter<'_>) -> std::fmt::Result { Ok(()) }
}
impl std::error::Error for OracleMathErr {}

/// fault kinds per site: 0 ok, 1 recoverable error, 2 unrecoverable
pub struct OracleMath {
    pub logp: [Option<f64>; MAXN],
    pub turn: [[Option<bool>; MAXN]; MAXN],
    pub fault: [u8; MAXN],
    pub shift: i64,
    pub n_logp: u32,
}

impl HasDims for OracleMath {
    fn dim_sizes(&self) -> HashMap<String, u64> { HashMap::new() }
}

type V = [f64; 1];

impl Math for OracleMath {
    type Vector = V;
    type EigVectors = ();
    type EigValues = ();
    type LogpErr = OracleErr;
    type Err = OracleMathErr;
    type FlowParameters = ();
    type ExpandedVector = ();

    fn new_array(&mut self) -> V { [0.0] }
    fn new_eig_vectors<'a>(&'a mut self, _vals: impl ExactSizeIterator<Item = &'a [f64]>) {}
    fn new_eig_values(&mut self, _vals: &[f64]) {}
    fn logp_array(&mut self, position: &V, gradient: &mut V) -> Result<f64, OracleErr> {
        let idx = (position[0] as i64 + OFF + self.shift) as usize;
        self.n_logp += 1;
        gradient[0] = f64::MIN_POSITIVE;
        match self.fault[idx] {
            0 => {
                let v = match self.logp[idx] { Some(v) => v, None => { let v = any_f64(); assume(v >= -1e6 && v <= 1e6); self.logp[idx] = Some(v); v } };
                Ok(v)
            }
            1 => Err(OracleErr { recoverable: true }),
            _ => Err(OracleErr { recoverable: false }),
        }
    }
    fn logp(&mut self, position: &[f64], gradient: &mut [f64]) -> Result<f64, OracleErr> {
        let p = [position[0]];
        let mut g = [0.0];
        let r = self.logp_array(&p, &mut g);
        gradient[0] = g[0];
        r
    }
    fn init_position<R: rand::Rng + ?Sized>(&mut self, _rng: &mut R, position: &mut V, gradient: &mut V) -> Result<f64, OracleErr> {
        position[0] = 0.0;
        let p = *position;
        self.logp_array(&p, gradient)
    }
    fn expand_vector<R: rand::Rng + ?Sized>(&mut self, _rng: &mut R, _array: &V) -> Result<(), OracleMathErr> { Ok(()) }
    fn dim(&self) -> usize { 1 }
    fn scalar_prods3(&mut self, positive1: &V, negative1: &V, _positive2: &V, _x: &V, _y: &V) -> (f64, f64) {
        let j = (positive1[0] as i64 + OFF + self.shift) as usize;
        let i = (negative1[0] as i64 + OFF + self.shift) as usize;
        let t = match self.turn[i][j] { Some(t) => t, None => { let t = any_bool(); self.turn[i][j] = Some(t); t } };
        if t { (-1.0, 1.0) } else { (1.0, 1.0) }
    }
    fn scalar_prods2(&mut self, _p1: &V, _p2: &V, _x: &V, _y: &V) -> (f64, f64) { (1.0, 1.0) }
    fn sq_norm_sum(&mut self, x: &V, y: &V) -> f64 { (x[0] + y[0]) * (x[0] + y[0]) }
    fn read_from_slice(&mut self, dest: &mut V, source: &[f64]) { dest[0] = source[0]; }
    fn write_to_slice(&mut self, source: &V, dest: &mut [f64]) { dest[0] = source[0]; }
    fn eigs_as_array(&mut self, _source: &()) -> Box<[f64]> { Box::new([]) }
    fn copy_into(&mut self, array: &V, dest: &mut V) { dest[0] = array[0]; }
    fn axpy_out(&mut self, x: &V, y: &V, a: f64, out: &mut V) { out[0] = y[0] + a * x[0]; }
    fn axpy(&mut self, x: &V, y: &mut V, a: f64) { y[0] = y[0] + a * x[0]; }
    fn array_sum_ln(&mut self, _array: &V) -> f64 { 0.0 }
    fn fill_array(&mut self, array: &mut V, val: f64) { array[0] = val; }
    fn array_all_finite(&mut self, array: &V) -> bool { array[0].is_finite() }
    fn array_all_finite_and_nonzero(&mut self, array: &V) -> bool { array[0].is_finite() && array[0] != 0.0 }
    fn array_mult(&mut self, a: &V, b: &V, dest: &mut V) { dest[0] = a[0] * b[0]; }
    fn array_mult_inplace(&mut self, a: &mut V, b: &V) { a[0] = a[0] * b[0]; }
    fn array_recip(&mut self, a: &V, dest: &mut V) { dest[0] = a[0].recip(); }
    fn apply_lowrank_transform(&mut self, _vecs: &(), _vals: &(), rhs: &V, dest: &mut V) { dest[0] = rhs[0]; }
    fn apply_lowrank_transform_inplace(&mut self, _vecs: &(), _vals: &(), _r: &mut V) {}
    fn array_mult_eigs(&mut self, _stds: &V, _rhs: &V, _dest: &mut V, _vecs: &(), _vals: &()) { unimplemented!() }
    fn std_norm_flow(&mut self, _pos: &V, _pos_out: &mut V, _vel: &mut V, _epsilon: f64) { unimplemented!() }
    fn std_norm_grad_flow(&mut self, _pos: &V, _grad: &V, _vel: &V, _vel_out: &mut V, _epsilon: f64) { unimplemented!() }
    fn std_norm_grad_flow_inplace(&mut self, _pos: &V, _grad: &V, _vel: &mut V, _epsilon: f64) { unimplemented!() }
    fn array_normalize(&mut self, _v: &mut V) { unimplemented!() }
    fn esh_momentum_update(&mut self, _grad: &V, _mom: &mut V, _step: f64) -> f64 { unimplemented!() }
    fn array_vector_dot(&mut self, a: &V, b: &V) -> f64 { a[0] * b[0] }
    fn array_gaussian<R: rand::Rng + ?Sized>(&mut self, _rng: &mut R, dest: &mut V, _stds: &V) { dest[0] = 1.0; }
    fn array_gaussian_eigs<R: rand::Rng + ?Sized>(&mut self, _rng: &mut R, _dest: &mut V, _scale: &V, _vals: &(), _vecs: &()) { unimplemented!() }
    fn array_update_variance(&mut self, _mean: &mut V, _variance: &mut V, _value: &V, _diff_scale: f64) {}
    fn array_update_var_inv_std_draw(&mut self, _inv_std: &mut V, _std: &mut V, _draw_var: &V, _scale: f64, _fill_invalid: Option<f64>, _clamp: (f64, f64)) {}
    fn array_update_var_inv_std_draw_grad(&mut self, _inv_std: &mut V, _std: &mut V, _draw_var: &V, _grad_var: &V, _fill_invalid: Option<f64>, _clamp: (f64, f64)) {}
    fn array_update_var_inv_std_grad(&mut self, _inv_std: &mut V, _std: &mut V, _gradient: &V, _fill_invalid: f64, _clamp: (f64, f64)) {}
    fn inv_transform_normalize(&mut self, _params: &(), _a: &V, _b: &V, _c: &mut V, _d: &mut V) -> Result<f64, OracleErr> { unimplemented!() }
    fn init_from_untransformed_position(&mut self, _params: &(), _a: &V, _b: &mut V, _c: &mut V, _d: &mut V) -> Result<(f64, f64), OracleErr> { unimplemented!() }
    fn init_from_transformed_position(&mut self, _params: &(), _a: &mut V, _b: &mut V, _c: &V, _d: &mut V) -> Result<(f64, f64), OracleErr> { unimplemented!() }
    fn update_transformation<'a, R: rand::Rng + ?Sized>(&'a mut self, _rng: &mut R, _p: impl ExactSizeIterator<Item = &'a V>, _g: impl ExactSizeIterator<Item = &'a V>, _l: impl ExactSizeIterator<Item = &'a f64>, _params: &'a mut ()) -> Result<(), OracleErr> { unimplemented!() }
    fn new_transformation<R: rand::Rng + ?Sized>(&mut self, _rng: &mut R, _dim: usize, _chain: u64) -> Result<(), OracleErr> { Ok(()) }
    fn init_transformation<R: rand::Rng + ?Sized>(&mut self, _rng: &mut R, _a: &V, _b: &V, _chain: u64) -> Result<(), OracleErr> { Ok(()) }
    fn transformation_id(&self, _params: &()) -> Result<i64, OracleErr> { Ok(0) }
}

/// RNG whose every output is a fresh symbolic value (under Kani) and which logs the
/// direction bits it handed out.
pub struct ScriptRng {
    pub n32: u32,
    pub n64: u32,
}
impl rand::rand_core::TryRng for ScriptRng {
    type Error = core::convert::Infallible;
    fn try_next_u32(&mut self) -> Result<u32, Self::Error> { self.n32 += 1; Ok(any_u32()) }
    fn try_next_u64(&mut self) -> Result<u64, Self::Error> { self.n64 += 1; Ok(any_u64()) }
    fn try_fill_bytes(&mut self, dst: &mut [u8]) -> Result<(), Self::Error> { for b in dst.iter_mut() { *b = any_u64() as u8; } Ok(()) }
}
#[cfg(kani)]
fn any_u32() -> u32 { kani::any() }
#[cfg(kani)]
fn any_u64() -> u64 { kani::any() }
#[cfg(not(kani))]
fn any_u32() -> u32 { 0 }
#[cfg(not(kani))]
fn any_u64() -> u64 { 0 }

#[cfg(kani)]
fn assume(b: bool) { kani::assume(b) }
#[cfg(not(kani))]
fn assume(_b: bool) {}

#[cfg(kani)]
fn any_f64() -> f64 { kani::any() }
#[cfg(not(kani))]
fn any_f64() -> f64 { 0.0 }
#[cfg(kani)]
fn any_bool() -> bool { kani::any() }
#[cfg(not(kani))]
fn any_bool() -> bool { false }
