#[cfg(kani)]
mod h {
    use nuts_rs::verif_kernels::*;
    const N: usize = 9;
    #[kani::proof] #[kani::unwind(11)]
    fn multiply_256() {
        let n: usize = 9;
        let x: [f64; N] = kani::any(); let y: [f64; N] = kani::any();
        let mut out = [0.0f64; N];
        multiply_with(pulp::Scalar256b, &x[..n], &y[..n], &mut out[..n]);
        let i: usize = kani::any(); kani::assume(i < N);
        if i < n { let r = x[i] * y[i]; assert!(out[i].to_bits() == r.to_bits() || (out[i].is_nan() && r.is_nan())); }
        else { assert!(out[i] == 0.0); }
    }
    #[kani::proof] #[kani::unwind(11)]
    fn axpy_256() {
        let n: usize = kani::any(); kani::assume(n <= N);
        let x: [f64; N] = kani::any(); let y0: [f64; N] = kani::any(); let a: f64 = kani::any();
        let mut y = y0;
        axpy_with(pulp::Scalar256b, &x[..n], &mut y[..n], a);
        let i: usize = kani::any(); kani::assume(i < N);
        if i < n { let r = a.mul_add(x[i], y0[i]); assert!(y[i].to_bits() == r.to_bits() || (y[i].is_nan() && r.is_nan())); }
        else { assert!(y[i].to_bits() == y0[i].to_bits()); }
    }
    #[kani::proof] #[kani::unwind(11)]
    fn dot_256_onehot() {
        let n: usize = 9;
        let i: usize = kani::any(); let j: usize = kani::any(); kani::assume(i < n && j < n);
        let c: f64 = kani::any(); kani::assume(c.is_finite());
        let mut x = [0.0f64; N]; let mut y = [0.0f64; N];
        x[i] = 1.0; y[j] = c;
        let r = vector_dot_with(pulp::Scalar256b, &x[..n], &y[..n]);
        if i == j { assert!(r == c); } else { assert!(r == 0.0); }
    }
}
