import re,sys,collections
src=open(sys.argv[1]).read()
# split functions
funcs={}
cur=None
for line in src.split('\n'):
    if line.startswith('fn '):
        cur=line; funcs[cur]=[]
    elif cur is not None:
        funcs[cur].append(line)
        if line=='}': cur=None
want=[r'nuts::<impl at src/nuts.rs:93', r'^fn nuts::draw', r'util::logaddexp', r'dual_avg::', r'adam::', r'adapt_strategy::<impl at src/adapt_strategy.rs:71', r'external_adapt_strategy::<impl at src/external_adapt_strategy.rs:155',
 r'transformed_hamiltonian::<impl at src/dynamics/transformed_hamiltonian.rs:(159|327|521)', r'transform::diagonal::<impl', r'diagonal::<impl', r'low_rank::<impl', r'chain::<impl at src/chain.rs:(129|257)', r'mclmc::<impl at src/mclmc.rs:(168|414|461)',
 r'stepsize::adapt::<impl|adapt::<impl at src/stepsize', r'hamiltonian::<impl at src/dynamics/hamiltonian.rs:(62|111)', r'util::<impl at src/math/util.rs', r'sampler::<impl at src/sampler.rs:1070.*start', r'hashmap::<impl', r'common::<impl at src/storage/zarr/common.rs:(53|60)', r'state::<impl', r'cpu_math::<impl at src/math/cpu_math.rs:85.*(array_update|array_all|array_normalize|esh|sq_norm|array_sum_ln|array_recip|fill_array|array_gaussian)']
sel=[f for f in funcs if any(re.search(w,f) for w in want)]
pat=collections.OrderedDict([
 ('decl', r'^\s*(let (mut )?_\d+: |debug |scope \d+|\}|\{|$)'),
 ('bbhdr', r'^\s*bb\d+( \(cleanup\))?: \{$'),
 ('storage', r'^\s*Storage(Live|Dead)\('),
 ('goto', r'^\s*goto -> bb\d+;$'),
 ('return', r'^\s*(return|resume|unreachable|coroutine_drop);$'),
 ('switch', r'^\s*switchInt\((copy |move |const )?.*\) -> \[.*\];$'),
 ('drop', r'^\s*drop\(.*\) -> (\[return: bb\d+, unwind[^\]]*\]|bb\d+);$'),
 ('assert', r'^\s*assert\(.*\) -> \[success: bb\d+, unwind[^\]]*\];$'),
 ('call', r'^\s*(\S.*?) = .*\(.*\) -> (\[return: bb\d+, unwind[^\]]*\]|unwind[^;]*|bb\d+);$'),
 ('callnoret', r'^\s*(\S.*?) = .*\(.*\) -> (unwind continue|unwind: bb\d+|unwind terminate.*);$'),
 ('setdisc', r'^\s*discriminant\(.*\) = \d+;$'),
 ('assign_binop', r'^\s*\S.*? = (Add|Sub|Mul|Div|Rem|Eq|Ne|Lt|Le|Gt|Ge|BitAnd|BitOr|BitXor|Shl|Shr|AddWithOverflow|SubWithOverflow|MulWithOverflow|Offset|Cmp|AddUnchecked|SubUnchecked|MulUnchecked|ShlUnchecked|ShrUnchecked)\(.*\);$'),
 ('assign_unop', r'^\s*\S.*? = (Not|Neg|PtrMetadata)\(.*\);$'),
 ('assign_cast', r'^\s*\S.*? = .* as .* \(\w+(\([^)]*\))?(, \w+)?\);$'),
 ('assign_ref', r'^\s*\S.*? = (&(mut |raw (const|mut) )?|&)\S.*;$'),
 ('assign_disc', r'^\s*\S.*? = discriminant\(.*\);$'),
 ('assign_len', r'^\s*\S.*? = (Len|PtrMetadata)\(.*\);$'),
 ('assign_use', r'^\s*\S.*? = (copy|move|const) .*;$'),
 ('assign_agg_tuple', r'^\s*\S.*? = \(.*\);$'),
 ('assign_agg_arr', r'^\s*\S.*? = \[.*\];$'),
 ('assign_agg_struct', r'^\s*\S.*? = [A-Za-z_<{\[&].*;$'),
])
cnt=collections.Counter(); unk=[]
calls=collections.Counter()
nlines=0
for f in sel:
    for l in funcs[f]:
        nlines+=1
        for k,p in pat.items():
            if re.match(p,l):
                cnt[k]+=1
                if k.startswith('call'):
                    m=re.match(r'^\s*\S.*? = (.*?)\(',l)
                    rhs=l.split(' = ',1)[1]
                    callee=re.split(r'\((?![^<]*>)',rhs)[0] if '(' in rhs else rhs
                    calls[callee[:90]]+=1
                break
        else:
            unk.append(l)
print('functions selected',len(sel),'lines',nlines)
for k,v in cnt.items(): print(' ',k,v)
print('UNMATCHED',len(unk))
for l in unk[:25]: print('   ',l[:200])
print('distinct callees',len(calls))
for c,n in calls.most_common(60): print('  ',n,c)
