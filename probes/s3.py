import time, sys
from z3 import *
D=int(sys.argv[1])
N=1<<D
w=[Real('w%d'%i) for i in range(N)]
def mn(a,b): return If(a<=b,a,b)
# sub-tree built by extend from one end: recursive uniform progressive sampling.
def subtree(lo,hi,forward):
    # returns (W, probs dict) for block [lo,hi] built starting at lo if forward else hi
    if lo==hi: return w[lo], {lo: RealVal(1)}
    mid=(lo+hi)//2
    if forward: first=(lo,mid); second=(mid+1,hi)
    else: first=(mid+1,hi); second=(lo,mid)
    W1,p1=subtree(first[0],first[1],forward)
    W2,p2=subtree(second[0],second[1],forward)
    W=W1+W2; acc=W2/W
    out={k:v*(1-acc) for k,v in p1.items()}
    out.update({k:v*acc for k,v in p2.items()})
    return W,out
def probs(r):
    lo=hi=r; W=w[r]; p={r:RealVal(1)}
    size=1
    while size<N:
        blk=lo//(2*size)*(2*size)
        if lo==blk: # we are left half -> extend forward
            W2,p2=subtree(hi+1,hi+size,True); nlo,nhi=lo,hi+size
        else:
            W2,p2=subtree(lo-size,lo-1,False); nlo,nhi=lo-size,hi
        acc=mn(1,W2/W)
        p={k:v*(1-acc) for k,v in p.items()}
        for k,v in p2.items(): p[k]=v*acc
        W=W+W2; lo,hi=nlo,nhi; size*=2
    return p
t0=time.time()
P=[probs(r) for r in range(N)]
tot=0
for r in range(N):
    for k in range(r+1,N):
        s=Solver(); s.set('timeout',120000)
        for x in w: s.add(x>0)
        s.add(w[r]*P[r][k] != w[k]*P[k][r])
        res=s.check(); tot+=1
        if res!=unsat: print('pair',r,k,res, time.time()-t0)
print('D',D,'pairs',tot,'time',time.time()-t0)
