"""Throw-away proof of concept: parse two loop-free MIR functions of nuts-rs and execute them
symbolically with z3 (floats as reals, transcendental functions uninterpreted)."""
import re, sys, time
from z3 import *

def load(path):
    funcs = {}; cur = None
    for line in open(path).read().split('\n'):
        if line.startswith('fn '):
            cur = line; funcs[cur] = []
        elif cur is not None:
            funcs[cur].append(line)
            if line == '}': cur = None
    return funcs

def find(funcs, pat):
    hits = [f for f in funcs if re.search(pat, f)]
    assert len(hits) == 1, (pat, hits)
    return hits[0], funcs[hits[0]]

def blocks(body):
    bbs = {}; cur = None
    for l in body:
        m = re.match(r'^\s*bb(\d+)( \(cleanup\))?: \{$', l)
        if m: cur = int(m.group(1)); bbs[cur] = []; continue
        if cur is not None:
            if l.strip() == '}': cur = None; continue
            bbs[cur].append(l.strip())
    return bbs

# uninterpreted transcendental functions over reals
EXP = Function('exp', RealSort(), RealSort()); LN = Function('ln', RealSort(), RealSort())
LN1P = Function('ln_1p', RealSort(), RealSort()); SQRT = Function('sqrt', RealSort(), RealSort())
POWF = Function('powf', RealSort(), RealSort(), RealSort())
INTR = {'std::f64::<impl f64>::exp': lambda a: EXP(a[0]), 'std::f64::<impl f64>::ln': lambda a: LN(a[0]),
        'std::f64::<impl f64>::ln_1p': lambda a: LN1P(a[0]), 'std::f64::<impl f64>::sqrt': lambda a: SQRT(a[0]),
        'std::f64::<impl f64>::powf': lambda a: POWF(a[0], a[1]),
        'core::f64::<impl f64>::min': lambda a: If(a[0] <= a[1], a[0], a[1])}

class Path:
    def __init__(self, env, pc): self.env = dict(env); self.pc = list(pc)

class VM:
    def __init__(self): self.solver = Solver(); self.paths_done = []; self.nq = 0
    def place_read(self, env, p):
        p = p.strip()
        m = re.match(r'^\(\(\*_(\d+)\)\.(\d+): [^)]*\)$', p) or re.match(r'^\(\(\(\*_(\d+)\)\.(\d+): [^)]*\)\.(\d+): [^)]*\)$', p)
        if m:
            key = 'deref_%s.' % m.group(1) + '.'.join(m.groups()[1:])
            return env[key]
        m = re.match(r'^\(_(\d+)\.(\d+): [^)]*\)$', p)
        if m: return env['_%s.%s' % (m.group(1), m.group(2))]
        return env[p]
    def place_write(self, env, p, v):
        p = p.strip()
        m = re.match(r'^\(\(\*_(\d+)\)\.(\d+): [^)]*\)$', p) or re.match(r'^\(\(\(\*_(\d+)\)\.(\d+): [^)]*\)\.(\d+): [^)]*\)$', p)
        if m: env['deref_%s.' % m.group(1) + '.'.join(m.groups()[1:])] = v; return
        env[p] = v
    def operand(self, env, o):
        o = o.strip()
        m = re.match(r'^(copy|move) (.*)$', o)
        if m: return self.place_read(env, m.group(2))
        m = re.match(r'^const (-?[\d.eE+-]+)f64$', o)
        if m: return RealVal(m.group(1))
        m = re.match(r'^const (-?\d+)_(u64|i64|usize)$', o)
        if m: return IntVal(int(m.group(1)))
        raise Exception('operand? ' + o)
    def feasible(self, pc):
        self.nq += 1
        self.solver.push(); self.solver.add(*pc); r = self.solver.check(); self.solver.pop()
        return r != unsat
    def run(self, bbs, env, pc=()):
        work = [(0, Path(env, pc))]
        while work:
            bb, p = work.pop()
            nxt = None
            for st in bbs[bb]:
                if st.startswith('Storage'): continue
                if st == 'return;': self.paths_done.append(p); nxt = 'done'; break
                m = re.match(r'^goto -> bb(\d+);$', st)
                if m: nxt = int(m.group(1)); break
                m = re.match(r'^switchInt\((.*)\) -> \[0: bb(\d+), otherwise: bb(\d+)\];$', st)
                if m:
                    c = self.operand(p.env, m.group(1))
                    for cond, tgt in ((Not(c), int(m.group(2))), (c, int(m.group(3)))):
                        if self.feasible(p.pc + [cond]): work.append((tgt, Path(p.env, p.pc + [cond])))
                    nxt = 'forked'; break
                m = re.match(r'^assert\(!move \(_(\d+)\.1: bool\), .*\) -> \[success: bb(\d+), unwind.*\];$', st)
                if m:
                    ov = p.env['_%s.1' % m.group(1)]
                    p.env.setdefault('__panics', []).append(ov)
                    p.pc.append(Not(ov)); nxt = int(m.group(2)); break
                m = re.match(r'^(\S.*?) = (.*?)\((.*)\) -> \[return: bb(\d+), unwind.*\];$', st)
                if m and m.group(2) in INTR:
                    args = [self.operand(p.env, a) for a in split_args(m.group(3))]
                    self.place_write(p.env, m.group(1), INTR[m.group(2)](args)); nxt = int(m.group(4)); break
                m = re.match(r'^(\S.*?) = (Add|Sub|Mul|Div|Eq|Gt|Lt|Ge|Le|AddWithOverflow)\((.*)\);$', st)
                if m:
                    a, b = [self.operand(p.env, x) for x in split_args(m.group(3))]
                    op = m.group(2)
                    if op == 'AddWithOverflow':
                        s = a + b; p.env[m.group(1) + '.0'] = s; p.env[m.group(1) + '.1'] = s > IntVal(2**64 - 1)
                    else:
                        v = {'Add': a + b, 'Sub': a - b, 'Mul': a * b, 'Div': a / b, 'Eq': a == b, 'Gt': a > b, 'Lt': a < b, 'Ge': a >= b, 'Le': a <= b}[op]
                        self.place_write(p.env, m.group(1), v)
                    continue
                m = re.match(r'^(\S.*?) = Neg\((.*)\);$', st)
                if m: self.place_write(p.env, m.group(1), -self.operand(p.env, m.group(2))); continue
                m = re.match(r'^(\S.*?) = (.*) as f64 \(IntToFloat\);$', st)
                if m: self.place_write(p.env, m.group(1), ToReal(self.operand(p.env, m.group(2)))); continue
                m = re.match(r'^(\S.*?) = ((copy|move|const) .*);$', st)
                if m: self.place_write(p.env, m.group(1), self.operand(p.env, m.group(2))); continue
                raise Exception('stmt? ' + st)
            if isinstance(nxt, int): work.append((nxt, p))
        return self.paths_done

def split_args(s):
    out = []; depth = 0; cur = ''
    for ch in s:
        if ch in '(<[': depth += 1
        if ch in ')>]': depth -= 1
        if ch == ',' and depth == 0: out.append(cur); cur = ''
        else: cur += ch
    if cur.strip(): out.append(cur)
    return out

if __name__ == '__main__':
    funcs = load(sys.argv[1]); t0 = time.time()
    # ---- DualAverage::advance: two symbolic copies, relational monotonicity, straight from the MIR
    name, body = find(funcs, r'^fn dual_avg::<impl at src/stepsize/dual_avg.rs:\d+:1: \d+:17>::advance\(')
    bbs = blocks(body)
    def state(tag, shared):
        e = {'deref_1.0': Real('log_step' + tag), 'deref_1.1': Real('adapted' + tag), 'deref_1.2': Real('hbar' + tag)}
        e.update(shared); e['_2'] = Real('accept' + tag); e['_3'] = shared['target']; return e
    cnt = Int('count'); shared = {'deref_1.3': Real('mu'), 'deref_1.4': cnt, 'deref_1.5.0': Real('k'), 'deref_1.5.1': Real('t0'),
              'deref_1.5.2': Real('gamma'), 'deref_1.5.3': Real('max_step'), 'target': Real('target')}
    pre = [cnt >= 1, cnt < 2**40, shared['deref_1.5.1'] >= 0, shared['deref_1.5.2'] > 0,
           SQRT(ToReal(cnt)) > 0, POWF(ToReal(cnt), -shared['deref_1.5.0']) > 0, POWF(ToReal(cnt), -shared['deref_1.5.0']) <= 1]
    outs = []
    for tag in ('1', '2'):
        vm = VM(); ps = vm.run(bbs, state(tag, shared), pre); assert len(ps) == 1, len(ps); outs.append(ps[0])
    e1, e2 = outs[0].env, outs[1].env
    s = Solver(); s.add(*pre); s.add(*outs[0].pc); s.add(*outs[1].pc)
    s.add(Real('hbar1') <= Real('hbar2'), Real('adapted1') >= Real('adapted2'), Real('accept1') >= Real('accept2'),
          Real('accept1') <= 1, Real('accept2') >= 0)
    s.add(Or(e1['deref_1.2'] > e2['deref_1.2'], e1['deref_1.0'] < e2['deref_1.0'], e1['deref_1.1'] < e2['deref_1.1']))
    print('advance (from MIR): monotonicity ->', s.check(), 'count+1:', simplify(e1['deref_1.4'] - cnt), '%.2fs' % (time.time() - t0))
    s2 = Solver(); s2.add(*pre); s2.add(*outs[0].pc); s2.add(e1['deref_1.0'] > LN(shared['deref_1.5.3']))
    print('advance (from MIR): log_step <= ln(max) ->', s2.check())
    # ---- logaddexp: returns ln(exp a + exp b), using axiom instances on the terms that occur
    name, body = find(funcs, r'^fn logaddexp\(')
    bbs = blocks(body); a, b = Reals('a b')
    vm = VM(); ps = vm.run(bbs, {'_1': a, '_2': b})
    print('logaddexp paths:', len(ps))
    A, B = Reals('A B')   # A = exp(a), B = exp(b)
    bad = []
    for p in ps:
        r = p.env['_0']
        ax = [A > 0, B > 0, LN(A) == a, LN(B) == b,
              EXP(a - b) == A / B, EXP(b - a) == B / A, EXP(-(a - b)) == B / A,
              LN1P(EXP(a - b)) == LN(1 + A / B), LN1P(EXP(-(a - b))) == LN(1 + B / A), LN1P(EXP(b - a)) == LN(1 + B / A),
              LN(1 + B / A) == LN(A + B) - a, LN(1 + A / B) == LN(A + B) - b,
              LN(RealVal(2)) == LN(A + A) - a]          # instance of ln(2A) = ln 2 + ln A
        s = Solver(); s.add(*p.pc); s.add(*ax); s.add(r != LN(A + B))
        bad.append(s.check())
    print('logaddexp == ln(exp a + exp b) per path ->', bad, '%.2fs' % (time.time() - t0))
