use nuts_rs::*;
use std::collections::HashMap;
use thiserror::Error;
#[derive(Debug, Clone)] struct N { dim: usize }
#[derive(Debug, Error)] enum E {}
impl LogpError for E { fn is_recoverable(&self) -> bool { false } }
impl HasDims for N { fn dim_sizes(&self) -> HashMap<String, u64> { [("unconstrained_parameter".to_string(), self.dim as u64)].into_iter().collect() } }
impl CpuLogpFunc for N {
    type LogpError = E; type ExpandedVector = Vec<f64>; type FlowParameters = ();
    fn dim(&self) -> usize { self.dim }
    fn logp(&mut self, p: &[f64], g: &mut [f64]) -> Result<f64, E> { let mut l = 0.0; for (x, g) in p.iter().zip(g.iter_mut()) { *g = -x; l -= x * x / 2.0; } Ok(l) }
    fn expand_vector<R: rand::Rng + ?Sized>(&mut self, _r: &mut R, a: &[f64]) -> Result<Vec<f64>, CpuMathError> { Ok(a.to_vec()) }
}
fn count_tuning<S: Settings>(s: S, total: usize) -> usize {
    let mut rng = rand::rng();
    let mut chain = s.new_chain(0, CpuMath::new(N { dim: 3 }), &mut rng);
    chain.set_position(&[0.1, 0.2, 0.3]).unwrap();
    (0..total).filter(|_| chain.draw().unwrap().1.tuning).count()
}
fn main() {
    let nuts = DiagNutsSettings { num_tune: 20, num_draws: 10, ..Default::default() };
    println!("NUTS diag num_tune=20 tuning draws = {}", count_tuning(nuts, 30));
    let m = DiagMclmcSettings { num_tune: 20, num_draws: 10, ..Default::default() };
    println!("MCLMC diag num_tune=20 tuning draws = {}", count_tuning(m, 30));
    let r = std::panic::catch_unwind(|| { let z = DiagNutsSettings { num_tune: 0, num_draws: 10, ..Default::default() }; count_tuning(z, 5) });
    println!("NUTS num_tune=0 -> {:?}", r.map_err(|_| "PANIC"));
}
