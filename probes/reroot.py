import sys, time, collections
from z3 import *
from vm2 import *

def turn_pc(pc): return [c for c in pc if 'turn_' in str(c)]
def run(funcs, D, start, oracle):
    vm = VM(funcs, D, start, oracle); ps = [summarize(m) for m in vm.run()]
    # dedupe by structure (selection outcomes ignored)
    seen = {}
    for p in ps:
        key = (p['dirs'], tuple(sorted(str(c) for c in turn_pc(p['pc']))), p['depth'], p['maxdepth_flag'])
        seen.setdefault(key, p)
    return list(seen.values()), vm
if __name__ == '__main__':
    funcs = load(sys.argv[1]); D = int(sys.argv[2]); t0 = time.time()
    fwd, vm = run(funcs, D, 0, lambda m: ['Forward', 'Backward'])
    print('forward structural classes', len(fwd), '%.1fs' % (time.time() - t0))
    nq = 0; bad = 0; checked = 0
    for p in fwd:
        d = p['depth']; dirs = p['dirs']
        a = -sum(2 ** j for j in range(d) if dirs[j] == 'Backward'); b = a + 2 ** d - 1
        rej = dirs[d] if len(dirs) > d else None
        for k in range(a, b + 1):
            pos = k - a
            mirror = ['Forward' if ((pos >> j) & 1) == 0 else 'Backward' for j in range(d)] + ([rej] if rej else [])
            def oracle(m, mirror=mirror):
                i = len(m.dirs); return [mirror[i]] if i < len(mirror) else ['Forward', 'Backward']
            back, _ = run(funcs, D, k, oracle)
            for q in back:
                s = Solver(); s.add(*turn_pc(p['pc'])); s.add(*turn_pc(q['pc'])); nq += 1
                if s.check() != sat: continue          # inconsistent U-turn tables: not the same world
                checked += 1
                dq = q['depth']; aq = k - sum(2 ** j for j in range(dq) if q['dirs'][j] == 'Backward'); bq = aq + 2 ** dq - 1
                ok = (dq == d and (aq, bq) == (a, b) and q['maxdepth_flag'] == p['maxdepth_flag'] and len(q['dirs']) == len(dirs))
                if not ok:
                    bad += 1
                    if bad <= 3: print('  MISMATCH', dirs, (a, b), d, 'from', k, '->', q['dirs'], (aq, bq), dq)
    print('maxdepth', D, 'consistent (forward,re-rooted) pairs checked', checked, 'queries', nq, 'mismatches', bad, '%.1fs' % (time.time() - t0))
