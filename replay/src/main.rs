//! Engine R: native replay of counterexamples through the real nuts-rs build (public API).
//! usage: verif-replay <family> '<json params>'  -> one JSON line {"confirmed": bool, ...}
use std::collections::HashMap;
use std::panic::{AssertUnwindSafe, catch_unwind};

use nuts_rs::{
    Chain, CpuLogpFunc, CpuMath, DiagMclmcSettings, DiagNutsSettings, HasDims, HashMapConfig, HashMapValue, LogpError, Model, Sampler, SamplerWaitResult, Settings,
};
use rand::SeedableRng;
use serde_json::{Value, json};
use thiserror::Error;

#[derive(Debug, Clone)]
struct Normal {
    dim: usize,
}
#[derive(Debug, Error)]
enum NormalError {}
impl LogpError for NormalError {
    fn is_recoverable(&self) -> bool {
        false
    }
}
impl HasDims for Normal {
    fn dim_sizes(&self) -> HashMap<String, u64> {
        HashMap::from([("unconstrained_parameter".to_string(), self.dim as u64)])
    }
}
impl CpuLogpFunc for Normal {
    type LogpError = NormalError;
    type FlowParameters = ();
    type ExpandedVector = Vec<f64>;
    fn dim(&self) -> usize {
        self.dim
    }
    fn logp(&mut self, position: &[f64], grad: &mut [f64]) -> Result<f64, Self::LogpError> {
        let mut logp = 0f64;
        for (i, (x, g)) in position.iter().zip(grad.iter_mut()).enumerate() {
            let sd = 0.5 + i as f64;
            let diff = (x - 3.0) / sd;
            *g = -diff / sd;
            logp -= 0.5 * diff * diff;
        }
        Ok(logp)
    }
    fn expand_vector<R: rand::Rng + ?Sized>(&mut self, _rng: &mut R, position: &[f64]) -> Result<Vec<f64>, nuts_rs::CpuMathError> {
        Ok(position.to_vec())
    }
}

fn quiet<T>(f: impl FnOnce() -> T) -> Result<T, String> {
    let prev = std::panic::take_hook();
    std::panic::set_hook(Box::new(|_| {}));
    let r = catch_unwind(AssertUnwindSafe(f));
    std::panic::set_hook(prev);
    r.map_err(|e| {
        let msg = if let Some(s) = e.downcast_ref::<&str>() {
            s.to_string()
        } else if let Some(s) = e.downcast_ref::<String>() {
            s.clone()
        } else {
            "panic".to_string()
        };
        msg.lines().next().unwrap_or("").chars().take(300).collect()
    })
}

/// C06: a chain with the given num_tune must be constructible and draw
fn num_tune(p: &Value) -> Value {
    let n = p["num_tune"].as_u64().unwrap_or(0);
    let r = quiet(|| {
        let mut settings = DiagNutsSettings::default();
        settings.num_tune = n;
        settings.num_draws = 5;
        let math = CpuMath::new(Normal { dim: 3 });
        let mut rng = rand::rngs::StdRng::seed_from_u64(1);
        let mut chain = settings.new_chain(0, math, &mut rng);
        chain.set_position(&[0.3f64; 3]).unwrap();
        let mut tuning = 0u64;
        for _ in 0..(n + 5) {
            let (_p, prog) = chain.draw().unwrap();
            if prog.tuning {
                tuning += 1;
            }
        }
        tuning
    });
    match r {
        Ok(t) => json!({"confirmed": t != n, "panicked": false, "tuning_draws": t, "num_tune": n}),
        Err(msg) => json!({"confirmed": true, "panicked": true, "message": msg, "num_tune": n}),
    }
}

/// C06: number of draws reported as tuning by an MCLMC chain
fn mclmc_tuning(p: &Value) -> Value {
    let n = p["num_tune"].as_u64().unwrap_or(20);
    let r = quiet(|| {
        let mut settings = DiagMclmcSettings::default();
        settings.num_tune = n;
        settings.num_draws = 10;
        let math = CpuMath::new(Normal { dim: 3 });
        let mut rng = rand::rngs::StdRng::seed_from_u64(1);
        let mut chain = settings.new_chain(0, math, &mut rng);
        chain.set_position(&[0.3f64; 3]).unwrap();
        let mut tuning = 0u64;
        for _ in 0..(n + 10) {
            let (_p, prog) = chain.draw().unwrap();
            if prog.tuning {
                tuning += 1;
            }
        }
        tuning
    });
    match r {
        Ok(t) => json!({"confirmed": t != n, "tuning_draws": t, "num_tune": n}),
        Err(msg) => json!({"confirmed": true, "panicked": true, "message": msg}),
    }
}

/// C06: the step size in force for the first sampling draw (installed by adapt(num_tune-1), reported in that draw's
/// Progress) must be the final averaged step size (jitter = None => equal)
fn last_step(p: &Value) -> Value {
    let n = p["num_tune"].as_u64().unwrap_or(5);
    let w = p["step_size_window"].as_f64().unwrap_or(0.15);
    let r = quiet(|| {
        let mut settings = DiagNutsSettings::default();
        settings.num_tune = n;
        settings.num_draws = 10;
        settings.maxdepth = 6;
        settings.adapt_options.step_size_window = w;
        settings.adapt_options.step_size_settings.jitter = None;
        let math = CpuMath::new(Normal { dim: 5 });
        let mut rng = rand::rngs::StdRng::seed_from_u64(20240917);
        let mut chain = settings.new_chain(0, math, &mut rng);
        chain.set_position(&[0.3f64; 5]).unwrap();
        let mut installed_by_last_tuning = f64::NAN;
        let mut bars = vec![];
        let mut steps = vec![];
        for d in 0..(n + 10) {
            let (_pos, _e, stats, prog) = chain.expanded_draw().unwrap();
            if d + 1 == n {
                installed_by_last_tuning = prog.step_size;
            }
            if d >= n {
                bars.push(stats.adapt.step_size.step_size_bar);
                steps.push(prog.step_size);
            }
        }
        (installed_by_last_tuning, bars, steps)
    });
    match r {
        Ok((s, bars, steps)) => {
            let bar = bars[0];
            json!({"confirmed": n > 0 && s != bar, "step_for_first_sampling_draw": s, "final_averaged_step": bar, "later_steps": steps, "num_tune": n, "step_size_window": w})
        }
        Err(msg) => json!({"confirmed": false, "panicked": true, "message": msg}),
    }
}

struct NormalModel {
    math: CpuMath<Normal>,
}
impl Model for NormalModel {
    type Math<'model>
        = CpuMath<Normal>
    where
        Self: 'model;
    fn math<R: rand::Rng + ?Sized>(&self, _rng: &mut R) -> anyhow::Result<Self::Math<'_>> {
        Ok(self.math.clone())
    }
    fn init_position<R: rand::Rng + ?Sized>(&self, _rng: &mut R, position: &mut [f64]) -> anyhow::Result<()> {
        for p in position.iter_mut() {
            *p = 0.3;
        }
        Ok(())
    }
}

fn lens(v: &HashMapValue) -> usize {
    match v {
        HashMapValue::F64(x) => x.len(),
        HashMapValue::F32(x) => x.len(),
        HashMapValue::Bool(x) => x.len(),
        HashMapValue::I64(x) => x.len(),
        HashMapValue::U64(x) => x.len(),
        HashMapValue::String(x) => x.len(),
    }
}

fn wait<F>(mut sampler: Sampler<F>) -> Result<F, String>
where
    F: Send + 'static,
{
    loop {
        match sampler.wait_timeout(std::time::Duration::from_millis(50)) {
            SamplerWaitResult::Trace(t) => return Ok(t),
            SamplerWaitResult::Timeout(s) => sampler = s,
            SamplerWaitResult::Err(e, _) => return Err(format!("{e}")),
        }
    }
}

/// C14: the HashMap backend must finalize a default NUTS / MCLMC run and return num_tune + num_draws values per scalar statistic
fn hashmap_finalize(p: &Value) -> Value {
    let mclmc = p["sampler"].as_str() == Some("mclmc");
    let (nt, nd) = (20u64, 30u64);
    let r = quiet(|| {
        let model = NormalModel { math: CpuMath::new(Normal { dim: 2 }) };
        let traces = if mclmc {
            let mut settings = DiagMclmcSettings::default();
            settings.num_chains = 1;
            settings.num_tune = nt;
            settings.num_draws = nd;
            settings.seed = 3;
            wait(Sampler::new(model, settings, HashMapConfig::new(), 1, None).map_err(|e| format!("{e:?}")).unwrap())
        } else {
            let mut settings = DiagNutsSettings::default();
            settings.num_chains = 1;
            settings.num_tune = nt;
            settings.num_draws = nd;
            settings.seed = 3;
            wait(Sampler::new(model, settings, HashMapConfig::new(), 1, None).map_err(|e| format!("{e:?}")).unwrap())
        };
        traces.map(|t| {
            let mut out = serde_json::Map::new();
            let t: &Vec<_> = &t;
            for (k, v) in &t[0].stats {
                out.insert(k.clone(), json!(lens(v)));
            }
            out
        })
    });
    match r {
        Ok(Ok(l)) => {
            let expect = (nt + nd) as usize;
            // more values than draws for a per-draw statistic: two statistics were merged into one buffer
            let wrong: Vec<_> = l.iter().filter(|(_k, v)| v.as_u64().unwrap_or(0) > expect as u64).map(|(k, v)| json!([k, v])).collect();
            json!({"confirmed": !wrong.is_empty(), "panicked": false, "expected_len": expect, "wrong_lengths": wrong})
        }
        Ok(Err(e)) => json!({"confirmed": true, "panicked": false, "error": e}),
        Err(msg) => json!({"confirmed": true, "panicked": true, "message": msg}),
    }
}

#[derive(Debug, Clone)]
struct Failing {
    dim: usize,
    calls: std::sync::Arc<std::sync::atomic::AtomicUsize>,
    fail_at: usize,
}
#[derive(Debug, Error)]
enum FailError {
    #[error("unrecoverable density failure")]
    Fatal,
}
impl LogpError for FailError {
    fn is_recoverable(&self) -> bool {
        false
    }
}
impl HasDims for Failing {
    fn dim_sizes(&self) -> HashMap<String, u64> {
        HashMap::from([("unconstrained_parameter".to_string(), self.dim as u64)])
    }
}
impl CpuLogpFunc for Failing {
    type LogpError = FailError;
    type FlowParameters = ();
    type ExpandedVector = Vec<f64>;
    fn dim(&self) -> usize {
        self.dim
    }
    fn logp(&mut self, position: &[f64], grad: &mut [f64]) -> Result<f64, Self::LogpError> {
        let n = self.calls.fetch_add(1, std::sync::atomic::Ordering::SeqCst);
        if n >= self.fail_at {
            return Err(FailError::Fatal);
        }
        let mut logp = 0f64;
        for (x, g) in position.iter().zip(grad.iter_mut()) {
            *g = -x;
            logp -= 0.5 * x * x;
        }
        Ok(logp)
    }
    fn expand_vector<R: rand::Rng + ?Sized>(&mut self, _rng: &mut R, position: &[f64]) -> Result<Vec<f64>, nuts_rs::CpuMathError> {
        Ok(position.to_vec())
    }
}
struct FailingModel {
    math: CpuMath<Failing>,
}
impl Model for FailingModel {
    type Math<'model>
        = CpuMath<Failing>
    where
        Self: 'model;
    fn math<R: rand::Rng + ?Sized>(&self, _rng: &mut R) -> anyhow::Result<Self::Math<'_>> {
        Ok(self.math.clone())
    }
    fn init_position<R: rand::Rng + ?Sized>(&self, _rng: &mut R, position: &mut [f64]) -> anyhow::Result<()> {
        for p in position.iter_mut() {
            *p = 0.3;
        }
        Ok(())
    }
}

/// C13: an unrecoverable density error during a draw must come back as SamplerWaitResult::Err, not as a panic
fn chain_failure(p: &Value) -> Value {
    let fail_at = p["fail_at"].as_u64().unwrap_or(200) as usize;
    let r = quiet(|| {
        let model = FailingModel { math: CpuMath::new(Failing { dim: 2, calls: Default::default(), fail_at }) };
        let mut settings = DiagNutsSettings::default();
        settings.num_chains = 1;
        settings.num_tune = 50;
        settings.num_draws = 50;
        settings.seed = 5;
        let sampler = Sampler::new(model, settings, nuts_rs::CsvConfig::new(std::env::temp_dir().join(format!("verif-replay-{}", std::process::id()))), 1, None).map_err(|e| format!("{e:?}")).unwrap();
        match wait(sampler) {
            Ok(_) => "trace".to_string(),
            Err(e) => format!("err: {}", e.lines().next().unwrap_or("").chars().take(200).collect::<String>()),
        }
    });
    let _ = std::fs::remove_dir_all(std::env::temp_dir().join(format!("verif-replay-{}", std::process::id())));
    match r {
        Ok(s) => json!({"confirmed": !s.starts_with("err"), "panicked": false, "outcome": s}),
        Err(msg) => json!({"confirmed": true, "panicked": true, "message": msg}),
    }
}

#[derive(Error, Debug)]
enum FlowLogpError {}

impl LogpError for FlowLogpError {
    fn is_recoverable(&self) -> bool {
        true
    }
}

/// Standard normal target with an identity normalizing flow.
#[derive(Clone)]
struct FlowNormal {
    dim: usize,
    /// Number of calls to `update_transformation` so far.
    updates: std::sync::Arc<std::sync::atomic::AtomicU64>,
}

/// Identity flow; `id` changes every time the flow is "retrained".
struct IdentityFlow {
    id: i64,
}

impl HasDims for FlowNormal {
    fn dim_sizes(&self) -> HashMap<String, u64> {
        HashMap::from([
            ("unconstrained_parameter".to_string(), self.dim as u64),
            ("dim".to_string(), self.dim as u64),
        ])
    }
}

impl FlowNormal {
    fn logp_grad(position: &[f64], grad: &mut [f64]) -> f64 {
        let mut logp = 0f64;
        for (g, &x) in grad.iter_mut().zip(position.iter()) {
            *g = -x;
            logp -= 0.5 * x * x;
        }
        logp
    }
}

impl CpuLogpFunc for FlowNormal {
    type LogpError = FlowLogpError;
    type FlowParameters = IdentityFlow;
    type ExpandedVector = Vec<f64>;

    fn dim(&self) -> usize {
        self.dim
    }

    fn logp(&mut self, position: &[f64], grad: &mut [f64]) -> Result<f64, Self::LogpError> {
        Ok(Self::logp_grad(position, grad))
    }

    fn expand_vector<R>(
        &mut self,
        _rng: &mut R,
        array: &[f64],
    ) -> Result<Self::ExpandedVector, nuts_rs::CpuMathError>
    where
        R: rand::Rng + ?Sized,
    {
        Ok(array.to_vec())
    }

    fn inv_transform_normalize(
        &mut self,
        _params: &Self::FlowParameters,
        untransformed_position: &[f64],
        untransformed_gradient: &[f64],
        transformed_position: &mut [f64],
        transformed_gradient: &mut [f64],
    ) -> Result<f64, Self::LogpError> {
        transformed_position.copy_from_slice(untransformed_position);
        transformed_gradient.copy_from_slice(untransformed_gradient);
        Ok(0.0)
    }

    fn init_from_untransformed_position(
        &mut self,
        _params: &Self::FlowParameters,
        untransformed_position: &[f64],
        untransformed_gradient: &mut [f64],
        transformed_position: &mut [f64],
        transformed_gradient: &mut [f64],
    ) -> Result<(f64, f64), Self::LogpError> {
        let logp = Self::logp_grad(untransformed_position, untransformed_gradient);
        transformed_position.copy_from_slice(untransformed_position);
        transformed_gradient.copy_from_slice(untransformed_gradient);
        Ok((logp, 0.0))
    }

    fn init_from_transformed_position(
        &mut self,
        _params: &Self::FlowParameters,
        untransformed_position: &mut [f64],
        untransformed_gradient: &mut [f64],
        transformed_position: &[f64],
        transformed_gradient: &mut [f64],
    ) -> Result<(f64, f64), Self::LogpError> {
        untransformed_position.copy_from_slice(transformed_position);
        let logp = Self::logp_grad(untransformed_position, untransformed_gradient);
        transformed_gradient.copy_from_slice(untransformed_gradient);
        Ok((logp, 0.0))
    }

    fn update_transformation<'a, R: rand::Rng + ?Sized>(
        &'a mut self,
        _rng: &mut R,
        _untransformed_positions: impl ExactSizeIterator<Item = &'a [f64]>,
        _untransformed_gradients: impl ExactSizeIterator<Item = &'a [f64]>,
        _untransformed_logp: impl ExactSizeIterator<Item = &'a f64>,
        params: &'a mut Self::FlowParameters,
    ) -> Result<(), Self::LogpError> {
        self.updates.fetch_add(1, std::sync::atomic::Ordering::SeqCst);
        params.id += 1;
        Ok(())
    }

    fn init_transformation<R: rand::Rng + ?Sized>(
        &mut self,
        _rng: &mut R,
        _untransformed_position: &[f64],
        _untransformed_gradient: &[f64],
        _chain: u64,
    ) -> Result<Self::FlowParameters, Self::LogpError> {
        Ok(IdentityFlow { id: 0 })
    }

    fn new_transformation<R: rand::Rng + ?Sized>(
        &mut self,
        _rng: &mut R,
        _dim: usize,
        _chain: u64,
    ) -> Result<Self::FlowParameters, Self::LogpError> {
        Ok(IdentityFlow { id: 0 })
    }

    fn transformation_id(&self, params: &Self::FlowParameters) -> Result<i64, Self::LogpError> {
        Ok(params.id)
    }
}


/// C06 (flow presets): same question as `last_step` for ExternalTransformAdaptation
fn flow_last_step(p: &Value) -> Value {
    let n = p["num_tune"].as_u64().unwrap_or(30);
    let w = p["step_size_window"].as_f64().unwrap_or(0.0);
    let r = quiet(|| {
        let mut settings = nuts_rs::FlowNutsSettings::default();
        settings.num_tune = n;
        settings.num_draws = 10;
        settings.maxdepth = 6;
        settings.adapt_options.step_size_window = w;
        settings.adapt_options.step_size_settings.jitter = None;
        let math = CpuMath::new(FlowNormal { dim: 3, updates: Default::default() });
        let mut rng = rand::rngs::StdRng::seed_from_u64(42);
        let mut chain = settings.new_chain(0, math, &mut rng);
        chain.set_position(&[0.3, -0.2, 0.1]).unwrap();
        let mut installed = f64::NAN;
        let mut bars = vec![];
        for d in 0..(n + 10) {
            let (_pos, _e, stats, prog) = chain.expanded_draw().unwrap();
            if d + 1 == n {
                installed = prog.step_size;
            }
            if d >= n {
                bars.push(stats.adapt.step_size.step_size_bar);
            }
        }
        (installed, bars)
    });
    match r {
        Ok((s, bars)) => json!({"confirmed": n > 0 && s != bars[0], "step_for_first_sampling_draw": s, "final_averaged_step": bars[0], "num_tune": n, "step_size_window": w}),
        Err(msg) => json!({"confirmed": false, "panicked": true, "message": msg}),
    }
}

/// translator validation (C06/C09): per-draw observables of a real DiagNutsSettings chain for a given warm-up schedule
fn schedule(p: &Value) -> Value {
    let n = p["num_tune"].as_u64().unwrap_or(40);
    let nd = p["num_draws"].as_u64().unwrap_or(4);
    let r = quiet(|| {
        let mut settings = DiagNutsSettings::default();
        settings.num_tune = n;
        settings.num_draws = nd;
        settings.maxdepth = 6;
        let a = &mut settings.adapt_options;
        if let Some(x) = p["early_window"].as_f64() { a.early_window = x; }
        if let Some(x) = p["step_size_window"].as_f64() { a.step_size_window = x; }
        if let Some(x) = p["switch_freq"].as_u64() { a.mass_matrix_switch_freq = x; }
        if let Some(x) = p["early_switch_freq"].as_u64() { a.early_mass_matrix_switch_freq = x; }
        if let Some(x) = p["update_freq"].as_u64() { a.mass_matrix_update_freq = x; }
        if let Some(x) = p["growth"].as_f64() { a.mass_matrix_window_growth = x; }
        a.step_size_settings.jitter = None;
        let dim = p["dim"].as_u64().unwrap_or(4) as usize;
        let math = CpuMath::new(Normal { dim });
        let mut rng = rand::rngs::StdRng::seed_from_u64(p["seed"].as_u64().unwrap_or(7));
        let mut chain = settings.new_chain(0, math, &mut rng);
        chain.set_position(&vec![0.3f64; dim]).unwrap();
        let (mut tuning, mut diverging, mut idx, mut upd, mut step) = (vec![], vec![], vec![], vec![], vec![]);
        for _ in 0..(n + nd) {
            let (_pos, _e, stats, prog) = chain.expanded_draw().unwrap();
            tuning.push(prog.tuning);
            diverging.push(prog.diverging);
            idx.push(stats.point.index_in_trajectory);
            upd.push(stats.hamiltonian.transformation.transformation_update_id);
            step.push(prog.step_size);
        }
        (tuning, diverging, idx, upd, step)
    });
    match r {
        Ok((tuning, diverging, idx, upd, step)) => json!({"confirmed": true, "tuning": tuning, "diverging": diverging, "index_in_trajectory": idx, "update_id": upd, "step_size": step}),
        Err(msg) => json!({"confirmed": false, "panicked": true, "message": msg}),
    }
}

/// model validation (C03): per-draw tree statistics of a real DiagNutsSettings chain with a fixed step size
fn tree_stats(p: &Value) -> Value {
    let maxdepth = p["maxdepth"].as_u64().unwrap_or(4);
    let mindepth = p["mindepth"].as_u64().unwrap_or(0);
    let step = p["step"].as_f64().unwrap_or(0.7);
    let nd = p["num_draws"].as_u64().unwrap_or(150);
    let r = quiet(|| {
        let mut settings = DiagNutsSettings::default();
        settings.num_tune = 0;
        settings.num_draws = nd;
        settings.maxdepth = maxdepth;
        settings.mindepth = mindepth;
        settings.adapt_options.step_size_settings.adapt_options.method = nuts_rs::StepSizeAdaptMethod::Fixed(step);
        settings.adapt_options.step_size_settings.jitter = None;
        let dim = p["dim"].as_u64().unwrap_or(3) as usize;
        let math = CpuMath::new(Normal { dim });
        let mut rng = rand::rngs::StdRng::seed_from_u64(p["seed"].as_u64().unwrap_or(11));
        let mut chain = settings.new_chain(0, math, &mut rng);
        chain.set_position(&vec![2.5f64; dim]).unwrap();
        let (mut depth, mut steps, mut idx, mut flag, mut div, mut moved) = (vec![], vec![], vec![], vec![], vec![], vec![]);
        let mut prev = vec![2.5f64; dim];
        for _ in 0..nd {
            let (pos, _e, stats, prog) = chain.expanded_draw().unwrap();
            depth.push(stats.depth);
            steps.push(prog.num_steps);
            idx.push(stats.point.index_in_trajectory);
            flag.push(stats.maxdepth_reached);
            div.push(prog.diverging);
            moved.push(pos.iter().zip(prev.iter()).any(|(a, b)| a != b));
            prev = pos.to_vec();
        }
        (depth, steps, idx, flag, div, moved)
    });
    match r {
        Ok((depth, steps, idx, flag, div, moved)) => json!({"confirmed": true, "depth": depth, "num_steps": steps, "index_in_trajectory": idx, "maxdepth_reached": flag, "diverging": div, "moved": moved}),
        Err(msg) => json!({"confirmed": false, "panicked": true, "message": msg}),
    }
}

fn main() {
    let args: Vec<String> = std::env::args().collect();
    let fam = args.get(1).map(|s| s.as_str()).unwrap_or("");
    let p: Value = args.get(2).and_then(|s| serde_json::from_str(s).ok()).unwrap_or(json!({}));
    let out = match fam {
        "num_tune" => num_tune(&p),
        "mclmc_tuning" => mclmc_tuning(&p),
        "last_step" => last_step(&p),
        "hashmap_finalize" => hashmap_finalize(&p),
        "chain_failure" => chain_failure(&p),
        "flow_last_step" => flow_last_step(&p),
        "schedule" => schedule(&p),
        "tree_stats" => tree_stats(&p),
        _ => json!({"error": "unknown family"}),
    };
    println!("{}", out);
}
