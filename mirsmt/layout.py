"""Struct layouts read from /repo's sources: MIR addresses fields by declaration index, the queries
address them by name; a renamed/reordered field therefore cannot silently shift a query."""
import re, os
from .mir import match_close, split_top
from .vm import Struct

class Layouts:
    def __init__(self, srcroot):
        self.root = srcroot; self.structs = {}
        for root, dirs, files in os.walk(srcroot):
            dirs[:] = [d for d in dirs if d not in ('target', '.git')]
            for f in files:
                if not f.endswith('.rs'): continue
                p = os.path.join(root, f); rel = os.path.relpath(p, srcroot)
                txt = open(p).read()
                txt_nc = re.sub(r'//[^\n]*', lambda m: ' ' * len(m.group(0)), txt)
                for m in re.finditer(r'\bstruct (\w+)\s*(<[^{;(]*>)?\s*(where[^{;]*)?\{', txt_nc):
                    k = match_close(txt_nc, m.end() - 1); body = txt_nc[m.end():k]
                    body = re.sub(r'#\[[^\]]*\]', '', body)
                    fields = []
                    for part in split_top(body):
                        mm = re.match(r'^\s*(?:pub(?:\([\w:\s]+\))?\s+)?(\w+)\s*:\s*(.*)$', part.strip(), re.S)
                        if mm: fields.append((mm.group(1), ' '.join(mm.group(2).split())))
                    self.structs.setdefault(m.group(1), []).append((rel, fields))
    def fields(self, name, file=None):
        hits = self.structs.get(name, [])
        if file: hits = [h for h in hits if file in h[0]]
        if len(hits) != 1: raise KeyError('struct %s (%s): %d definitions' % (name, file, len(hits)))
        return [f for f, _ in hits[0][1]]
    def make(self, name, values, file=None):
        fs = self.fields(name, file)
        missing = [f for f in fs if f not in values]; extra = [k for k in values if k not in fs]
        if missing or extra: raise KeyError('struct %s: missing %s, unknown %s' % (name, missing, extra))
        return Struct([values[f] for f in fs], name)
    def idx(self, name, field, file=None):
        return self.fields(name, file).index(field)
    def get(self, name, sval, field, file=None):
        return sval.f[self.idx(name, field, file)]
