"""Lazy iterator engine (std::iter adaptors and consumers with Rust's pull semantics).

The older model in iters.py keeps a concrete list of pending items plus map-like stages and covers what the property queries were written
against; this module is the general fallback behind it: every adaptor is a node with an immutable state, `lnext` pulls one item (forking where a
closure's result is symbolic), consumers are loops over `lnext`.  Closures run exactly when Rust would run them (short-circuiting consumers do not
evaluate later items), closures with by-value mutable captures live in a memory cell so that their state survives between calls.
tools/conformance.py compares every adaptor / consumer here with the native result on concrete inputs."""
import re
import z3
from .vm import (Struct, Enum, Seq, Ref, SliceRef, Iter, Closure, Opaque, FnItem, Str, UNIT, NONE, SOME, OK, ERR, ret, is_sym, VMError, Unmodelled, BoundExceeded)
from .alg import Fl

BOUND = 4096
class _End:
    def __repr__(self): return 'END'
END = _End()

class LIter:
    __slots__ = ('k', 'a')
    def __init__(self, k, *a): self.k = k; self.a = a
    def __repr__(self): return 'LIter(%s)' % self.k

def _deref(vm, m, v):
    while isinstance(v, Ref): v = vm.read_at(m, v.cell, v.path)
    return v

def _keep(m, f):
    """closures are kept in a cell: FnMut state captured by value must survive from call to call"""
    if isinstance(f, Ref): return f
    return Ref(m.alloc(f))

def from_any(vm, m, v):
    """IntoIterator for every value the VM knows; None if v is not iterable"""
    if isinstance(v, LIter): return v
    if isinstance(v, Iter):
        it = LIter('seq', tuple(v.items), 0, len(v.items))
        for st in v.stages:
            if st[0] == 'map': it = LIter('map', it, _keep(m, st[1]))
            elif st[0] == 'enumerate': it = LIter('enumerate', it, st[1])
            elif st[0] == 'cloned': it = LIter('cloned', it)
            elif st[0] == 'filter_map': it = LIter('filter_map', it, _keep(m, st[1]))
            else: raise Unmodelled('iterator stage ' + st[0])
        return it
    if isinstance(v, SliceRef): return LIter('seq', tuple(v.elem_ref(k) for k in range(v.count)), 0, v.count)
    if isinstance(v, Ref):
        t = vm.read_at(m, v.cell, v.path)
        if isinstance(t, (LIter, Iter)) or (isinstance(t, Struct) and t.ty in ('Range', 'RangeInclusive', 'ChunksExact')):
            return LIter('byref', v)           # `&mut iterator` is itself an iterator that advances the one it points to
        if isinstance(t, Seq): return LIter('seq', tuple(Ref(v.cell, v.path + (('i', k),)) for k in range(len(t.items))), 0, len(t.items))
        if isinstance(t, (SliceRef, Iter, LIter, Ref)): return from_any(vm, m, t)
        if isinstance(t, Enum) and t.ty in ('Option', 'Result'):      # (&opt).into_iter()
            if t.name in ('Some', 'Ok'): return LIter('seq', (Ref(v.cell, v.path + (('f', 0),)),), 0, 1)
            return LIter('seq', (), 0, 0)
        if isinstance(t, Struct) and t.ty in ('HashMap', 'HashSet', 'Range'):
            from .iters import to_iter
            return from_any(vm, m, to_iter(vm, m, v))
        if isinstance(t, Struct) and t.ty in ('VecDeque', 'BTreeMap'): return from_any(vm, m, _container_iter(vm, m, v, t))
        return None
    if isinstance(v, Seq): return LIter('seq', tuple(v.items), 0, len(v.items))
    if isinstance(v, Enum) and v.ty in ('Option', 'Result'):
        return LIter('seq', (v.f[0],), 0, 1) if v.name in ('Some', 'Ok') else LIter('seq', (), 0, 0)
    if isinstance(v, Struct) and v.ty == 'ChunksExact': return v.f[0]
    if isinstance(v, Struct) and v.ty in ('Range', 'RangeInclusive'):
        lo, hi = v.f[0], v.f[1]
        if is_sym(lo) or is_sym(hi): raise Unmodelled('symbolic range iterator')
        if v.ty == 'RangeInclusive':
            if len(v.f) > 2 and v.f[2]: hi = lo - 1        # exhausted flag
            return LIter('seq', tuple(range(lo, hi + 1)), 0, max(0, hi + 1 - lo))
        return LIter('seq', tuple(range(lo, hi)), 0, max(0, hi - lo))
    if isinstance(v, Struct) and v.ty in ('HashMap', 'HashSet'):
        from .iters import to_iter
        return from_any(vm, m, to_iter(vm, m, v))
    if isinstance(v, Struct) and v.ty in ('VecDeque', 'BTreeMap'): return from_any(vm, m, _container_iter(vm, m, None, v))
    return None

def _container_iter(vm, m, ref, t):
    if t.ty == 'VecDeque':
        inner = t.f[0]
        if ref is None: return Seq(list(inner.items))
        return Iter([Ref(ref.cell, ref.path + (('f', 0), ('i', k))) for k in range(len(inner.items))])
    if t.ty == 'BTreeMap':      # sorted by key (concrete keys only)
        pairs = list(t.f[0].items); keys = [_deref(vm, m, p.f[0]) for p in pairs]
        if any(is_sym(k) for k in keys): raise Unmodelled('BTreeMap iteration with symbolic keys')
        order = sorted(range(len(pairs)), key=lambda i: keys[i].s if isinstance(keys[i], Str) else keys[i])
        if ref is None: return Seq([pairs[i] for i in order])
        return Iter([Struct((Ref(ref.cell, ref.path + (('f', 0), ('i', i), ('f', 0))), Ref(ref.cell, ref.path + (('f', 0), ('i', i), ('f', 1))))) for i in order])
    raise Unmodelled('iteration over ' + t.ty)

# ---------------------------------------------------------------------------------------------- pulling
def _call(vm, m, f, args):
    return vm.call_closure(m, f, args)

def lnext(vm, m, it, back=False):
    """one item from the front (or, for double-ended iterators, the back): list of (machine, kind, value | END | panic payload, new iterator)"""
    k = it.k; a = it.a
    if k == 'byref':
        r = a[0]; inner = from_any(vm, m, vm.read_at(m, r.cell, r.path)); outs = []
        for (m1, kd, v, s2) in lnext(vm, m, inner, back):
            if kd == 'ret': vm.write_at(m1, r.cell, list(r.path), s2)
            outs.append((m1, kd, v, it))
        return outs
    if k == 'seq':
        items, lo, hi = a
        if lo >= hi: return [(m, 'ret', END, it)]
        if back: return [(m, 'ret', items[hi - 1], LIter('seq', items, lo, hi - 1))]
        return [(m, 'ret', items[lo], LIter('seq', items, lo + 1, hi))]
    if k == 'rev': return [(m1, kd, v, LIter('rev', s2) if kd == 'ret' else it) for (m1, kd, v, s2) in lnext(vm, m, a[0], not back)]
    if k in ('map', 'inspect', 'cloned'):
        outs = []
        for (m1, kd, v, s2) in lnext(vm, m, a[0], back):
            if kd != 'ret': outs.append((m1, kd, v, it)); continue
            it2 = LIter(k, s2, *a[1:])
            if v is END: outs.append((m1, 'ret', END, it2)); continue
            if k == 'cloned': outs.append((m1, 'ret', _deref(vm, m1, v), it2)); continue
            arg = v if k == 'map' else Ref(m1.alloc(v))
            for (m2, k2, r) in _call(vm, m1, a[1], [arg]):
                outs.append((m2, k2, (r if k == 'map' else v) if k2 == 'ret' else r, it2))
        return outs
    if k in ('filter', 'filter_map', 'skip_while'):
        outs = []; work = [(m, a[0], 0)]
        while work:
            (m0, s, n) = work.pop()
            if n > BOUND: raise BoundExceeded('iterator filter')
            for (m1, kd, v, s2) in lnext(vm, m0, s, back):
                if kd != 'ret': outs.append((m1, kd, v, it)); continue
                if v is END: outs.append((m1, 'ret', END, LIter(k, s2, *a[1:]))); continue
                if k == 'skip_while' and a[2]: outs.append((m1, 'ret', v, LIter(k, s2, a[1], True))); continue
                arg = v if k == 'filter_map' else Ref(m1.alloc(v))
                for (m2, k2, r) in _call(vm, m1, a[1], [arg]):
                    if k2 != 'ret': outs.append((m2, k2, r, it)); continue
                    if k == 'filter_map':
                        for (m3, some) in _is_some(vm, m2, r):
                            if some: outs.append((m3, 'ret', r.f[0], LIter(k, s2, a[1])))
                            else: work.append((m3, s2, n + 1))
                    else:
                        for (m3, bv) in vm.branch(m2, r):
                            if k == 'filter':
                                if bv: outs.append((m3, 'ret', v, LIter(k, s2, a[1])))
                                else: work.append((m3, s2, n + 1))
                            else:
                                if bv: work.append((m3, s2, n + 1))
                                else: outs.append((m3, 'ret', v, LIter(k, s2, a[1], True)))
        return outs
    if k == 'enumerate':
        if back: raise Unmodelled('next_back of enumerate')
        outs = []
        for (m1, kd, v, s2) in lnext(vm, m, a[0]):
            if kd != 'ret': outs.append((m1, kd, v, it))
            elif v is END: outs.append((m1, 'ret', END, LIter(k, s2, a[1])))
            else: outs.append((m1, 'ret', Struct((a[1], v)), LIter(k, s2, a[1] + 1)))
        return outs
    if k == 'zip':
        if back: raise Unmodelled('next_back of zip')
        outs = []
        for (m1, kd, v, s2) in lnext(vm, m, a[0]):
            if kd != 'ret': outs.append((m1, kd, v, it)); continue
            if v is END: outs.append((m1, 'ret', END, LIter(k, s2, a[1]))); continue
            for (m2, k2, w, t2) in lnext(vm, m1, a[1]):
                if k2 != 'ret': outs.append((m2, k2, w, it))
                elif w is END: outs.append((m2, 'ret', END, LIter(k, s2, t2)))
                else: outs.append((m2, 'ret', Struct((v, w)), LIter(k, s2, t2)))
        return outs
    if k == 'chain':
        first, second = (a[1], a[0]) if back else (a[0], a[1]); outs = []
        def mk(x, y): return LIter(k, y, x) if back else LIter(k, x, y)
        if first is None: return [(m1, kd, v, mk(None, s2) if kd == 'ret' else it) for (m1, kd, v, s2) in lnext(vm, m, second, back)]
        for (m1, kd, v, s2) in lnext(vm, m, first, back):
            if kd != 'ret': outs.append((m1, kd, v, it)); continue
            if v is not END: outs.append((m1, 'ret', v, mk(s2, second))); continue
            if second is None: outs.append((m1, 'ret', END, mk(None, None))); continue
            for (m2, k2, w, t2) in lnext(vm, m1, second, back): outs.append((m2, k2, w, mk(None, t2) if k2 == 'ret' else it))
        return outs
    if k == 'skip':
        if back:
            n = llen(vm, m, a[0])
            if n is None: raise Unmodelled('next_back of skip without a known length')
            if n <= a[1]: return [(m, 'ret', END, it)]
            return [(m1, kd, v, LIter(k, s2, a[1]) if kd == 'ret' else it) for (m1, kd, v, s2) in lnext(vm, m, a[0], True)]
        cur = [(m, a[0])]; outs = []
        for _ in range(a[1]):
            nxt = []
            for (m0, s) in cur:
                for (m1, kd, v, s2) in lnext(vm, m0, s):
                    if kd != 'ret': outs.append((m1, kd, v, it))
                    elif v is END: outs.append((m1, 'ret', END, LIter(k, s2, 0)))
                    else: nxt.append((m1, s2))
            cur = nxt
        for (m0, s) in cur:
            for (m1, kd, v, s2) in lnext(vm, m0, s): outs.append((m1, kd, v, LIter(k, s2, 0) if kd == 'ret' else it))
        return outs
    if k == 'take':
        if a[1] <= 0: return [(m, 'ret', END, it)]
        if back:
            n = llen(vm, m, a[0])
            if n is None: raise Unmodelled('next_back of take without a known length')
            cur = [(m, a[0])]; outs = []
            for _ in range(max(0, n - a[1])):     # drop the surplus from the back first
                nxt = []
                for (m0, s) in cur:
                    for (m1, kd, v, s2) in lnext(vm, m0, s, True):
                        if kd != 'ret': outs.append((m1, kd, v, it))
                        else: nxt.append((m1, s2))
                cur = nxt
            for (m0, s) in cur:
                for (m1, kd, v, s2) in lnext(vm, m0, s, True): outs.append((m1, kd, v, LIter(k, s2, min(a[1], n) - 1) if kd == 'ret' else it))
            return outs
        return [(m1, kd, v, (LIter(k, s2, a[1] - 1) if v is not END else LIter(k, s2, 0)) if kd == 'ret' else it) for (m1, kd, v, s2) in lnext(vm, m, a[0])]
    if k == 'step_by':
        if back: raise Unmodelled('next_back of step_by')
        step, first = a[1], a[2]
        if first: return [(m1, kd, v, LIter(k, s2, step, False) if kd == 'ret' else it) for (m1, kd, v, s2) in lnext(vm, m, a[0])]
        return [(m1, kd, v, LIter(k, s2.a[0], step, False) if kd == 'ret' else it) for (m1, kd, v, s2) in lnext(vm, m, LIter('skip', a[0], step - 1))]
    if k in ('take_while', 'map_while'):
        if back: raise Unmodelled('next_back of ' + k)
        if a[2]: return [(m, 'ret', END, it)]
        outs = []
        for (m1, kd, v, s2) in lnext(vm, m, a[0]):
            if kd != 'ret': outs.append((m1, kd, v, it)); continue
            if v is END: outs.append((m1, 'ret', END, LIter(k, s2, a[1], False))); continue
            arg = v if k == 'map_while' else Ref(m1.alloc(v))
            for (m2, k2, r) in _call(vm, m1, a[1], [arg]):
                if k2 != 'ret': outs.append((m2, k2, r, it)); continue
                if k == 'map_while':
                    for (m3, some) in _is_some(vm, m2, r):
                        outs.append((m3, 'ret', r.f[0], LIter(k, s2, a[1], False)) if some else (m3, 'ret', END, LIter(k, s2, a[1], True)))
                else:
                    for (m3, bv) in vm.branch(m2, r):
                        outs.append((m3, 'ret', v, LIter(k, s2, a[1], False)) if bv else (m3, 'ret', END, LIter(k, s2, a[1], True)))
        return outs
    if k == 'scan':
        if back: raise Unmodelled('next_back of scan')
        outs = []
        for (m1, kd, v, s2) in lnext(vm, m, a[0]):
            if kd != 'ret': outs.append((m1, kd, v, it)); continue
            if v is END: outs.append((m1, 'ret', END, LIter(k, s2, a[1], a[2]))); continue
            for (m2, k2, r) in _call(vm, m1, a[2], [a[1], v]):
                if k2 != 'ret': outs.append((m2, k2, r, it)); continue
                for (m3, some) in _is_some(vm, m2, r):
                    outs.append((m3, 'ret', r.f[0] if some else END, LIter(k, s2, a[1], a[2])))
        return outs
    if k == 'flatten':
        # a[0]: outer iterator, a[1]: inner iterator being drained (front), a[2]: inner at the back
        outs = []; work = [(m, a[0], a[1], 0)]
        if back: raise Unmodelled('next_back of flatten')
        while work:
            (m0, outer, inner, n) = work.pop()
            if n > BOUND: raise BoundExceeded('iterator flatten')
            if inner is not None:
                for (m1, kd, v, i2) in lnext(vm, m0, inner):
                    if kd != 'ret': outs.append((m1, kd, v, it))
                    elif v is END: work.append((m1, outer, None, n + 1))
                    else: outs.append((m1, 'ret', v, LIter(k, outer, i2)))
                continue
            for (m1, kd, v, o2) in lnext(vm, m0, outer):
                if kd != 'ret': outs.append((m1, kd, v, it)); continue
                if v is END: outs.append((m1, 'ret', END, LIter(k, o2, None))); continue
                sub = from_any(vm, m1, v)
                if sub is None: raise Unmodelled('flatten of %r' % (v,))
                work.append((m1, o2, sub, n + 1))
        return outs
    if k == 'peekable':
        if back: raise Unmodelled('next_back of peekable')
        if a[1] is not None:
            return [(m, 'ret', a[1][0], LIter(k, a[0], None))]
        return [(m1, kd, v, LIter(k, s2, None) if kd == 'ret' else it) for (m1, kd, v, s2) in lnext(vm, m, a[0])]
    if k == 'cycle':
        if back: raise Unmodelled('next_back of cycle')
        outs = []
        for (m1, kd, v, s2) in lnext(vm, m, a[1]):
            if kd != 'ret': outs.append((m1, kd, v, it)); continue
            if v is not END: outs.append((m1, 'ret', v, LIter(k, a[0], s2))); continue
            for (m2, k2, w, t2) in lnext(vm, m1, a[0]): outs.append((m2, k2, w, LIter(k, a[0], t2) if k2 == 'ret' else it))
        return outs
    if k == 'repeat': return [(m, 'ret', a[0], it)]
    if k == 'successors':
        if a[0] is None: return [(m, 'ret', END, it)]
        cur = a[0]; outs = []
        for (m2, k2, r) in _call(vm, m, a[1], [Ref(m.alloc(cur))]):
            if k2 != 'ret': outs.append((m2, k2, r, it)); continue
            for (m3, some) in _is_some(vm, m2, r): outs.append((m3, 'ret', cur, LIter(k, r.f[0] if some else None, a[1])))
        return outs
    if k == 'from_fn':
        outs = []
        for (m2, k2, r) in _call(vm, m, a[0], []):
            if k2 != 'ret': outs.append((m2, k2, r, it)); continue
            for (m3, some) in _is_some(vm, m2, r): outs.append((m3, 'ret', r.f[0] if some else END, it))
        return outs
    raise Unmodelled('iterator kind ' + k)

def _is_some(vm, m, r):
    if isinstance(r, Enum): yield m, r.name in ('Some', 'Ok'); return
    raise Unmodelled('symbolic Option discriminant from an iterator closure: %r' % (r,))

def llen(vm, m, it):
    """exact remaining length where it is known without running closures, else None"""
    k = it.k; a = it.a
    if k == 'byref': return llen(vm, m, from_any(vm, m, vm.read_at(m, a[0].cell, a[0].path)))
    if k == 'seq': return max(0, a[2] - a[1])
    if k in ('map', 'inspect', 'cloned', 'rev', 'enumerate'): return llen(vm, m, a[0])
    if k == 'zip':
        x, y = llen(vm, m, a[0]), llen(vm, m, a[1]); return None if x is None or y is None else min(x, y)
    if k == 'chain':
        x = 0 if a[0] is None else llen(vm, m, a[0]); y = 0 if a[1] is None else llen(vm, m, a[1]); return None if x is None or y is None else x + y
    if k == 'skip':
        x = llen(vm, m, a[0]); return None if x is None else max(0, x - a[1])
    if k == 'take':
        x = llen(vm, m, a[0]); return None if x is None else min(x, a[1])
    if k == 'step_by':
        x = llen(vm, m, a[0])
        if x is None: return None
        return (x + a[1] - 1) // a[1] if a[2] else x // a[1]
    if k == 'peekable':
        x = llen(vm, m, a[0]); return None if x is None else x + (1 if a[1] is not None else 0)
    return None

# ---------------------------------------------------------------------------------------------- consumers
def consume(vm, m, it, acc, step, back=False):
    """run `step(m, acc, item) -> [(m, kind, acc2, stop)]` over the items; returns [(m, kind, acc | panic payload, iterator, stopped early)]"""
    outs = []; work = [(m, it, acc, 0)]
    while work:
        (m0, s, ac, n) = work.pop()
        if n > BOUND: raise BoundExceeded('iterator consumer')
        for (m1, kd, v, s2) in lnext(vm, m0, s, back):
            if kd != 'ret': outs.append((m1, kd, v, s2, False)); continue
            if v is END: outs.append((m1, 'ret', ac, s2, False)); continue
            for (m2, k2, ac2, stop) in step(m1, ac, v):
                if k2 != 'ret': outs.append((m2, k2, ac2, s2, False))
                elif stop: outs.append((m2, 'ret', ac2, s2, True))
                else: work.append((m2, s2, ac2, n + 1))
    return outs

def _cmp(vm, m, a, b):
    """total order of two comparable VM values: list of (machine, -1 | 0 | 1)"""
    a = _deref(vm, m, a); b = _deref(vm, m, b)
    if isinstance(a, Fl) or isinstance(b, Fl): raise Unmodelled('Ord on floats')
    if isinstance(a, Str) and isinstance(b, Str): return [(m, (a.s > b.s) - (a.s < b.s))]
    if isinstance(a, (Struct, Seq)) and isinstance(b, type(a)):
        xs = a.f if isinstance(a, Struct) else a.items; ys = b.f if isinstance(b, Struct) else b.items
        cur = [(m, 0)]
        for x, y in zip(xs, ys):
            nxt = []
            for (m0, c) in cur:
                if c != 0: nxt.append((m0, c))
                else: nxt += _cmp(vm, m0, x, y)
            cur = nxt
        return [(m0, c if c != 0 else (len(xs) > len(ys)) - (len(xs) < len(ys))) for (m0, c) in cur]
    if isinstance(a, Enum) and isinstance(b, Enum):
        if a.idx != b.idx: return [(m, (a.idx > b.idx) - (a.idx < b.idx))]
        return _cmp(vm, m, Struct(a.f), Struct(b.f))
    if isinstance(a, bool) and isinstance(b, bool): return [(m, (a > b) - (a < b))]
    outs = []
    for (m1, lt) in vm.branch(m, a < b):
        if lt: outs.append((m1, -1)); continue
        for (m2, eq) in vm.branch(m1, a == b): outs.append((m2, 0 if eq else 1))
    return outs

def _ordering(c): return Enum(c, {-1: 'Less', 0: 'Equal', 1: 'Greater'}[c], (), 'Ordering')
def _ord_val(vm, m, r):
    r = _deref(vm, m, r)
    if isinstance(r, Enum) and r.ty == 'Ordering': return r.idx
    raise Unmodelled('symbolic Ordering')

def _add(vm, a, b):
    if isinstance(a, Fl) or isinstance(b, Fl): return vm.alg.add(a, b)
    return a + b
def _mul(vm, a, b):
    if isinstance(a, Fl) or isinstance(b, Fl): return vm.alg.mul(a, b)
    return a * b

def _int_range(c, what):
    from .vm import INT_RANGES
    mm = re.search(what + r'::<(u8|u16|u32|u64|usize|i8|i16|i32|i64|isize)>', c) or re.search(r'<(u8|u16|u32|u64|usize|i8|i16|i32|i64|isize) as (?:Sum|Product)', c)
    t = mm.group(1) if mm else None
    if t == 'isize': t = 'i64'
    return INT_RANGES.get(t)

def collect_into(vm, m, c, vals):
    """FromIterator for the target named in the callee text"""
    mm = re.search(r'collect::<(.*)>$', c) or re.search(r'<(.*) as FromIterator', c)
    tgt = mm.group(1) if mm else 'Vec<_>'
    tgt = re.sub(r'\b(?:std|core|alloc)::(?:\w+::)*', '', tgt).strip()
    if tgt.startswith('Result<') or tgt.startswith('Option<'):
        raise VMError('collect_into called for a fallible target')     # handled by the caller (short-circuit)
    if tgt.startswith('HashMap<'):
        from .intrinsics import hm_new
        pairs = []
        for v in vals:
            v = _deref(vm, m, v); k = _deref(vm, m, v.f[0])
            for i, p in enumerate(pairs):
                if _same_key(p.f[0], k): pairs[i] = Struct((k, v.f[1])); break
            else: pairs.append(Struct((k, v.f[1])))
        return hm_new(vm, pairs)
    if tgt.startswith('BTreeMap<'):
        pairs = []
        for v in vals:
            v = _deref(vm, m, v); k = _deref(vm, m, v.f[0])
            for i, p in enumerate(pairs):
                if _same_key(p.f[0], k): pairs[i] = Struct((k, v.f[1])); break
            else: pairs.append(Struct((k, v.f[1])))
        return Struct((Seq(pairs),), 'BTreeMap')
    if tgt.startswith('HashSet<') or tgt.startswith('BTreeSet<'):
        seen = []
        for v in vals:
            k = _deref(vm, m, v)
            if not any(_same_key(_deref(vm, m, x), k) for x in seen): seen.append(v)
        return Struct((Seq(seen),), 'HashSet')
    if tgt.startswith('VecDeque<'): return Seq(list(vals))
    if tgt.startswith('String'):
        s = ''
        for v in vals:
            v = _deref(vm, m, v)
            if isinstance(v, Str): s += v.s
            else: raise Unmodelled('collect::<String> of %r' % (v,))
        return Str(s)
    return Seq(list(vals))

def _same_key(a, b):
    if isinstance(a, Str) and isinstance(b, Str): return a.s == b.s
    if is_sym(a) or is_sym(b): raise Unmodelled('symbolic map / set key')
    if isinstance(a, Fl) and isinstance(b, Fl): return a.v == b.v
    if isinstance(a, Struct) and isinstance(b, Struct): return len(a.f) == len(b.f) and all(_same_key(x, y) for x, y in zip(a.f, b.f))
    return a == b

def _fallible_target(c):
    mm = re.search(r'collect::<(.*)>$', c)
    if not mm: return None
    t = re.sub(r'\b(?:std|core|alloc)::(?:\w+::)*', '', mm.group(1)).strip()
    if t.startswith('Result<'): return 'Result', t[len('Result<'):]
    if t.startswith('Option<'): return 'Option', t[len('Option<'):]
    return None

CONSUMERS = {'collect', 'sum', 'product', 'count', 'min', 'max', 'min_by', 'max_by', 'min_by_key', 'max_by_key', 'fold', 'try_fold', 'reduce', 'all', 'any', 'position', 'rposition',
             'find', 'find_map', 'last', 'nth', 'for_each', 'try_for_each', 'unzip', 'partition', 'eq', 'ne', 'lt', 'le', 'gt', 'ge', 'cmp', 'is_sorted', 'is_sorted_by', 'size_hint', 'len', 'next', 'next_back',
             'peek', 'collect_vec', 'extend', 'is_empty'}
ADAPTORS = {'map', 'filter', 'filter_map', 'enumerate', 'zip', 'chain', 'rev', 'skip', 'take', 'step_by', 'take_while', 'skip_while', 'map_while', 'scan', 'flat_map', 'flatten', 'peekable', 'cycle', 'fuse',
            'inspect', 'cloned', 'copied', 'by_ref', 'into_iter'}

def dispatch(vm, m, c, args):
    """c: canonical callee text (std path qualifiers stripped)"""
    if c.endswith(' as IntoIterator>::into_iter'):
        it = from_any(vm, m, args[0])
        return NotImplemented if it is None else ret(m, it)
    mm = re.search(r' as (?:Iterator|DoubleEndedIterator|ExactSizeIterator|Itertools)>::(\w+)(?:::<.*>)?$', c) or re.match(r'^Peekable::<.*>::(peek)$', c)
    if not mm: return _sources(vm, m, c, args)
    n = mm.group(1)
    if n not in CONSUMERS and n not in ADAPTORS: return NotImplemented
    if n in ('next', 'next_back', 'peek', 'by_ref') or (n in CONSUMERS and isinstance(args[0], Ref) and isinstance(_deref_once(vm, m, args[0]), (LIter, Iter)) and n in ('nth', 'len', 'size_hint', 'last', 'count', 'find', 'position', 'all', 'any', 'try_fold', 'try_for_each', 'find_map', 'is_empty')):
        # methods taking &mut self: operate on the iterator stored behind the reference and write the advanced state back
        r = args[0]
        if not isinstance(r, Ref): raise VMError('%s on a non-reference iterator' % n)
        stored = _deref_once(vm, m, r)
        it = from_any(vm, m, stored)
        if it is None: return NotImplemented
        if n == 'by_ref': return ret(m, r)
        if n in ('next', 'next_back'):
            outs = []
            for (m1, kd, v, it2) in lnext(vm, m, it, n == 'next_back'):
                if kd != 'ret': outs.append((m1, kd, v)); continue
                vm.write_at(m1, r.cell, list(r.path), it2); outs.append((m1, 'ret', NONE() if v is END else SOME(v)))
            return outs
        if n == 'peek':
            if it.k != 'peekable': raise VMError('peek on ' + it.k)
            if it.a[1] is not None:
                cell = m.alloc(it.a[1][0]); return ret(m, SOME(Ref(cell)))
            outs = []
            for (m1, kd, v, s2) in lnext(vm, m, it.a[0]):
                if kd != 'ret': outs.append((m1, kd, v)); continue
                if v is END: vm.write_at(m1, r.cell, list(r.path), LIter('peekable', s2, None)); outs.append((m1, 'ret', NONE())); continue
                vm.write_at(m1, r.cell, list(r.path), LIter('peekable', s2, (v,))); outs.append((m1, 'ret', SOME(Ref(m1.alloc(v)))))
            return outs
        res = []
        for (m1, kd, v, it2) in _consumer(vm, m, c, n, it, args):
            if kd == 'ret': vm.write_at(m1, r.cell, list(r.path), it2)
            res.append((m1, kd, v))
        return res
    src = from_any(vm, m, args[0])
    if src is None: return NotImplemented
    if n in ADAPTORS:
        if n == 'map': return ret(m, LIter('map', src, _keep(m, args[1])))
        if n == 'inspect': return ret(m, LIter('inspect', src, _keep(m, args[1])))
        if n in ('cloned', 'copied'): return ret(m, LIter('cloned', src))
        if n == 'filter': return ret(m, LIter('filter', src, _keep(m, args[1])))
        if n == 'filter_map': return ret(m, LIter('filter_map', src, _keep(m, args[1])))
        if n == 'skip_while': return ret(m, LIter('skip_while', src, _keep(m, args[1]), False))
        if n == 'take_while': return ret(m, LIter('take_while', src, _keep(m, args[1]), False))
        if n == 'map_while': return ret(m, LIter('map_while', src, _keep(m, args[1]), False))
        if n == 'enumerate': return ret(m, LIter('enumerate', src, 0))
        if n in ('zip', 'chain'):
            other = from_any(vm, m, args[1])
            if other is None: raise Unmodelled('%s with %r' % (n, args[1]))
            return ret(m, LIter(n, src, other))
        if n == 'rev': return ret(m, LIter('rev', src))
        if n in ('skip', 'take', 'step_by'):
            if not isinstance(args[1], int): raise Unmodelled('symbolic %s count' % n)
            if n == 'step_by':
                if args[1] == 0: return [(m, 'panic', ('assertion failed: step != 0', None, None))]
                return ret(m, LIter('step_by', src, args[1], True))
            return ret(m, LIter(n, src, args[1]))
        if n == 'scan': return ret(m, LIter('scan', src, Ref(m.alloc(args[1])), _keep(m, args[2])))
        if n == 'flat_map': return ret(m, LIter('flatten', LIter('map', src, _keep(m, args[1])), None))
        if n == 'flatten': return ret(m, LIter('flatten', src, None))
        if n == 'peekable': return ret(m, LIter('peekable', src, None))
        if n == 'cycle': return ret(m, LIter('cycle', src, src))
        if n in ('fuse', 'into_iter', 'by_ref'): return ret(m, src)
    return [(m1, kd, v) for (m1, kd, v, _it) in _consumer(vm, m, c, n, src, args)]

def _deref_once(vm, m, r):
    v = vm.read_at(m, r.cell, r.path)
    while isinstance(v, Ref): v = vm.read_at(m, v.cell, v.path)
    return v

def _consumer(vm, m, c, n, it, args):
    """returns [(machine, kind, value, iterator afterwards)]"""
    A = vm.alg
    def done(outs, f=lambda m1, acc: acc): return [(m1, kd, f(m1, acc) if kd == 'ret' else acc, it2) for (m1, kd, acc, it2, _st) in outs]
    if n in ('collect', 'collect_vec'):
        fall = _fallible_target(c)
        if fall:
            # Result<C, E> / Option<C>: stops at the first Err / None
            def step(m1, acc, v):
                v = _deref(vm, m1, v)
                if not isinstance(v, Enum): raise Unmodelled('collect into %s of %r' % (fall[0], v))
                if v.name in ('Err', 'None'): return [(m1, 'ret', ('stop', v), True)]
                return [(m1, 'ret', ('go', acc[1] + [v.f[0]]), False)]
            inner = 'collect::<%s' % fall[1]
            return done(consume(vm, m, it, ('go', []), step), lambda m1, acc: acc[1] if acc[0] == 'stop' else (OK if fall[0] == 'Result' else SOME)(collect_into(vm, m1, inner, acc[1])))
        return done(consume(vm, m, it, [], lambda m1, acc, v: [(m1, 'ret', acc + [v], False)]), lambda m1, acc: collect_into(vm, m1, c, acc))
    if n == 'count': return done(consume(vm, m, it, 0, lambda m1, acc, v: [(m1, 'ret', acc + 1, False)]))
    if n == 'last': return done(consume(vm, m, it, NONE(), lambda m1, acc, v: [(m1, 'ret', SOME(v), False)]))
    if n in ('sum', 'product'):
        rng = _int_range(c, n); isf = 'f64' in c.split(' as Iterator')[-1] or 'f32' in c.split(' as Iterator')[-1]
        def step(m1, acc, v):
            v = _deref(vm, m1, v)
            if acc is None: acc = (A.const(0.0 if n == 'sum' else 1.0) if isinstance(v, Fl) else (0 if n == 'sum' else 1))
            r = _add(vm, acc, v) if n == 'sum' else _mul(vm, acc, v)
            if not isinstance(r, Fl) and rng is not None:
                outs = []
                for (m2, ok) in vm.branch(m1, z3.And(r >= rng[0], r <= rng[1]) if is_sym(r) else (rng[0] <= r <= rng[1])):
                    outs.append((m2, 'ret', r, False) if ok else (m2, 'panic', ('attempt to %s with overflow' % ('add' if n == 'sum' else 'multiply'), None, None), False))
                return outs
            return [(m1, 'ret', r, False)]
        return done(consume(vm, m, it, None, step), lambda m1, acc: acc if acc is not None else (A.const(0.0 if n == 'sum' else 1.0) if isf else (0 if n == 'sum' else 1)))
    if n in ('min', 'max', 'min_by', 'max_by', 'min_by_key', 'max_by_key'):
        want_max = n.startswith('max')
        def step(m1, acc, v):
            if n.endswith('_key'):
                res = []
                for (m2, k2, key) in _call(vm, m1, args[1], [Ref(m1.alloc(v))]):
                    if k2 != 'ret': res.append((m2, k2, key, False)); continue
                    if acc is None: res.append((m2, 'ret', (v, key), False)); continue
                    for (m3, cc) in _cmp(vm, m2, acc[1], key):
                        # max keeps the last of equal maxima, min the first of equal minima
                        take_new = (cc <= 0) if want_max else (cc > 0)
                        res.append((m3, 'ret', (v, key) if take_new else acc, False))
                return res
            if acc is None: return [(m1, 'ret', (v, None), False)]
            if n.endswith('_by'):
                res = []
                for (m2, k2, o) in _call(vm, m1, args[1], [Ref(m1.alloc(acc[0])), Ref(m1.alloc(v))]):
                    if k2 != 'ret': res.append((m2, k2, o, False)); continue
                    cc = _ord_val(vm, m2, o); take_new = (cc <= 0) if want_max else (cc > 0)
                    res.append((m2, 'ret', (v, None) if take_new else acc, False))
                return res
            res = []
            for (m3, cc) in _cmp(vm, m1, acc[0], v):
                take_new = (cc <= 0) if want_max else (cc > 0)
                res.append((m3, 'ret', (v, None) if take_new else acc, False))
            return res
        return done(consume(vm, m, it, None, step), lambda m1, acc: NONE() if acc is None else SOME(acc[0]))
    if n == 'fold':
        def step(m1, acc, v): return [(m2, k2, r, False) for (m2, k2, r) in _call(vm, m1, args[2], [acc, v])]
        return done(consume(vm, m, it, args[1], step))
    if n == 'reduce':
        def step(m1, acc, v):
            if acc is None: return [(m1, 'ret', (v,), False)]
            return [(m2, k2, (r,) if k2 == 'ret' else r, False) for (m2, k2, r) in _call(vm, m1, args[1], [acc[0], v])]
        return done(consume(vm, m, it, None, step), lambda m1, acc: NONE() if acc is None else SOME(acc[0]))
    if n in ('try_fold', 'try_for_each'):
        f = args[2] if n == 'try_fold' else args[1]; init = args[1] if n == 'try_fold' else UNIT
        state = {'wrap': None}
        def step(m1, acc, v):
            res = []
            for (m2, k2, r) in _call(vm, m1, f, [acc, v] if n == 'try_fold' else [v]):
                if k2 != 'ret': res.append((m2, k2, r, False)); continue
                if not isinstance(r, Enum): raise Unmodelled('%s with a symbolic Try value' % n)
                if r.ty == 'ControlFlow':
                    state['wrap'] = 'ControlFlow'
                    if r.name == 'Break': res.append((m2, 'ret', ('stop', r), True))
                    else: res.append((m2, 'ret', r.f[0] if r.f else UNIT, False))
                    continue
                state['wrap'] = r.ty
                if r.name in ('Err', 'None'): res.append((m2, 'ret', ('stop', r), True))
                else: res.append((m2, 'ret', r.f[0], False))
            return res
        def fin(m1, acc):
            if isinstance(acc, tuple) and len(acc) == 2 and acc[0] == 'stop': return acc[1]
            w = state['wrap'] or ('Result' if 'Result<' in c else ('ControlFlow' if 'ControlFlow<' in c else 'Option'))
            if w == 'Result': return OK(acc)
            if w == 'ControlFlow': return Enum(0, 'Continue', (acc,), 'ControlFlow')
            return SOME(acc)
        return done(consume(vm, m, it, init, step), fin)
    if n == 'for_each':
        def step(m1, acc, v): return [(m2, k2, UNIT if k2 == 'ret' else r, False) for (m2, k2, r) in _call(vm, m1, args[1], [v])]
        return done(consume(vm, m, it, UNIT, step))
    if n in ('all', 'any', 'position', 'rposition', 'find', 'find_map'):
        back = n == 'rposition'
        def step(m1, acc, v):
            res = []
            arg = Ref(m1.alloc(v)) if n == 'find' else v
            for (m2, k2, r) in _call(vm, m1, args[1], [arg]):
                if k2 != 'ret': res.append((m2, k2, r, False)); continue
                if n == 'find_map':
                    for (m3, some) in _is_some(vm, m2, r): res.append((m3, 'ret', ('hit', r) if some else acc, some))
                    continue
                for (m3, bv) in vm.branch(m2, r):
                    if n == 'all': res.append((m3, 'ret', ('hit', False), True) if not bv else (m3, 'ret', acc, False))
                    elif n == 'any': res.append((m3, 'ret', ('hit', True), True) if bv else (m3, 'ret', acc, False))
                    elif n == 'find': res.append((m3, 'ret', ('hit', SOME(v)), True) if bv else (m3, 'ret', acc, False))
                    else: res.append((m3, 'ret', ('hit', acc[1]), True) if bv else (m3, 'ret', ('idx', acc[1] + 1), False))
            return res
        if n == 'rposition':
            ln = llen(vm, m, it)
            if ln is None: raise Unmodelled('rposition without a known length')
            outs = consume(vm, m, it, ('idx', 0), step, back=True)
            return done(outs, lambda m1, acc: SOME(ln - 1 - acc[1]) if acc[0] == 'hit' else NONE())
        init = ('idx', 0)
        outs = consume(vm, m, it, init, step)
        def fin(m1, acc):
            hit = acc[0] == 'hit'
            if n == 'all': return acc[1] if hit else True
            if n == 'any': return acc[1] if hit else False
            if n == 'position': return SOME(acc[1]) if hit else NONE()
            return acc[1] if hit else NONE()
        return done(outs, fin)
    if n == 'nth':
        k = args[1]
        if not isinstance(k, int): raise Unmodelled('symbolic nth')
        def step(m1, acc, v): return [(m1, 'ret', ('hit', v), True)] if acc[1] == k else [(m1, 'ret', ('idx', acc[1] + 1), False)]
        return done(consume(vm, m, it, ('idx', 0), step), lambda m1, acc: SOME(acc[1]) if acc[0] == 'hit' else NONE())
    if n in ('unzip', 'partition'):
        if n == 'unzip':
            def step(m1, acc, v):
                v = _deref(vm, m1, v); return [(m1, 'ret', (acc[0] + [v.f[0]], acc[1] + [v.f[1]]), False)]
        else:
            def step(m1, acc, v):
                res = []
                for (m2, k2, r) in _call(vm, m1, args[1], [Ref(m1.alloc(v))]):
                    if k2 != 'ret': res.append((m2, k2, r, False)); continue
                    for (m3, bv) in vm.branch(m2, r): res.append((m3, 'ret', (acc[0] + [v], acc[1]) if bv else (acc[0], acc[1] + [v]), False))
                return res
        return done(consume(vm, m, it, ([], []), step), lambda m1, acc: Struct((Seq(acc[0]), Seq(acc[1]))))
    if n in ('eq', 'ne', 'lt', 'le', 'gt', 'ge', 'cmp'):
        other = from_any(vm, m, args[1])
        if other is None: raise Unmodelled('iterator comparison with %r' % (args[1],))
        outs = []; work = [(m, it, other, 0)]
        while work:
            (m0, x, y, k) = work.pop()
            if k > BOUND: raise BoundExceeded('iterator comparison')
            for (m1, kd, v, x2) in lnext(vm, m0, x):
                if kd != 'ret': outs.append((m1, kd, v, it)); continue
                for (m2, k2, w, y2) in lnext(vm, m1, y):
                    if k2 != 'ret': outs.append((m2, k2, w, it)); continue
                    if v is END or w is END:
                        cc = 0 if (v is END and w is END) else (-1 if v is END else 1); outs.append((m2, 'ret', cc, x2)); continue
                    for (m3, cc) in _cmp(vm, m2, v, w):
                        if cc != 0: outs.append((m3, 'ret', cc, x2))
                        else: work.append((m3, x2, y2, k + 1))
        f = {'eq': lambda cc: cc == 0, 'ne': lambda cc: cc != 0, 'lt': lambda cc: cc < 0, 'le': lambda cc: cc <= 0, 'gt': lambda cc: cc > 0, 'ge': lambda cc: cc >= 0, 'cmp': _ordering}[n]
        return [(m1, kd, f(v) if kd == 'ret' else v, i2) for (m1, kd, v, i2) in outs]
    if n in ('is_sorted', 'is_sorted_by'):
        def step(m1, acc, v):
            if acc is None: return [(m1, 'ret', (v,), False)]
            if n == 'is_sorted': return [(m2, 'ret', (v,) if cc <= 0 else ('no',), cc > 0) for (m2, cc) in _cmp_partial(vm, m1, acc[0], v)]
            res = []
            for (m2, k2, r) in _call(vm, m1, args[1], [Ref(m1.alloc(acc[0])), Ref(m1.alloc(v))]):
                if k2 != 'ret': res.append((m2, k2, r, False)); continue
                for (m3, bv) in vm.branch(m2, r): res.append((m3, 'ret', (v,) if bv else ('no',), not bv))
            return res
        return done(consume(vm, m, it, None, step), lambda m1, acc: not (acc is not None and acc[0] == 'no'))
    if n in ('len', 'size_hint', 'is_empty'):
        ln = llen(vm, m, it)
        if n == 'len':
            if ln is None: raise Unmodelled('len of an iterator without a known length')
            return [(m, 'ret', ln, it)]
        if n == 'is_empty':
            if ln is None: raise Unmodelled('is_empty of an iterator without a known length')
            return [(m, 'ret', ln == 0, it)]
        if ln is not None: return [(m, 'ret', Struct((ln, SOME(ln))), it)]
        up = _upper(vm, m, it)
        return [(m, 'ret', Struct((0, SOME(up) if up is not None else NONE())), it)]
    if n == 'extend': return NotImplemented
    raise Unmodelled('iterator consumer ' + n)

def _upper(vm, m, it):
    ln = llen(vm, m, it)
    if ln is not None: return ln
    if it.k in ('filter', 'filter_map', 'skip_while', 'take_while', 'map_while', 'scan', 'inspect'): return _upper(vm, m, it.a[0])
    return None

def _cmp_partial(vm, m, a, b):
    a = _deref(vm, m, a); b = _deref(vm, m, b)
    if isinstance(a, Fl) and isinstance(b, Fl):
        A = vm.alg; outs = []
        for (m1, le) in vm.branch(m, A.le(a, b)): outs.append((m1, 0 if le else 1))
        return outs
    return _cmp(vm, m, a, b)

def _sources(vm, m, c, args):
    if re.match(r'^(?:iter::)?repeat::<', c): return ret(m, LIter('repeat', args[0]))
    if re.match(r'^(?:iter::)?once::<', c): return ret(m, LIter('seq', (args[0],), 0, 1))
    if re.match(r'^(?:iter::)?empty::<', c): return ret(m, LIter('seq', (), 0, 0))
    if re.match(r'^(?:iter::)?successors::<', c):
        f = _keep(m, args[1]); first = args[0]
        if not isinstance(first, Enum): raise Unmodelled('successors with a symbolic first element')
        return ret(m, LIter('successors', first.f[0] if first.name == 'Some' else None, f))
    if re.match(r'^(?:iter::)?from_fn::<', c): return ret(m, LIter('from_fn', _keep(m, args[0])))
    if re.match(r'^(?:iter::)?zip::<', c):
        a, b = from_any(vm, m, args[0]), from_any(vm, m, args[1])
        if a is None or b is None: return NotImplemented
        return ret(m, LIter('zip', a, b))
    return NotImplemented
