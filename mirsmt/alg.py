"""Float policies of engine S (DESIGN 3.1): R (exact reals), ABS (uninterpreted IEEE ops),
FP64 (bit-precise), CONC (python floats, for translator validation / replay)."""
import math, struct
from fractions import Fraction
import z3

def parse_float_const(txt):
    """MIR const text like `1f64`, `-0.5f64`, `1.0E-10f64`, `f64::INFINITY` -> python float"""
    t = txt.strip()
    if t.endswith('f64') or t.endswith('f32'): t = t[:-3]
    t = t.rstrip('_')
    if t in ('inf', '+inf'): return math.inf
    if t == '-inf': return -math.inf
    if t.lower() == 'nan': return math.nan
    return float(t)

class Fl:
    """marker wrapper so that the VM can tell float values from ints in every policy"""
    __slots__ = ('v',)
    def __init__(self, v): self.v = v
    def __repr__(self): return 'Fl(%s)' % (self.v,)

class RealAlg:
    """floats as exact reals; NaN/inf do not exist (stated as part of every R-policy claim).
    Transcendentals are uninterpreted; queries add the axiom instances they need."""
    name = 'R'
    def __init__(self):
        R = z3.RealSort()
        self.uf = {n: z3.Function(n, R, R) for n in ('exp', 'ln', 'ln_1p', 'sqrt', 'sin', 'cos', 'round', 'ceil', 'floor', 'log2', 'abs_u', 'exp_m1', 'tanh', 'log10')}
        self.uf2 = {n: z3.Function(n, R, R, R) for n in ('powf',)}
        self.powi = z3.Function('powi', R, z3.IntSort(), R)
        self.used = []          # (name, args) of every UF application, for axiom instantiation
        self.lemmas = []
        self.INF = z3.Real('INF__')        # symbolic "infinity" used only where a query opts in
    def const(self, f):
        if math.isinf(f): return Fl(self.INF if f > 0 else -self.INF)
        if math.isnan(f): return Fl(z3.Real('NAN__'))          # a NaN literal is only ever data under the R policy (never compared)
        fr = Fraction(f)
        # use the shortest decimal when it is exact enough to round-trip (keeps terms readable)
        return Fl(z3.RealVal(fr))
    def const_txt(self, txt):
        t = txt.strip()
        for suf in ('f64', 'f32'):
            if t.endswith(suf): t = t[:-3]
        try:
            fr = Fraction(t)        # decimal literal as written in the source: exact real
            return Fl(z3.RealVal(fr))
        except (ValueError, ZeroDivisionError):
            return self.const(parse_float_const(txt))
    def fresh(self, name): return Fl(z3.Real(name))
    def add(self, a, b): return Fl(a.v + b.v)
    def sub(self, a, b): return Fl(a.v - b.v)
    def mul(self, a, b): return Fl(a.v * b.v)
    def div(self, a, b): return Fl(a.v / b.v)
    def neg(self, a): return Fl(-a.v)
    def fma(self, a, b, c): return Fl(a.v * b.v + c.v)
    def lt(self, a, b): return a.v < b.v
    def le(self, a, b): return a.v <= b.v
    def gt(self, a, b): return a.v > b.v
    def ge(self, a, b): return a.v >= b.v
    def eq(self, a, b): return a.v == b.v
    def ne(self, a, b): return a.v != b.v
    def is_nan(self, a): return False
    def is_finite(self, a): return True
    def is_infinite(self, a): return False
    def is_normal(self, a): return a.v != 0
    def is_subnormal(self, a): return False
    def from_int(self, i): return Fl(z3.ToReal(i) if z3.is_expr(i) else z3.RealVal(i))
    def trunc(self, a):
        x = a.v
        return z3.If(x >= 0, z3.ToInt(x), -z3.ToInt(-x))
    def to_int(self, a, lo, hi):
        t = self.trunc(a)
        return z3.If(t < lo, z3.IntVal(lo), z3.If(t > hi, z3.IntVal(hi), t))
    def minf(self, a, b): return Fl(z3.If(a.v <= b.v, a.v, b.v))
    def maxf(self, a, b): return Fl(z3.If(a.v >= b.v, a.v, b.v))
    def clampf(self, x, lo, hi): return Fl(z3.If(x.v < lo.v, lo.v, z3.If(x.v > hi.v, hi.v, x.v)))
    def absf(self, a): return Fl(z3.If(a.v >= 0, a.v, -a.v))
    def call1(self, n, a):
        t = self.uf[n](a.v); self.used.append((n, (a.v,), t))
        # rounding functions: plain mathematical facts, emitted as lemma instances (used by every feasibility query)
        if n == 'round':   # f64::round: nearest integer, ties away from zero
            h = z3.RealVal('1/2')
            self.lemmas += [z3.IsInt(t), z3.Implies(a.v >= 0, z3.And(t <= a.v + h, t > a.v - h)), z3.Implies(a.v < 0, z3.And(t >= a.v - h, t < a.v + h))]
        elif n == 'floor': self.lemmas += [t <= a.v, t > a.v - 1, z3.IsInt(t)]
        elif n == 'ceil': self.lemmas += [t >= a.v, t < a.v + 1, z3.IsInt(t)]
        return Fl(t)
    def call2(self, n, a, b):
        t = self.uf2[n](a.v, b.v); self.used.append((n, (a.v, b.v), t)); return Fl(t)
    def ite(self, c, a, b): return Fl(z3.If(c, a.v, b.v))
    def powi_sym(self, a, e):
        t = self.powi(a.v, e); self.used.append(('powi', (a.v, e), t)); return Fl(t)

class AbsAlg:
    """same-IEEE-expression abstraction: every operation is an uninterpreted function over an
    abstract sort; equality under congruence implies bit-equality under IEEE semantics."""
    name = 'ABS'
    def __init__(self):
        S = z3.DeclareSort('F64abs'); self.S = S
        self.f1 = {}; self.f2 = {}; self.f3 = {}; self.S_ = S
        self.consts = {}
    def _f(self, n, k):
        d = {1: self.f1, 2: self.f2, 3: self.f3}[k]
        if n not in d: d[n] = z3.Function('f_' + n, *([self.S] * (k + 1)))
        return d[n]
    def const(self, f):
        key = struct.pack('>d', f).hex()
        if key not in self.consts: self.consts[key] = z3.Const('c_' + key, self.S)
        return Fl(self.consts[key])
    def const_txt(self, txt): return self.const(parse_float_const(txt))
    def fresh(self, name): return Fl(z3.Const(name, self.S))
    def add(self, a, b): return Fl(self._f('add', 2)(a.v, b.v))
    def sub(self, a, b): return Fl(self._f('sub', 2)(a.v, b.v))
    def mul(self, a, b): return Fl(self._f('mul', 2)(a.v, b.v))
    def div(self, a, b): return Fl(self._f('div', 2)(a.v, b.v))
    def neg(self, a): return Fl(self._f('neg', 1)(a.v))
    def fma(self, a, b, c): return Fl(self._f('fma', 3)(a.v, b.v, c.v))
    def call1(self, n, a): return Fl(self._f(n, 1)(a.v))
    def call2(self, n, a, b): return Fl(self._f(n, 2)(a.v, b.v))
    def minf(self, a, b): return Fl(self._f('min', 2)(a.v, b.v))
    def maxf(self, a, b): return Fl(self._f('max', 2)(a.v, b.v))
    def absf(self, a): return Fl(self._f('abs', 1)(a.v))
    def eq(self, a, b): return a.v == b.v
    def _nope(self, *a): raise NotImplementedError('comparison under ABS policy')
    lt = le = gt = ge = ne = is_nan = is_finite = is_infinite = from_int = to_int = _nope

class FP64Alg:
    name = 'FP64'
    def __init__(self):
        self.S = z3.Float64(); self.rm = z3.RNE()
    def const(self, f): return Fl(z3.FPVal(f, self.S))
    def const_txt(self, txt): return self.const(parse_float_const(txt))
    def fresh(self, name): return Fl(z3.FP(name, self.S))
    def add(self, a, b): return Fl(z3.fpAdd(self.rm, a.v, b.v))
    def sub(self, a, b): return Fl(z3.fpSub(self.rm, a.v, b.v))
    def mul(self, a, b): return Fl(z3.fpMul(self.rm, a.v, b.v))
    def div(self, a, b): return Fl(z3.fpDiv(self.rm, a.v, b.v))
    def neg(self, a): return Fl(z3.fpNeg(a.v))
    def fma(self, a, b, c): return Fl(z3.fpFMA(self.rm, a.v, b.v, c.v))
    def lt(self, a, b): return z3.fpLT(a.v, b.v)
    def le(self, a, b): return z3.fpLEQ(a.v, b.v)
    def gt(self, a, b): return z3.fpGT(a.v, b.v)
    def ge(self, a, b): return z3.fpGEQ(a.v, b.v)
    def eq(self, a, b): return z3.fpEQ(a.v, b.v)
    def ne(self, a, b): return z3.Not(z3.fpEQ(a.v, b.v))
    def is_nan(self, a): return z3.fpIsNaN(a.v)
    def is_infinite(self, a): return z3.fpIsInf(a.v)
    def is_finite(self, a): return z3.And(z3.Not(z3.fpIsNaN(a.v)), z3.Not(z3.fpIsInf(a.v)))
    def is_normal(self, a): return z3.fpIsNormal(a.v)
    def is_subnormal(self, a): return z3.fpIsSubnormal(a.v)
    def minf(self, a, b): return Fl(z3.fpMin(a.v, b.v))
    def maxf(self, a, b): return Fl(z3.fpMax(a.v, b.v))
    def clampf(self, x, lo, hi):
        # f64::clamp: `if x < min {min} else if x > max {max} else {x}` - a NaN stays a NaN
        return Fl(z3.If(z3.fpLT(x.v, lo.v), lo.v, z3.If(z3.fpGT(x.v, hi.v), hi.v, x.v)))
    def absf(self, a): return Fl(z3.fpAbs(a.v))
    def from_int(self, i):
        return Fl(z3.fpToFP(self.rm, z3.ToReal(i) if z3.is_expr(i) else z3.RealVal(i), self.S))
    def ite(self, c, a, b): return Fl(z3.If(c, a.v, b.v))
    def call1(self, n, a):
        if n == 'sqrt': return Fl(z3.fpSqrt(self.rm, a.v))
        f = z3.Function('fp_' + n, self.S, self.S); return Fl(f(a.v))
    def call2(self, n, a, b):
        f = z3.Function('fp_' + n, self.S, self.S, self.S); return Fl(f(a.v, b.v))
    def to_int(self, a, lo, hi): raise NotImplementedError('FloatToInt under FP64')

class FPUAlg(FP64Alg):
    """FP64 values with *uninterpreted* arithmetic: + - * / fma return arbitrary doubles (congruent: the same
    expression is the same value), comparisons / is_finite / is_nan keep their IEEE meaning.  The only IEEE facts
    used are emitted as lemma instances: a finite sum/difference has finite operands; x*c, c finite non-zero:
    finite product => finite x; a NaN operand gives a NaN result; sqrt of a NaN or negative number is NaN.  A sound over-approximation for properties that must hold for every value."""
    name = 'FP64u'
    def __init__(self):
        FP64Alg.__init__(self); S = self.S
        self.f = {n: z3.Function('u_' + n, S, S, S) for n in ('add', 'sub', 'mul', 'div')}
        self.f3 = z3.Function('u_fma', S, S, S, S)
        self.lemmas = []
    def _fin(self, t): return z3.And(z3.Not(z3.fpIsNaN(t)), z3.Not(z3.fpIsInf(t)))
    def add(self, a, b):
        t = self.f['add'](a.v, b.v); self._nan(t, a.v, b.v); self.lemmas.append(z3.Implies(self._fin(t), z3.And(self._fin(a.v), self._fin(b.v)))); return Fl(t)
    def sub(self, a, b):
        t = self.f['sub'](a.v, b.v); self._nan(t, a.v, b.v); self.lemmas.append(z3.Implies(self._fin(t), z3.And(self._fin(a.v), self._fin(b.v)))); return Fl(t)
    def _nan(self, t, *ops): self.lemmas.append(z3.Implies(z3.Or(*[z3.fpIsNaN(o) for o in ops]), z3.fpIsNaN(t)))
    def mul(self, a, b):
        t = self.f['mul'](a.v, b.v); self._nan(t, a.v, b.v); return Fl(t)
    def div(self, a, b):
        t = self.f['div'](a.v, b.v); self._nan(t, a.v, b.v)
        if z3.is_fp_value(a.v) and str(a.v) == '1':
            lo, hi = z3.FPVal(1e-20, self.S), z3.FPVal(1e20, self.S); lo2, hi2 = z3.FPVal(0.99e-20, self.S), z3.FPVal(1.01e20, self.S)
            pos = z3.And(self._fin(t), z3.fpGT(t, z3.FPVal(0.0, self.S)))
            self.lemmas.append(z3.Implies(z3.And(z3.fpGEQ(b.v, lo), z3.fpLEQ(b.v, hi)), z3.And(pos, z3.fpGEQ(t, lo2), z3.fpLEQ(t, hi2))))
            self.lemmas.append(z3.Implies(z3.And(z3.fpGEQ(b.v, lo2), z3.fpLEQ(b.v, hi2)), pos))
        return Fl(t)
    def fma(self, a, b, c): return Fl(self.f3(a.v, b.v, c.v))
    def absf(self, a): return Fl(z3.fpAbs(a.v))
    def neg(self, a): return Fl(z3.fpNeg(a.v))
    def call1(self, n, a):
        if n == 'sqrt':
            f = z3.Function('u_sqrt', self.S, self.S); t = f(a.v)
            self.lemmas.append(z3.Implies(z3.And(self._fin(a.v), z3.fpGT(a.v, z3.FPVal(0.0, self.S))), z3.And(self._fin(t), z3.fpGT(t, z3.FPVal(0.0, self.S)))))
            self.lemmas.append(z3.Implies(z3.Or(z3.fpIsNaN(a.v), z3.fpLT(a.v, z3.FPVal(0.0, self.S))), z3.fpIsNaN(t)))
            return Fl(t)
        return FP64Alg.call1(self, n, a)
    @staticmethod
    def prove_lemmas():
        """discharge the IEEE facts behind the lemma instances with bit-precise FP semantics"""
        S = z3.Float64(); a, b = z3.FP('a', S), z3.FP('b', S); rm = z3.RNE(); out = []
        fin = lambda t: z3.And(z3.Not(z3.fpIsNaN(t)), z3.Not(z3.fpIsInf(t)))
        for nm, t in (('add', z3.fpAdd(rm, a, b)), ('sub', z3.fpSub(rm, a, b))):
            s = z3.Solver(); s.set('timeout', 120000); s.add(fin(t), z3.Not(z3.And(fin(a), fin(b)))); out.append((nm, s.check() == z3.unsat))
        return out
    @staticmethod
    def prove_sqrt_recip_lemmas():
        S = z3.Float64(); x = z3.FP('x', S); rm = z3.RNE(); out = []
        fin = lambda t: z3.And(z3.Not(z3.fpIsNaN(t)), z3.Not(z3.fpIsInf(t))); pos = lambda t: z3.fpGT(t, z3.FPVal(0.0, S))
        s = z3.Solver(); s.set('timeout', 300000); s.add(fin(x), pos(x), z3.Not(z3.And(fin(z3.fpSqrt(rm, x)), pos(z3.fpSqrt(rm, x))))); out.append(('x finite, x > 0 => sqrt(x) finite, > 0', s.check() == z3.unsat))
        r = z3.fpDiv(rm, z3.FPVal(1.0, S), x)
        s = z3.Solver(); s.set('timeout', 300000); s.add(z3.fpGEQ(x, z3.FPVal(1e-20, S)), z3.fpLEQ(x, z3.FPVal(1e20, S)), z3.Not(z3.And(fin(r), pos(r), z3.fpGEQ(r, z3.FPVal(0.99e-20, S)), z3.fpLEQ(r, z3.FPVal(1.01e20, S)))))
        out.append(('1e-20 <= x <= 1e20 => 1/x finite, > 0, within [0.99e-20, 1.01e20]', s.check() == z3.unsat))
        s = z3.Solver(); s.set('timeout', 300000); s.add(z3.fpGEQ(x, z3.FPVal(0.99e-20, S)), z3.fpLEQ(x, z3.FPVal(1.01e20, S)), z3.Not(z3.And(fin(r), pos(r)))); out.append(('0.99e-20 <= x <= 1.01e20 => 1/x finite, > 0', s.check() == z3.unsat))
        s = z3.Solver(); s.set('timeout', 300000); t = z3.fpSqrt(rm, x); s.add(z3.Or(z3.fpIsNaN(x), z3.fpLT(x, z3.FPVal(0.0, S))), z3.Not(z3.fpIsNaN(t))); out.append(('x NaN or x < 0 => sqrt(x) NaN', s.check() == z3.unsat))
        return out

def _fma(a, b, c):
    if any(math.isnan(x) or math.isinf(x) for x in (a, b, c)):
        try: return a * b + c
        except OverflowError: return math.inf
    r = Fraction(a) * Fraction(b) + Fraction(c)
    if r == 0:
        # sign of an exact zero: follow IEEE (sum of opposite-signed zeros is +0 in RNE)
        p_neg = (math.copysign(1, a) * math.copysign(1, b)) < 0
        c_neg = math.copysign(1, c) < 0
        if Fraction(a) * Fraction(b) == 0 and c == 0: return -0.0 if (p_neg and c_neg) else 0.0
        return 0.0
    try: return float(r)
    except OverflowError: return math.inf if r > 0 else -math.inf

class ConcAlg:
    """python doubles (IEEE-754 binary64, round-to-nearest-even) - concrete mode"""
    name = 'CONC'
    def const(self, f): return Fl(float(f))
    def const_txt(self, txt): return Fl(parse_float_const(txt))
    def fresh(self, name): raise NotImplementedError
    def add(self, a, b): return Fl(a.v + b.v)
    def sub(self, a, b): return Fl(a.v - b.v)
    def mul(self, a, b):
        try: return Fl(a.v * b.v)
        except OverflowError: return Fl(math.inf)
    def div(self, a, b):
        if b.v == 0:
            if a.v == 0 or math.isnan(a.v): return Fl(math.nan)
            return Fl(math.copysign(math.inf, a.v) * math.copysign(1, b.v))
        return Fl(a.v / b.v)
    def neg(self, a): return Fl(-a.v)
    def fma(self, a, b, c): return Fl(_fma(a.v, b.v, c.v))
    def lt(self, a, b): return a.v < b.v
    def le(self, a, b): return a.v <= b.v
    def gt(self, a, b): return a.v > b.v
    def ge(self, a, b): return a.v >= b.v
    def eq(self, a, b): return a.v == b.v
    def ne(self, a, b): return a.v != b.v
    def is_nan(self, a): return math.isnan(a.v)
    def is_infinite(self, a): return math.isinf(a.v)
    def is_finite(self, a): return math.isfinite(a.v)
    def to_f32(self, a):
        import struct
        if math.isnan(a.v) or math.isinf(a.v): return a
        try: return Fl(struct.unpack('<f', struct.pack('<f', a.v))[0])
        except OverflowError: return Fl(math.copysign(math.inf, a.v))
    def from_int(self, i): return Fl(float(i))
    def to_int(self, a, lo, hi):
        if math.isnan(a.v): return 0
        if a.v <= lo: return lo
        if a.v >= hi: return hi
        return int(a.v)
    def minf(self, a, b):
        if math.isnan(a.v): return b
        if math.isnan(b.v): return a
        return Fl(min(a.v, b.v))
    def maxf(self, a, b):
        if math.isnan(a.v): return b
        if math.isnan(b.v): return a
        return Fl(max(a.v, b.v))
    def absf(self, a): return Fl(abs(a.v))
    def clampf(self, x, lo, hi): return lo if x.v < lo.v else (hi if x.v > hi.v else x)
    def ite(self, c, a, b): return a if c else b
    def call1(self, n, a):
        x = a.v
        try:
            if n == 'exp': return Fl(math.exp(x))
            if n == 'ln': return Fl(math.log(x) if x > 0 else (-math.inf if x == 0 else math.nan))
            if n == 'ln_1p': return Fl(math.log1p(x) if x > -1 else (-math.inf if x == -1 else math.nan))
            if n == 'sqrt': return Fl(math.sqrt(x) if x >= 0 else math.nan)
            if n == 'sin': return Fl(math.sin(x))
            if n == 'cos': return Fl(math.cos(x))
            if n == 'round': return Fl(float(math.floor(abs(x) + 0.5)) * (1 if x >= 0 else -1) if math.isfinite(x) else x)
            if n == 'ceil': return Fl(float(math.ceil(x)) if math.isfinite(x) else x)
            if n == 'floor': return Fl(float(math.floor(x)) if math.isfinite(x) else x)
            if n == 'log2': return Fl(math.log2(x) if x > 0 else (-math.inf if x == 0 else math.nan))
            if n == 'exp_m1': return Fl(math.expm1(x))
            if n == 'tanh': return Fl(math.tanh(x))
        except OverflowError:
            return Fl(math.inf)
        raise NotImplementedError(n)
    def call2(self, n, a, b):
        if n == 'powf':
            try: return Fl(math.pow(a.v, b.v))
            except OverflowError: return Fl(math.inf)
            except ValueError: return Fl(math.nan)
        raise NotImplementedError(n)
