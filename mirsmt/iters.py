"""Iterator models (std::iter over concrete-length sequences) and pulp::Simd lane models."""
import re
import z3
from .vm import (Struct, Enum, Seq, Ref, SliceRef, Iter, Closure, Opaque, FnItem, Str, UNIT, NONE, SOME, OK, ERR, ret, panic, is_sym, VMError, Unmodelled, _prod)
from .alg import Fl
from .intrinsics import slice_refs, as_slice, deref_val, slice_items

class _Skip:
    def __repr__(self): return 'SKIP'
SKIP = _Skip()     # an item removed by a filter_map stage

def to_iter(vm, m, v):
    """IntoIterator for the values engine S knows"""
    if isinstance(v, Iter): return v
    if isinstance(v, SliceRef): return Iter([v.elem_ref(k) for k in range(v.count)])
    if isinstance(v, Ref):
        t = vm.read_at(m, v.cell, v.path)
        if isinstance(t, Seq): return Iter([Ref(v.cell, v.path + (('i', k),)) for k in range(len(t.items))])
        if isinstance(t, Iter): raise VMError('into_iter of a reference to an iterator (by-reference adaptors advance the original: liter.py)')
        if isinstance(t, SliceRef): return to_iter(vm, m, t)
        if isinstance(t, Struct) and t.ty == 'HashMap':      # `for (k, v) in &map`: pairs of references, in the map's (unspecified) order
            from .intrinsics import hm_order
            return Iter([Struct((Ref(v.cell, v.path + (('f', 0), ('i', i), ('f', 0))), Ref(v.cell, v.path + (('f', 0), ('i', i), ('f', 1))))) for i in hm_order(t, len(t.f[0].items))])
        raise VMError('into_iter of ref to %r' % (t,))
    if isinstance(v, Seq): return Iter(v.items)          # Vec<T> / [T; N] by value
    if isinstance(v, Struct) and v.ty == 'HashSet': return Iter(v.f[0].items)
    if isinstance(v, Struct) and v.ty == 'HashMap':
        from .intrinsics import hm_order
        return Iter([v.f[0].items[i] for i in hm_order(v, len(v.f[0].items))])
    if isinstance(v, Struct) and v.ty == 'Range':
        lo, hi = v.f
        if is_sym(lo) or is_sym(hi): raise Unmodelled('symbolic range iterator')
        return Iter(range(lo, hi))
    raise VMError('into_iter of %r' % (v,))

def pull(vm, m, it, k):
    """apply the lazy map stages of `it` to raw item k: generator of (m, kind, value)"""
    outs = [(m, 'ret', it.items[k])]
    for st in it.stages:
        nxt = []
        for (mm, kind, v) in outs:
            if kind != 'ret': nxt.append((mm, kind, v)); continue
            if v is SKIP and st[0] != 'filter_map': nxt.append((mm, kind, v)); continue
            if st[0] == 'map': nxt += list(vm.call_closure(mm, st[1], [v]))
            elif st[0] == 'enumerate': nxt.append((mm, 'ret', Struct((st[1] + k, v))))
            elif st[0] == 'cloned': nxt.append((mm, 'ret', deref_val(vm, mm, v)))
            elif st[0] == 'filter_map':
                if v is SKIP: nxt.append((mm, kind, v)); continue
                for (m2, k2, v2) in vm.call_closure(mm, st[1], [v]):
                    if k2 != 'ret': nxt.append((m2, k2, v2))
                    else: nxt.append((m2, 'ret', v2.f[0] if v2.name == 'Some' else SKIP))
            else: raise Unmodelled('iterator stage ' + st[0])
        outs = nxt
    return outs

def _is_lazy(vm, m, v):
    from .liter import LIter
    n = 0
    while isinstance(v, Ref) and n < 4:
        try: v = vm.read_at(m, v.cell, v.path)
        except Exception: return False
        n += 1
    return isinstance(v, LIter)

def dispatch(vm, m, c, args):
    if args and any(_is_lazy(vm, m, a) for a in args[:2]): return NotImplemented      # iterators of the general engine (liter.py)
    if c.endswith(' as IntoIterator>::into_iter'):
        try: return ret(m, to_iter(vm, m, args[0]))
        except VMError: return NotImplemented
    mm = re.search(r' as Iterator>::(\w+)(?:::<.*>)?$', c)
    if mm is None and c.endswith(' as Itertools>::collect_vec'): mm = re.search(r'(collect)_vec$', c)
    if mm:
        n = mm.group(1)
        if n == 'filter_map': it = to_iter(vm, m, args[0]); return ret(m, Iter(it.items, it.stages + (('filter_map', args[1]),)))
        if n == 'zip':
            a = to_iter(vm, m, args[0]); b = to_iter(vm, m, args[1])
            if a.stages or b.stages: raise Unmodelled('zip of mapped iterators')
            k = min(len(a.items), len(b.items))
            return ret(m, Iter([Struct((a.items[i], b.items[i])) for i in range(k)]))
        if n == 'map': it = to_iter(vm, m, args[0]); return ret(m, Iter(it.items, it.stages + (('map', args[1]),)))
        if n in ('cloned', 'copied'): it = to_iter(vm, m, args[0]); return ret(m, Iter(it.items, it.stages + (('cloned',),)))
        if n == 'enumerate':
            it = to_iter(vm, m, args[0])
            return ret(m, Iter(it.items, it.stages + (('enumerate', 0),)))
        if n in ('skip', 'take') and isinstance(args[1], int):
            it = to_iter(vm, m, args[0])
            if any(st[0] in ('filter_map', 'enumerate') for st in it.stages): raise Unmodelled('%s after a filtering/enumerating stage' % n)
            return ret(m, Iter(it.items[args[1]:] if n == 'skip' else it.items[:args[1]], it.stages))
        if n == 'rev':
            it = to_iter(vm, m, args[0])
            if it.stages: raise Unmodelled('rev of mapped iterator')
            return ret(m, Iter(tuple(reversed(it.items))))
        if n == 'flat_map': return NotImplemented      # general engine (liter.py): map + flatten, lazily
        if n == 'try_for_each':
            # stops at the first Err / None the closure returns and hands it back; Ok(()) / Some(()) when every item was accepted
            it = to_iter(vm, m, args[0]); live = [m]; done = []
            for k in range(len(it.items)):
                nxt = []
                for m1 in live:
                    for (m2, kind, v) in pull(vm, m1, it, k):
                        if kind != 'ret': done.append((m2, kind, v)); continue
                        for (m3, kind3, r) in vm.call_closure(m2, args[1], [v]):
                            if kind3 != 'ret': done.append((m3, kind3, r))
                            elif isinstance(r, Enum) and r.name in ('Err', 'None'): done.append((m3, 'ret', r))
                            else: nxt.append(m3)
                live = nxt
            ok = OK(UNIT) if 'Result' in c else SOME(UNIT)
            return done + [(m1, 'ret', ok) for m1 in live]
        if n == 'for_each':
            it = to_iter(vm, m, args[0]); ms = [m]
            for k in range(len(it.items)):
                nxt = []
                for m1 in ms:
                    for (m2, kind, v) in pull(vm, m1, it, k):
                        if kind != 'ret': return [(m2, kind, v)]
                        for (m3, kind3, v3) in vm.call_closure(m2, args[1], [v]):
                            if kind3 != 'ret': return [(m3, kind3, v3)]
                            nxt.append(m3)
                ms = nxt
            return [(m1, 'ret', UNIT) for m1 in ms]
        if n == 'next':
            r = args[0]; it = vm.read_at(m, r.cell, r.path)
            if isinstance(it, Struct) and it.ty == 'Range': return NotImplemented
            if not isinstance(it, Iter): return NotImplemented
            if not it.items: return ret(m, NONE())
            outs = []
            for (m2, kind, v) in pull(vm, m, it, 0):
                if kind != 'ret': outs.append((m2, kind, v)); continue
                if v is SKIP: raise Unmodelled('next() on a filter_map iterator')
                st = tuple((s[0], s[1] + 1) if s[0] == 'enumerate' else s for s in it.stages)
                vm.write_at(m2, r.cell, list(r.path), Iter(it.items[1:], st)); outs.append((m2, 'ret', SOME(v)))
            return outs
        if n == 'collect' and re.search(r'collect::<(?:std::result::|core::result::|std::option::|core::option::)?(?:Result|Option)<', c): return NotImplemented   # short-circuiting targets: liter.py
        if n == 'collect' or n == 'sum' or n == 'all' or n == 'any' or n == 'fold' or n == 'count':
            it = to_iter(vm, m, args[0]); outs = [(m, [])]
            for k in range(len(it.items)):
                nxt = []
                for (m1, acc) in outs:
                    for (m2, kind, v) in pull(vm, m1, it, k):
                        if kind != 'ret': return [(m2, kind, v)]
                        nxt.append((m2, acc + ([] if v is SKIP else [v])))
                outs = nxt
            res = []
            for (m1, vals) in outs:
                if n == 'collect' and re.search(r'collect::<(std::collections::)?HashMap<', c):
                    pairs = []
                    for v in vals:
                        k = deref_val(vm, m1, v.f[0])
                        for i, p in enumerate(pairs):
                            if p.f[0].s == k.s: pairs[i] = Struct((k, v.f[1])); break
                        else: pairs.append(Struct((k, v.f[1])))
                    from .intrinsics import hm_new
                    res.append((m1, 'ret', hm_new(vm, pairs)))
                elif n == 'collect' and re.search(r'collect::<(std::collections::)?HashSet<', c) and vals and not isinstance(deref_val(vm, m1, vals[0]), Str): return NotImplemented
                elif n == 'collect' and re.search(r'collect::<(std::collections::)?HashSet<', c):
                    seen = []
                    for v in vals:
                        k = deref_val(vm, m1, v)
                        if not any(deref_val(vm, m1, x).s == k.s for x in seen): seen.append(v)
                    res.append((m1, 'ret', Struct((Seq(seen),), 'HashSet')))
                elif n == 'collect': res.append((m1, 'ret', Seq(vals)))
                elif n == 'count': res.append((m1, 'ret', len(vals)))
                elif n == 'sum':
                    if vals and isinstance(deref_val(vm, m1, vals[0]), Fl) or 'f64' in c:
                        acc = vm.alg.const(0.0)
                        for v in vals: acc = vm.alg.add(acc, deref_val(vm, m1, v))
                    else:
                        acc = 0
                        for v in vals: acc = acc + deref_val(vm, m1, v)
                    res.append((m1, 'ret', acc))
                elif n in ('all', 'any'):
                    cur = [(m1, n == 'all')]
                    # short-circuit semantics
                    pend = [(m1, 0)]
                    while pend:
                        (mx, k) = pend.pop()
                        if k == len(vals): res.append((mx, 'ret', n == 'all')); continue
                        for (m3, kind3, b) in vm.call_closure(mx, args[1], [vals[k]]):
                            if kind3 != 'ret': res.append((m3, kind3, b)); continue
                            for (m4, bv) in vm.branch(m3, b):
                                if bv == (n == 'any'): res.append((m4, 'ret', n == 'any'))
                                else: pend.append((m4, k + 1))
                elif n == 'fold':
                    cur = [(m1, args[1])]
                    for v in vals:
                        nxt = []
                        for (mx, acc) in cur:
                            for (m3, kind3, a2) in vm.call_closure(mx, args[2], [acc, v]):
                                if kind3 != 'ret': return [(m3, kind3, a2)]
                                nxt.append((m3, a2))
                        cur = nxt
                    res += [(mx, 'ret', acc) for (mx, acc) in cur]
            return res
        return NotImplemented
    return NotImplemented

# ----------------------------------------------------------------------------------------------
def install_simd(vm, lanes):
    """pulp::Simd for a fixed lane count; mirrors pulp's portable Scalar128b/256b/512b"""
    A = vm.alg; L = lanes
    def lanewise(f):
        def h(vm, m, c, a):
            vs = [x for x in a[1:]]
            return ret(m, Seq([f(*[v.items[i] for v in vs]) for i in range(L)]))
        return h
    def as_simd(vm, m, c, a):
        s = as_slice(vm, m, a[0])
        if s.shape is not None: raise VMError('as_simd of shaped slice')
        nv = s.count // L
        return ret(m, Struct((SliceRef(s.cell, s.path, s.start, nv, (L,)), SliceRef(s.cell, s.path, s.start + nv * L, s.count - nv * L))))
    def as_arrays(vm, m, c, a):
        s = a[0]; n = int(re.search(r'as_arrays(?:_mut)?::<(\d+)', c).group(1))
        if not isinstance(s, SliceRef) or s.shape is None: raise VMError('as_arrays of %r' % (s,))
        w = s.width(); ng = s.count // n
        return ret(m, Struct((SliceRef(s.cell, s.path, s.start, ng, (n,) + tuple(s.shape)), SliceRef(s.cell, s.path, s.start + ng * n * w, s.count - ng * n, s.shape))))
    def reduce_sum(vm, m, c, a):
        v = list(a[1].items); n = L
        while n > 1:
            n //= 2
            for i in range(n): v[i] = A.add(v[i], v[i + n])
        return ret(m, v[0])
    vm.add_model(r'^<S as pulp::Simd>::as_(mut_)?simd_f64s$', as_simd)
    vm.add_model(r'^as_arrays(_mut)?::<\d+, ', as_arrays)
    vm.add_model(r'^<S as pulp::Simd>::splat_f64s$', lambda vm, m, c, a: ret(m, Seq([a[1]] * L)))
    vm.add_model(r'^<S as pulp::Simd>::mul_add(_e)?_f64s$', lanewise(lambda x, y, z: A.fma(x, y, z)))
    vm.add_model(r'^<S as pulp::Simd>::add_f64s$', lanewise(lambda x, y: A.add(x, y)))
    vm.add_model(r'^<S as pulp::Simd>::sub_f64s$', lanewise(lambda x, y: A.sub(x, y)))
    vm.add_model(r'^<S as pulp::Simd>::mul_f64s$', lanewise(lambda x, y: A.mul(x, y)))
    vm.add_model(r'^<S as pulp::Simd>::neg_f64s$', lanewise(lambda x: A.neg(x)))
    vm.add_model(r'^<S as pulp::Simd>::reduce_sum_f64s$', reduce_sum)
