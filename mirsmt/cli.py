import sys, importlib, os, threading
sys.setrecursionlimit(100000)
def main():
    pid = sys.argv[1]
    from .driver import main as dmain, finish
    mod = importlib.import_module('mirsmt.props.' + pid.lower())
    rep = dmain(pid, mod.run)
    code = finish(rep, level=getattr(mod, 'LEVEL', 'model_checking'), technique=getattr(mod, 'TECHNIQUE', 'symbolic execution of rustc MIR + z3 (bounded)'))
    sys.stdout.flush()
    os._exit(code)
if __name__ == '__main__':
    threading.stack_size(512 * 1024 * 1024)
    t = threading.Thread(target=main); t.start(); t.join()
