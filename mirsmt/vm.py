"""Symbolic VM over parsed MIR (engine S).  Big-step semantics with outcome sets: executing a
function from a machine state yields every (machine', kind, value) outcome, kind in {'ret','panic'}.
Forks happen on symbolic branch conditions (feasibility decided by z3) and inside call models."""
import re, itertools
import z3
from .mir import Mir, Place, MirParseError, strip_generics, match_close, split_top
from .alg import Fl

class _NoMerge(Exception):
    pass
class Unmodelled(Exception):
    """a callee / construct outside the encoding: the query is inconclusive (exit 2)"""
class BoundExceeded(Exception):
    pass
class VMError(Exception):
    pass

# ----------------------------------------------------------------------------------------------
class Struct:
    __slots__ = ('f', 'ty')
    def __init__(self, fields, ty=None): self.f = tuple(fields); self.ty = ty
    def set(self, i, v):
        l = list(self.f); l[i] = v; return Struct(l, self.ty)
    def __repr__(self): return '%s%r' % (self.ty or 'S', self.f)
class Enum:
    __slots__ = ('idx', 'name', 'f', 'ty')
    def __init__(self, idx, name, fields=(), ty=None): self.idx = idx; self.name = name; self.f = tuple(fields); self.ty = ty
    def set(self, i, v):
        l = list(self.f); l[i] = v; return Enum(self.idx, self.name, l, self.ty)
    def __repr__(self): return '%s::%s%r' % (self.ty or 'E', self.name, self.f)
class Seq:
    __slots__ = ('items',)
    def __init__(self, items): self.items = tuple(items)
    def __repr__(self): return 'Seq%r' % (self.items,)
class Ref:
    __slots__ = ('cell', 'path')
    def __init__(self, cell, path=()): self.cell = cell; self.path = tuple(path)
    def __repr__(self): return 'Ref(%s,%s)' % (self.cell, list(self.path))
    def __eq__(self, o): return isinstance(o, Ref) and self.cell == o.cell and self.path == o.path
    def __hash__(self): return hash((self.cell, self.path))
class SliceRef:
    """&[T] / &mut [T]: a window of the Seq stored at (cell, path).  Without `shape`: elements
    [start, start+count).  With `shape` (d1, .., dk): `count` elements of prod(shape) scalars each,
    the first at flat offset `start` (a SIMD re-interpretation of a scalar buffer)."""
    __slots__ = ('cell', 'path', 'start', 'count', 'shape')
    def __init__(self, cell, path, start, count, shape=None): self.cell = cell; self.path = tuple(path); self.start = start; self.count = count; self.shape = shape
    def width(self):
        w = 1
        for d in (self.shape or ()): w *= d
        return w
    def elem_ref(self, k):
        if self.shape is None: return Ref(self.cell, self.path + (('i', self.start + k),))
        return Ref(self.cell, self.path + (('view', self.start + k * self.width(), self.shape),))
    def __repr__(self): return 'SliceRef(%s,%s,%d+%d,%s)' % (self.cell, list(self.path), self.start, self.count, self.shape)
class Iter:
    """an iterator with a concrete, finite list of pending items and lazily applied map stages"""
    __slots__ = ('items', 'stages')
    def __init__(self, items, stages=()): self.items = tuple(items); self.stages = tuple(stages)
    def __repr__(self): return 'Iter(%d items, %d stages)' % (len(self.items), len(self.stages))
class Closure:
    __slots__ = ('cty', 'f', 'parent')
    def __init__(self, cty, caps, parent=None): self.cty = cty; self.f = tuple(caps); self.parent = parent
    def set(self, i, v):
        l = list(self.f); l[i] = v; return Closure(self.cty, l, self.parent)
    def __repr__(self): return 'Closure(%s,%r)' % (self.cty, self.f)
class Coro(Closure):
    """an `async` block / coroutine after the state-machine transform: captured upvars (f), the resume state (discriminant) and the locals
    saved across suspension points, addressed as ((*c) as variant#N).i"""
    __slots__ = ('state', 'saved')
    def __init__(self, cty, caps, parent=None, state=0, saved=None): Closure.__init__(self, cty, caps, parent); self.state = state; self.saved = dict(saved or {})
    def set(self, i, v):
        l = list(self.f); l[i] = v; return Coro(self.cty, l, self.parent, self.state, self.saved)
    def set_saved(self, key, v):
        d = dict(self.saved); d[key] = v; return Coro(self.cty, self.f, self.parent, self.state, d)
    def set_state(self, st): return Coro(self.cty, self.f, self.parent, st, self.saved)
    def __repr__(self): return 'Coro(%s, state %d)' % (self.cty, self.state)
class Opaque:
    __slots__ = ('tag',)
    def __init__(self, tag): self.tag = tag
    def __repr__(self): return 'Opaque(%s)' % (self.tag,)
class FnItem:
    __slots__ = ('text',)
    def __init__(self, text): self.text = text
    def __repr__(self): return 'FnItem(%s)' % self.text
class Str:
    __slots__ = ('s',)
    def __init__(self, s): self.s = s
    def __repr__(self): return 'Str(%r)' % self.s
    def __eq__(self, o): return isinstance(o, Str) and self.s == o.s
    def __hash__(self): return hash(self.s)
UNIT = Struct(())
def NONE(): return Enum(0, 'None', (), 'Option')
def SOME(v): return Enum(1, 'Some', (v,), 'Option')
def OK(v): return Enum(0, 'Ok', (v,), 'Result')
def ERR(v): return Enum(1, 'Err', (v,), 'Result')

INT_RANGES = {'u8': (0, 2 ** 8 - 1), 'u16': (0, 2 ** 16 - 1), 'u32': (0, 2 ** 32 - 1), 'u64': (0, 2 ** 64 - 1), 'usize': (0, 2 ** 64 - 1),
              'u128': (0, 2 ** 128 - 1), 'i8': (-2 ** 7, 2 ** 7 - 1), 'i16': (-2 ** 15, 2 ** 15 - 1), 'i32': (-2 ** 31, 2 ** 31 - 1),
              'i64': (-2 ** 63, 2 ** 63 - 1), 'isize': (-2 ** 63, 2 ** 63 - 1), 'i128': (-2 ** 127, 2 ** 127 - 1)}

def is_sym(v): return z3.is_expr(v)

# ----------------------------------------------------------------------------------------------
class Machine:
    __slots__ = ('mem', 'pc', 'ghost', 'ctr', 'depth')
    def __init__(self):
        self.mem = {}; self.pc = []; self.ghost = {}; self.ctr = [0]; self.depth = 0
    def clone(self):
        m = Machine(); m.mem = dict(self.mem); m.pc = list(self.pc)
        m.ghost = {k: (list(v) if isinstance(v, list) else (dict(v) if isinstance(v, dict) else v)) for k, v in self.ghost.items()}
        m.ctr = [self.ctr[0]]; m.depth = self.depth
        return m
    def fresh_id(self):
        self.ctr[0] += 1; return self.ctr[0]
    def alloc(self, v):
        c = ('h', self.fresh_id()); self.mem[c] = v; return c
    def log(self, key, item):
        self.ghost.setdefault(key, []).append(item)

# ----------------------------------------------------------------------------------------------
class VM:
    def __init__(self, mir, alg, inst=None, timeout_ms=120000, max_call_depth=64):
        self.mir = mir; self.alg = alg; self.inst = inst or {}
        self.models = []            # (compiled regex, handler)
        self.solver = z3.Solver(); self.solver.set('timeout', min(timeout_ms, 30000)); self.retry_timeout_ms = max(timeout_ms, 60000)
        self.nq = 0; self.nstmt = 0; self.solver_time = 0.0; self.max_stmts = None
        self.fns_used = set(); self.models_used = set()
        self.enums = mir.load_enums()
        self.loop_bound = None; self.max_call_depth = max_call_depth
        self.on_drop = None
        self.panic_hook = None
        self.assume_no_overflow = False
        self._resolve_cache = {}
        self.background = []       # global assumptions (axioms) added to every feasibility query
        self.merge_returns = set() # names of functions whose 'ret' outcomes are merged (ite) instead of forked
        self.nmerged = 0
        self.trace = False
        self._cur_machine = None
        self.inst_by_struct = {}; self.cur_fn = None
        self.unknown_is_feasible = False; self.n_unknown_feasible = 0   # over-approximate path feasibility (sound for 'holds' verdicts)

    # ------------------------------------------------------------------ solver
    def feasible(self, m, extra=()):
        conds = [c for c in list(m.pc) + list(extra) + self.background + list(getattr(self.alg, 'lemmas', ()))]
        # fast path: purely concrete
        conds2 = []
        for c in conds:
            if c is True: continue
            if c is False: return False
            conds2.append(c)
        if not conds2: return True
        import time
        t0 = time.time(); self.nq += 1
        self.solver.push(); self.solver.add(*conds2); r = self.solver.check(); self.solver.pop()
        self.solver_time += time.time() - t0
        if r == z3.unknown:
            if self.unknown_is_feasible: self.n_unknown_feasible += 1; return True
            # a loaded machine or an unlucky seed: one retry with a fresh solver, another seed and a much longer limit before giving up
            t0 = time.time(); s2 = z3.Solver(); s2.set('timeout', self.retry_timeout_ms); s2.set('random_seed', 11); s2.add(*conds2); r = s2.check(); self.solver_time += time.time() - t0
            if r == z3.unknown: raise VMError('solver returned unknown on a feasibility query')
        return r == z3.sat

    def branch(self, m, cond):
        """yield (machine, bool) for each feasible side"""
        if cond is True or cond is False:
            yield m, cond; return
        cond = z3.simplify(cond)
        if z3.is_true(cond): yield m, True; return
        if z3.is_false(cond): yield m, False; return
        t = self.feasible(m, [cond]); f = self.feasible(m, [z3.Not(cond)])
        if t and f:
            m2 = m.clone(); m2.pc.append(z3.Not(cond)); m.pc.append(cond)
            yield m, True; yield m2, False
        elif t: yield m, True
        elif f: yield m, False
        # else: path already infeasible - drop it

    # ------------------------------------------------------------------ memory
    def deref(self, m, r, what=''):
        if isinstance(r, Ref): return r.cell, list(r.path)
        if isinstance(r, Struct) and r.ty == 'Box' and r.f and isinstance(r.f[0], Struct) and r.f[0].f and isinstance(r.f[0].f[0], Ref):
            b = r.f[0].f[0]; return b.cell, list(b.path)
        raise VMError('deref of non-reference %r %s' % (r, what))

    def _walk(self, v, path):
        for p in path:
            k = p[0]
            if k == 'f':
                if isinstance(v, (Struct, Enum, Closure)): v = v.f[p[1]]
                elif isinstance(v, Opaque): v = Opaque('%s.%d' % (v.tag, p[1]))      # a component of an unknown value is unknown
                else: raise VMError('field %r of %r' % (p, v))
            elif k == 'i':
                if isinstance(v, Seq): v = v.items[p[1]]
                else: raise VMError('index %r of %r' % (p, v))
            elif k == 'vf':
                if not isinstance(v, Coro) or (p[1], p[2]) not in v.saved: raise VMError('coroutine local %r of %r not set' % (p, v))
                v = v.saved[(p[1], p[2])]
            elif k == 'sub':
                v = Seq(v.items[p[1]:p[2]])
            elif k == 'view':
                v = _reshape(v.items[p[1]:p[1] + _prod(p[2])], p[2])
            else: raise VMError('path elem %r' % (p,))
        return v

    def read_at(self, m, cell, path):
        if cell not in m.mem: raise VMError('read of unset cell %r' % (cell,))
        return self._walk(m.mem[cell], path)

    def write_at(self, m, cell, path, val):
        def upd(v, path):
            if not path: return val
            p = path[0]
            if p[0] == 'f':
                if v is None: raise VMError('field write into uninitialised aggregate')
                if isinstance(v, Opaque): return v                                      # writing into an unknown value leaves it unknown
                return v.set(p[1], upd(v.f[p[1]], path[1:]))
            if p[0] == 'i':
                items = list(v.items); items[p[1]] = upd(items[p[1]], path[1:]); return Seq(items)
            if p[0] == 'vf':
                return v.set_saved((p[1], p[2]), upd(v.saved.get((p[1], p[2])), path[1:]))
            if p[0] == 'sub':
                items = list(v.items); sub = upd(Seq(items[p[1]:p[2]]), path[1:]); items[p[1]:p[2]] = list(sub.items); return Seq(items)
            if p[0] == 'view':
                items = list(v.items); w = _prod(p[2])
                sub = upd(_reshape(items[p[1]:p[1] + w], p[2]), path[1:]); items[p[1]:p[1] + w] = _flatten(sub); return Seq(items)
            raise VMError('write path %r' % (p,))
        m.mem[cell] = upd(m.mem.get(cell), path)

    def resolve(self, m, fid, place):
        """place -> (cell, path)"""
        cell = (fid, place.local); path = []; pend_variant = None
        for p in place.proj:
            k = p[0]
            if k == 'deref':
                r = self.read_at(m, cell, path)
                if isinstance(r, Ref): cell, path = r.cell, list(r.path)
                elif isinstance(r, SliceRef) and r.shape is None: cell, path = r.cell, list(r.path) + [('sub', r.start, r.start + r.count)]
                elif isinstance(r, Struct) and r.ty == 'Box' and r.f and isinstance(r.f[0], Struct) and r.f[0].f and isinstance(r.f[0].f[0], Ref):
                    b = r.f[0].f[0]; cell, path = b.cell, list(b.path)
                else: raise VMError('deref of %r at %s' % (r, place))
            elif k == 'field':
                if pend_variant is not None: path.append(('vf', pend_variant, p[1])); pend_variant = None
                else: path.append(('f', p[1]))
            elif k == 'downcast':
                pend_variant = int(p[1].split('#')[1]) if p[1].startswith('variant#') else None
            elif k == 'constindex':
                idx = p[1]
                if p[3]:
                    s = self.read_at(m, cell, path); idx = len(s.items) - p[1]
                path.append(('i', idx))
            elif k == 'index':
                idx = self.read_at(m, (fid, p[1]), [])
                if is_sym(idx):
                    idx = z3.simplify(idx)
                    if not z3.is_int_value(idx): raise VMError('symbolic index')
                    idx = idx.as_long()
                path.append(('i', idx))
            elif k == 'subslice':
                s = self.read_at(m, cell, path); n = len(s.items)
                path.append(('sub', p[1], n - p[2] if p[3] else p[2]))
            else: raise VMError('projection %r' % (p,))
        return cell, path

    def read_place(self, m, fid, place):
        cell, path = self.resolve(m, fid, place)
        return self.read_at(m, cell, path)

    def write_place(self, m, fid, place, val):
        cell, path = self.resolve(m, fid, place)
        self.write_at(m, cell, path, val)

    # ------------------------------------------------------------------ operands
    def const(self, txt, fn=None):
        t = txt
        if t == 'true': return True
        if t == 'false': return False
        if t == '()': return UNIT
        m = re.match(r'^(-?\d+)_(u8|u16|u32|u64|usize|u128|i8|i16|i32|i64|isize|i128)$', t)
        if m: return int(m.group(1))
        if re.match(r'^-?[\d.]+(?:[eE][+-]?\d+)?f(64|32)$', t) or re.match(r'^-?(inf|NaN|nan)f(64|32)$', t) or re.match(r'^[+-]?inff64$', t):
            return self.alg.const_txt(t)
        mi = re.match(r'^(?:(?:core|std)::)?(?:num::)?(?:<impl )?(u8|u16|u32|u64|usize|u128|i8|i16|i32|i64|isize|i128)>?::(MAX|MIN|BITS)$', t)
        if mi:
            ity = 'i64' if mi.group(1) == 'isize' else mi.group(1); lo, hi = INT_RANGES[ity]
            return {'MAX': hi, 'MIN': lo, 'BITS': (hi - lo).bit_length()}[mi.group(2)]
        if t.startswith('f64::') or t.startswith('core::f64::') or t.startswith('std::f64::'):
            nm = t.split('::')[-1]
            import math
            tbl = {'INFINITY': math.inf, 'NEG_INFINITY': -math.inf, 'NAN': math.nan, 'MAX': 1.7976931348623157e308, 'MIN': -1.7976931348623157e308,
                   'EPSILON': 2.220446049250313e-16, 'MIN_POSITIVE': 2.2250738585072014e-308}
            if nm in tbl: return self.alg.const(tbl[nm])
            ctbl = {'PI': math.pi, 'LN_2': math.log(2), 'E': math.e, 'SQRT_2': math.sqrt(2), 'TAU': 6.283185307179586, 'FRAC_PI_2': 1.5707963267948966, 'FRAC_PI_3': 1.0471975511965979,
                    'FRAC_PI_4': 0.7853981633974483, 'FRAC_PI_6': 0.5235987755982989, 'FRAC_PI_8': 0.39269908169872414, 'FRAC_1_PI': 0.3183098861837907, 'FRAC_2_PI': 0.6366197723675814,
                    'FRAC_2_SQRT_PI': 1.1283791670955126, 'FRAC_1_SQRT_2': 0.7071067811865476, 'LN_10': 2.302585092994046, 'LOG2_E': 1.4426950408889634, 'LOG10_E': 0.4342944819032518,
                    'LOG2_10': 3.321928094887362, 'LOG10_2': 0.3010299956639812}
            if nm in ctbl: return self.alg.const(ctbl[nm])
        if t.startswith('"'): return Str(_unescape(t[1:-1]))
        if t.startswith('b"'): return Opaque(t)
        m = re.match(r"^'(.*)'$", t)
        if m: return Str(m.group(1))
        if t.startswith('ZeroSized: '):
            ty = t[len('ZeroSized: '):]
            if ty.startswith('{closure@'): return Closure(ty, (), fn.name if fn is not None else None)
            return Opaque(t)
        if t.startswith('{closure@'): return Closure(t, (), fn.name if fn is not None else None)
        m = re.match(r'^(.*?)::\{constant#\d+\}: usize = const (\d+)_usize$', t)
        if m: return int(m.group(2))
        m = re.search(r'::promoted\[(\d+)\]$', t)
        if m and fn is not None and self._cur_machine is not None:
            pname = re.sub(r'::\{closure#\d+\}$', '', fn.name) + '::promoted[%s]' % m.group(1) if False else fn.name + '::promoted[%s]' % m.group(1)
            if pname in self.mir.fns:
                outs = list(self.exec_fn(self._cur_machine, self.mir.get(pname), [], keep_frame=True))
                if len(outs) == 1 and outs[0][1] == 'ret': return outs[0][2]
            raise Unmodelled('promoted constant ' + pname)
        base = strip_generics(t)
        nc = self.mir.named_consts().get(base.split('::')[-1].strip())
        if nc is not None and re.match(r'^[\w:]+$', base.strip()):
            ty, lit = nc
            lit = lit.replace('_', '') if ty != 'f64' else lit
            if ty == 'f64':
                mm = re.match(r'^(-?[\d.]+(?:[eE][+-]?\d+)?)(f64)?$', lit.replace('_', ''))
                if mm: return self.alg.const_txt(mm.group(1) + 'f64')
            else:
                mm = re.match(r'^(-?\d+)(u64|usize|i64|u32|i32)?$', lit)
                if mm: return int(mm.group(1))
        # unit enum variant constants / unit structs: `std::option::Option::<X>::None`, `PhantomData::<..>`
        segs = [x.strip() for x in base.split('::') if x.strip()]
        if len(segs) >= 2 and segs[-2] in self.enums and segs[-1] in self.enums[segs[-2]]:
            return Enum(self._variant_idx(segs[-2], segs[-1]), segs[-1], (), segs[-2])
        if len(segs) == 1 and re.match(r'^[A-Z]\w*$', segs[0]): return Struct((), segs[0])
        return Opaque('const ' + t)

    def struct_names(self):
        if getattr(self, '_struct_names', None) is None:
            import os
            names = set()
            for root, dirs, files in os.walk(self.mir.srcroot):
                dirs[:] = [d for d in dirs if d not in ('target', '.git')]
                for f in files:
                    if f.endswith('.rs'): names |= set(re.findall(r'\bstruct (\w+)', open(os.path.join(root, f)).read()))
            self._struct_names = names
        return self._struct_names

    def _variant_idx(self, en, var):
        if en == 'Ordering': return {'Less': -1, 'Equal': 0, 'Greater': 1}[var]
        return self.enums[en].index(var)

    def operand(self, m, fid, o, fn=None):
        k = o[0]
        if k == 'copy' or k == 'move': return self.read_place(m, fid, o[1])
        if k == 'const':
            self._cur_machine = m
            return self.const(o[1], fn)
        if k == 'fnitem': return FnItem(o[1])
        raise VMError('operand kind ' + k)

    def op_type(self, fn, o):
        if o[0] in ('copy', 'move'):
            pl = o[1]
            if not pl.proj: return fn.locals.get(pl.local)
            last = pl.proj[-1]
            if last[0] == 'field': return last[2]
            return None
        if o[0] == 'const':
            m = re.match(r'^-?\d+_(\w+)$', o[1])
            if m: return m.group(1)
            if re.search(r'f64$', o[1]): return 'f64'
        return None

    # ------------------------------------------------------------------ arithmetic
    def int_binop(self, op, a, b, ty):
        if op in ('Add', 'AddUnchecked'): return a + b
        if op in ('Sub', 'SubUnchecked'): return a - b
        if op in ('Mul', 'MulUnchecked'): return a * b
        if op == 'Div':
            if not is_sym(a) and not is_sym(b):
                q = abs(a) // abs(b); return q if (a >= 0) == (b >= 0) else -q
            if ty and ty.startswith('u'): return a / b
            raise Unmodelled('signed symbolic Div')
        if op == 'Rem':
            if not is_sym(a) and not is_sym(b):
                r = abs(a) % abs(b); return r if a >= 0 else -r
            if ty and ty.startswith('u'): return a % b
            raise Unmodelled('signed symbolic Rem')
        if op in ('Shl', 'ShlUnchecked', 'Shr', 'ShrUnchecked'):
            if is_sym(b): raise Unmodelled('symbolic shift amount')
            lo, hi = INT_RANGES.get(ty, (0, 2 ** 64 - 1))
            if op.startswith('Shl'):
                r = a * (2 ** b)
                if is_sym(r): return r % (hi - lo + 1) if lo == 0 else r
                if lo == 0: return r & hi
                return (r - lo) % (hi - lo + 1) + lo          # two's complement: bits shifted out are lost
            if is_sym(a): return a / (2 ** b)
            return a >> b
        if op in ('BitAnd', 'BitOr', 'BitXor'):
            if isinstance(a, bool) or isinstance(b, bool) or z3.is_bool(a) or z3.is_bool(b):
                if op == 'BitAnd': return _and(a, b)
                if op == 'BitOr': return _or(a, b)
                return _xor(a, b)
            if is_sym(a) or is_sym(b): raise Unmodelled('symbolic integer bit op')
            return {'BitAnd': a & b, 'BitOr': a | b, 'BitXor': a ^ b}[op]
        raise Unmodelled('int binop ' + op)

    def binop(self, op, a, b, ty=None):
        A = self.alg
        if isinstance(a, Fl) or isinstance(b, Fl):
            if not (isinstance(a, Fl) and isinstance(b, Fl)): raise VMError('mixed float/int %s %r %r' % (op, a, b))
            f = {'Add': A.add, 'Sub': A.sub, 'Mul': A.mul, 'Div': A.div, 'Lt': A.lt, 'Le': A.le, 'Gt': A.gt, 'Ge': A.ge, 'Eq': A.eq, 'Ne': A.ne}.get(op)
            if f is None and op == 'Rem':
                from .stdmodels import _frem
                return _frem(self, a, b)
            if f is None: raise Unmodelled('float binop ' + op)
            return f(a, b)
        if op in ('Eq', 'Ne', 'Lt', 'Le', 'Gt', 'Ge'):
            if isinstance(a, Enum) and isinstance(b, Enum): a, b = a.idx, b.idx
            if isinstance(a, Str) or isinstance(b, Str):
                r = (a == b); return r if op == 'Eq' else (not r)
            if isinstance(a, bool) and is_sym(b): a = z3.BoolVal(a)
            if isinstance(b, bool) and is_sym(a): b = z3.BoolVal(b)
            r = {'Eq': lambda: a == b, 'Ne': lambda: a != b, 'Lt': lambda: a < b, 'Le': lambda: a <= b, 'Gt': lambda: a > b, 'Ge': lambda: a >= b}[op]()
            return r
        if op == 'Cmp':
            if is_sym(a) or is_sym(b): raise Unmodelled('symbolic Cmp')
            c = -1 if a < b else (1 if a > b else 0)
            return Enum(c, {-1: 'Less', 0: 'Equal', 1: 'Greater'}[c], (), 'Ordering')
        if op.endswith('WithOverflow'):
            base = op[:-len('WithOverflow')]
            r = self.int_binop(base, a, b, ty)
            lo, hi = INT_RANGES.get(ty, (None, None))
            if lo is None: raise VMError('overflow op without type: %s' % ty)
            if is_sym(r):
                ov = z3.Or(r < lo, r > hi)
            else:
                ov = r < lo or r > hi
                if ov: r = (r - lo) % (hi - lo + 1) + lo
            return Struct((r, ov))
        r = self.int_binop(op, a, b, ty)
        if not is_sym(r) and not isinstance(r, bool) and ty in INT_RANGES and op in ('Add', 'Sub', 'Mul'):
            lo, hi = INT_RANGES[ty]
            if r < lo or r > hi: r = (r - lo) % (hi - lo + 1) + lo     # wrapping (only reached with overflow-checks off paths)
        return r

    def unop(self, op, a):
        if op == 'Not':
            if isinstance(a, bool): return not a
            if z3.is_bool(a): return z3.Not(a)
            if is_sym(a): raise Unmodelled('symbolic integer Not')
            raise Unmodelled('integer Not needs a type')
        if op == 'Neg':
            if isinstance(a, Fl): return self.alg.neg(a)
            return -a
        if op == 'PtrMetadata':
            if isinstance(a, SliceRef): return a.count
            if isinstance(a, Ref):
                return UNIT
            raise VMError('PtrMetadata of %r' % (a,))
        raise Unmodelled('unop ' + op)

    def cast(self, m, v, ty, kind, src_ty=None):
        A = self.alg
        if kind == 'IntToFloat': return A.from_int(_b2i(v))
        if kind == 'FloatToInt':
            lo, hi = INT_RANGES[ty]; return A.to_int(v, lo, hi)
        if kind == 'FloatToFloat':
            if ty == 'f32' and isinstance(v, Fl) and isinstance(v.v, float) and hasattr(A, 'to_f32'): return A.to_f32(v)
            return v
        if kind == 'IntToInt':
            v = _b2i(v)
            if isinstance(v, Enum):
                tbl = self.mir.enum_discr.get(v.ty); v = tbl[v.name] if tbl and v.name in tbl else v.idx
            if ty not in INT_RANGES: raise Unmodelled('IntToInt to ' + ty)
            lo, hi = INT_RANGES[ty]
            if not is_sym(v):
                return (v - lo) % (hi - lo + 1) + lo
            if src_ty in INT_RANGES:
                slo, shi = INT_RANGES[src_ty]
                if slo >= lo and shi <= hi: return v
            return z3.If(z3.And(v >= lo, v <= hi), v, (v - lo) % (hi - lo + 1) + lo)
        if kind in ('PtrToPtr', 'Transmute', 'Subtype') or kind.startswith('PointerCoercion'):
            # Box<T> -> raw pointer dance: Unique/NonNull wrappers are single-field structs around the reference
            while isinstance(v, Struct) and len(v.f) == 1 and isinstance(v.f[0], (Ref, SliceRef, Struct)): v = v.f[0]
            if 'Unsize' in kind and isinstance(v, Ref):
                tgt = self.read_at(m, v.cell, v.path)
                if isinstance(tgt, Seq) and ty.strip().endswith(']') and '[' in ty and ';' not in ty.split('[')[-1]:
                    return SliceRef(v.cell, v.path, 0, len(tgt.items))
            return v
        raise Unmodelled('cast kind ' + kind)

    # ------------------------------------------------------------------ rvalues
    def rvalue(self, m, fid, fn, rv, dest_ty=None):
        k = rv[0]
        if k == 'use': return self.operand(m, fid, rv[1], fn)
        if k == 'binop':
            a = self.operand(m, fid, rv[2], fn); b = self.operand(m, fid, rv[3], fn)
            ty = self.op_type(fn, rv[2]) or self.op_type(fn, rv[3])
            if rv[1].endswith('WithOverflow') and ty is None and dest_ty:
                mm = re.match(r'^\((\w+), bool\)$', dest_ty); ty = mm.group(1) if mm else None
            return self.binop(rv[1], a, b, ty)
        if k == 'unop':
            a = self.operand(m, fid, rv[2], fn)
            if rv[1] == 'Not' and not isinstance(a, bool) and not z3.is_bool(a) and not is_sym(a):
                ty = self.op_type(fn, rv[2]); lo, hi = INT_RANGES[ty]
                return hi - a if lo == 0 else -a - 1
            return self.unop(rv[1], a)
        if k == 'cast':
            o = rv[1]
            if o[0] in ('copy', 'move') and len(o[1].proj) >= 2 and all(q[0] == 'field' and q[1] == 0 for q in o[1].proj[-2:]) \
                    and 'Unique<' in str(o[1].proj[-2][2]) and 'NonNull<' in str(o[1].proj[-1][2]):
                # (box.0: Unique<T>).0: NonNull<T> of a Box that is modelled by its bare contents (into_boxed_slice, Box::new of a value): the pointer is the box's own place
                base = Place(o[1].local, o[1].proj[:-2]); bv = self.read_place(m, fid, base)
                if not (isinstance(bv, Struct) and bv.ty == 'Box') and not isinstance(bv, (Ref, SliceRef, Opaque)):
                    cell, path = self.resolve(m, fid, base)
                    return SliceRef(cell, tuple(path), 0, len(bv.items)) if isinstance(bv, Seq) and '[' in str(o[1].proj[-1][2]) else Ref(cell, tuple(path))
            v = self.operand(m, fid, rv[1], fn)
            return self.cast(m, v, rv[2], rv[3], self.op_type(fn, rv[1]))
        if k == 'ref':
            pl = rv[2]
            if pl.proj and pl.proj[-1] == ('deref',):
                # re-borrow of a pointer-like value that is not modelled as a Ref (&str constants, opaque handles)
                try:
                    base = self.read_place(m, fid, Place(pl.local, pl.proj[:-1]))
                    if isinstance(base, (Str, Opaque)): return base
                except VMError: pass
            cell, path = self.resolve(m, fid, pl)
            # a reborrow of a slice keeps the slice view
            if path and path[-1][0] == 'sub':
                s = path[-1]; return SliceRef(cell, path[:-1], s[1], s[2] - s[1])
            return Ref(cell, path)
        if k == 'discriminant':
            v = self.read_place(m, fid, rv[1])
            if isinstance(v, Enum):
                tbl = self.mir.enum_discr.get(v.ty)
                return tbl[v.name] if tbl and v.name in tbl else v.idx
            if isinstance(v, Coro): return v.state
            if isinstance(v, bool): return int(v)
            raise VMError('discriminant of %r' % (v,))
        if k == 'len':
            v = self.read_place(m, fid, rv[1]); return len(v.items)
        if k == 'repeat':
            v = self.operand(m, fid, rv[1], fn)
            n = rv[2].strip()
            mm = re.match(r'^(?:const )?(\d+)(_usize)?$', n)
            if not mm: raise Unmodelled('repeat count ' + n)
            return Seq([v] * int(mm.group(1)))
        if k == 'aggregate':
            ops = [self.operand(m, fid, o, fn) for o in rv[3]]
            kind = rv[1]
            if kind == 'tuple': return Struct(ops)
            if kind == 'array': return Seq(ops)
            if kind == 'closure': return Closure(rv[2], ops, fn.name)
            if kind == 'adt':
                base = strip_generics(rv[2]); segs = [s.strip() for s in base.split('::') if s.strip()]
                if len(segs) >= 2 and segs[-2] in self.enums and segs[-1] in self.enums[segs[-2]]:
                    return Enum(self._variant_idx(segs[-2], segs[-1]), segs[-1], ops, segs[-2])
                if len(segs) == 1:
                    # `use Enum::*`-style variant printed without its enum: unique variant name that is not itself a type name
                    owners = [e for e, vs in self.enums.items() if segs[0] in vs]
                    if len(owners) == 1 and segs[0] not in self.enums and segs[0] not in self.struct_names():
                        return Enum(self._variant_idx(owners[0], segs[0]), segs[0], ops, owners[0])
                return Struct(ops, segs[-1])
        if k == 'shallowbox':
            return self.operand(m, fid, rv[1], fn)
        raise Unmodelled('rvalue ' + k)

    # ------------------------------------------------------------------ calls
    def add_model(self, pattern, handler):
        self.models.append((re.compile(pattern), handler))

    def resolve_callee(self, callee):
        scope = None
        if self.inst_by_struct and self.cur_fn is not None and self.cur_fn.impl_at:
            scope = self.mir.impl_info(*self.cur_fn.impl_at)[1]
        key = (callee, scope if scope in self.inst_by_struct else None)
        if key in self._resolve_cache: return self._resolve_cache[key]
        saved = self.inst
        if key[1] is not None: self.inst = dict(self.inst); self.inst.update(self.inst_by_struct[scope])
        try: res = self._resolve(callee)
        finally: self.inst = saved
        self._resolve_cache[key] = res
        return res

    def _resolve(self, callee):
        c = callee.strip()
        mir = self.mir
        def lookup(ty, trait, meth, file=None):
            hits = mir.index().get((ty, trait, meth), [])
            if file: hits = [h for h in hits if file in h]
            return hits
        if c.startswith('<'):
            k = match_close(c, 0); inner = c[1:k]; rest = c[k + 1:]
            if not rest.startswith('::'): return None
            meth = strip_generics(rest[2:]).split('::')[0]
            parts = _split_as(inner)
            if parts is None: return None
            X, T = parts
            xb = strip_generics(X).strip().lstrip('&').replace('mut ', '').strip().split('::')[-1]
            tb = strip_generics(T).strip().split('::')[-1]
            file = None
            if X.strip() in self.inst: xb, file = self.inst[X.strip()]
            elif xb in self.inst: xb, file = self.inst[xb]
            hits = lookup(xb, tb, meth, file)
            if len(hits) == 1: return mir.get(hits[0])
            if not hits:
                hits = lookup(xb, '<derive>', meth, file)
            if len(hits) > 1:
                pre = '/'.join(x.strip() for x in strip_generics(X).split('::')[:-1] if x.strip())
                h2 = [h for h in hits if pre and pre in h.replace('::', '/')]
                if len(h2) == 1: hits = h2
            if len(hits) == 1: return mir.get(hits[0])
            if len(hits) > 1: return None
            hits = []
            if not hits:
                hits = lookup(None, tb, meth)      # trait default method
                if len(hits) == 1:
                    # the provided method is the right target only if the receiver's impl does not override it: for a receiver whose impl is not
                    # known (`dyn Trait`, an uninstantiated generic parameter) an overriding impl anywhere in the crate makes the call ambiguous
                    idx = mir.index()
                    known = any(k[0] == xb and k[1] == tb for k in idx)
                    overriders = [k for k in idx if k[1] == tb and k[2] == meth and k[0] is not None and idx[k]]
                    if not known and overriders: return None
                    return mir.get(hits[0])
            return None
        base = strip_generics(c)
        if base.rstrip(':') in mir.fns: return mir.get(base.rstrip(':'))          # a free function named with its module path (`helpers::clamp01::<T>`)
        segs = [s.strip() for s in base.split('::') if s.strip()]
        if len(segs) == 1:
            hits = lookup(None, None, segs[0])
            return mir.get(hits[0]) if len(hits) == 1 else None
        ty, meth = segs[-2], segs[-1]
        file = None
        if ty in self.inst: ty, file = self.inst[ty]
        hits = lookup(ty, None, meth, file)
        if len(hits) > 1:
            # disambiguate by module path prefix (e.g. stepsize::adapt::Strategy vs transform::adapt::diagonal::Strategy)
            pre = '/'.join(segs[:-2])
            h2 = [h for h in hits if pre and pre in h.replace('::', '/')]
            if len(h2) == 1: hits = h2
        if len(hits) == 1: return mir.get(hits[0])
        return None

    def call(self, m, callee, args, span=None):
        """generator of (machine, kind, value)"""
        for rx, h in self.models:
            if rx.search(callee):
                self.models_used.add(rx.pattern)
                out = h(self, m, callee, args)
                if out is not NotImplemented:
                    return out
        if re.match(r'^<.* as (?:std::ops::)?Fn(Mut|Once)?<.*>>::call(_mut|_once)?$', callee):
            # direct call of a closure value through the Fn* traits: arguments arrive as one tuple
            tup = args[1]; targs = list(tup.f) if isinstance(tup, Struct) else []
            return self.call_closure(m, args[0], targs)
        from . import intrinsics, iters, liter, stdmodels
        # library models: the older, query-specific ones first (on the callee as printed, then on its canonical form - rustc prints a path as
        # short as the set of visible items allows, so the same function may appear with or without `std::..::`), then the general ones
        cc = canon(callee); first_err = None
        for name in ((callee,) if cc == callee else (callee, cc)):
            for disp in (iters.dispatch, intrinsics.dispatch):
                try: out = disp(self, m, name, args)
                except Unmodelled as e:
                    first_err = first_err or e; continue
                except VMError as e:
                    if disp is iters.dispatch and str(e).startswith('into_iter of'): continue
                    raise
                if out is not NotImplemented: return out
        for disp in (liter.dispatch, stdmodels.dispatch):
            try: out = disp(self, m, cc, args)
            except Unmodelled as e:
                first_err = first_err or e; continue
            if out is not NotImplemented: return out
        fn = self.resolve_callee(callee)
        if fn is None:
            md = re.match(r'^<dyn (\w+)(?:<.*>)?(?: \+ [\w\' ]+)* as (\w+)(?:<.*>)?>::(\w+)$', callee)
            if md and md.group(1) == md.group(2) and args:
                rv = args[0]; hops = 0
                while hops < 6:
                    if isinstance(rv, Ref): rv = self.read_at(m, rv.cell, rv.path)
                    elif isinstance(rv, Struct) and rv.ty == 'Box' and rv.f and isinstance(rv.f[0], Struct) and rv.f[0].f: rv = rv.f[0].f[0]
                    else: break
                    hops += 1
                ty = getattr(rv, 'ty', None)
                if isinstance(rv, (Struct, Enum)) and ty and ty != 'Box':
                    a0 = args[0]
                    if isinstance(a0, Ref):
                        inner = self.read_at(m, a0.cell, a0.path)
                        if isinstance(inner, Struct) and inner.ty == 'Box' and inner.f and isinstance(inner.f[0], Struct) and inner.f[0].f and isinstance(inner.f[0].f[0], Ref): a0 = inner.f[0].f[0]
                    elif isinstance(a0, Struct) and a0.ty == 'Box': a0 = a0.f[0].f[0]
                    fn2 = self.resolve_callee('<%s as %s>::%s' % (ty, md.group(2), md.group(3)))
                    if fn2 is not None: return self.exec_fn(m, fn2, [a0] + list(args[1:]))
        if fn is None:
            if first_err is not None: raise first_err
            raise Unmodelled('callee %s (at %s)' % (callee, span))
        if fn.name in self.merge_returns:
            return self.merge_outcomes(list(self.exec_fn(m, fn, args)))
        return self.exec_fn(m, fn, args)

    # ------------------------------------------------------------------ outcome merging (exact: no path is dropped)
    def _same(self, a, b):
        if a is b: return True
        if isinstance(a, Fl) and isinstance(b, Fl): return self._same(a.v, b.v)
        if is_sym(a) and is_sym(b): return a.eq(b)
        if isinstance(a, (Struct, Closure)) and isinstance(b, type(a)):
            return getattr(a, 'ty', None) == getattr(b, 'ty', None) and len(a.f) == len(b.f) and all(self._same(x, y) for x, y in zip(a.f, b.f))
        if isinstance(a, Enum) and isinstance(b, Enum):
            return a.idx == b.idx and len(a.f) == len(b.f) and all(self._same(x, y) for x, y in zip(a.f, b.f))
        if isinstance(a, Seq) and isinstance(b, Seq):
            return len(a.items) == len(b.items) and all(self._same(x, y) for x, y in zip(a.items, b.items))
        if is_sym(a) or is_sym(b): return False
        try: return type(a) == type(b) and a == b
        except Exception: return False

    def _ite(self, c, a, b):
        if self._same(a, b): return a
        if isinstance(a, Fl) and isinstance(b, Fl): return self.alg.ite(c, a, b)
        if isinstance(a, Struct) and isinstance(b, Struct) and a.ty == b.ty and len(a.f) == len(b.f):
            return Struct([self._ite(c, x, y) for x, y in zip(a.f, b.f)], a.ty)
        if isinstance(a, Enum) and isinstance(b, Enum) and a.idx == b.idx and len(a.f) == len(b.f):
            return Enum(a.idx, a.name, [self._ite(c, x, y) for x, y in zip(a.f, b.f)], a.ty)
        def z(v):
            if isinstance(v, bool): return z3.BoolVal(v)
            if isinstance(v, int): return z3.IntVal(v)
            if is_sym(v): return v
            raise _NoMerge()
        return z3.If(c, z(a), z(b))

    def merge_outcomes(self, outs):
        rets = [o for o in outs if o[1] == 'ret']; rest = [o for o in outs if o[1] != 'ret']
        if len(rets) <= 1: return outs
        pcs = [o[0].pc for o in rets]
        k = 0
        while all(len(pc) > k for pc in pcs) and all(pcs[0][k] is pc[k] or (is_sym(pcs[0][k]) and is_sym(pc[k]) and pcs[0][k].eq(pc[k])) for pc in pcs): k += 1
        conds = [z3.And(*pc[k:]) if len(pc) > k else z3.BoolVal(True) for pc in pcs]
        try:
            m0 = rets[0][0].clone(); val = rets[0][2]
            for (mi, _, vi), ci in zip(rets[1:], conds[1:]):
                keys = set(m0.mem) | set(mi.mem)
                for key in keys:
                    if key not in m0.mem or key not in mi.mem: raise _NoMerge()
                    m0.mem[key] = self._ite(ci, mi.mem[key], m0.mem[key])
                val = self._ite(ci, vi, val)
                for g in set(m0.ghost) | set(mi.ghost):
                    a, b = m0.ghost.get(g), mi.ghost.get(g)
                    if g == 'accepts':
                        if len(b or []) > len(a or []): m0.ghost[g] = list(b)
                        continue
                    if not (a is b or a == b): raise _NoMerge()
                m0.ctr[0] = max(m0.ctr[0], mi.ctr[0])
            m0.pc = list(pcs[0][:k]) + [z3.simplify(z3.Or(*conds))]
            self.nmerged += len(rets) - 1
            return [(m0, 'ret', val)] + rest
        except _NoMerge:
            return outs

    def call_closure(self, m, clo, args):
        """clo: Closure value, or a Ref to one; args: list of already-untupled arguments"""
        cv = clo; ref = None
        while isinstance(cv, Ref):
            ref = cv; cv = self.read_at(m, cv.cell, cv.path)
        if isinstance(cv, Struct) and cv.ty == 'Box' and cv.f and isinstance(cv.f[0], Struct) and cv.f[0].f and isinstance(cv.f[0].f[0], Ref):
            return self.call_closure(m, cv.f[0].f[0], args)      # Box<dyn Fn..>
        if isinstance(cv, FnItem):
            return self.call(m, cv.text, args)
        if not isinstance(cv, Closure): raise VMError('call of non-closure %r' % (cv,))
        def hint(ty, args=args):
            if not args: return True
            v = args[0]
            while isinstance(v, Ref):
                try: v = self.read_at(m, v.cell, v.path)
                except VMError: return True
            t = ty.replace('&', '').replace('mut ', '').strip()
            if isinstance(v, Str): return 'String' in t or 'str' in t
            if isinstance(v, Seq): return t.startswith('Vec<') or t.startswith('[') or 'Vec<' in t
            if isinstance(v, Fl): return t == 'f64'
            if isinstance(v, bool) or z3.is_bool(v): return t == 'bool'
            return True
        fn = self.mir.closure_of(cv.cty, cv.parent, hint)
        a0ty = fn.args[0][1]
        if a0ty.startswith('&'):
            if ref is None: ref = Ref(m.alloc(cv))
            a0 = ref
        else: a0 = cv
        return self.exec_fn(m, fn, [a0] + list(args))

    def exec_fn(self, m, fn, args, keep_frame=False):
        if m.depth >= self.max_call_depth: raise BoundExceeded('call depth')
        fn.parse()
        self.fns_used.add(fn.name)
        if len(args) != len(fn.args): raise VMError('arity mismatch calling %s: %d vs %d' % (fn.name, len(args), len(fn.args)))
        fid = ('F', m.fresh_id())
        for (nm, _), v in zip(fn.args, args): m.mem[(fid, nm)] = v
        # a closure without captures is a zero-sized value: MIR never assigns such a local, it only borrows it (`_16 = &_8`)
        for nm, ty in fn.locals.items():
            if isinstance(ty, str) and ty.startswith('{closure@') and (fid, nm) not in m.mem: m.mem[(fid, nm)] = Closure(ty, (), fn.name)
        m.depth += 1
        work = [(m, 0, 0, {})]
        while work:
            m, bb, i, visits = work.pop()
            while True:
                stmts = fn.stmts(bb)
                if i == 0 and self.loop_bound is not None:
                    visits = dict(visits); visits[bb] = visits.get(bb, 0) + 1
                    if visits[bb] > self.loop_bound: raise BoundExceeded('%s bb%d' % (fn.name, bb))
                st = stmts[i]; i += 1; self.nstmt += 1
                if self.max_stmts is not None and self.nstmt > self.max_stmts: raise BoundExceeded('statement budget %d exhausted in %s (path explosion or unbounded loop)' % (self.max_stmts, fn.name))
                k = st.kind
                if self.trace: print('   ' * m.depth, fn.name.split('::')[-1], 'bb%d' % bb, st.text)
                if k == 'nop': continue
                if k == 'assign':
                    dty = fn.locals.get(st.a.local) if not st.a.proj else None
                    if st.b[0] == 'aggregate' and st.b[1] == 'closure':
                        v = self.closure_aggregate(m, fid, fn, stmts, i - 1, st)
                    else:
                        v = self.rvalue(m, fid, fn, st.b, dty)
                    self.write_place(m, fid, st.a, v); continue
                if k == 'goto': bb, i = st.a, 0; continue
                if k == 'return':
                    v = m.mem.get((fid, '_0'), UNIT)
                    if keep_frame: m.depth -= 1
                    else: self._pop(m, fid)
                    yield (m, 'ret', v); break
                if k == 'drop':
                    if self.on_drop is not None:
                        try: v = self.read_place(m, fid, st.a)
                        except VMError: v = None
                        if v is not None: self.on_drop(self, m, v)
                    bb, i = st.b, 0; continue
                if k == 'switch':
                    c = self.operand(m, fid, st.a, fn)
                    if isinstance(c, Enum):
                        tbl = self.mir.enum_discr.get(c.ty); c = tbl[c.name] if tbl and c.name in tbl else c.idx
                    if isinstance(c, bool): c = int(c)
                    if not is_sym(c):
                        tgt = st.c
                        for val, t in st.b:
                            if val == c or (isinstance(c, int) and c < 0 and val in (c + 2**8, c + 2**16, c + 2**32, c + 2**64, c + 2**128)): tgt = t; break   # switchInt prints signed values as their unsigned bit pattern
                        if tgt is None: raise VMError('switch without target')
                        bb, i = tgt, 0; continue
                    # symbolic
                    if z3.is_bool(c):
                        succ = []
                        zero_t = dict(st.b).get(0, st.c)
                        one_t = dict(st.b).get(1, st.c)
                        for mm, bv in self.branch(m, c): succ.append((mm, one_t if bv else zero_t, 0, visits))
                    else:
                        succ = []; rest = m; covered = []
                        for val, t in st.b:
                            if self.feasible(m, [c == val]):
                                m2 = m.clone(); m2.pc.append(c == val); succ.append((m2, t, 0, visits))
                            covered.append(c != val)
                        if st.c is not None and self.feasible(m, covered):
                            m2 = m.clone(); m2.pc.extend(covered); succ.append((m2, st.c, 0, visits))
                    work.extend(reversed(succ)); break
                if k == 'assert':
                    c = self.operand(m, fid, st.a, fn)
                    ok = c if st.b else _not(c)
                    done = False
                    for mm, bv in list(self.branch(m, ok)):
                        if bv: work.append((mm, st.c, 0, visits))
                        else:
                            self._pop(mm, fid); done = True
                            yield (mm, 'panic', ('assert', st.d, st.span))
                    break
                if k == 'call':
                    args2 = [self.operand(m, fid, o, fn) for o in st.c]
                    if st.b == 'panic' or st.b.endswith('::panic') or st.b.startswith('panic_fmt') or st.b.startswith('core::panicking') or st.b.startswith('std::rt::panic') \
                            or st.b in ('unwrap_failed', 'expect_failed', 'panic_display', 'panic_explicit', 'panic_cold_explicit', 'begin_panic'):
                        self._pop(m, fid); yield (m, 'panic', (st.b, args2[:1], st.span)); break
                    self.cur_fn = fn
                    outs = self.call(m, st.b, args2, st.span)
                    succ = []
                    for (m2, kind, v) in outs:
                        if kind == 'panic':
                            self._pop(m2, fid); yield (m2, 'panic', v); continue
                        if st.d is None:
                            raise VMError('diverging call returned: ' + st.b)
                        self.write_place(m2, fid, st.a, v)
                        succ.append((m2, st.d, 0, visits))
                    if len(succ) == 1:
                        m, bb, i, visits = succ[0]; continue
                    work.extend(reversed(succ)); break
                if k == 'setdisc':
                    v = self.read_place(m, fid, st.a)
                    if isinstance(v, Coro): self.write_place(m, fid, st.a, v.set_state(st.b)); continue
                    if isinstance(v, Enum):
                        names = self.enums.get(v.ty) or []
                        self.write_place(m, fid, st.a, Enum(st.b, names[st.b] if st.b < len(names) else '?', v.f, v.ty)); continue
                    raise Unmodelled('SetDiscriminant on %r' % (v,))
                if k == 'unreachable': raise VMError('unreachable executed in %s bb%d' % (fn.name, bb))
                if k == 'resume': raise VMError('resume executed in %s' % fn.name)
                raise Unmodelled('statement kind ' + k)

    def closure_captures(self, cfn):
        """number of captured upvars a closure body addresses through _1"""
        n = getattr(cfn, '_ncaps', None)
        if n is not None: return n
        n = 0
        byref = cfn.args[0][1].startswith('&')
        pat = re.compile(r'\(\(\*_1\)\.(\d+): ' if byref else r'\(_1\.(\d+): ')
        for raw in cfn._lines:
            for mm in pat.finditer(raw): n = max(n, int(mm.group(1)) + 1)
        cfn._ncaps = n
        return n

    def _capture_info(self, cfn):
        info = getattr(cfn, '_capinfo', None)
        if info is not None: return info
        info = {}
        for raw in cfn._lines:
            mm = re.match(r'^\s*debug (\w+) => .*?\(\*?_1\)?\.(\d+): (.*?)\)+;', raw)
            if mm and int(mm.group(2)) not in info: info[int(mm.group(2))] = (mm.group(1), mm.group(3).strip())
        cfn._capinfo = info
        return info

    def closure_aggregate(self, m, fid, fn, stmts, idx, st):
        """the MIR printer zips capture *names* with operands and drops operands when one variable is captured
        by several disjoint places (`out.0`, `out.1`): recover them from the assignments immediately before."""
        ops = list(st.b[3])
        if st.b[2].startswith('{coroutine@'): return Coro(st.b[2], [self.operand(m, fid, o, fn) for o in ops], fn.name)
        cfn = self.mir.closure_of(st.b[2], fn.name)
        need = self.closure_captures(cfn)
        if need > len(ops):
            caps = self._capture_info(cfn)          # {index: (debug name, type)} from the closure body's debug info
            nt = lambda t: re.sub(r"\b(?:std|core|alloc)::(?:\w+::)*|'\w+ ", '', (t or '')).replace(' ', '')
            prev = []
            j = idx - 1
            while j >= 0 and len(prev) < need:
                p = stmts[j]
                if p.kind == 'nop': j -= 1; continue
                if p.kind == 'assign' and not p.a.proj and p.b[0] in ('ref', 'use'): prev.append(p.a.local); j -= 1; continue
                break
            prev = list(reversed(prev))
            listed = [o[1].local for o in ops if o[0] in ('move', 'copy') and not o[1].proj]
            it = iter(prev)
            ok = len(prev) == need and len(listed) == len(ops) and all(any(x == y for y in it) for x in listed)
            if ok:
                nums = [int(x[1:]) for x in prev]
                consecutive = nums == list(range(nums[0], nums[0] + need))
                typed = len(caps) >= need and all(nt(fn.locals.get(prev[k])) == nt(caps[k][1]) for k in range(need))
                ok = consecutive or typed          # either the classic shape, or every recovered temporary has exactly the type of the capture it fills
            if ok: ops = [('move', Place(x, ())) for x in prev]
            else:
                # the printer listed the first len(ops) captures; the others are recovered by name where they are whole variables of the parent
                # (`transformation`, `math`): same type -> the value, `&T` / `&mut T` of a local of type T -> a reference to it
                vals = [self.operand(m, fid, o, fn) for o in ops]
                for k in range(len(ops), need):
                    if k not in caps or '__' in caps[k][0]: raise Unmodelled('closure aggregate with dropped captures cannot be recovered: %s' % st.text)
                    name, cty = caps[k]; loc = fn.debug.get(name, '')
                    if not re.match(r'^_\d+$', loc): raise Unmodelled('closure aggregate with dropped captures cannot be recovered (%s is not a plain local): %s' % (name, st.text))
                    pty = fn.locals.get(loc)
                    if nt(pty) == nt(cty): vals.append(self.read_at(m, (fid, loc), []))
                    elif nt(cty) in ('&' + nt(pty), '&mut' + nt(pty)): vals.append(Ref((fid, loc), ()))
                    else: raise Unmodelled('closure aggregate with dropped captures cannot be recovered (type of %s): %s' % (name, st.text))
                return Closure(st.b[2], vals, fn.name)
        vals = [self.operand(m, fid, o, fn) for o in ops]
        if st.b[2].startswith('{coroutine@'): return Coro(st.b[2], vals, fn.name)
        return Closure(st.b[2], vals, fn.name)

    def _pop(self, m, fid):
        m.depth -= 1
        for key in [k for k in m.mem if k[0] == fid]: del m.mem[key]

    # convenience ---------------------------------------------------------------------------
    def run(self, fn, args, m=None):
        m = m or Machine()
        return list(self.exec_fn(m, fn, args))

def _prod(shape):
    w = 1
    for d in shape: w *= d
    return w
def _reshape(items, shape):
    if len(shape) == 1: return Seq(items)
    w = _prod(shape[1:])
    return Seq([_reshape(items[k * w:(k + 1) * w], shape[1:]) for k in range(shape[0])])
def _flatten(v):
    if isinstance(v, Seq):
        out = []
        for x in v.items: out += _flatten(x)
        return out
    return [v]

_CANON_STD = re.compile(r'\b(?:std|core|alloc|__core|__alloc|__std)::(?:[a-z_][a-z_0-9]*::(?=[A-Za-z_]|<impl))*')
_CANON_MOD = re.compile(r'(?<![\w:])(?:f64|f32|num|slice|str|option|result|vec|iter|mem|cmp|ops|array|char|ptr|string|boxed|rc|sync|cell|collections|time|convert|mpsc|hash_map|btree_map|vec_deque|fmt|borrow|clone|default|marker|bool|i64|u64|usize|i32|u32|u8|unit|tuple)::(?=[A-Za-z_]|<impl)')
def canon(callee):
    """callee text without std path qualifiers: `std::f64::<impl f64>::sqrt`, `core::f64::<impl f64>::sqrt` and `f64::<impl f64>::sqrt` all
    become `<impl f64>::sqrt`; `<std::slice::Iter<'_, T> as Iterator>::map` becomes `<Iter<'_, T> as Iterator>::map`"""
    c = _CANON_STD.sub('', callee)
    prev = None
    while prev != c: prev = c; c = _CANON_MOD.sub('', c)
    return c

def ret(m, v): return [(m, 'ret', v)]
def panic(m, what): return [(m, 'panic', what)]

def _b2i(v):
    if isinstance(v, bool): return int(v)
    if z3.is_bool(v): return z3.If(v, 1, 0)
    return v
def _not(c):
    if isinstance(c, bool): return not c
    return z3.Not(c)
def _and(a, b):
    if a is True: return b
    if b is True: return a
    if a is False or b is False: return False
    return z3.And(a, b)
def _or(a, b):
    if a is False: return b
    if b is False: return a
    if a is True or b is True: return True
    return z3.Or(a, b)
def _xor(a, b):
    if isinstance(a, bool) and isinstance(b, bool): return a != b
    return z3.Xor(a if not isinstance(a, bool) else z3.BoolVal(a), b if not isinstance(b, bool) else z3.BoolVal(b))

def _split_as(inner):
    depth = 0; i = 0; n = len(inner)
    while i < n:
        ch = inner[i]
        if ch == '-' and i + 1 < n and inner[i + 1] == '>': i += 2; continue
        if ch in '(<[{': depth += 1
        elif ch in ')>]}': depth -= 1
        elif depth == 0 and inner.startswith(' as ', i):
            return inner[:i], inner[i + 4:]
        i += 1
    return None

def _unescape(s):
    try: return bytes(s, 'utf-8').decode('unicode_escape')
    except Exception: return s
