"""Oracle Hamiltonian for tree-level queries (C01, C03, C05): the real nuts::draw / NutsTree::* MIR is
executed against an environment in which trajectory site s has an arbitrary weight w[s] = exp(-(E[s]-E[0])) > 0,
every ordered pair of sites has an arbitrary U-turn bit, and every leapfrog may fault."""
import re
import z3
from .vm import (VM, Machine, Struct, Enum, Seq, Ref, Opaque, UNIT, NONE, SOME, OK, ERR, ret, panic, is_sym, VMError, Unmodelled)
from .alg import RealAlg, Fl
from .layout import Layouts

LN = None

class LogWAlg(RealAlg):
    """R policy with log-weights kept in the normal form ln(W): uses ln(a) >= ln(b) <=> a >= b (a, b > 0),
    ln(a) - ln(b) = ln(a/b), exp(ln(a)) = a, and logaddexp(ln a, ln b) = ln(a+b) (the last one is proved
    separately from logaddexp's own MIR)."""
    name = 'R/logw'
    def w(self, t):
        t = z3.simplify(t)
        if z3.is_app(t) and t.decl().eq(self.uf['ln']): return t.arg(0)
        if z3.is_rational_value(t) and t.numerator_as_long() == 0: return z3.RealVal(1)
        return None
    def _cmp(self, a, b, f, g):
        wa, wb = self.w(a.v), self.w(b.v)
        if wa is not None and wb is not None: return f(wa, wb)
        return g(a.v, b.v)
    def ge(self, a, b): return self._cmp(a, b, lambda x, y: x >= y, lambda x, y: x >= y)
    def gt(self, a, b): return self._cmp(a, b, lambda x, y: x > y, lambda x, y: x > y)
    def le(self, a, b): return self._cmp(a, b, lambda x, y: x <= y, lambda x, y: x <= y)
    def lt(self, a, b): return self._cmp(a, b, lambda x, y: x < y, lambda x, y: x < y)
    def sub(self, a, b):
        wa, wb = self.w(a.v), self.w(b.v)
        if wa is not None and wb is not None: return Fl(self.uf['ln'](wa / wb))
        return Fl(a.v - b.v)
    def neg(self, a): return Fl(z3.simplify(-a.v))
    def call1(self, n, a):
        if n == 'exp':
            wa = self.w(a.v)
            if wa is not None: return Fl(wa)
        return RealAlg.call1(self, n, a)
    def logw(self, wterm): return Fl(self.uf['ln'](wterm))

def W(s): return z3.Real('w_%s' % (('m%d' % -s) if s < 0 else str(s)))
def TURN(i, j): return z3.Bool('turn_%s_%s' % (('m%d' % -i) if i < 0 else i, ('m%d' % -j) if j < 0 else j))
def FAULT(s): return z3.Int('fault_%s' % (('m%d' % -s) if s < 0 else str(s)))     # 0 ok, 1 divergence, 2 unrecoverable error

def handle(sid): return Struct((sid,), 'StateH')

class TreeHarness:
    """installs the oracle models into a VM; per-machine state lives in m.ghost"""
    def __init__(self, mir, layouts, maxdepth, mindepth=0, start_site=0, dim=1, faults=False, dir_oracle=None, fork_accept=False,
                 check_turning=True, extra_doublings=0, max_energy_error=None):
        self.mir = mir; self.L = layouts; self.A = LogWAlg(); self.vm = VM(mir, self.A)
        self.maxdepth = maxdepth; self.mindepth = mindepth; self.start = start_site; self.dim = dim; self.faults = faults
        self.dir_oracle = dir_oracle; self.fork_accept = fork_accept; self.check_turning = check_turning; self.extra = extra_doublings
        self.nacc = 0; self.max_energy_error = z3.Real('max_energy_error')    # what options() puts into NutsOptions (LogWAlg fresh = a z3 Real of that name)
        self.fn = {k: mir.method('NutsTree', None, k) for k in ('new', 'extend', 'merge_into', 'single_step', 'info')}
        self.fn['draw'] = mir.find(r'^draw$')
        self.fn['dir_sample'] = mir.method('StandardUniform', 'Distribution', 'sample')
        self.install()
        self.vm.loop_bound = maxdepth + 2      # unwinding assertion: the only loop in nuts::draw is the doubling loop, entered at most maxdepth + 1 times

    # ---------------------------------------------------------------- state helpers
    def st(self, m, v):
        while isinstance(v, Ref): v = self.vm.read_at(m, v.cell, v.path)
        if not (isinstance(v, Struct) and v.ty == 'StateH'): raise VMError('not a state handle: %r' % (v,))
        sid = v.f[0]
        if is_sym(sid):
            sid = z3.simplify(sid)
            if not z3.is_int_value(sid): raise VMError('symbolic state handle where a concrete one is required')
            sid = sid.as_long()
        return m.ghost['states'][sid], sid

    def new_state(self, m, d):
        sid = len(m.ghost['states']); m.ghost['states'] = dict(m.ghost['states']); m.ghost['states'][sid] = d; return sid

    # ---------------------------------------------------------------- models
    def install(self):
        vm = self.vm; A = self.A; H = self
        def clone(vm, m, c, a): s, sid = H.st(m, a[0]); return ret(m, handle(sid))
        def idx(vm, m, c, a): s, sid = H.st(m, a[0]); return ret(m, s['idx'])
        def point(vm, m, c, a): s, sid = H.st(m, a[0]); return ret(m, handle(sid))
        def initial_energy(vm, m, c, a): s, sid = H.st(m, a[0]); return ret(m, Fl(z3.Real('E0_of_%d' % s['root'])))
        def energy_error(vm, m, c, a):
            s, sid = H.st(m, a[0])
            # energy(site) - energy(root) = -ln(w[site]/w[root]);  w is relative to the absolute site 0
            if s['site'] == s['root']: return ret(m, A.const(0.0))
            return ret(m, Fl(-A.uf['ln'](W(s['site']) / W(s['root']))))
        def init_traj(vm, m, c, a):
            s, sid = H.st(m, a[2]); ns = dict(s); ns['idx'] = 0; ns['root'] = s['site']
            m.ghost['states'] = dict(m.ghost['states']); m.ghost['states'][sid] = ns
            m.log('events', ('init_trajectory', s['site'], a[3]))
            return ret(m, OK(UNIT))
        def leapfrog(vm, m, c, a):
            s, sid = H.st(m, a[2]); d = a[3]; sign = 1 if d.name == 'Forward' else -1
            site = s['site'] + sign
            # the tree integrates with the Hamiltonian's own step size (factor 1) and the divergence limit of its options
            fac = a[4]; fv = getattr(fac, 'v', fac)
            if not (z3.is_expr(fv) and z3.is_true(z3.simplify(fv == 1))): m.log('events', ('bad_leapfrog_args', 'step_size_factor', str(fv)))
            mee = getattr(a[6], 'v', a[6])
            if H.max_energy_error is not None and not (z3.is_expr(mee) and z3.eq(mee, H.max_energy_error)): m.log('events', ('bad_leapfrog_args', 'max_energy_error', str(mee)))
            outs = []
            kinds = [0, 1, 2] if H.faults else [0]
            for kd in kinds:
                if H.faults:
                    if not vm.feasible(m, [FAULT(site) == kd]): continue
                    m2 = m.clone(); m2.pc.append(FAULT(site) == kd)
                else: m2 = m
                m2.log('events', ('leapfrog', site, kd))
                if kd == 0:
                    nsid = H.new_state(m2, {'idx': s['idx'] + sign, 'site': site, 'root': s['root']})
                    outs.append((m2, 'ret', Enum(0, 'Ok', (handle(nsid),), 'LeapfrogResult')))
                elif kd == 1:
                    info = Struct((('divinfo', site),), 'DivergenceInfoOracle')
                    outs.append((m2, 'ret', Enum(1, 'Divergence', (info,), 'LeapfrogResult')))
                else:
                    outs.append((m2, 'ret', Enum(2, 'Err', (Struct((('logperr', site),), 'LogpErrOracle'),), 'LeapfrogResult')))
            return outs
        def is_turning(vm, m, c, a):
            (s1, _), (s2, _) = H.st(m, a[2]), H.st(m, a[3])
            lo, hi = (s1, s2) if s1['idx'] < s2['idx'] else (s2, s1)
            m.log('events', ('is_turning', lo['site'], hi['site']))
            return ret(m, TURN(lo['site'], hi['site']))
        def reg(vm, m, c, a):
            what = c.split('::')[-1]
            if what == 'register_draw':
                sv = a[2]
                while isinstance(sv, Ref): sv = vm.read_at(m, sv.cell, sv.path)
                m.log('events', ('register_draw', sv.f[0]))
            else: m.log('events', (what,))
            return ret(m, UNIT)
        def rand_dir(vm, m, c, a):
            return vm.exec_fn(m, H.fn['dir_sample'], [Ref(m.alloc(Struct((), 'StandardUniform'))), a[0]])
        def rand_bool_bit(vm, m, c, a):
            k = len([e for e in m.ghost.get('events', []) if e[0] == 'dirbit'])
            if H.dir_oracle is not None:
                choices = H.dir_oracle(m, k)
            else: choices = [True, False]
            outs = []
            for b in choices:
                m2 = m.clone() if len(choices) > 1 else m
                m2.log('events', ('dirbit', k, b)); outs.append((m2, 'ret', b))
            return outs
        def random_bool(vm, m, c, a):
            p = a[1]
            # rand's Bernoulli::new panics outside [0,1] (NaN included): that is an assertion of every query
            ok = z3.And(p.v >= 0, p.v <= 1)
            outs = []
            for m2, bv in vm.branch(m, ok):
                if not bv: outs.append((m2, 'panic', ('random_bool: p outside [0,1]', str(p.v), None))); continue
                H.nacc += 1
                if H.fork_accept:
                    for b in (True, False):
                        m3 = m2.clone(); m3.log('accepts', (b, p.v)); outs.append((m3, 'ret', b))
                else:
                    k = m2.fresh_id(); b = z3.Bool('acc_%d' % k); m2.log('accepts', (b, p.v)); outs.append((m2, 'ret', b))
            return outs
        def logaddexp(vm, m, c, a):
            wa, wb = A.w(a[0].v), A.w(a[1].v)
            if wa is None or wb is None: raise VMError('logaddexp on non-weight terms %r %r' % (a[0], a[1]))
            return ret(m, A.logw(wa + wb))
        def from_logperr(vm, m, c, a): return ret(m, a[0])
        vm.add_model(r'^<State<M, .*> as Clone>::clone$', clone)
        vm.add_model(r'^State::<M, .*>::index_in_trajectory$', idx)
        vm.add_model(r'^State::<M, .*>::point$', point)
        vm.add_model(r' as Point<M>>::initial_energy$', initial_energy)
        vm.add_model(r' as Point<M>>::energy_error$', energy_error)
        vm.add_model(r'^<H as Hamiltonian<M>>::initialize_trajectory::<R>$', init_traj)
        vm.add_model(r'^<H as Hamiltonian<M>>::leapfrog::<C>$', leapfrog)
        vm.add_model(r'^<H as Hamiltonian<M>>::is_turning$', is_turning)
        vm.add_model(r'^<C as Collector<M, .*>>::register_(init|draw|leapfrog)$', reg)
        vm.add_model(r'^<M as Math>::dim$', lambda vm, m, c, a: ret(m, H.dim))
        vm.add_model(r'^<R as RngExt>::random::<Direction>$', rand_dir)
        vm.add_model(r'^<R as RngExt>::random::<bool>$', rand_bool_bit)
        vm.add_model(r'^<R as RngExt>::random_bool$', random_bool)
        vm.add_model(r'^logaddexp$', logaddexp)
        vm.add_model(r'^<<M as Math>::LogpErr as Into<Box<dyn \w+(::\w+)* \+ Send \+ Sync>>>::into$', from_logperr)
        vm.merge_returns = {self.fn['merge_into'].name} if not self.fork_accept else set()

    # ---------------------------------------------------------------- run
    def options(self, m):
        A = self.A
        mee = self.A.fresh('max_energy_error')
        return self.L.make('NutsOptions', {'maxdepth': self.maxdepth, 'mindepth': self.mindepth, 'check_turning': self.check_turning, 'store_divergences': False,
                                           'target_integration_time': NONE(), 'extra_doublings': self.extra, 'max_energy_error': mee})

    def initial_machine(self, extra_pc=()):
        m = Machine(); m.pc = list(extra_pc)
        span = 2 ** self.maxdepth
        m.pc += [W(s) > 0 for s in range(self.start - span, self.start + span + 1)]
        m.ghost['states'] = {0: {'idx': z3.Int('init_idx') if False else 7, 'site': self.start, 'root': self.start}}
        m.ghost['events'] = []; m.ghost['accepts'] = []
        return m

    def run_draw(self, extra_pc=()):
        """generator of finished (machine, kind, value) outcomes of nuts::draw from the start site"""
        m = self.initial_machine(extra_pc)
        cells = {k: m.alloc(v) for k, v in (('math', Opaque('math')), ('init', handle(0)), ('rng', Opaque('rng')), ('ham', Opaque('ham')), ('coll', Opaque('coll')))}
        cells['opts'] = m.alloc(self.options(m))
        args = [Ref(cells['math']), Ref(cells['init']), Ref(cells['rng']), Ref(cells['ham']), Ref(cells['opts']), Ref(cells['coll'])]
        return self.vm.exec_fn(m, self.fn['draw'], args)

    def summarize(self, m, kind, v):
        ev = m.ghost.get('events', [])
        sites = [self.start] + [e[1] for e in ev if e[0] == 'leapfrog' and e[2] == 0]
        out = {'kind': kind, 'dirs': tuple(e[2] for e in ev if e[0] == 'dirbit'), 'leapfrogs': [e[1:] for e in ev if e[0] == 'leapfrog'],
               'visited': (min(sites), max(sites)), 'nleap_ok': len(sites) - 1, 'nleap': len([e for e in ev if e[0] == 'leapfrog']), 'pc': list(m.pc), 'events': ev,
               'accepts': list(m.ghost.get('accepts', []))}
        if kind == 'panic': out['panic'] = v; return out
        if v.name == 'Err': out['result'] = 'Err'; out['err'] = v.f[0]; return out
        st, info = v.f[0].f
        out['result'] = 'Ok'
        out['draw_sid'] = st.f[0]
        out['depth'] = self.L.get('SampleInfo', info, 'depth'); out['maxdepth_flag'] = self.L.get('SampleInfo', info, 'reached_maxdepth')
        out['divergence'] = self.L.get('SampleInfo', info, 'divergence_info')
        out['states'] = m.ghost['states']
        return out

def leaves(expr):
    """possible concrete values of a merged (ite) handle expression, with the condition under which each is chosen"""
    if not is_sym(expr): return [(expr, z3.BoolVal(True))]
    expr = z3.simplify(expr)
    if z3.is_int_value(expr): return [(expr.as_long(), z3.BoolVal(True))]
    if z3.is_app(expr) and expr.decl().kind() == z3.Z3_OP_ITE:
        c = expr.arg(0)
        return [(v, z3.And(c, g)) for v, g in leaves(expr.arg(1))] + [(v, z3.And(z3.Not(c), g)) for v, g in leaves(expr.arg(2))]
    raise VMError('unexpected handle expression %s' % expr)
