"""std::rc::Rc / Weak / RefCell / ManuallyDrop by their documented semantics (environment for the StatePool query): an Rc is a reference
to a heap box (strong, weak, value); dropping values follows Rust's drop order with `State` using its real Drop impl from the MIR."""
import re
from .vm import (VM, Machine, Struct, Enum, Seq, Ref, Opaque, UNIT, NONE, SOME, OK, ERR, ret, VMError, Unmodelled)
from .intrinsics import deref_val

def box_of(vm, m, rc):
    v = deref_val(vm, m, rc)
    if not (isinstance(v, Struct) and v.ty in ('Rc', 'Weak')): raise VMError('not an Rc/Weak: %r' % (v,))
    return v.f[0].cell
def counts(m, cell): b = m.mem[cell]; return b.f[0], b.f[1]
def setc(m, cell, strong=None, weak=None, value='keep'):
    b = m.mem[cell]; m.mem[cell] = Struct((b.f[0] if strong is None else strong, b.f[1] if weak is None else weak, b.f[2] if value == 'keep' else value), 'RcBox')

def install(vm, state_drop_fn):
    def rc_new(vm, m, c, a):
        cell = m.alloc(Struct((1, 0, a[0]), 'RcBox')); m.log('rc_events', ('new', cell)); return ret(m, Struct((Ref(cell),), 'Rc'))
    vm.add_model(r'^Rc::<.*>::new$', rc_new)
    def rc_clone(vm, m, c, a):
        cell = box_of(vm, m, a[0]); s, w = counts(m, cell)
        if s <= 0: raise VMError('clone of a dead Rc')
        setc(m, cell, strong=s + 1); return ret(m, Struct((Ref(cell),), 'Rc'))
    vm.add_model(r'^<Rc<.*> as Clone>::clone$|^Rc::<.*>::clone$', rc_clone)
    vm.add_model(r'^Rc::<.*>::strong_count$', lambda vm, m, c, a: ret(m, counts(m, box_of(vm, m, a[0]))[0]))
    vm.add_model(r'^Rc::<.*>::weak_count$', lambda vm, m, c, a: ret(m, counts(m, box_of(vm, m, a[0]))[1]))
    def get_mut(vm, m, c, a):
        cell = box_of(vm, m, a[0]); s, w = counts(m, cell)
        return ret(m, SOME(Ref(cell, (('f', 2),))) if (s == 1 and w == 0) else NONE())
    vm.add_model(r'^Rc::<.*>::get_mut$', get_mut)
    vm.add_model(r'^<Rc<.*> as Deref>::deref$', lambda vm, m, c, a: ret(m, Ref(box_of(vm, m, a[0]), (('f', 2),))))
    def downgrade(vm, m, c, a):
        cell = box_of(vm, m, a[0]); s, w = counts(m, cell); setc(m, cell, weak=w + 1); return ret(m, Struct((Ref(cell),), 'Weak'))
    vm.add_model(r'^Rc::<.*>::downgrade$', downgrade)
    def upgrade(vm, m, c, a):
        cell = box_of(vm, m, a[0]); s, w = counts(m, cell)
        if s == 0: return ret(m, NONE())
        setc(m, cell, strong=s + 1); return ret(m, SOME(Struct((Ref(cell),), 'Rc')))
    vm.add_model(r'^(std::rc::)?Weak::<.*>::upgrade$', upgrade)
    vm.add_model(r'^ManuallyDrop::<.*>::new$', lambda vm, m, c, a: ret(m, Struct((a[0],), 'ManuallyDrop')))
    vm.add_model(r'^ManuallyDrop::<.*>::take$', lambda vm, m, c, a: ret(m, deref_val(vm, m, a[0]).f[0]))
    vm.add_model(r'^<ManuallyDrop<.*> as Deref(Mut)?>::deref(_mut)?$', lambda vm, m, c, a: ret(m, Ref(a[0].cell, a[0].path + (('f', 0),))))
    def md_clone(vm, m, c, a):
        inner = deref_val(vm, m, a[0]).f[0]
        outs = list(vm.call(m, '<Rc<X> as Clone>::clone', [Ref(m.alloc(inner))]))
        return [(m2, k, Struct((v,), 'ManuallyDrop') if k == 'ret' else v) for (m2, k, v) in outs]
    vm.add_model(r'^<ManuallyDrop<Rc<.*>> as Clone>::clone$', md_clone)
    vm.add_model(r'^RefCell::<.*>::new$', lambda vm, m, c, a: ret(m, Struct((a[0],), 'RefCell')))
    vm.add_model(r'^RefCell::<.*>::borrow_mut$|^RefCell::<.*>::borrow$', lambda vm, m, c, a: ret(m, Struct((Ref(a[0].cell, a[0].path + (('f', 0),)),), 'RefMut')))
    vm.add_model(r'^<Ref(Mut)?<.*> as Deref(Mut)?>::deref(_mut)?$', lambda vm, m, c, a: ret(m, deref_val(vm, m, a[0]).f[0]))
    def drop_value(vm, m, v, depth=0):
        if depth > 20: raise VMError('drop recursion')
        if isinstance(v, Struct):
            if v.ty == 'Rc':
                cell = v.f[0].cell; s, w = counts(m, cell)
                if s <= 0: raise VMError('DOUBLE DROP of an Rc (strong count already 0)')
                setc(m, cell, strong=s - 1)
                if s - 1 == 0:
                    inner = m.mem[cell].f[2]; setc(m, cell, value=Opaque('dropped')); m.log('rc_events', ('freed', cell)); drop_value(vm, m, inner, depth + 1)
                return
            if v.ty == 'Weak':
                cell = v.f[0].cell; s, w = counts(m, cell); setc(m, cell, weak=w - 1); return
            if v.ty == 'State':
                c = m.alloc(v); outs = list(vm.exec_fn(m, state_drop_fn, [Ref(c)]))
                if len(outs) != 1 or outs[0][1] != 'ret' or outs[0][0] is not m: raise VMError('State::drop forked or panicked: %r' % ([(k, str(x)[:80]) for (_, k, x) in outs],))
                return
            if v.ty in ('RefMut', 'ManuallyDrop', 'RcBox'): return
            for f in v.f: drop_value(vm, m, f, depth + 1)
        elif isinstance(v, Enum):
            for f in v.f: drop_value(vm, m, f, depth + 1)
        elif isinstance(v, Seq):
            for f in v.items: drop_value(vm, m, f, depth + 1)
    vm.on_drop = lambda vm, m, v: drop_value(vm, m, v)
    return drop_value
