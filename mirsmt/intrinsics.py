"""Call models of kind 'intrinsic' (DESIGN 3.1): std numeric / Option / Result / Vec / iterator
operations given their semantics directly.  Everything here is language/std semantics, not nuts-rs."""
import re
import z3
from .vm import (Struct, Enum, Seq, Ref, SliceRef, Closure, Opaque, FnItem, Str, UNIT, NONE, SOME, OK, ERR, ret, panic, is_sym,
                 VMError, Unmodelled, INT_RANGES, _not, _and, _or, _b2i)
from .alg import Fl
from .mir import strip_generics, match_close

F64_1 = {'exp', 'ln', 'ln_1p', 'sqrt', 'sin', 'cos', 'round', 'ceil', 'floor', 'log2', 'exp_m1', 'tanh'}

def deref_val(vm, m, v):
    while isinstance(v, Ref): v = vm.read_at(m, v.cell, v.path)
    return v

def slice_items(vm, m, v):
    """list of element values of a slice-like value (SliceRef / Ref to Seq / Seq)"""
    if isinstance(v, SliceRef):
        s = vm.read_at(m, v.cell, v.path); return list(s.items[v.start:v.start + v.count])
    v = deref_val(vm, m, v)
    if isinstance(v, Seq): return list(v.items)
    raise VMError('not a slice: %r' % (v,))

def slice_refs(vm, m, v):
    """list of references to the elements"""
    if isinstance(v, SliceRef):
        return [v.elem_ref(k) for k in range(v.count)]
    if isinstance(v, Ref):
        s = vm.read_at(m, v.cell, v.path)
        if isinstance(s, Seq): return [Ref(v.cell, v.path + (('i', k),)) for k in range(len(s.items))]
        if isinstance(s, (Ref, SliceRef)): return slice_refs(vm, m, s)
        if _is_box(s): return slice_refs(vm, m, s.f[0].f[0])
    if _is_box(v): return slice_refs(vm, m, v.f[0].f[0])
    raise VMError('not a slice ref: %r' % (v,))

def _is_box(v):
    """Box<[T]> / Box<T>: Struct((Struct((pointer,)), allocator), 'Box') - the pointer is a Ref or a SliceRef"""
    return isinstance(v, Struct) and v.ty == 'Box' and v.f and isinstance(v.f[0], Struct) and v.f[0].f and isinstance(v.f[0].f[0], (Ref, SliceRef))

def as_slice(vm, m, v):
    """normalise &Vec<T> / &[T;N] / &[T] to a SliceRef"""
    if isinstance(v, SliceRef): return v
    if isinstance(v, Ref):
        s = vm.read_at(m, v.cell, v.path)
        if isinstance(s, Seq): return SliceRef(v.cell, v.path, 0, len(s.items))
        if isinstance(s, (Ref, SliceRef)): return as_slice(vm, m, s)
        if _is_box(s): return as_slice(vm, m, s.f[0].f[0])
    if _is_box(v): return as_slice(vm, m, v.f[0].f[0])
    raise VMError('as_slice of %r' % (v,))

def try_branch(vm, m, v):
    if isinstance(v, Enum) and v.name in ('Ok', 'Some'): return Enum(0, 'Continue', (v.f[0],), 'ControlFlow')
    if isinstance(v, Enum) and v.name == 'Err': return Enum(1, 'Break', (Enum(1, 'Err', v.f, 'Result'),), 'ControlFlow')
    if isinstance(v, Enum) and v.name == 'None': return Enum(1, 'Break', (NONE(),), 'ControlFlow')
    raise VMError('Try::branch on %r' % (v,))

def dispatch(vm, m, callee, args):
    A = vm.alg
    c = callee
    # ---- f64 ---------------------------------------------------------------------------------
    mm = re.match(r'^(?:(?:std|core)::)?(?:f(?:64|32)::)?<impl f(?:64|32)>::(\w+)$', c)
    if mm:
        n = mm.group(1); a = args
        if n in F64_1: return ret(m, A.call1(n, a[0]))
        if n == 'powf': return ret(m, A.call2('powf', a[0], a[1]))
        if n == 'powi':
            e = a[1]
            if is_sym(e):
                if hasattr(A, 'powi_sym'): return ret(m, A.powi_sym(a[0], e))
                raise Unmodelled('symbolic powi exponent')
            r = A.const(1.0); b = a[0]
            for _ in range(abs(e)): r = A.mul(r, b)
            return ret(m, r if e >= 0 else A.div(A.const(1.0), r))
        if n == 'min': return ret(m, A.minf(a[0], a[1]))
        if n == 'max': return ret(m, A.maxf(a[0], a[1]))
        if n == 'abs': return ret(m, A.absf(a[0]))
        if n == 'is_finite': return ret(m, A.is_finite(a[0]))
        if n == 'is_nan': return ret(m, A.is_nan(a[0]))
        if n == 'is_infinite': return ret(m, A.is_infinite(a[0]))
        if n == 'is_normal' and hasattr(A, 'is_normal'): return ret(m, A.is_normal(a[0]))
        if n == 'is_subnormal' and hasattr(A, 'is_subnormal'): return ret(m, A.is_subnormal(a[0]))
        if n == 'recip': return ret(m, A.div(A.const(1.0), a[0]))
        if n == 'mul_add': return ret(m, A.fma(a[0], a[1], a[2]))
        if n == 'sin_cos': return ret(m, Struct((A.call1('sin', a[0]), A.call1('cos', a[0]))))
        if n == 'clamp':
            return ret(m, A.clampf(a[0], a[1], a[2]))
        if n == 'to_bits' or n == 'from_bits': raise Unmodelled(c)
        if n == 'signum': raise Unmodelled(c)
        raise Unmodelled('f64 method ' + n)
    mm = re.match(r"^<&?(?:'\w+ )?f64 as (?:std::ops::)?(Add|Sub|Mul|Div)(?:<&?(?:'\w+ )?f64>)?>::(add|sub|mul|div)$", c)
    if mm:
        a, b = deref_val(vm, m, args[0]), deref_val(vm, m, args[1])
        return ret(m, vm.binop(mm.group(1), a, b))
    mm = re.match(r"^<f64 as (?:std::ops::)?(Add|Sub|Mul|Div)Assign(?:<&?(?:'\w+ )?f64>)?>::\w+$", c)
    if mm:
        r = args[0]; a = vm.read_at(m, r.cell, r.path); b = deref_val(vm, m, args[1])
        vm.write_at(m, r.cell, list(r.path), vm.binop(mm.group(1), a, b)); return ret(m, UNIT)
    if re.match(r"^<&?f64 as (?:std::ops::)?Neg>::neg$", c): return ret(m, A.neg(deref_val(vm, m, args[0])))
    # ---- integer helpers --------------------------------------------------------------------
    mm = re.match(r'^<(u64|usize|i64|u32|i32|u8) as Ord>::(max|min)$', c)
    if mm:
        a, b = args
        if not is_sym(a) and not is_sym(b): return ret(m, max(a, b) if mm.group(2) == 'max' else min(a, b))
        return ret(m, z3.If(a >= b, a, b) if mm.group(2) == 'max' else z3.If(a <= b, a, b))
    mm = re.match(r'^<f64 as PartialOrd>::(lt|le|gt|ge)$', c)
    if mm:
        a, b = deref_val(vm, m, args[0]), deref_val(vm, m, args[1])
        return ret(m, getattr(A, mm.group(1))(a, b))
    mm = re.match(r'^(?:(?:std|core)::)?(?:num::)?<impl (u64|usize|i64|u32|i32)>::(\w+)$', c)
    if mm:
        ty, n = mm.groups(); lo, hi = INT_RANGES[ty]; a = args
        if n == 'abs':
            if is_sym(a[0]):
                outs = []
                for m2, bv in vm.branch(m, a[0] == lo):
                    if bv: outs.append((m2, 'panic', ('attempt to negate with overflow (abs of MIN)', None, None)))
                    else: outs.append((m2, 'ret', z3.If(a[0] >= 0, a[0], -a[0])))
                return outs
            return ret(m, abs(a[0]))
        if n == 'saturating_sub':
            r = a[0] - a[1]
            if is_sym(r): return ret(m, z3.If(r < lo, z3.IntVal(lo), r))
            return ret(m, max(lo, r))
        if n == 'saturating_add':
            r = a[0] + a[1]
            if is_sym(r): return ret(m, z3.If(r > hi, z3.IntVal(hi), r))
            return ret(m, min(hi, r))
        if n in ('checked_sub', 'checked_add', 'checked_mul'):
            r = {'checked_sub': a[0] - a[1], 'checked_add': a[0] + a[1], 'checked_mul': a[0] * a[1]}[n]
            outs = []
            ok = z3.And(r >= lo, r <= hi) if is_sym(r) else (lo <= r <= hi)
            for mm2, bv in vm.branch(m, ok): outs.append((mm2, 'ret', SOME(r) if bv else NONE()))
            return outs
        if n == 'pow':
            if is_sym(a[1]): raise Unmodelled('symbolic pow exponent')
            r = 1
            for _ in range(a[1]): r = r * a[0]
            # overflow-checks are on: an unrepresentable power panics
            outs = []
            for (m2, ok) in vm.branch(m, z3.And(r >= lo, r <= hi) if is_sym(r) else (lo <= r <= hi)):
                outs.append((m2, 'ret', r) if ok else (m2, 'panic', ('attempt to multiply with overflow', None, None)))
            return outs
        if n in ('wrapping_add', 'wrapping_sub', 'wrapping_mul'):
            r = {'wrapping_add': a[0] + a[1], 'wrapping_sub': a[0] - a[1], 'wrapping_mul': a[0] * a[1]}[n]
            if is_sym(r): return ret(m, (r - lo) % (hi - lo + 1) + lo)
            return ret(m, (r - lo) % (hi - lo + 1) + lo)
        if n == 'abs_diff':
            if is_sym(a[0]) or is_sym(a[1]): return ret(m, z3.If(a[0] >= a[1], a[0] - a[1], a[1] - a[0]))
            return ret(m, abs(a[0] - a[1]))
        if n == 'is_power_of_two' and not is_sym(a[0]): return ret(m, a[0] > 0 and (a[0] & (a[0] - 1)) == 0)
        if n == 'div_ceil' and not is_sym(a[0]) and not is_sym(a[1]): return ret(m, -(-a[0] // a[1]))
        raise Unmodelled('int method ' + c)
    # ---- Try / ? ------------------------------------------------------------------------------
    if c.endswith(' as Try>::branch'): return ret(m, try_branch(vm, m, args[0]))
    if ' as FromResidual<' in c and c.endswith('::from_residual'):
        v = args[0]
        if isinstance(v, Enum) and v.name == 'Err':
            # `?` applies From::from to the error; models may intercept before us. identity otherwise.
            return ret(m, Enum(1, 'Err', v.f, 'Result'))
        if isinstance(v, Enum) and v.name == 'None': return ret(m, NONE())
        raise VMError('from_residual of %r' % (v,))
    # ---- Option / Result ---------------------------------------------------------------------
    mm = re.match(r'^(?:(?:std|core)::)?(?:option::|result::)?(?:Option|Result)::<.*?>::(\w+)(?:::<.*>)?$', c)
    if mm:
        n = mm.group(1); v = args[0]
        rv = deref_val(vm, m, v)
        if n in ('is_some', 'is_ok'): return ret(m, rv.name in ('Some', 'Ok'))
        if n in ('is_none', 'is_err'): return ret(m, rv.name in ('None', 'Err'))
        if n in ('unwrap', 'expect'):
            if rv.name in ('Some', 'Ok'): return ret(m, rv.f[0])
            return panic(m, (n + ' on ' + rv.name, args[1:2], None))
        if n == 'unwrap_or':
            return ret(m, rv.f[0] if rv.name in ('Some', 'Ok') else args[1])
        if n == 'unwrap_or_default' and rv.name in ('Some', 'Ok'): return ret(m, rv.f[0])
        if n == 'as_ref' or n == 'as_mut':
            if isinstance(v, Ref):
                if rv.name in ('Some', 'Ok'): return ret(m, Enum(rv.idx, rv.name, (Ref(v.cell, v.path + (('f', 0),)),), rv.ty))
                if rv.name == 'None': return ret(m, NONE())
                return ret(m, Enum(rv.idx, rv.name, (Ref(v.cell, v.path + (('f', 0),)),), rv.ty))
        if n == 'as_deref' and isinstance(v, Ref):
            if rv.name == 'None': return ret(m, NONE())
            if _is_box(rv.f[0]): return ret(m, SOME(rv.f[0].f[0].f[0]))
            return ret(m, SOME(Ref(v.cell, v.path + (('f', 0),))))
        if n == 'err':
            return ret(m, SOME(rv.f[0]) if rv.name == 'Err' else NONE())
        if n == 'and' and len(args) == 2:
            return ret(m, args[1] if rv.name in ('Some', 'Ok') else rv)
        if n == 'or' and len(args) == 2:
            return ret(m, rv if rv.name in ('Some', 'Ok') else args[1])
        if n == 'ok':
            return ret(m, SOME(rv.f[0]) if rv.name == 'Ok' else NONE())
        if n == 'transpose':
            if rv.name == 'None': return ret(m, OK(NONE()))
            if rv.name == 'Some':
                inner = rv.f[0]
                if inner.name == 'Ok': return ret(m, OK(SOME(inner.f[0])))
                if inner.name == 'Err': return ret(m, inner)
                if inner.name == 'Some': return ret(m, SOME(OK(inner.f[0])))
                if inner.name == 'None': return ret(m, NONE())
            if rv.name == 'Ok':
                inner = rv.f[0]; return ret(m, NONE() if inner.name == 'None' else SOME(OK(inner.f[0])))
            if rv.name == 'Err': return ret(m, SOME(rv))
        if n == 'ok_or':
            return ret(m, OK(rv.f[0]) if rv.name == 'Some' else ERR(args[1]))
        if n == 'take' and isinstance(v, Ref):
            vm.write_at(m, v.cell, list(v.path), NONE()); return ret(m, rv)
        if n == 'replace' and isinstance(v, Ref):
            vm.write_at(m, v.cell, list(v.path), SOME(args[1])); return ret(m, rv)
        if n == 'insert' and isinstance(v, Ref):
            vm.write_at(m, v.cell, list(v.path), SOME(args[1])); return ret(m, Ref(v.cell, v.path + (('f', 0),)))
        if n == 'copied' or n == 'cloned':
            if rv.name == 'None': return ret(m, NONE())
            return ret(m, SOME(deref_val(vm, m, rv.f[0])))
        if n in ('map', 'map_err', 'and_then', 'ok_or_else', 'unwrap_or_else', 'map_or', 'is_some_and', 'filter', 'or_else', 'inspect_err'):
            return _opt_combinator(vm, m, n, rv, args)
        raise Unmodelled('Option/Result method ' + c)
    # ---- mem ---------------------------------------------------------------------------------
    mm = re.match(r'^(?:(?:std|core)::)?(?:mem::)?(replace|swap|take|drop|forget)::<', c)
    if mm:
        n = mm.group(1)
        if n == 'replace':
            r = args[0]; old = vm.read_at(m, r.cell, r.path); vm.write_at(m, r.cell, list(r.path), args[1]); return ret(m, old)
        if n == 'swap':
            a, b = args; va = vm.read_at(m, a.cell, a.path); vb = vm.read_at(m, b.cell, b.path)
            vm.write_at(m, a.cell, list(a.path), vb); vm.write_at(m, b.cell, list(b.path), va); return ret(m, UNIT)
        if n == 'drop':
            if vm.on_drop is not None: vm.on_drop(vm, m, args[0])
            return ret(m, UNIT)
        if n == 'forget': return ret(m, UNIT)
        if n == 'take': raise Unmodelled('mem::take needs Default of the type')
    # ---- Clone / Default / From on primitives ----------------------------------------------------
    mm = re.match(r'^<(f64|u64|usize|i64|bool|u32|i32|u8|\(\)) as Clone>::clone$', c)
    if mm: return ret(m, deref_val(vm, m, args[0]))
    mm = re.match(r'^<(f64|u64|usize|i64|bool|u32|i32) as Default>::default$', c)
    if mm:
        t = mm.group(1)
        return ret(m, A.const(0.0) if t == 'f64' else (False if t == 'bool' else 0))
    mm = re.match(r'^<(\w+) as (?:Into|From)<(\w+)>>::(into|from)$', c)
    if mm and mm.group(1) == mm.group(2): return ret(m, args[0])
    if re.match(r'^<f64 as From<(u32|i32|u8|u16|i16|f32)>>::from$', c): return ret(m, A.from_int(args[0]) if not isinstance(args[0], Fl) else args[0])
    if re.match(r'^<(u64|i64|usize) as From<(u32|u8|u16|bool|i32)>>::from$', c): return ret(m, _b2i(args[0]))
    mm = re.match(r'^<(u64|usize|i64|bool|u32) as PartialEq>::(eq|ne)$', c)
    if mm:
        a, b = deref_val(vm, m, args[0]), deref_val(vm, m, args[1])
        r = vm.binop('Eq', a, b); return ret(m, r if mm.group(2) == 'eq' else _not(r))
    mm = re.match(r'^<(u64|usize|i64|u32) as PartialOrd>::(lt|le|gt|ge)$', c)
    if mm:
        a, b = deref_val(vm, m, args[0]), deref_val(vm, m, args[1])
        return ret(m, vm.binop({'lt': 'Lt', 'le': 'Le', 'gt': 'Gt', 'ge': 'Ge'}[mm.group(2)], a, b))
    if c == '<str as PartialEq>::eq' or c.startswith('<&str as PartialEq') or c == '<std::string::String as PartialEq<str>>::eq' or c == '<std::string::String as PartialEq<&str>>::eq':
        a, b = deref_val(vm, m, args[0]), deref_val(vm, m, args[1])
        if isinstance(a, Str) and isinstance(b, Str): return ret(m, a.s == b.s)
        raise Unmodelled('str eq on %r %r' % (a, b))
    mm = re.match(r'^<(.*) as PartialEq(<.*>)?>::ne$', c)
    if mm and not re.match(r'^(f64|u64|usize|i64|bool|u32|str|&str)$', mm.group(1)):
        outs = []
        for (m2, k, v) in vm.call(m, c[:-2] + 'eq', args): outs.append((m2, k, _not(v) if k == 'ret' else v))
        return outs
    # ---- Range<u64> iteration ----------------------------------------------------------------------
    if re.match(r'^<(?:std::ops::)?Range(Inclusive)?<(u64|usize|i64|u32)> as IntoIterator>::into_iter$', c): return ret(m, args[0])
    mm = re.match(r'^<(?:std::ops::)?Range<(u64|usize|i64|u32)> as Iterator>::next$', c)
    if mm:
        r = args[0]; rng = vm.read_at(m, r.cell, r.path); lo, hi = rng.f
        outs = []
        for m2, bv in vm.branch(m, vm.binop('Lt', lo, hi)):
            if bv:
                vm.write_at(m2, r.cell, list(r.path), Struct((lo + 1, hi), rng.ty)); outs.append((m2, 'ret', SOME(lo)))
            else: outs.append((m2, 'ret', NONE()))
        return outs
    # ---- Box ----------------------------------------------------------------------------------------
    if re.match(r'^Box::<.*>::new_uninit$', c):
        # MaybeUninit<T> { uninit: (), value: ManuallyDrop<T> { value: MaybeDangling<T>(T) } } - the vec![] expansion writes through (*p).1.0.0
        cell = m.alloc(Struct((UNIT, Struct((Struct((Opaque('uninit'),), 'MaybeDangling'),), 'ManuallyDrop')), 'MaybeUninit'))
        return ret(m, Struct((Struct((Ref(cell),)), UNIT), 'Box'))
    if re.match(r'^std::boxed::box_assume_init_into_vec_unsafe::<', c) or re.match(r'^(alloc|std)::boxed::box_assume_init_into_vec', c):
        r = args[0].f[0].f[0]; v = vm.read_at(m, r.cell, r.path)
        return ret(m, v.f[1].f[0].f[0])
    if re.match(r'^Box::<.*>::new$', c):
        cell = m.alloc(args[0]); return ret(m, Struct((Struct((Ref(cell),)), UNIT), 'Box'))
    out = _hashmap(vm, m, c, args)
    if out is not NotImplemented: return out
    # ---- Vec / slices ---------------------------------------------------------------------------------
    out = _vec(vm, m, c, args)
    if out is not NotImplemented: return out
    return NotImplemented

def _opt_combinator(vm, m, n, rv, args):
    some = rv.name in ('Some', 'Ok')
    if n == 'map':
        if not some: return ret(m, rv)
        outs = []
        for (m2, k, v) in vm.call_closure(m, args[1], [rv.f[0]]):
            outs.append((m2, k, Enum(rv.idx, rv.name, (v,), rv.ty) if k == 'ret' else v))
        return outs
    if n == 'map_err':
        if some: return ret(m, rv)
        outs = []
        for (m2, k, v) in vm.call_closure(m, args[1], [rv.f[0]]):
            outs.append((m2, k, Enum(rv.idx, rv.name, (v,), rv.ty) if k == 'ret' else v))
        return outs
    if n == 'and_then':
        if not some: return ret(m, rv)
        return vm.call_closure(m, args[1], [rv.f[0]])
    if n == 'unwrap_or_else':
        if some: return ret(m, rv.f[0])
        return vm.call_closure(m, args[1], [rv.f[0]] if rv.name == 'Err' else [])
    if n == 'ok_or_else':
        if some: return ret(m, OK(rv.f[0]))
        return [(m2, k, ERR(v) if k == 'ret' else v) for (m2, k, v) in vm.call_closure(m, args[1], [])]
    if n == 'map_or':
        if not some: return ret(m, args[1])
        return vm.call_closure(m, args[2], [rv.f[0]])
    if n == 'is_some_and':
        if not some: return ret(m, False)
        return vm.call_closure(m, args[1], [rv.f[0]])
    raise Unmodelled('Option combinator ' + n)

def hm_new(vm, pairs):
    vm.hm_counter = getattr(vm, 'hm_counter', 0) + 1
    return Struct((Seq(pairs), vm.hm_counter + getattr(vm, 'hm_parity', 0)), 'HashMap')
def hm_salt(v): return v.f[1] if len(v.f) > 1 else 0
def hm_order(v, n): return list(range(n)) if hm_salt(v) % 2 == 0 else list(range(n - 1, -1, -1))
def _hm_pairs(vm, m, r):
    v = deref_val(vm, m, r)
    if not (isinstance(v, Struct) and v.ty == 'HashMap'): raise VMError('not a HashMap: %r' % (v,))
    return list(v.f[0].items)
def _key(vm, m, k):
    k = deref_val(vm, m, k)
    if not isinstance(k, Str): raise Unmodelled('non-string HashMap key %r' % (k,))
    return k.s
def _hashmap(vm, m, c, args):
    """std::collections::HashMap with string keys: Struct((Seq of (key, value) pairs, salt), 'HashMap').  The iteration order of a HashMap is
    unspecified and differs between maps (per-map hasher seeds): the model iterates maps with an even salt in insertion order and maps with an
    odd salt in reverse insertion order; consecutive maps get different salts and vm.hm_parity flips all of them (checks run both parities)."""
    mm = re.match(r'^HashMap::<.*?>::(\w+)(::<.*>)?$', c)
    if mm:
        n = mm.group(1)
        if n == 'new' or n == 'with_capacity': return ret(m, hm_new(vm, ()))
        r = args[0]
        if n == 'insert':
            pairs = _hm_pairs(vm, m, r); k = _key(vm, m, args[1]); old = NONE()
            for i, p in enumerate(pairs):
                if p.f[0].s == k: old = SOME(p.f[1]); pairs[i] = Struct((Str(k), args[2])); break
            else: pairs.append(Struct((Str(k), args[2])))
            vm.write_at(m, r.cell, list(r.path), Struct((Seq(pairs), hm_salt(deref_val(vm, m, r))), 'HashMap')); return ret(m, old)
        if n in ('get_mut', 'get'):
            pairs = _hm_pairs(vm, m, r); k = _key(vm, m, args[1])
            while isinstance(vm.read_at(m, r.cell, r.path), Ref): r = vm.read_at(m, r.cell, r.path)
            for i, p in enumerate(pairs):
                if p.f[0].s == k: return ret(m, SOME(Ref(r.cell, r.path + (('f', 0), ('i', i), ('f', 1)))))
            return ret(m, NONE())
        if n == 'remove':
            pairs = _hm_pairs(vm, m, r); k = _key(vm, m, args[1])
            for i, p in enumerate(pairs):
                if p.f[0].s == k:
                    pairs.pop(i); vm.write_at(m, r.cell, list(r.path), Struct((Seq(pairs), hm_salt(deref_val(vm, m, r))), 'HashMap')); return ret(m, SOME(p.f[1]))
            return ret(m, NONE())
        if n == 'is_empty': return ret(m, len(_hm_pairs(vm, m, r)) == 0)
        if n == 'clear': vm.write_at(m, r.cell, list(r.path), Struct((Seq(()), hm_salt(deref_val(vm, m, r))), 'HashMap')); return ret(m, UNIT)
        if n == 'contains_key':
            return ret(m, any(p.f[0].s == _key(vm, m, args[1]) for p in _hm_pairs(vm, m, r)))
        if n == 'len': return ret(m, len(_hm_pairs(vm, m, r)))
        if n in ('values', 'keys', 'iter', 'values_mut', 'iter_mut'):
            from .vm import Iter
            pairs = _hm_pairs(vm, m, r)
            while isinstance(vm.read_at(m, r.cell, r.path), Ref): r = vm.read_at(m, r.cell, r.path)
            idx = hm_order(deref_val(vm, m, r), len(pairs))
            kref = lambda i: Ref(r.cell, r.path + (('f', 0), ('i', i), ('f', 0))); vref = lambda i: Ref(r.cell, r.path + (('f', 0), ('i', i), ('f', 1)))
            if n in ('values', 'values_mut'): return ret(m, Iter([vref(i) for i in idx]))
            if n == 'keys': return ret(m, Iter([kref(i) for i in idx]))
            return ret(m, Iter([Struct((kref(i), vref(i))) for i in idx]))
        raise Unmodelled('HashMap method ' + c)
    if re.match(r'^<HashMap<.*> as (std::ops::)?Index<.*>>::index$', c):
        r = args[0]; pairs = _hm_pairs(vm, m, r); k = _key(vm, m, args[1])
        while isinstance(vm.read_at(m, r.cell, r.path), Ref): r = vm.read_at(m, r.cell, r.path)
        for i, p in enumerate(pairs):
            if p.f[0].s == k: return ret(m, Ref(r.cell, r.path + (('f', 0), ('i', i), ('f', 1))))
        return panic(m, ('HashMap index: key not found', k, None))
    if re.match(r'^<HashMap<.*> as Clone>::clone$', c): return ret(m, deref_val(vm, m, args[0]))
    if re.match(r'^<HashMap<.*> as IntoIterator>::into_iter$', c):
        from .vm import Iter
        pairs = _hm_pairs(vm, m, args[0]); return ret(m, Iter([pairs[i] for i in hm_order(deref_val(vm, m, args[0]), len(pairs))]))
    return NotImplemented

def _vec(vm, m, c, args):
    A = vm.alg
    mm = re.match(r'^(?:std::collections::)?HashSet::<.*?>::(\w+)(::<.*>)?$', c)
    if mm:      # HashSet of strings: Struct((Seq(items),), 'HashSet')
        n = mm.group(1)
        if n in ('new', 'with_capacity'): return ret(m, Struct((Seq(()),), 'HashSet'))
        r = args[0]; hs = deref_val(vm, m, r); key = lambda x: deref_val(vm, m, x).s
        if n == 'insert':
            if any(key(x) == key(args[1]) for x in hs.f[0].items): return ret(m, False)
            while isinstance(vm.read_at(m, r.cell, r.path), Ref): r = vm.read_at(m, r.cell, r.path)
            vm.write_at(m, r.cell, list(r.path), Struct((Seq(hs.f[0].items + (args[1],)),), 'HashSet')); return ret(m, True)
        if n == 'contains': return ret(m, any(key(x) == key(args[1]) for x in hs.f[0].items))
        if n == 'len': return ret(m, len(hs.f[0].items))
        raise Unmodelled('HashSet method ' + c)
    mm = re.match(r'^VecDeque::<.*?>::(\w+)(::<.*>)?$', c)
    if mm:      # std::collections::VecDeque as a sequence (front = index 0)
        n = mm.group(1)
        if n in ('new', 'with_capacity'): return ret(m, Seq(()))
        r = args[0]; s = vm.read_at(m, r.cell, r.path)
        if n == 'len': return ret(m, len(s.items))
        if n == 'is_empty': return ret(m, len(s.items) == 0)
        if n == 'push_back': vm.write_at(m, r.cell, list(r.path), Seq(s.items + (args[1],))); return ret(m, UNIT)
        if n == 'push_front': vm.write_at(m, r.cell, list(r.path), Seq((args[1],) + s.items)); return ret(m, UNIT)
        if n == 'pop_front':
            if not s.items: return ret(m, NONE())
            vm.write_at(m, r.cell, list(r.path), Seq(s.items[1:])); return ret(m, SOME(s.items[0]))
        if n == 'pop_back':
            if not s.items: return ret(m, NONE())
            vm.write_at(m, r.cell, list(r.path), Seq(s.items[:-1])); return ret(m, SOME(s.items[-1]))
        if n == 'clear': vm.write_at(m, r.cell, list(r.path), Seq(())); return ret(m, UNIT)
        if n == 'iter':
            from .vm import Iter
            return ret(m, Iter([Ref(r.cell, r.path + (('i', k),)) for k in range(len(s.items))]))
        raise Unmodelled('VecDeque method ' + c)
    if re.match(r'^Vec::<.*>::new$', c) or re.match(r'^Vec::<.*>::with_capacity$', c): return ret(m, Seq(()))
    if re.match(r'^(?:std::)?(?:vec::)?from_elem::<(f64|u64|usize|i64|bool|u32)>$', c) and isinstance(args[1], int): return ret(m, Seq([args[0]] * args[1]))
    mm = re.match(r'^Vec::<.*?>::(\w+)(::<.*>)?$', c) or re.match(r'^(?:std::)?vec::Vec::<.*?>::(\w+)(::<.*>)?$', c)
    if mm:
        n = mm.group(1); r = args[0]
        if n == 'push':
            s = vm.read_at(m, r.cell, r.path); vm.write_at(m, r.cell, list(r.path), Seq(s.items + (args[1],))); return ret(m, UNIT)
        if n == 'pop':
            s = vm.read_at(m, r.cell, r.path)
            if not s.items: return ret(m, NONE())
            vm.write_at(m, r.cell, list(r.path), Seq(s.items[:-1])); return ret(m, SOME(s.items[-1]))
        if n == 'len': return ret(m, len(slice_items(vm, m, r)))
        if n == 'is_empty': return ret(m, len(slice_items(vm, m, r)) == 0)
        if n == 'clear': vm.write_at(m, r.cell, list(r.path), Seq(())); return ret(m, UNIT)
        if n in ('as_slice', 'as_mut_slice'): return ret(m, as_slice(vm, m, r))
        if n == 'extend_from_slice':
            s = vm.read_at(m, r.cell, r.path); vm.write_at(m, r.cell, list(r.path), Seq(s.items + tuple(slice_items(vm, m, args[1])))); return ret(m, UNIT)
        if n == 'reserve': return ret(m, UNIT)
        if n == 'truncate':
            s = vm.read_at(m, r.cell, r.path); vm.write_at(m, r.cell, list(r.path), Seq(s.items[:args[1]])); return ret(m, UNIT)
        if n == 'last':
            s = slice_refs(vm, m, r); return ret(m, SOME(s[-1]) if s else NONE())
        raise Unmodelled('Vec method ' + c)
    if re.match(r'^<Vec<.*> as Deref(Mut)?>::deref(_mut)?$', c): return ret(m, as_slice(vm, m, args[0]))
    if re.match(r'^<Vec<.*> as Clone>::clone$', c) or re.match(r'^<\[.*\] as ToOwned>::to_owned$', c) or re.match(r'^(core::|std::)?slice::<impl \[.*\]>::(to_vec|into_vec)(::<.*>)?$', c):
        return ret(m, Seq(slice_items(vm, m, args[0])))
    if re.match(r'^<Vec<.*> as Extend<.*>>::extend::<', c):
        from .vm import Iter
        r = args[0]; s = vm.read_at(m, r.cell, r.path); src = args[1]
        if isinstance(src, Seq): new = list(src.items)
        elif isinstance(src, Iter):
            from . import iters
            new = []
            for k in range(len(src.items)):
                outs = iters.pull(vm, m, src, k)
                if len(outs) != 1 or outs[0][1] != 'ret': raise Unmodelled('Vec::extend from a forking iterator')
                new.append(outs[0][2])
        else: raise Unmodelled('Vec::extend from %r' % (src,))
        vm.write_at(m, r.cell, list(r.path), Seq(s.items + tuple(new))); return ret(m, UNIT)
    if re.match(r'^<(Vec|VecDeque)<.*> as (std::ops::)?Index<usize>>::index$', c) or re.match(r'^<(Vec|VecDeque)<.*> as (std::ops::)?IndexMut<usize>>::index_mut$', c) \
            or re.match(r'^<\[.*\] as Index(Mut)?<usize>>::index(_mut)?$', c):
        refs = slice_refs(vm, m, args[0]); i = args[1]
        if is_sym(i): raise Unmodelled('symbolic Vec index')
        if i >= len(refs): return panic(m, ('index out of bounds', (i, len(refs)), None))
        return ret(m, refs[i])
    mm = re.match(r'^<(?:\[.*\]|Vec<.*>) as (?:std::ops::)?Index(?:Mut)?<(?:std::ops::)?Range(From|To|Full|Inclusive|)(?:<usize>)?>>::index(?:_mut)?$', c)
    if mm:
        sl = as_slice(vm, m, args[0]); kind = mm.group(1); r = args[1]
        if sl.shape is not None: raise Unmodelled('range index of a shaped slice')
        lo, hi = 0, sl.count
        if kind == 'From': lo = r.f[0]
        elif kind == 'To': hi = r.f[0]
        elif kind == '': lo, hi = r.f[0], r.f[1]
        elif kind == 'Inclusive': raise Unmodelled('RangeInclusive slice index')
        if is_sym(lo) or is_sym(hi): raise Unmodelled('symbolic slice range')
        if lo > hi or hi > sl.count: return panic(m, ('slice index out of range', (lo, hi, sl.count), None))
        return ret(m, SliceRef(sl.cell, sl.path, sl.start + lo, hi - lo))
    mm = re.match(r'^(?:core::|std::)?slice::<impl \[.*?\]>::(\w+)(::<.*>)?$', c)
    if mm:
        n = mm.group(1)
        if n == 'len': return ret(m, as_slice(vm, m, args[0]).count)
        if n == 'is_empty': return ret(m, as_slice(vm, m, args[0]).count == 0)
        if n in ('iter', 'iter_mut'):
            from .vm import Iter
            return ret(m, Iter(slice_refs(vm, m, args[0])))
        if n == 'contains':
            items = slice_items(vm, m, args[0]); x = deref_val(vm, m, args[1])
            items = [deref_val(vm, m, i) for i in items]
            if all(isinstance(i, Str) for i in items) and isinstance(x, Str): return ret(m, any(i.s == x.s for i in items))
            raise Unmodelled('slice::contains on %r' % (items[:2],))
        if n in ('first', 'last'):
            refs = slice_refs(vm, m, args[0])
            if not refs: return ret(m, NONE())
            return ret(m, SOME(refs[0] if n == 'first' else refs[-1]))
        if n in ('copy_from_slice', 'clone_from_slice'):
            dst = as_slice(vm, m, args[0]); src = slice_items(vm, m, args[1])
            if dst.count != len(src): return panic(m, ('copy_from_slice length mismatch', (dst.count, len(src)), None))
            s = vm.read_at(m, dst.cell, dst.path); items = list(s.items); items[dst.start:dst.start + dst.count] = src
            vm.write_at(m, dst.cell, list(dst.path), Seq(items)); return ret(m, UNIT)
        if n == 'fill':
            dst = as_slice(vm, m, args[0]); s = vm.read_at(m, dst.cell, dst.path); items = list(s.items)
            for k in range(dst.start, dst.start + dst.count): items[k] = args[1]
            vm.write_at(m, dst.cell, list(dst.path), Seq(items)); return ret(m, UNIT)
        if n in ('split_at', 'split_at_mut'):
            s = as_slice(vm, m, args[0]); k = args[1]
            if is_sym(k): raise Unmodelled('symbolic split_at')
            if k > s.count: return panic(m, ('split_at out of range', (k, s.count), None))
            return ret(m, Struct((SliceRef(s.cell, s.path, s.start, k), SliceRef(s.cell, s.path, s.start + k, s.count - k))))
        if n in ('get', 'get_mut'):
            refs = slice_refs(vm, m, args[0]); i = args[1]
            if not isinstance(i, int) and not is_sym(i): return NotImplemented     # range argument: stdmodels
            if is_sym(i): raise Unmodelled('symbolic slice get')
            return ret(m, SOME(refs[i]) if i < len(refs) else NONE())
    return NotImplemented
