"""MIR text front end (rustc 1.97 nightly, -Zunpretty=mir -Zmir-include-spans=yes).

Parses the dump lazily into a small structured IR.  Anything that is not recognised raises
MirParseError; callers turn that into an *inconclusive* verdict (exit 2), never a pass.
"""
import re, os, hashlib

class MirParseError(Exception):
    pass

# ----------------------------------------------------------------------------------------------
# small string helpers
OPEN = '(<[{'
CLOSE = ')>]}'

def split_top(s, sep=','):
    """split on `sep` at nesting depth 0 (handles ->, strings)"""
    out = []; depth = 0; cur = []; i = 0; n = len(s)
    while i < n:
        ch = s[i]
        if ch == '"':
            j = i + 1
            while j < n and s[j] != '"':
                if s[j] == '\\': j += 1
                j += 1
            cur.append(s[i:j + 1]); i = j + 1; continue
        if ch == '-' and i + 1 < n and s[i + 1] == '>':
            cur.append('->'); i += 2; continue
        if ch in OPEN: depth += 1
        elif ch in CLOSE: depth -= 1
        if ch == sep and depth == 0:
            out.append(''.join(cur).strip()); cur = []
        else:
            cur.append(ch)
        i += 1
    t = ''.join(cur).strip()
    if t: out.append(t)
    return out

def match_close(s, i):
    """s[i] is an opener; return index of its matching closer"""
    depth = 0; n = len(s)
    while i < n:
        ch = s[i]
        if ch == '"':
            j = i + 1
            while j < n and s[j] != '"':
                if s[j] == '\\': j += 1
                j += 1
            i = j + 1; continue
        if ch == '-' and i + 1 < n and s[i + 1] == '>': i += 2; continue
        if ch in OPEN: depth += 1
        elif ch in CLOSE:
            depth -= 1
            if depth == 0: return i
        i += 1
    raise MirParseError('unbalanced: ' + s)

def match_open_from_end(s):
    """s ends with ')'; return index of matching '('"""
    depth = 0; i = len(s) - 1
    while i >= 0:
        ch = s[i]
        if ch == '>' and i > 0 and s[i - 1] == '-': i -= 2; continue
        if ch in CLOSE: depth += 1
        elif ch in OPEN:
            depth -= 1
            if depth == 0: return i
        i -= 1
    raise MirParseError('unbalanced(end): ' + s)

def strip_generics(s):
    """remove every <...> group (balanced, -> aware); keeps leading '<X as T>' forms intact only if asked by caller"""
    out = []; depth = 0; i = 0; n = len(s)
    while i < n:
        ch = s[i]
        if ch == '-' and i + 1 < n and s[i + 1] == '>':
            if depth == 0: out.append('->')
            i += 2; continue
        if ch == '<': depth += 1
        elif ch == '>': depth -= 1
        elif depth == 0: out.append(ch)
        i += 1
    return ''.join(out)

# ----------------------------------------------------------------------------------------------
# places / operands / rvalues

class Place:
    __slots__ = ('local', 'proj')
    def __init__(self, local, proj): self.local = local; self.proj = tuple(proj)
    def __repr__(self): return 'Place(%s,%s)' % (self.local, list(self.proj))

def parse_place(s, i=0):
    """returns (Place, next_index)"""
    if s[i] == '_':
        m = re.match(r'_\d+', s[i:]); local = m.group(0); pr = []; j = i + len(local)
    elif s[i] == '(':
        if s[i + 1] == '*':
            p, j = parse_place(s, i + 2)
            if s[j] != ')': raise MirParseError('place deref: ' + s[i:])
            local, pr, j = p.local, list(p.proj) + [('deref',)], j + 1
        else:
            p, j = parse_place(s, i + 1); local, pr = p.local, list(p.proj)
            if s.startswith(' as ', j):
                m = re.match(r' as ([\w#]+)\)', s[j:])
                if not m: raise MirParseError('place downcast: ' + s[i:])
                pr.append(('downcast', m.group(1))); j += len(m.group(0))
            else:
                m = re.match(r'\.(\d+): ', s[j:])
                if not m: raise MirParseError('place field: ' + s[i:])
                k = j + len(m.group(0)); depth = 0; n = len(s)
                while k < n:
                    c = s[k]
                    if c == '-' and k + 1 < n and s[k + 1] == '>': k += 2; continue
                    if c in OPEN: depth += 1
                    elif c in CLOSE:
                        if depth == 0: break
                        depth -= 1
                    k += 1
                if k >= n or s[k] != ')': raise MirParseError('place field type: ' + s[i:])
                pr.append(('field', int(m.group(1)), s[j + len(m.group(0)):k])); j = k + 1
    else:
        raise MirParseError('place: ' + s[i:])
    while j < len(s) and s[j] == '[':
        m = re.match(r'\[(-?\d+) of (\d+)\]', s[j:])
        if m:
            k = int(m.group(1)); pr.append(('constindex', abs(k), int(m.group(2)), m.group(1).startswith('-'))); j += len(m.group(0)); continue
        m = re.match(r'\[(_\d+)\]', s[j:])
        if m: pr.append(('index', m.group(1))); j += len(m.group(0)); continue
        m = re.match(r'\[(\d+):(-?)(\d+)\]', s[j:]) or re.match(r'\[(\d+)\.\.(-?)(\d+)\]', s[j:])
        if m: pr.append(('subslice', int(m.group(1)), int(m.group(3)), m.group(2) == '-')); j += len(m.group(0)); continue
        raise MirParseError('place index: ' + s[j:])
    return Place(local, pr), j

def parse_place_full(s):
    p, j = parse_place(s.strip())
    if j != len(s.strip()): raise MirParseError('trailing in place: %r' % s)
    return p

CAST_KINDS = r'(IntToInt|IntToFloat|FloatToInt|FloatToFloat|PtrToPtr|FnPtrToPtr|Transmute|Subtype|PointerExposeProvenance|PointerWithExposedProvenance|PointerCoercion\([^()]*(?:\([^()]*\))?[^()]*\))'
BINOPS = {'Add', 'Sub', 'Mul', 'Div', 'Rem', 'BitXor', 'BitAnd', 'BitOr', 'Shl', 'Shr', 'Eq', 'Lt', 'Le', 'Ne', 'Ge', 'Gt', 'Cmp', 'Offset',
          'AddWithOverflow', 'SubWithOverflow', 'MulWithOverflow', 'AddUnchecked', 'SubUnchecked', 'MulUnchecked', 'ShlUnchecked', 'ShrUnchecked'}
UNOPS = {'Not', 'Neg', 'PtrMetadata'}

def parse_operand(s):
    s = s.strip()
    s = re.sub(r'^no_retag ', '', s)
    if s.startswith('copy ') or s.startswith('move '):
        return (s[:4], parse_place_full(s[5:]))
    if s.startswith('const '):
        return ('const', unintern(s[6:].strip()))
    if re.match(r'^[<\w]', s) and not s.startswith('_'):
        return ('fnitem', s)
    raise MirParseError('operand: %r' % s)

def parse_rvalue(s):
    s = s.strip()
    m = re.match(r'^(.*) as (.*) \(' + CAST_KINDS + r'\)$', s)
    if m and re.match(r'^(no_retag )?(copy|move|const) ', m.group(1)):
        return ('cast', parse_operand(m.group(1)), m.group(2), m.group(3))
    if re.match(r'^(no_retag )?(copy|move|const) ', s):
        return ('use', parse_operand(s))
    m = re.match(r'^&(mut |raw const \(fake\) |raw const |raw mut |fake shallow |fake deep )?(.*)$', s)
    if m and (m.group(2).startswith('_') or m.group(2).startswith('(')):
        kind = (m.group(1) or '').strip()
        return ('ref', kind, parse_place_full(m.group(2)))
    m = re.match(r'^(\w+)\((.*)\)$', s)
    if m and m.group(1) in BINOPS:
        a, b = split_top(m.group(2)); return ('binop', m.group(1), parse_operand(a), parse_operand(b))
    if m and m.group(1) in UNOPS:
        return ('unop', m.group(1), parse_operand(m.group(2)))
    if m and m.group(1) == 'discriminant':
        return ('discriminant', parse_place_full(m.group(2)))
    if m and m.group(1) == 'Len':
        return ('len', parse_place_full(m.group(2)))
    if m and m.group(1) == 'CopyForDeref':
        return ('use', ('copy', parse_place_full(m.group(2))))
    if m and m.group(1) == 'ShallowInitBox':
        a = split_top(m.group(2)); return ('shallowbox', parse_operand(a[0]), a[1])
    if s.startswith('['):
        inner = s[1:match_close(s, 0)]
        parts = split_top(inner, ';')
        if len(parts) == 2 and not s[1:].startswith('const b"'):
            return ('repeat', parse_operand(parts[0]), parts[1])
        return ('aggregate', 'array', None, [parse_operand(x) for x in split_top(inner)])
    if s.startswith('('):
        if match_close(s, 0) != len(s) - 1: raise MirParseError('rvalue tuple: ' + s)
        return ('aggregate', 'tuple', None, [parse_operand(x) for x in split_top(s[1:-1])])
    if s.startswith('{closure@') or s.startswith('{coroutine@'):
        k = match_close(s, 0); name = s[:k + 1]; rest = s[k + 1:].strip()
        if rest == '': return ('aggregate', 'closure', name, [])
        if rest.startswith('{') and rest.endswith('}'):
            ops = [parse_operand(p.split(': ', 1)[1]) for p in split_top(rest[1:-1])]
            return ('aggregate', 'closure', name, ops)
        raise MirParseError('closure aggregate: ' + s)
    # struct / enum aggregates: Path { f: op, .. } | Path(op, ..) | Path
    if s.endswith('}'):
        k = match_open_brace_from_end(s)
        path = s[:k].strip(); body = s[k + 1:-1].strip()
        ops = []
        for p in split_top(body):
            if ': ' not in p: raise MirParseError('struct aggregate field: ' + s)
            ops.append(parse_operand(p.split(': ', 1)[1]))
        return ('aggregate', 'adt', path, ops)
    if s.endswith(')'):
        k = match_open_from_end(s)
        path = s[:k].strip()
        if path and re.match(r'^[\w<]', path):
            return ('aggregate', 'adt', path, [parse_operand(x) for x in split_top(s[k + 1:-1])])
    if re.match(r'^[\w<][\w:<>, &\'\[\]();\-{}@/.#*+=]*$', s):
        return ('aggregate', 'adt', s, [])
    raise MirParseError('rvalue: %r' % s)

def match_open_brace_from_end(s):
    depth = 0; i = len(s) - 1
    while i >= 0:
        ch = s[i]
        if ch == '>' and i > 0 and s[i - 1] == '-': i -= 2; continue
        if ch in CLOSE: depth += 1
        elif ch in OPEN:
            depth -= 1
            if depth == 0:
                if ch != '{': raise MirParseError('brace: ' + s)
                return i
        i -= 1
    raise MirParseError('unbalanced brace: ' + s)

# ----------------------------------------------------------------------------------------------
STRINGS = []
_STR_RE = re.compile(r'b?"(?:[^"\\]|\\.)*"')
def intern_strings(t):
    def rep(m):
        STRINGS.append(m.group(0)); return '"@S%d@"' % (len(STRINGS) - 1)
    return _STR_RE.sub(rep, t)
def unintern(s):
    return re.sub(r'"@S(\d+)@"', lambda m: STRINGS[int(m.group(1))], s)

TERM_SUFFIX = re.compile(r' -> (\[return: bb(\d+), unwind[^\]]*\]|unwind [^;]*|bb(\d+));$')

class Stmt:
    __slots__ = ('kind', 'a', 'b', 'c', 'd', 'span', 'text')
    def __init__(self, kind, a=None, b=None, c=None, d=None, span=None, text=None):
        self.kind = kind; self.a = a; self.b = b; self.c = c; self.d = d; self.span = span; self.text = text
    def __repr__(self): return 'Stmt(%s: %s)' % (self.kind, self.text)

def parse_stmt(text, span):
    t = intern_strings(text)
    if t.startswith('StorageLive(') or t.startswith('StorageDead(') or t.startswith('nop') or t.startswith('FakeRead(') \
            or t.startswith('PlaceMention(') or t.startswith('AscribeUserType(') or t.startswith('Retag(') or t.startswith('ConstEvalCounter') \
            or t.startswith('Coverage::') or t.startswith('BackwardIncompatibleDropHint'):
        return Stmt('nop', span=span, text=t)
    if t == 'return;': return Stmt('return', span=span, text=t)
    if t == 'unreachable;': return Stmt('unreachable', span=span, text=t)
    if t == 'resume;' or t.startswith('terminate('): return Stmt('resume', span=span, text=t)
    m = re.match(r'^goto -> bb(\d+);$', t)
    if m: return Stmt('goto', int(m.group(1)), span=span, text=t)
    m = re.match(r'^switchInt\((.*)\) -> \[(.*)\];$', t)
    if m:
        arms = []; other = None
        for a in split_top(m.group(2)):
            k, tgt = a.rsplit(': ', 1); tgt = int(tgt[2:])
            if k == 'otherwise': other = tgt
            else: arms.append((int(k), tgt))
        return Stmt('switch', parse_operand(m.group(1)), arms, other, span=span, text=t)
    m = re.match(r'^drop\((.*)\) -> \[return: bb(\d+), unwind[^\]]*\];$', t)
    if m: return Stmt('drop', parse_place_full(m.group(1)), int(m.group(2)), span=span, text=t)
    m = re.match(r'^assert\((!?)(.*?), "(.*)\) -> \[success: bb(\d+), unwind[^\]]*\];$', t)
    if m:
        return Stmt('assert', parse_operand(m.group(2)), m.group(1) != '!', int(m.group(4)), unintern('"' + m.group(3)), span=span, text=text)
    m = re.match(r'^discriminant\((.*)\) = (\d+);$', t)
    if m: return Stmt('setdisc', parse_place_full(m.group(1)), int(m.group(2)), span=span, text=t)
    m = re.match(r'^Deinit\((.*)\);$', t)
    if m: return Stmt('nop', span=span, text=t)
    ms = TERM_SUFFIX.search(t)
    if ms:
        head = t[:ms.start()]
        tgt = ms.group(2) or ms.group(3)
        tgt = int(tgt) if tgt is not None else None
        # DEST = CALLEE(ARGS)
        p, j = parse_place(head)
        if not head.startswith(' = ', j): raise MirParseError('call: ' + t)
        rhs = head[j + 3:]
        if not rhs.endswith(')'): raise MirParseError('call rhs: ' + t)
        k = match_open_from_end(rhs)
        callee = rhs[:k]; args = [parse_operand(x) for x in split_top(rhs[k + 1:-1])]
        return Stmt('call', p, callee, args, tgt, span=span, text=t)
    if t.endswith(';'):
        body = t[:-1]
        p, j = parse_place(body)
        if body.startswith(' = ', j):
            return Stmt('assign', p, parse_rvalue(body[j + 3:]), span=span, text=t)
    raise MirParseError('stmt: %r' % t)

# ----------------------------------------------------------------------------------------------
class Fn:
    def __init__(self, header, lines, lineno):
        self.header = header; self._lines = lines; self.lineno = lineno
        k = header.index('(') if '(' in header else len(header)
        # name = everything between 'fn ' and the argument list's '(' at depth 0
        depth = 0; i = 3; n = len(header)
        while i < n:
            ch = header[i]
            if ch == '-' and header[i + 1] == '>': i += 2; continue
            if ch == '(' and depth == 0: break
            if ch in '<{[': depth += 1
            elif ch in '>}]': depth -= 1
            i += 1
        self.name = header[3:i]
        j = match_close(header, i)
        self.args = []
        for a in split_top(header[i + 1:j]):
            nm, ty = a.split(': ', 1); self.args.append((nm, ty))
        rest = header[j + 1:].strip()
        self.ret = rest[3:-1].strip() if rest.startswith('->') else '()'
        self._parsed = False
        m = re.search(r'<impl at (src/[\w/.]+):(\d+):\d+: (\d+):\d+>', self.name)
        self.impl_at = (m.group(1), int(m.group(2))) if m else None
        self.src_lines = None

    def parse(self):
        if self._parsed: return self
        self.locals = dict(self.args); self.blocks = {}; self.cleanup = set(); self.debug = {}
        cur = None; files = set(); lo = 10 ** 9; hi = 0
        span_re = re.compile(r'\s+// scope \d+ at (.*)$')
        for raw in self._lines:
            line = raw.rstrip()
            s = line.strip()
            if not s or s.startswith('//'): continue
            sp = None
            m = span_re.search(line)
            if m:
                sp = m.group(1); line = line[:m.start()]; s = line.strip()
                mm = re.match(r'^(src/[\w/.]+):(\d+):\d+: (\d+):\d+', sp)
                if mm and cur is not None:
                    files.add(mm.group(1)); lo = min(lo, int(mm.group(2))); hi = max(hi, int(mm.group(3)))
            else:
                m = re.search(r'\s+// in scope \d+ at .*$', line) or re.search(r'\s+// return place in scope.*$', line)
                if m: line = line[:m.start()]; s = line.strip()
            if cur is None:
                m = re.match(r'^let (mut )?(_\d+): (.*);$', s)
                if m: self.locals[m.group(2)] = m.group(3); continue
                m = re.match(r'^debug (\w+) => (.*);$', s)
                if m:
                    if not (m.group(1) in self.debug and re.search(r'\b_1\b', self.debug[m.group(1)]) and not re.search(r'\b_1\b', m.group(2))): self.debug[m.group(1)] = m.group(2)   # a capture keeps its name when a local shadows it
                    continue
            m = re.match(r'^bb(\d+)( \(cleanup\))?: \{$', s)
            if m:
                cur = int(m.group(1)); self.blocks[cur] = []
                if m.group(2): self.cleanup.add(cur)
                continue
            if cur is not None:
                if s == '}': cur = None; continue
                self.blocks[cur].append((s, sp))
        self.src_lines = (sorted(files), lo, hi)
        self._stmts = {}
        self._parsed = True
        return self

    def stmts(self, bb):
        st = self._stmts.get(bb)
        if st is None:
            st = [parse_stmt(t, sp) for (t, sp) in self.blocks[bb]]
            self._stmts[bb] = st
        return st

    def nargs(self): return len(self.args)

    def captures(self):
        """closure upvars by source name -> (field index of _1, captured by reference?) from the `debug` lines"""
        self.parse(); out = {}
        for nm, ex in self.debug.items():
            m = re.match(r'^\(\*\(\(\*_1\)\.(\d+): .*\)\)$', ex) or re.match(r'^\(\*\(_1\.(\d+): .*\)\)$', ex)
            if m: out[nm] = (int(m.group(1)), True); continue
            m = re.match(r'^\(\(\*_1\)\.(\d+): .*\)$', ex) or re.match(r'^\(_1\.(\d+): .*\)$', ex)
            if m: out[nm] = (int(m.group(1)), False)
        return out

# ----------------------------------------------------------------------------------------------
class Mir:
    def __init__(self, path, srcroot):
        self.path = path; self.srcroot = srcroot
        self.fns = {}; self.order = []
        cur = None; hdr = None; lineno = 0
        with open(path) as f:
            for i, line in enumerate(f):
                if line.startswith('fn ') and cur is None:
                    hdr = line.rstrip('\n'); cur = []; lineno = i + 1
                    continue
                if line.startswith('const ') and cur is None and line.rstrip().endswith('= {') and '::promoted[' in line:
                    mm = re.match(r'^const (.*::promoted\[\d+\]): (.*) = \{$', line.rstrip())
                    if mm:
                        hdr = 'fn %s() -> %s {' % (mm.group(1), mm.group(2)); cur = []; lineno = i + 1
                        continue
                if cur is not None:
                    if line.startswith('}'):
                        fn = Fn(hdr, cur, lineno)
                        if fn.name in self.fns:
                            # duplicates (e.g. promoted) - keep first, record others with suffix
                            k = 1
                            while '%s#%d' % (fn.name, k) in self.fns: k += 1
                            fn.name = '%s#%d' % (fn.name, k)
                        self.fns[fn.name] = fn; self.order.append(fn.name); cur = None
                    else:
                        cur.append(line)
        self._impl_cache = {}
        self._index = None
        self.enums = None; self.enum_discr = {}

    # ---- source-derived tables -----------------------------------------------------------
    def _src(self, rel):
        p = os.path.join(self.srcroot, rel)
        with open(p) as f: return f.read().split('\n')

    def impl_info(self, file, line):
        """(trait or None, self type base name, full text) of the impl that starts at file:line"""
        key = (file, line)
        if key in self._impl_cache: return self._impl_cache[key]
        lines = self._src(file); txt = ''
        i = line - 1
        # derive(...) impls: the span points into an attribute; resolve to the item below
        if re.match(r'^\s*#\[', lines[i]) or 'derive' in lines[i]:
            j = i
            while j < len(lines) and not re.match(r'^\s*(pub(\([\w:]+\))? )?(struct|enum|union) ', lines[j]): j += 1
            m = re.match(r'^\s*(?:pub(?:\([\w:]+\))? )?(?:struct|enum|union) (\w+)', lines[j]) if j < len(lines) else None
            res = ('<derive>', m.group(1) if m else None, lines[i].strip())
            self._impl_cache[key] = res; return res
        while i < len(lines):
            txt += ' ' + lines[i].strip()
            if '{' in lines[i]: break
            i += 1
        txt = txt.strip()
        m = re.match(r'^(?:unsafe )?impl\b', txt)
        if not m:
            res = (None, None, txt); self._impl_cache[key] = res; return res
        body = txt[m.end():].strip()
        if body.startswith('<'):
            k = match_close(body, 0); body = body[k + 1:].strip()
        body = body.split('{')[0]
        body = re.split(r'\bwhere\b', body)[0].strip()
        trait = None
        parts = re.split(r'\s+for\s+', body)
        if len(parts) == 2: trait, ty = parts
        else: ty = parts[0]
        def base(t):
            t = strip_generics(t.strip()).strip()
            t = t.lstrip('&').strip()
            return t.split('::')[-1].strip()
        res = (base(trait) if trait else None, base(ty), txt)
        self._impl_cache[key] = res; return res

    def index(self):
        """(self type base, trait base or None, method) -> [fn names]"""
        if self._index is not None: return self._index
        idx = {}
        for name, fn in self.fns.items():
            if '::promoted[' in name: continue
            if fn.impl_at and '{closure' not in name:
                trait, ty, _ = self.impl_info(*fn.impl_at)
                tail = name[name.index('>::', name.index('<impl at')) + 3:] if '>::' in name else ''
                meth = tail.split('::')[0] if tail else ''
                idx.setdefault((ty, trait, meth), []).append(name)
            elif '{closure' not in name and '::' in name and not name.startswith('<'):
                # trait default methods: `Hamiltonian::partial_momentum_refresh`
                segs = name.split('::')
                if len(segs) == 2: idx.setdefault((None, segs[0], segs[1]), []).append(name)
            elif '::' not in name:
                idx.setdefault((None, None, name), []).append(name)
        self._index = idx
        return idx

    def load_enums(self):
        if self.enums is not None: return self.enums
        enums = {'Option': ['None', 'Some'], 'Result': ['Ok', 'Err'], 'ControlFlow': ['Continue', 'Break'],
                 'Ordering': ['Less', 'Equal', 'Greater'], 'Bound': ['Included', 'Excluded', 'Unbounded'],
                 'TryRecvError': ['Empty', 'Disconnected'], 'Poll': ['Ready', 'Pending'], 'Accum': ['Replace', 'Add'], 'RecvTimeoutError': ['Timeout', 'Disconnected'], 'Cow': ['Borrowed', 'Owned']}
        for root, dirs, files in os.walk(self.srcroot):
            if '/target' in root or '/.git' in root: continue
            for fnm in files:
                if not fnm.endswith('.rs'): continue
                txt = open(os.path.join(root, fnm)).read()
                for m in re.finditer(r'\benum (\w+)\s*(<[^{]*>)?\s*(where[^{]*)?\{', txt):
                    k = match_close(txt, m.end() - 1); body = txt[m.end():k]
                    body = re.sub(r'//[^\n]*', '', body); body = re.sub(r'#\[[^\]]*\]', '', body)
                    vs = []; explicit = {}
                    for part in split_top(body):
                        mm = re.match(r'^\s*(\w+)', part)
                        if mm: vs.append(mm.group(1))
                        md = re.match(r'^\s*(\w+)\s*=\s*(-?\d+)\s*$', part)
                        if md: explicit[md.group(1)] = int(md.group(2))
                    enums.setdefault(m.group(1), vs)
                    if explicit:
                        # C-like enum with explicit discriminants: unlisted variants continue from the previous value
                        table = {}; nxt = 0
                        for v in vs:
                            nxt = explicit.get(v, nxt); table[v] = nxt; nxt += 1
                        self.enum_discr[m.group(1)] = table
        self.enums = enums
        return enums

    def named_consts(self):
        """`const NAME: f64|integer = literal;` items of the crate sources (name -> (type, literal text)); ambiguous names are dropped"""
        if getattr(self, '_consts', None) is not None: return self._consts
        out = {}; dup = set()
        for root, dirs, files in os.walk(self.srcroot):
            dirs[:] = [d for d in dirs if d not in ('target', '.git')]
            for fnm in files:
                if not fnm.endswith('.rs'): continue
                for m in re.finditer(r'\bconst (\w+): (f64|u64|usize|i64|u32|i32) = ([^;]+);', open(os.path.join(root, fnm)).read()):
                    if m.group(1) in out and out[m.group(1)] != (m.group(2), m.group(3).strip()): dup.add(m.group(1))
                    out[m.group(1)] = (m.group(2), m.group(3).strip())
        for d in dup: out.pop(d, None)
        self._consts = out
        return out

    def find(self, pat):
        hits = [n for n in self.fns if re.search(pat, n)]
        if len(hits) != 1: raise KeyError('pattern %r matches %d functions: %s' % (pat, len(hits), hits[:4]))
        return self.fns[hits[0]].parse()

    def get(self, name): return self.fns[name].parse()

    def method(self, ty, trait, meth, file=None):
        hits = self.index().get((ty, trait, meth), [])
        if file is not None: hits = [h for h in hits if file in h]
        if len(hits) != 1: raise KeyError('method (%s,%s,%s,%s): %d hits' % (ty, trait, meth, file, len(hits)))
        return self.fns[hits[0]].parse()

    def closure_of(self, closure_type, parent=None, arg_hint=None):
        """closure type text `{closure@src/x.rs:L:C: L:C}` -> Fn (body).  Macro-generated closures (izip!) share
        one type text; they are disambiguated by the function that created the value and must then be
        interchangeable (same signature)."""
        key = closure_type.strip()
        if not hasattr(self, '_clo_idx'):
            self._clo_idx = {}
            for n, f in self.fns.items():
                if '{closure#' in n and f.args:
                    mm = re.search(r'\{closure@[^{}]*\}', f.args[0][1])
                    if mm: self._clo_idx.setdefault(mm.group(0), []).append(n)
        hits = self._clo_idx.get(key, [])
        if len(hits) > 1 and parent is not None:
            h2 = [h for h in hits if h.startswith(parent + '::{closure#')]
            if h2: hits = h2
        if len(hits) > 1:
            def shape(t):
                t = re.sub(r'\[[^\[\]]*\]', 'T', re.sub(r'<[^<>]*>', '', re.sub(r'<[^<>]*>', '', t)))
                return re.sub(r'[^(),]', '', t)
            sigs = {tuple(shape(t) for _, t in self.fns[h].args[1:]) + (shape(self.fns[h].ret),) for h in hits}
            if len(sigs) == 1 and '/itertools-' in key: hits = hits[:1]
        if len(hits) > 1 and arg_hint is not None:
            h2 = [h for h in hits if arg_hint(self.fns[h].args[1][1] if len(self.fns[h].args) > 1 else '')]
            if h2: hits = h2
        if len(hits) > 1:
            # derive-generated closures of one struct share a span; identical bodies are interchangeable
            def norm(h): return re.sub(r'\{closure#\d+\}', '{closure}', '\n'.join(l.split(' // ')[0].rstrip() for l in self.fns[h]._lines))
            if len({norm(h) for h in hits}) == 1: hits = hits[:1]
        if len(hits) != 1: raise KeyError('closure %s (parent %s): %d hits' % (key, parent, len(hits)))
        return self.fns[hits[0]].parse()

def _coroutine_of(self, cty):
    """`{coroutine@SPAN (#0)}` (the value built where an async block is written) -> its poll function, whose first argument is
    Pin<&mut {async block@SPAN}> / {async fn body ...}"""
    mm = re.match(r'^\{coroutine@([^{}]*?)( \(#\d+\))?\}$', cty.strip())
    if not mm: raise KeyError('not a coroutine type: ' + cty)
    span = mm.group(1); hits = [n for n, f in self.fns.items() if f.args and ('{async block@%s}' % span) in f.args[0][1] and f.args[0][1].startswith('Pin<&mut ')]
    if len(hits) != 1: raise KeyError('coroutine %s: %d poll functions' % (cty, len(hits)))
    return self.fns[hits[0]].parse()
Mir.coroutine_of = _coroutine_of

def source_hash(repo):
    h = hashlib.sha256()
    for root, dirs, files in os.walk(repo):
        dirs[:] = sorted(d for d in dirs if d not in ('target', '.git'))
        for f in sorted(files):
            if f.endswith('.rs') or f in ('Cargo.toml', 'Cargo.lock'):
                p = os.path.join(root, f); h.update(p[len(repo):].encode()); h.update(open(p, 'rb').read())
    return h.hexdigest()[:16]
