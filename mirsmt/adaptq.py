"""One call of GlobalStrategy::adapt(draw) from an arbitrary schedule state (C06, C09): the real MIR of adapt and of the
step-size Strategy / DualAverage / Adam is executed; the mass-matrix strategy A, the Hamiltonian, the RNG and the
step-size *search* (Strategy::init) are the environment."""
import z3
from .vm import (VM, Machine, Struct, Enum, Seq, Ref, Opaque, UNIT, NONE, SOME, OK, ERR, ret, is_sym, VMError)
from .alg import RealAlg, Fl
from .mathenv import install_misc

METHODS = ('DualAverage', 'Adam', 'Fixed')

class AdaptQuery:
    def __init__(self, mir, L, method, jitter):
        self.mir = mir; self.L = L; self.method = method; self.jitter = jitter
        self.A = RealAlg(); self.vm = VM(mir, self.A); A = self.A
        self.vm.enums.setdefault('Either', ['Left', 'Right'])
        install_misc(self.vm)
        self.fn = mir.method('GlobalStrategy', 'AdaptStrategy', 'adapt')
        self.R = lambda n: A.fresh(n); self.I = lambda n: z3.Int(n)
        self.install()

    # ---------------------------------------------------------------- symbolic pre-state
    def pre_state(self, m):
        L = self.L; A = self.A; R = self.R; I = self.I
        da_opts = L.make('DualAverageOptions', {'k': R('k'), 't0': R('t0'), 'gamma': R('gamma'), 'max_step_size': R('max_step')})
        adam_opts = L.make('AdamOptions', {'beta1': R('beta1'), 'beta2': R('beta2'), 'epsilon': R('adam_eps'), 'learning_rate': R('lr')})
        en = self.vm.enums['StepSizeAdaptMethod']
        if self.method == 'Fixed': meth = Enum(en.index('Fixed'), 'Fixed', (R('fixed_val'),), 'StepSizeAdaptMethod')
        else: meth = Enum(en.index(self.method), self.method, (), 'StepSizeAdaptMethod')
        ao = L.make('StepSizeAdaptOptions', {'method': meth, 'dual_average': da_opts, 'adam': adam_opts})
        jit = SOME(R('jitter')) if self.jitter else NONE()
        ss = L.make('StepSizeSettings', {'target_accept': R('target'), 'initial_step': R('initial_step'), 'jitter': jit, 'adapt_options': ao})
        if self.method == 'DualAverage':
            da = L.make('DualAverage', {'log_step': R('log_step'), 'log_step_adapted': R('log_step_adapted'), 'hbar': R('hbar'), 'mu': R('mu'), 'count': I('da_count'), 'settings': da_opts})
            adaptation = SOME(Enum(0, 'Left', (da,), 'Either'))
        elif self.method == 'Adam':
            ad = L.make('Adam', {'log_step': R('log_step'), 'm': R('adam_m'), 'v': R('adam_v'), 't': I('adam_t'), 'settings': adam_opts})
            adaptation = SOME(Enum(1, 'Right', (ad,), 'Either'))
        else: adaptation = NONE()
        step = L.make('Strategy', {'adaptation': adaptation, 'options': ss, 'last_mean_tree_accept': R('old_mean'), 'last_sym_mean_tree_accept': R('old_sym'),
                                   'last_n_steps': I('old_nsteps'), 'last_max_energy_error': R('old_maxerr')}, file='stepsize')
        opts = L.make('EuclideanAdaptOptions', {'step_size_settings': ss, 'mass_matrix_options': Opaque('mm_options'), 'early_window': R('early_window'), 'step_size_window': R('step_size_window'),
                                                'mass_matrix_switch_freq': I('switch_freq'), 'early_mass_matrix_switch_freq': I('early_switch_freq'), 'mass_matrix_update_freq': I('update_freq'),
                                                'mass_matrix_window_growth': R('growth')})
        gs = L.make('GlobalStrategy', {'step_size': step, 'mass_matrix_adapt': Struct((), 'MMOracle'), 'options': opts, 'num_tune': I('num_tune'), 'early_end': I('early_end'),
                                       'final_step_size_window': I('final_window'), 'tuning': z3.Bool('tuning'), 'has_initial_mass_matrix': z3.Bool('has_initial'), 'last_update': I('last_update'),
                                       'current_window_size': I('window')})
        B = 2 ** 32
        pre = [I(n) >= 0 for n in ('num_tune', 'early_end', 'final_window', 'last_update', 'window', 'switch_freq', 'early_switch_freq', 'update_freq', 'draw', 'fg_count', 'bg_count', 'da_count', 'adam_t', 'old_nsteps')]
        pre += [I(n) < B for n in ('num_tune', 'early_end', 'final_window', 'last_update', 'window', 'switch_freq', 'early_switch_freq', 'update_freq', 'draw', 'fg_count', 'bg_count', 'da_count', 'adam_t', 'old_nsteps')]
        # invariant I established by GlobalStrategy::new and preserved by adapt (checked by the queries):
        pre += [I('early_end') <= I('num_tune'), I('final_window') <= I('num_tune'), I('last_update') <= I('draw'),
                z3.Bool('tuning') == (I('draw') <= I('num_tune')), R('growth').v >= 1, R('growth').v <= 1024, I('da_count') >= 1,
                R('t0').v >= 0, R('gamma').v > 0, R('max_step').v > 0, R('beta1').v > 0, R('beta1').v < 1, R('beta2').v > 0, R('beta2').v < 1, R('adam_eps').v > 0, R('lr').v > 0, R('adam_v').v >= 0,
                R('target').v > 0, R('target').v < 1, R('initial_step').v > 0]
        if self.jitter: pre += [R('jitter').v > 0, R('jitter').v < 1]
        if self.method == 'Fixed': pre += [R('fixed_val').v > 0]
        return gs, pre

    # ---------------------------------------------------------------- environment
    def install(self):
        vm = self.vm; A = self.A; Q = self; I = self.I
        def mm_state(m):
            return m.ghost['mm']
        def update_estimators(vm, m, c, a):
            g = dict(m.ghost['mm']); good = z3.Bool('is_good')
            g['fg'] = z3.If(good, g['fg'] + 1, g['fg']); g['bg'] = z3.If(good, g['bg'] + 1, g['bg']); m.ghost['mm'] = g
            m.log('events', ('update_estimators',)); return ret(m, UNIT)
        def switch(vm, m, c, a):
            g = dict(m.ghost['mm']); g['fg'] = g['bg']; g['bg'] = z3.IntVal(0); m.ghost['mm'] = g
            m.log('events', ('switch',)); return ret(m, UNIT)
        def mm_adapt(vm, m, c, a):
            outs = []
            for ch in (True, False):
                m2 = m.clone(); m2.log('events', ('mm_adapt', ch)); outs.append((m2, 'ret', ch))
            return outs
        vm.add_model(r'^<A as MassMatrixAdaptStrategy<M>>::update_estimators$', update_estimators)
        vm.add_model(r'^<A as MassMatrixAdaptStrategy<M>>::switch$', switch)
        vm.add_model(r'^<A as MassMatrixAdaptStrategy<M>>::adapt$', mm_adapt)
        vm.add_model(r'^<A as MassMatrixAdaptStrategy<M>>::background_count$', lambda vm, m, c, a: ret(m, m.ghost['mm']['bg']))
        vm.add_model(r'^<A as MassMatrixAdaptStrategy<M>>::current_count$', lambda vm, m, c, a: ret(m, m.ghost['mm']['fg']))
        vm.add_model(r'^TransformedHamiltonian::<M, .*>::transformation_mut$', lambda vm, m, c, a: ret(m, Ref(m.ghost['cells']['transformation'])))
        vm.add_model(r'^<.* as Hamiltonian<M>>::step_size_mut$', lambda vm, m, c, a: ret(m, Ref(m.ghost['cells']['step_size'])))
        vm.add_model(r'^<.* as Hamiltonian<M>>::step_size$', lambda vm, m, c, a: ret(m, vm.read_at(m, m.ghost['cells']['step_size'], [])))
        vm.add_model(r'^State::<M, .*>::point$', lambda vm, m, c, a: ret(m, Opaque('point')))
        vm.add_model(r' as Point<M>>::position$', lambda vm, m, c, a: ret(m, Opaque('position')))
        vm.add_model(r'^<M as Math>::box_array$', lambda vm, m, c, a: ret(m, Struct((Struct((__import__('mirsmt.vm', fromlist=['SliceRef']).SliceRef(m.alloc(Seq([Opaque('x0')])), (), 0, 1),)), UNIT), 'Box')))
        def ss_init(vm, m, c, a):
            outs = []
            for ok in (True, False):
                m2 = m.clone(); m2.log('events', ('step_size_init', ok))
                if ok:
                    # the search leaves an arbitrary positive step size behind
                    vm.write_at(m2, m2.ghost['cells']['step_size'], [], A.fresh('searched_step'))
                    outs.append((m2, 'ret', OK(UNIT)))
                else: outs.append((m2, 'ret', ERR(Opaque('NutsError'))))
            return outs
        vm.add_model(r'^stepsize::adapt::Strategy::init::<', ss_init)
        vm.add_model(r'^Uniform::<f64>::new::<f64, f64>$', lambda vm, m, c, a: [(m2, 'ret', OK(Struct((a[0], a[1]), 'Uniform')) if bv else ERR(Opaque('EmptyRange')))
                                                                                   for (m2, bv) in vm.branch(m, a[0].v < a[1].v)])
        def sample(vm, m, c, a):
            u = A.fresh('jitter_u'); lo, hi = a[1].f; m.pc += [u.v >= lo.v, u.v < hi.v]; m.log('events', ('rng_sample',)); return ret(m, u)
        vm.add_model(r'^<R as RngExt>::sample::<f64, Uniform<f64>>$', sample)

    # ---------------------------------------------------------------- run
    def run(self, extra_pre=()):
        m = Machine(); m.ghost['events'] = []
        gs, pre = self.pre_state(m); m.pc = list(pre) + list(extra_pre)
        m.ghost['mm'] = {'fg': z3.Int('fg_count'), 'bg': z3.Int('bg_count')}
        cells = {'step_size': m.alloc(self.A.fresh('old_step_size')), 'transformation': m.alloc(Opaque('transformation'))}
        m.ghost['cells'] = cells
        L = self.L; A = self.A
        def rm(tag): return L.make('RunningMean', {'sum': A.fresh('col_sum_' + tag), 'count': z3.Int('col_count')})
        col1 = L.make('AcceptanceRateCollector', {'initial_energy': A.fresh('col_e0'), 'mean': rm('mean'), 'mean_sym': rm('sym'), 'max_energy_error': A.fresh('col_maxerr')})
        m.pc += [z3.Int('col_count') >= 1, z3.Int('col_count') < 2 ** 20]
        comb = Struct((col1, Opaque('collector2'), Struct((), 'PhantomData')), 'CombinedCollector')
        gc = m.alloc(gs); self.gs_cell = gc
        args = [Ref(gc), Ref(m.alloc(Opaque('math'))), Ref(m.alloc(Opaque('nuts_options'))), Ref(m.alloc(Opaque('hamiltonian'))), z3.Int('draw'),
                Ref(m.alloc(comb)), Ref(m.alloc(Opaque('state'))), Ref(m.alloc(Opaque('rng')))]
        self.pre = pre
        return list(self.vm.exec_fn(m, self.fn, args))

    def post(self, m):
        gs = m.mem[self.gs_cell]; L = self.L
        g = lambda f: L.get('GlobalStrategy', gs, f)
        step = g('step_size'); ad = L.get('Strategy', step, 'adaptation', file='stepsize')
        out = {'tuning': g('tuning'), 'has_initial': g('has_initial_mass_matrix'), 'last_update': g('last_update'), 'window': g('current_window_size'),
               'num_tune': g('num_tune'), 'early_end': g('early_end'), 'final_window': g('final_step_size_window'),
               'step_size': self.vm.read_at(m, m.ghost['cells']['step_size'], []), 'mm': m.ghost['mm'], 'events': m.ghost['events'],
               'last_mean': L.get('Strategy', step, 'last_mean_tree_accept', file='stepsize'), 'last_sym': L.get('Strategy', step, 'last_sym_mean_tree_accept', file='stepsize')}
        if ad.name == 'Some':
            inner = ad.f[0].f[0]
            if ad.f[0].name == 'Left':
                for f in ('log_step', 'log_step_adapted', 'hbar', 'count'): out['da_' + f] = L.get('DualAverage', inner, f)
            else:
                for f in ('log_step', 'm', 'v', 't'): out['adam_' + f] = L.get('Adam', inner, f)
        return out


class ExternalAdaptQuery(AdaptQuery):
    """same one-step query for ExternalTransformAdaptation::adapt (flow presets); hamiltonian.update_params is the environment"""
    def __init__(self, mir, L, method, jitter):
        AdaptQuery.__init__(self, mir, L, method, jitter)
        self.fn = mir.method('ExternalTransformAdaptation', 'AdaptStrategy', 'adapt')
        vm = self.vm
        def update_params(vm, m, c, a):
            outs = []
            for ok in (True, False):
                m2 = m.clone(); m2.log('events', ('update_params', ok)); outs.append((m2, 'ret', OK(UNIT) if ok else ERR(Opaque('NutsError'))))
            return outs
        vm.add_model(r'^TransformedHamiltonian::<M, ExternalTransformation<M>>::update_params::<', update_params)
        def is_mult(vm, m, c, a):
            x, k = a
            if not is_sym(x) and not is_sym(k): return ret(m, (x == 0) if k == 0 else (x % k == 0))
            # which draws are multiples of the update frequency is irrelevant to the property: arbitrary outcome (over-approximation, avoids non-linear mod)
            return ret(m, z3.Bool('is_multiple_%d' % m.fresh_id()))
        vm.add_model(r'^(core|std)::num::<impl u64>::is_multiple_of$', is_mult)

    def pre_state(self, m):
        gs, pre = AdaptQuery.pre_state(self, m)
        L = self.L; R = self.R; I = self.I
        step = L.get('GlobalStrategy', gs, 'step_size'); ss = L.get('Strategy', step, 'options', file='stepsize')
        opts = L.make('FlowSettings', {'step_size_window': R('step_size_window'), 'transform_update_freq': I('update_freq'), 'use_orbit_for_training': False, 'step_size_settings': ss, 'transform_train_max_energy_error': R('tmee')})
        ext = L.make('ExternalTransformAdaptation', {'step_size': step, 'options': opts, 'num_tune': I('num_tune'), 'final_window_size': I('final_window'), 'tuning': z3.Bool('tuning'), 'chain': 0})
        return ext, pre

    def run(self, extra_pre=()):
        m = Machine(); m.ghost['events'] = []
        ext, pre = self.pre_state(m); m.pc = list(pre) + list(extra_pre)
        m.ghost['mm'] = {'fg': z3.Int('fg_count'), 'bg': z3.Int('bg_count')}
        m.ghost['cells'] = {'step_size': m.alloc(self.A.fresh('old_step_size')), 'transformation': m.alloc(Opaque('transformation'))}
        L = self.L; A = self.A
        def rm(tag): return L.make('RunningMean', {'sum': A.fresh('col_sum_' + tag), 'count': z3.Int('col_count')})
        col1 = L.make('AcceptanceRateCollector', {'initial_energy': A.fresh('col_e0'), 'mean': rm('mean'), 'mean_sym': rm('sym'), 'max_energy_error': A.fresh('col_maxerr')})
        m.pc += [z3.Int('col_count') >= 1, z3.Int('col_count') < 2 ** 20]
        col2 = L.make('DrawCollector', {'draws': Seq(()), 'grads': Seq(()), 'logps': Seq(()), 'collect_orbit': False, 'max_energy_error': A.fresh('dc_mee')})
        comb = Struct((col1, col2, Struct((), 'PhantomData')), 'CombinedCollector')
        gc = m.alloc(ext); self.gs_cell = gc
        args = [Ref(gc), Ref(m.alloc(Opaque('math'))), Ref(m.alloc(Opaque('nuts_options'))), Ref(m.alloc(Opaque('hamiltonian'))), z3.Int('draw'),
                Ref(m.alloc(comb)), Ref(m.alloc(Opaque('state'))), Ref(m.alloc(Opaque('rng')))]
        self.pre = pre
        return list(self.vm.exec_fn(m, self.fn, args))

    def post(self, m):
        ext = m.mem[self.gs_cell]; L = self.L
        g = lambda f: L.get('ExternalTransformAdaptation', ext, f)
        step = g('step_size'); ad = L.get('Strategy', step, 'adaptation', file='stepsize')
        out = {'tuning': g('tuning'), 'has_initial': False, 'last_update': z3.Int('last_update'), 'window': z3.Int('window'), 'num_tune': g('num_tune'), 'early_end': z3.Int('early_end'), 'final_window': g('final_window_size'),
               'step_size': self.vm.read_at(m, m.ghost['cells']['step_size'], []), 'mm': m.ghost['mm'], 'events': m.ghost['events'],
               'last_mean': L.get('Strategy', step, 'last_mean_tree_accept', file='stepsize'), 'last_sym': L.get('Strategy', step, 'last_sym_mean_tree_accept', file='stepsize')}
        if ad.name == 'Some':
            inner = ad.f[0].f[0]
            if ad.f[0].name == 'Left':
                for f in ('log_step', 'log_step_adapted', 'hbar', 'count'): out['da_' + f] = L.get('DualAverage', inner, f)
            else:
                for f in ('log_step', 'm', 'v', 't'): out['adam_' + f] = L.get('Adam', inner, f)
        return out
