"""Environment for executing the real `impl Math for CpuMath<F>` methods from the MIR: faer `Col<f64>` is a Seq of scalars, the
faer zip!/unzip! plumbing iterates element-wise, pulp::Arch::dispatch runs the kernel's WithSimd::with_simd with a fixed lane count."""
import re
from .vm import (VM, Machine, Struct, Enum, Seq, Ref, SliceRef, Iter, Closure, Opaque, UNIT, NONE, SOME, OK, ERR, ret, VMError, Unmodelled)
from .intrinsics import deref_val, as_slice, slice_refs
from .iters import install_simd

def install(vm, lanes=2):
    install_simd(vm, lanes)
    vm.add_model(r'::try_as_col_major(_mut)?$', lambda vm, m, c, a: ret(m, SOME(a[0])))
    vm.add_model(r'^col::col(ref|mut)::<impl .*>::as_slice(_mut)?$', lambda vm, m, c, a: ret(m, as_slice(vm, m, a[0])))
    vm.add_model(r' as IntoView>::into_view$', lambda vm, m, c, a: ret(m, a[0]))
    vm.add_model(r'^(faer::linalg::zip::)?ZipEq::<.*>::new$', lambda vm, m, c, a: ret(m, Struct((a[0], a[1]), 'ZipEq')))
    def zip_for_each(vm, m, c, a):
        z = a[0]; clo = a[1]
        def cols(v):
            if isinstance(v, Struct) and v.ty == 'ZipEq': return [v.f[0]] + cols(v.f[1])
            if isinstance(v, Struct) and v.ty == 'LastEq': return [v.f[0]]
            raise VMError('faer zip structure %r' % (v,))
        cs = [slice_refs(vm, m, x) for x in cols(z)]
        n = len(cs[0])
        if any(len(x) != n for x in cs): return [(m, 'panic', ('faer zip: dimension mismatch', None, None))]
        ms = [m]
        for i in range(n):
            item = Struct((cs[-1][i],), 'Last')
            for col in reversed(cs[:-1]): item = Struct((col[i], item), 'Zip')
            nxt = []
            for m1 in ms:
                for (m2, k, v) in vm.call_closure(m1, clo, [item]):
                    if k != 'ret': return [(m2, k, v)]
                    nxt.append(m2)
            ms = nxt
        return [(m1, 'ret', UNIT) for m1 in ms]
    vm.add_model(r'^(faer::linalg::zip::)?(ZipEq|LastEq)::<.*>::for_each::<', zip_for_each)
    def dispatch(vm, m, c, a):
        k = a[1]
        if isinstance(k, Closure) or (isinstance(k, Ref) and isinstance(vm.read_at(m, k.cell, k.path), Closure)): return vm.call_closure(m, k, [])
        if isinstance(k, Struct):
            hits = [n for (ty, tr, me), ns in vm.mir.index().items() if ty == k.ty and tr == 'WithSimd' and me == 'with_simd' for n in ns]
            if len(hits) == 1: return vm.exec_fn(m, vm.mir.get(hits[0]), [k, Opaque('simd')])
        raise Unmodelled('Arch::dispatch of %r' % (k,))
    vm.add_model(r'^Arch::dispatch::<', dispatch)
    def clone_from(vm, m, c, a):
        vm.write_at(m, a[0].cell, list(a[0].path), deref_val(vm, m, a[1])); return ret(m, UNIT)
    vm.add_model(r' as Clone>::clone_from$', clone_from)
    def sample_normal(vm, m, c, a):
        k = m.fresh_id(); z = vm.alg.fresh('stdnormal_%d' % k); m.log('normals', z); return ret(m, z)
    vm.add_model(r'^<R as RngExt>::sample::<f64, StandardNormal>$', sample_normal)


def install_linalg(vm):
    """faer dense linear algebra as exact arithmetic over the float policy: Mat<f64> is a Seq of column Seqs, Col<f64> a Seq; matmul and the
    operator overloads used by cpu_math.rs (Diag * Col, Mat^T * Col, Mat * Col, Col +- Col) compute the textbook sums in index order."""
    A = vm.alg
    def colv(vm, m, x):
        v = deref_val(vm, m, x)
        if isinstance(v, Struct) and v.ty in ('Diag',): v = deref_val(vm, m, v.f[0])
        if not isinstance(v, Seq): raise VMError('not a column: %r' % (v,))
        return list(v.items)
    def matv(vm, m, x):
        """returns (columns as lists, transposed?)"""
        v = x
        while isinstance(v, Ref): v = vm.read_at(m, v.cell, v.path)
        if isinstance(v, Struct) and v.ty == 'MatT':
            cols, t = matv(vm, m, v.f[0]); return cols, not t
        if not isinstance(v, Seq): raise VMError('not a matrix: %r' % (v,))
        return [list(deref_val(vm, m, c).items) for c in v.items], False
    def mat_times_col(cols, transposed, x, nrows_hint):
        if transposed:       # (U^T x)_j = sum_i U[i][j] x[i]
            out = []
            for col in cols:
                acc = A.const(0.0)
                for ui, xi in zip(col, x): acc = A.add(acc, A.mul(ui, xi))
                out.append(acc)
            return out
        n = len(cols[0]) if cols else nrows_hint
        out = [A.const(0.0)] * n
        for col, xj in zip(cols, x): out = [A.add(o, A.mul(ui, xj)) for o, ui in zip(out, col)]
        return out
    vm.add_model(r'^mat::mat(own|ref|mut)::<impl faer::mat::generic::Mat<.*>>::ncols$', lambda vm, m, c, a: ret(m, len(matv(vm, m, a[0])[0])))
    vm.add_model(r'^col::col(own|ref|mut)::<impl faer::col::generic::Col<.*>>::nrows$', lambda vm, m, c, a: ret(m, len(colv(vm, m, a[0]))))
    def resize_with(vm, m, c, a):
        r = a[0]; old = colv(vm, m, r); n = a[1]; new = old[:n]; ms = [(m, new)]
        for i in range(len(old), n):
            nxt = []
            for (m1, acc) in ms:
                for (m2, k, v) in vm.call_closure(m1, a[2], [i]):
                    if k != 'ret': return [(m2, k, v)]
                    nxt.append((m2, acc + [v]))
            ms = nxt
        outs = []
        for (m1, acc) in ms: vm.write_at(m1, r.cell, list(r.path), Seq(acc)); outs.append((m1, 'ret', UNIT))
        return outs
    vm.add_model(r'^col::colown::<impl faer::col::generic::Col<.*>>::resize_with::<', resize_with)
    vm.add_model(r'^(col::col(own|ref|mut)|mat::mat(own|ref|mut))::<impl faer::(col|mat)::generic::(Col|Mat)<.*>>::as_(mut|ref)$', lambda vm, m, c, a: ret(m, a[0]))
    vm.add_model(r'^mat::mat(own|ref|mut)::<impl faer::mat::generic::Mat<.*>>::transpose$', lambda vm, m, c, a: ret(m, Struct((a[0],), 'MatT')))
    vm.add_model(r'^col::col(own|ref|mut)::<impl faer::col::generic::Col<.*>>::as_diagonal$', lambda vm, m, c, a: ret(m, Struct((a[0],), 'Diag')))
    def matmul(vm, m, c, a):
        dst, acc, lhs, rhs, alpha = a[0], a[1], a[2], a[3], a[4]
        cols, t = matv(vm, m, lhs); x = colv(vm, m, rhs); old = colv(vm, m, dst)
        prod = mat_times_col(cols, t, x, len(old))
        if len(prod) != len(old): return [(m, 'panic', ('matmul: dimension mismatch', (len(prod), len(old)), None))]
        new = [A.add(o, A.mul(alpha, p)) if acc.name == 'Add' else A.mul(alpha, p) for o, p in zip(old, prod)]
        vm.write_at(m, dst.cell, list(dst.path), Seq(new)); return ret(m, UNIT)
    vm.add_model(r'^faer::linalg::matmul::matmul::<', matmul)
    # ---- rows of a matrix (used by the low-rank estimator's rescale_points): a row is ('MatRow', matrix ref, index)
    def mat_ref(vm, m, x):
        v = x
        while isinstance(v, Ref):
            inner = vm.read_at(m, v.cell, v.path)
            if isinstance(inner, Ref): v = inner
            else: break
        return v
    def shape(vm, m, c, a):
        cols, t = matv(vm, m, a[0]); nr = len(cols[0]) if cols else (getattr(vm, 'linalg_nrows', 0) or 0)
        return ret(m, Struct((nr, len(cols))) if not t else Struct((len(cols), nr)))
    vm.add_model(r'^mat::mat(own|ref|mut)::<impl faer::mat::generic::Mat<.*>>::shape$', shape)
    vm.add_model(r'^mat::mat(own|ref|mut)::<impl faer::mat::generic::Mat<.*>>::nrows$', lambda vm, m, c, a: ret(m, shape(vm, m, c, a)[0][2].f[0]))
    def row(vm, m, c, a): return ret(m, Struct((mat_ref(vm, m, a[0]), a[1]), 'MatRow'))
    vm.add_model(r'^mat::mat(own|ref|mut)::<impl faer::mat::generic::Mat<.*>>::row(_mut)?$', row)
    def row_refs(vm, m, r):
        r = deref_val(vm, m, r) if isinstance(r, Ref) else r
        mr, i = r.f[0], r.f[1]; mat = vm.read_at(m, mr.cell, mr.path)
        if not isinstance(i, int): raise VMError('symbolic row index')
        return [Ref(mr.cell, tuple(mr.path) + (('i', j), ('i', i))) for j in range(len(mat.items))]
    def row_sum(vm, m, c, a):
        acc = A.const(0.0)
        for r in row_refs(vm, m, a[0]): acc = A.add(acc, vm.read_at(m, r.cell, r.path))
        return ret(m, acc)
    vm.add_model(r'^row::row(own|ref|mut)::<impl faer::row::generic::Row<.*>>::sum$', row_sum)
    vm.add_model(r'^row::row(own|ref|mut)::<impl faer::row::generic::Row<.*>>::iter(_mut)?$', lambda vm, m, c, a: ret(m, Iter(row_refs(vm, m, a[0]))))
    def col_index(vm, m, c, a):
        r = a[0]
        while True:
            inner = vm.read_at(m, r.cell, r.path)
            if isinstance(inner, Ref): r = inner
            else: break
        if not isinstance(a[1], int): raise VMError('symbolic column index')
        if a[1] >= len(inner.items): return [(m, 'panic', ('index out of bounds (Col)', a[1], None))]
        return ret(m, Ref(r.cell, tuple(r.path) + (('i', a[1]),)))
    vm.add_model(r'^<faer::col::generic::Col<.*> as (std::ops::)?Index(Mut)?<usize>>::index(_mut)?$', col_index)
    vm.add_model(r'^col::col(own|ref|mut)::<impl faer::col::generic::Col<.*>>::iter_mut$', lambda vm, m, c, a: ret(m, Iter(slice_refs(vm, m, a[0]))))
    vm.add_model(r'^col::col(own|ref|mut)::<impl faer::col::generic::Col<.*>>::iter$', lambda vm, m, c, a: ret(m, Iter(slice_refs(vm, m, a[0]))))
    def copy_from(vm, m, c, a):
        vm.write_at(m, a[0].cell, list(a[0].path), Seq(colv(vm, m, a[1]))); return ret(m, UNIT)
    vm.add_model(r'^col::colmut::<impl faer::col::generic::Col<.*>>::copy_from::<', copy_from)
    vm.add_model(r'^col::colown::<impl faer::col::generic::Col<.*>>::zeros$', lambda vm, m, c, a: ret(m, Seq([A.const(0.0)] * a[0])))
    vm.add_model(r'^<faer::diag::generic::Diag<.*> as Mul<.*Col<.*>>>::mul$', lambda vm, m, c, a: ret(m, Seq([A.mul(d, x) for d, x in zip(colv(vm, m, a[0]), colv(vm, m, a[1]))])))
    def mat_mul_col(vm, m, c, a):
        cols, t = matv(vm, m, a[0]); x = colv(vm, m, a[1])
        if not cols and not t and getattr(vm, 'linalg_nrows', None) is None: raise Unmodelled('Mat * Col with an empty matrix needs the row count (vm.linalg_nrows)')
        return ret(m, Seq(mat_times_col(cols, t, x, getattr(vm, 'linalg_nrows', 0) or 0)))
    vm.add_model(r'^<&?faer::mat::generic::Mat<.*> as Mul<&?faer::col::generic::Col<.*>>>::mul$', mat_mul_col)
    vm.add_model(r'^<faer::col::generic::Col<.*> as Sub<.*Col<.*>>>::sub$', lambda vm, m, c, a: ret(m, Seq([A.sub(x, y) for x, y in zip(colv(vm, m, a[0]), colv(vm, m, a[1]))])))
    vm.add_model(r'^<faer::col::generic::Col<.*> as (std::ops::)?Add(<.*>)?>::add$', lambda vm, m, c, a: ret(m, Seq([A.add(x, y) for x, y in zip(colv(vm, m, a[0]), colv(vm, m, a[1]))])))
