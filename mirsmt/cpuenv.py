"""Environment for executing the real `impl Math for CpuMath<F>` methods from the MIR: faer `Col<f64>` is a Seq of scalars, the
faer zip!/unzip! plumbing iterates element-wise, pulp::Arch::dispatch runs the kernel's WithSimd::with_simd with a fixed lane count."""
import re
from .vm import (VM, Machine, Struct, Enum, Seq, Ref, SliceRef, Iter, Closure, Opaque, UNIT, NONE, SOME, OK, ERR, ret, VMError, Unmodelled)
from .intrinsics import deref_val, as_slice, slice_refs
from .iters import install_simd

def install(vm, lanes=2):
    install_simd(vm, lanes)
    vm.add_model(r'::try_as_col_major(_mut)?$', lambda vm, m, c, a: ret(m, SOME(a[0])))
    vm.add_model(r'^col::col(ref|mut)::<impl .*>::as_slice(_mut)?$', lambda vm, m, c, a: ret(m, as_slice(vm, m, a[0])))
    vm.add_model(r' as IntoView>::into_view$', lambda vm, m, c, a: ret(m, a[0]))
    vm.add_model(r'^(faer::linalg::zip::)?ZipEq::<.*>::new$', lambda vm, m, c, a: ret(m, Struct((a[0], a[1]), 'ZipEq')))
    def zip_for_each(vm, m, c, a):
        z = a[0]; clo = a[1]
        def cols(v):
            if isinstance(v, Struct) and v.ty == 'ZipEq': return [v.f[0]] + cols(v.f[1])
            if isinstance(v, Struct) and v.ty == 'LastEq': return [v.f[0]]
            raise VMError('faer zip structure %r' % (v,))
        cs = [slice_refs(vm, m, x) for x in cols(z)]
        n = len(cs[0])
        if any(len(x) != n for x in cs): return [(m, 'panic', ('faer zip: dimension mismatch', None, None))]
        ms = [m]
        for i in range(n):
            item = Struct((cs[-1][i],), 'Last')
            for col in reversed(cs[:-1]): item = Struct((col[i], item), 'Zip')
            nxt = []
            for m1 in ms:
                for (m2, k, v) in vm.call_closure(m1, clo, [item]):
                    if k != 'ret': return [(m2, k, v)]
                    nxt.append(m2)
            ms = nxt
        return [(m1, 'ret', UNIT) for m1 in ms]
    vm.add_model(r'^(faer::linalg::zip::)?(ZipEq|LastEq)::<.*>::for_each::<', zip_for_each)
    def dispatch(vm, m, c, a):
        k = a[1]
        if isinstance(k, Closure) or (isinstance(k, Ref) and isinstance(vm.read_at(m, k.cell, k.path), Closure)): return vm.call_closure(m, k, [])
        if isinstance(k, Struct):
            hits = [n for (ty, tr, me), ns in vm.mir.index().items() if ty == k.ty and tr == 'WithSimd' and me == 'with_simd' for n in ns]
            if len(hits) == 1: return vm.exec_fn(m, vm.mir.get(hits[0]), [k, Opaque('simd')])
        raise Unmodelled('Arch::dispatch of %r' % (k,))
    vm.add_model(r'^Arch::dispatch::<', dispatch)
    def clone_from(vm, m, c, a):
        vm.write_at(m, a[0].cell, list(a[0].path), deref_val(vm, m, a[1])); return ret(m, UNIT)
    vm.add_model(r' as Clone>::clone_from$', clone_from)
    def sample_normal(vm, m, c, a):
        k = m.fresh_id(); z = vm.alg.fresh('stdnormal_%d' % k); m.log('normals', z); return ret(m, z)
    vm.add_model(r'^<R as RngExt>::sample::<f64, StandardNormal>$', sample_normal)
