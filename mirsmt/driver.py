"""Check driver: MIR dump (regenerated from /repo's working tree, cached by source hash), obligation
bookkeeping, evidence files, exit codes, known findings."""
import os, sys, json, time, subprocess, shutil, fcntl, traceback, hashlib
import z3
from .mir import Mir, source_hash, MirParseError

VERIF = os.path.dirname(os.path.dirname(os.path.abspath(__file__)))
REPO = os.environ.get('VERIF_REPO', '/repo')
OUT = os.environ.get('VERIF_OUT') or None   # self-test only: where evidence/replays go when a scratch copy is checked (never used by registered commands)
CACHE = os.path.join(VERIF, '.cache')
NIGHTLY = 'nightly'

def _env():
    e = dict(os.environ)
    e.update({'CARGO_NET_OFFLINE': 'true', 'CARGO_TARGET_DIR': os.path.join(CACHE, 'target-mir'), 'RUSTFLAGS': ''})
    e.pop('RUSTC_WRAPPER', None)
    return e

def dump_mir(features=''):
    """returns (path of the MIR text for the current working tree of REPO, source hash, seconds spent dumping)"""
    os.makedirs(os.path.join(CACHE, 'mir'), exist_ok=True)
    h = source_hash(REPO)
    tag = h + ('-' + features.replace(',', '_') if features else '')
    out = os.path.join(CACHE, 'mir', tag + '.mir')
    if os.path.exists(out) and os.path.getsize(out) > 100000:
        try: os.utime(out)
        except OSError: pass
        return out, h, 0.0
    lock = open(os.path.join(CACHE, 'mir', 'lock-' + (features or 'default')), 'w')
    fcntl.flock(lock, fcntl.LOCK_EX)
    try:
        if os.path.exists(out) and os.path.getsize(out) > 100000: return out, h, 0.0
        t0 = time.time()
        scratch = '/tmp/verif-mir-%d' % os.getpid()
        shutil.rmtree(scratch, ignore_errors=True)
        subprocess.check_call(['rsync', '-a', '--exclude', 'target', '--exclude', '.git', REPO + '/', scratch + '/'])
        try:
            cmd = ['cargo', '+' + NIGHTLY, 'rustc', '--offline', '--lib']
            if features: cmd += ['--features', features]
            cmd += ['--', '-Zunpretty=mir', '-Zmir-include-spans=yes', '-C', 'debug-assertions=off', '-C', 'overflow-checks=on']
            env = _env()
            if features: env['CARGO_TARGET_DIR'] = os.path.join(CACHE, 'target-mir-' + features.replace(',', '_'))
            p = subprocess.run(cmd, cwd=scratch, env=env, stdout=subprocess.PIPE, stderr=subprocess.PIPE)
            if p.returncode != 0 or len(p.stdout) < 100000:
                sys.stderr.write(p.stderr.decode()[-4000:])
                raise RuntimeError('MIR dump failed (rc=%d)' % p.returncode)
            tmp = out + '.tmp%d' % os.getpid()
            with open(tmp, 'wb') as f: f.write(p.stdout)
            os.replace(tmp, out)
        finally:
            shutil.rmtree(scratch, ignore_errors=True)
        # keep the cache small: other trees' dumps are dropped once they have not been used for 10 minutes (a concurrent check of another tree may
        # still be reading its dump), and never more than 8 of them are kept
        keep = {os.path.basename(out)}; others = []
        for f in os.listdir(os.path.join(CACHE, 'mir')):
            fp = os.path.join(CACHE, 'mir', f)
            if f.endswith('.mir') and f not in keep and not f.startswith(h):
                try: others.append((os.path.getmtime(fp), fp))
                except OSError: pass
        others.sort(reverse=True)
        for i, (mt, fp) in enumerate(others):
            if time.time() - mt > 600 or (i >= 24 and time.time() - mt > 120):
                try: os.remove(fp)
                except OSError: pass
        return out, h, time.time() - t0
    finally:
        fcntl.flock(lock, fcntl.LOCK_UN); lock.close()

class Inconclusive(Exception):
    pass

class Report:
    def __init__(self, pid, tier, seed):
        self.pid = pid; self.tier = tier; self.seed = seed; self.t0 = time.time()
        self.obligations = []        # dict(name, verdict in holds/violated/unknown, seconds, detail)
        self.covers = []             # dict(name, reached)
        self.samples = []; self.assumptions = []; self.functions = set(); self.bounds = {}; self.axioms = []
        self.paths = 0; self.stmts = 0; self.feas_queries = 0; self.solver_s = 0.0
        self.validated = 0; self.validation_mismatch = []
        self.violations = []         # dict(name, key, replay, description, native)
        self.notes = []; self.errors = []
        self.mir_hash = None; self.mir_dump_s = 0.0
        self.outside = []
        self.self_test = []
        self.cross = {'queries': 0, 'agree': 0, 'other_unknown': 0, 'disagree': [], 'solvers': ['/usr/bin/z3 (4.8.12)', 'cvc5 1.0.3'], 'seconds': 0.0}

    # ---- obligations
    def holds(self, name, seconds=0.0, detail=''):
        self.obligations.append({'name': name, 'verdict': 'holds', 'seconds': round(seconds, 3), 'detail': detail})
    def unknown(self, name, detail=''):
        self.obligations.append({'name': name, 'verdict': 'unknown', 'seconds': 0, 'detail': detail})
        self.errors.append('unknown: %s %s' % (name, detail))
    def violated(self, name, key, description, model=None, native=None, extra=None):
        self.obligations.append({'name': name, 'verdict': 'violated', 'seconds': 0, 'detail': description})
        self.violations.append({'name': name, 'key': key, 'description': description, 'model': model, 'native': native, 'extra': extra})
    def cover(self, name, reached):
        self.covers.append({'name': name, 'reached': bool(reached)})
        if not reached: self.errors.append('cover not reached: ' + name)
    def sample(self, s):
        if len(self.samples) < 12: self.samples.append(s)
    def absorb_vm(self, vm):
        self.functions |= set(vm.fns_used); self.stmts += vm.nstmt; self.feas_queries += vm.nq; self.solver_s += vm.solver_time
        for mp in vm.models_used: self.notes.append('model: ' + mp) if ('model: ' + mp) not in self.notes else None

    def check(self, name, constraints, timeout_ms=None, key=None, describe=None, want='unsat'):
        """discharge one SMT obligation: `constraints` (the negated property) must be unsat.
        returns ('holds'|'violated'|'unknown', model-or-None)"""
        total = timeout_ms or (120000 if self.tier == 'quick' else 600000)
        # wall-clock budget of the whole run (a broken tree can make many queries slow): past it every remaining query gets a few seconds only, an
        # unanswered one makes the run inconclusive (violations already found are still reported)
        if time.time() - self.t0 > (1200 if self.tier == 'quick' else 10800): total = min(total, 6000)
        cons = [c for c in constraints if c is not True]
        if any(c is False for c in cons): self.holds(name, 0.0); return 'holds', None
        # small portfolio inside the time budget: non-linear real queries are sensitive to the solver's random choices, so an attempt that
        # does not finish in a quarter of the budget is restarted with another seed (verdicts are only ever taken from sat/unsat answers)
        dt = 0.0
        for (seed, share) in ((0, 0.25), (7, 0.25), (23, 0.5)):
            s = z3.Solver(); s.set('timeout', max(1000, int(total * share)))
            if seed: s.set('random_seed', seed)
            s.add(*cons)
            t0 = time.time(); r = s.check(); d1 = time.time() - t0; self.solver_s += d1; dt += d1
            if r != z3.unknown: break
        if r != z3.unknown and (self.tier == 'thorough' or os.environ.get('VERIF_XSOLVER')) and self.cross['queries'] < 150: self._cross(name, s, r)
        if r == z3.unsat:
            self.holds(name, dt); return 'holds', None
        if r == z3.sat:
            return 'violated', s.model()
        self.unknown(name, 'solver: ' + s.reason_unknown()); return 'unknown', None

    def solve(self, constraints, timeout_ms=90000):
        """satisfiability of a helper query (feasibility, reference conditions): (z3 result, model).  Like check(): a small portfolio of fresh solvers
        with different random seeds inside the budget, because non-linear queries that one run of the solver gives up on are often immediate for
        another; `unknown` only if every attempt gives up"""
        cons = [c for c in constraints if c is not True]
        if any(c is False for c in cons): return z3.unsat, None
        r = z3.unknown; s = None
        for (seed, share) in ((0, 0.2), (7, 0.2), (23, 0.2), (101, 0.4)):
            s = z3.Solver(); s.set('timeout', max(1000, int(timeout_ms * share)))
            if seed: s.set('random_seed', seed); s.set('smt.random_seed', seed)
            s.add(*cons); t0 = time.time(); r = s.check(); self.solver_s += time.time() - t0
            if r != z3.unknown: break
        return r, (s.model() if r == z3.sat else None)

    def _cross(self, name, s, r):
        """thorough tier: the same query, printed as SMT-LIB2, is given to two independent solver builds (z3 4.8.12 binary, cvc5); a definite
        answer that contradicts z3 5.1 makes the run inconclusive (exit 2); `unknown`/timeout/parse errors of the other solver are only counted"""
        t0 = time.time(); want = 'unsat' if r == z3.unsat else 'sat'
        path = '/tmp/verif-xs-%d.smt2' % os.getpid()
        try:
            txt = s.to_smt2()
            with open(path, 'w') as f: f.write('(set-logic ALL)\n' + txt)
            self.cross['queries'] += 1; definite = 0
            for cmd in (['/usr/bin/z3', '-T:20', path], ['cvc5', '--lang', 'smt2', '--tlimit=20000', path]):
                try:
                    p = subprocess.run(cmd, stdout=subprocess.PIPE, stderr=subprocess.STDOUT, text=True, timeout=40)
                    out = p.stdout.strip().split('\n'); ans = out[0].strip() if out else ''
                    if '(error' in p.stdout or ans not in ('sat', 'unsat'): continue
                    definite += 1
                    if ans != want: self.cross['disagree'].append({'obligation': name, 'z3-5.1': want, cmd[0]: ans}); self.errors.append('solvers disagree on %s: z3 5.1 %s, %s %s' % (name, want, cmd[0], ans))
                except Exception: continue
            if definite: self.cross['agree'] += 1 if not any(d['obligation'] == name for d in self.cross['disagree']) else 0
            else: self.cross['other_unknown'] += 1
        finally:
            try: os.remove(path)
            except OSError: pass
            self.cross['seconds'] = round(self.cross['seconds'] + time.time() - t0, 1)

def parts(rep, fns):
    """run independent parts of a check; a part that cannot be encoded makes the run inconclusive without hiding the others"""
    for f in fns:
        try: f()
        except Exception as e:
            traceback.print_exc()
            rep.errors.append('%s: %s' % (type(e).__name__, str(e)[:300]))

def model_to_json(model):
    out = {}
    if model is None: return out
    for d in model.decls():
        try: out[d.name()] = str(model[d])
        except Exception: pass
    return out

def load_known():
    p = os.path.join(VERIF, 'known_findings.json')
    if not os.path.exists(p): return []
    return json.load(open(p)).get('findings', [])

def finish(rep, level='model_checking', technique=''):
    """write evidence, print verdict lines, return exit code"""
    wall = time.time() - rep.t0
    known = [k for k in load_known() if k.get('property') == rep.pid and k.get('status') == 'known']
    exit_code = 0
    new_violations = []
    OUTD = OUT or VERIF
    os.makedirs(os.path.join(OUTD, 'replays', rep.pid), exist_ok=True)
    seen = set()
    for v in rep.violations:
        if v['key'] in seen: continue
        seen.add(v['key'])
        k = next((k for k in known if k['key'] == v['key']), None)
        if k is not None:
            print('KNOWN-FINDING: property=%s %s' % (rep.pid, k.get('what', v['description'])))
            continue
        path = os.path.join(OUTD, 'replays', rep.pid, _safe(v['key']) + '.json')
        with open(path, 'w') as f:
            json.dump({'property': rep.pid, 'obligation': v['name'], 'key': v['key'], 'description': v['description'],
                       'model': v['model'], 'native_replay': v['native'], 'extra': v['extra'], 'mir_source_hash': rep.mir_hash}, f, indent=1, default=str)
        if v['native'] is not None and v['native'].get('confirmed') is False:
            rep.errors.append('counterexample for %s did not reproduce natively: encoding suspect' % v['name'])
            continue
        new_violations.append((v, path))
    n_ob = len(rep.obligations); n_ok = sum(1 for o in rep.obligations if o['verdict'] == 'holds')
    ev = {
        'property_id': rep.pid, 'tier': rep.tier, 'seed': rep.seed, 'level': level,
        'coverage': {
            'states': max(1, rep.paths), 'transitions': max(1, rep.stmts),
            'traces_validated_against_impl': rep.validated,
            'samples': rep.samples or [o['name'] for o in rep.obligations[:5]] or ['(none)'],
            'obligations': n_ob, 'discharged': n_ok,
            'evaluations': max(1, n_ob), 'distinct_nontrivial': max(2, len({o['name'] for o in rep.obligations})),
            'rule': 'one obligation = one SMT query (negated property over the symbolic execution of the real MIR); distinct by name',
            'checker_cmd': ' '.join(sys.argv), 'trusted_base': ['rustc nightly MIR pretty-printer', 'mirsmt translator (validated against native runs where listed)', 'z3 5.1.0'],
            'explanation': technique,
            'functions_encoded': sorted(rep.functions), 'bounds': rep.bounds, 'axioms': rep.axioms,
            'paths': rep.paths, 'mir_statements_executed': rep.stmts, 'feasibility_queries': rep.feas_queries,
            'solver_seconds': round(rep.solver_s, 2), 'mir_dump_seconds': round(rep.mir_dump_s, 1), 'mir_source_hash': rep.mir_hash,
            'covers': rep.covers, 'obligation_list': rep.obligations[:400], 'outside_the_claim': rep.outside,
            'translator_validation_mismatches': rep.validation_mismatch, 'notes': rep.notes[:60], 'errors': rep.errors[:40],
            'self_test': rep.self_test, 'cross_solver': rep.cross,
            'exhaustive': False,
        },
        'assumptions': rep.assumptions, 'wall_s': round(wall, 2), 'violations': len(new_violations),
    }
    os.makedirs(os.path.join(OUTD, 'evidence'), exist_ok=True)
    with open(os.path.join(OUTD, 'evidence', rep.pid + '.json'), 'w') as f: json.dump(ev, f, indent=1, default=str)
    for v, path in new_violations:
        print('VIOLATION property=%s replay=%s' % (rep.pid, path)); print('  ' + v['description'])
        exit_code = 1
    if exit_code == 0 and rep.errors:
        for e in rep.errors[:20]: print('INCONCLUSIVE: ' + e)
        exit_code = 2
    print('%s %s: %d/%d obligations hold, %d covers (%d reached), %d paths, %d MIR statements, solver %.1fs, wall %.1fs -> exit %d' % (
        rep.pid, rep.tier, n_ok, n_ob, len(rep.covers), sum(1 for c in rep.covers if c['reached']), rep.paths, rep.stmts, rep.solver_s, wall, exit_code))
    return exit_code

def _safe(s): return ''.join(ch if ch.isalnum() or ch in '-_.' else '_' for ch in s)[:120]

def load_mir(rep, features=''):
    path, h, dt = dump_mir(features)
    rep.mir_hash = h; rep.mir_dump_s += dt
    return Mir(path, REPO)

def main(pid, run):
    import argparse
    ap = argparse.ArgumentParser(); ap.add_argument('--tier', default=os.environ.get('VERIF_TIER', 'quick')); ap.add_argument('--replay')
    a = ap.parse_args(sys.argv[2:] if len(sys.argv) > 1 and sys.argv[1] == pid else sys.argv[1:])
    seed = int(os.environ.get('VERIF_SEED', '0') or 0)
    rep = Report(pid, a.tier, seed)
    try:
        run(rep)
    except Exception as e:
        traceback.print_exc()
        rep.errors.append('%s: %s' % (type(e).__name__, str(e)[:300]))
    return rep
