"""General std-library models on canonical callee names (see vm.canon) - the fallback behind intrinsics.py: integer and float helper methods,
by-reference arithmetic, the complete Option / Result combinator set, slice and Vec methods, arrays, strings.  Every model here is compared
with the native result on concrete inputs by tools/conformance.py (crate /verif/conformance)."""
import re, math, struct
import z3
from .vm import (Struct, Enum, Seq, Ref, SliceRef, Iter, Closure, Opaque, FnItem, Str, UNIT, NONE, SOME, OK, ERR, ret, panic, is_sym, VMError, Unmodelled, INT_RANGES)
from .alg import Fl

INT = r'(u8|u16|u32|u64|usize|u128|i8|i16|i32|i64|isize|i128)'
def _rng(t): return INT_RANGES['i64' if t == 'isize' else t]
def _wrap(r, t):
    lo, hi = _rng(t)
    if is_sym(r): raise Unmodelled('symbolic wrapping arithmetic')
    return (r - lo) % (hi - lo + 1) + lo
def _d(vm, m, v):
    while isinstance(v, Ref): v = vm.read_at(m, v.cell, v.path)
    return v
def _bits(t): lo, hi = _rng(t); return (hi - lo).bit_length()
def _conc(*xs):
    if any(is_sym(x) for x in xs): raise Unmodelled('symbolic operand of a bit-level integer method')
def _ordering(c): return Enum(c, {-1: 'Less', 0: 'Equal', 1: 'Greater'}[c], (), 'Ordering')
def _tdiv(a, b):
    q = abs(a) // abs(b); return q if (a >= 0) == (b >= 0) else -q
def _trem(a, b):
    r = abs(a) % abs(b); return r if a >= 0 else -r

def dispatch(vm, m, c, args):
    for f in (_ints, _floats, _optres, _slices, _vecs, _misc):
        out = f(vm, m, c, args)
        if out is not NotImplemented: return out
    return NotImplemented

# ---------------------------------------------------------------------------------------------- integers
def _ints(vm, m, c, args):
    mm = re.match(r'^<impl ' + INT + r'>::(\w+)$', c)
    if mm:
        t, n = mm.groups(); lo, hi = _rng(t); a = [_d(vm, m, x) for x in args]; x = a[0]
        def chk(r):       # Some(r) iff representable
            outs = []
            for (m2, ok) in vm.branch(m, z3.And(r >= lo, r <= hi) if is_sym(r) else (lo <= r <= hi)): outs.append((m2, 'ret', SOME(r) if ok else NONE()))
            return outs
        if n == 'unsigned_abs': return ret(m, z3.If(x >= 0, x, -x) if is_sym(x) else abs(x))
        if n == 'abs_diff': return ret(m, z3.If(x >= a[1], x - a[1], a[1] - x) if is_sym(x) or is_sym(a[1]) else abs(x - a[1]))
        if n == 'signum': return ret(m, z3.If(x > 0, 1, z3.If(x < 0, -1, 0)) if is_sym(x) else (x > 0) - (x < 0))
        if n in ('is_positive', 'is_negative'): return ret(m, (x > 0) if n == 'is_positive' else (x < 0))
        if n in ('checked_div', 'checked_rem', 'checked_div_euclid', 'checked_rem_euclid'):
            _conc(x, a[1])
            if a[1] == 0 or (lo < 0 and x == lo and a[1] == -1): return ret(m, NONE())
            if n == 'checked_div': return ret(m, SOME(_tdiv(x, a[1])))
            if n == 'checked_rem': return ret(m, SOME(_trem(x, a[1])))
            r = x % abs(a[1]); q = (x - r) // a[1]
            return ret(m, SOME(q if n == 'checked_div_euclid' else r))
        if n in ('rem_euclid', 'div_euclid'):
            _conc(x, a[1])
            if a[1] == 0: return panic(m, ('attempt to calculate the remainder with a divisor of zero' if n == 'rem_euclid' else 'attempt to divide by zero', None, None))
            if lo < 0 and x == lo and a[1] == -1: return panic(m, ('attempt to divide with overflow', None, None))
            r = x % abs(a[1]); return ret(m, r if n == 'rem_euclid' else (x - r) // a[1])
        if n == 'div_ceil':
            _conc(x, a[1])
            if a[1] == 0: return panic(m, ('attempt to divide by zero', None, None))
            return ret(m, -((-x) // a[1]))
        if n == 'next_power_of_two':
            _conc(x); r = 1
            while r < x: r *= 2
            if r > hi: return panic(m, ('attempt to add with overflow', None, None))
            return ret(m, r)
        if n == 'is_power_of_two': _conc(x); return ret(m, x > 0 and (x & (x - 1)) == 0)
        if n in ('leading_zeros', 'trailing_zeros', 'count_ones', 'count_zeros', 'leading_ones', 'trailing_ones'):
            _conc(x); w = _bits(t); u = x & ((1 << w) - 1); bits = format(u, '0%db' % w)
            if n == 'leading_zeros': return ret(m, len(bits) - len(bits.lstrip('0')))
            if n == 'trailing_zeros': return ret(m, len(bits) - len(bits.rstrip('0')))
            if n == 'leading_ones': return ret(m, len(bits) - len(bits.lstrip('1')))
            if n == 'trailing_ones': return ret(m, len(bits) - len(bits.rstrip('1')))
            return ret(m, bits.count('1') if n == 'count_ones' else bits.count('0'))
        if n in ('rotate_left', 'rotate_right', 'swap_bytes', 'reverse_bits'):
            _conc(x); w = _bits(t); u_ = x & ((1 << w) - 1)
            if n in ('rotate_left', 'rotate_right'):
                k_ = a[1] % w
                if n == 'rotate_right': k_ = (w - k_) % w
                r_ = ((u_ << k_) | (u_ >> (w - k_))) & ((1 << w) - 1) if k_ else u_
            elif n == 'swap_bytes': r_ = int.from_bytes(u_.to_bytes(w // 8, 'little'), 'big')
            else: r_ = int(format(u_, '0%db' % w)[::-1], 2)
            return ret(m, r_ - (1 << w) if lo < 0 and r_ > hi else r_)
        if n in ('wrapping_add', 'wrapping_sub', 'wrapping_mul', 'wrapping_neg'):
            r = {'wrapping_add': lambda: x + a[1], 'wrapping_sub': lambda: x - a[1], 'wrapping_mul': lambda: x * a[1], 'wrapping_neg': lambda: -x}[n]()
            return ret(m, _wrap(r, t))
        if n in ('overflowing_add', 'overflowing_sub', 'overflowing_mul'):
            r = {'overflowing_add': lambda: x + a[1], 'overflowing_sub': lambda: x - a[1], 'overflowing_mul': lambda: x * a[1]}[n]()
            _conc(r); return ret(m, Struct((_wrap(r, t), not (lo <= r <= hi))))
        if n in ('saturating_mul', 'saturating_pow'):
            r = x * a[1] if n == 'saturating_mul' else x ** a[1]
            if is_sym(r): return ret(m, z3.If(r > hi, hi, z3.If(r < lo, lo, r)))
            return ret(m, max(lo, min(hi, r)))
        if n in ('checked_neg', 'checked_abs'): return chk(-x if n == 'checked_neg' else (z3.If(x >= 0, x, -x) if is_sym(x) else abs(x)))
        if n in ('checked_pow',): _conc(x, a[1]); return chk(x ** a[1])
        if n in ('checked_shl', 'checked_shr'):
            _conc(x, a[1])
            if a[1] >= _bits(t): return ret(m, NONE())
            return ret(m, SOME(_wrap(x << a[1], t) if n == 'checked_shl' else x >> a[1]))
        if n in ('min', 'max'): return ret(m, _imin(x, a[1]) if n == 'min' else _imax(x, a[1]))
        if n == 'clamp': return _clamp(vm, m, x, a[1], a[2])
        if n in ('to_le', 'to_be', 'from_le'): return ret(m, x) if n != 'to_be' else NotImplemented
        if n == 'isqrt': _conc(x); return ret(m, math.isqrt(x))
        if n in ('ilog2', 'ilog10'):
            _conc(x)
            if x <= 0: return panic(m, ('argument of integer logarithm must be positive', None, None))
            return ret(m, x.bit_length() - 1 if n == 'ilog2' else len(str(x)) - 1)
        return NotImplemented
    mm = re.match(r'^<&?' + INT + r' as (Ord|PartialOrd)>::(\w+)$', c)
    if mm:
        t, tr, n = mm.groups(); a = [_d(vm, m, x) for x in args]
        if n in ('min', 'max'): return ret(m, _imin(a[0], a[1]) if n == 'min' else _imax(a[0], a[1]))
        if n == 'clamp': return _clamp(vm, m, a[0], a[1], a[2])
        if n in ('cmp', 'partial_cmp'):
            outs = []
            for (m1, lt) in vm.branch(m, a[0] < a[1]):
                if lt: outs.append((m1, 'ret', _ordering(-1) if n == 'cmp' else SOME(_ordering(-1)))); continue
                for (m2, eq) in vm.branch(m1, a[0] == a[1]):
                    o = _ordering(0 if eq else 1); outs.append((m2, 'ret', o if n == 'cmp' else SOME(o)))
            return outs
        if n in ('lt', 'le', 'gt', 'ge'): return ret(m, vm.binop({'lt': 'Lt', 'le': 'Le', 'gt': 'Gt', 'ge': 'Ge'}[n], a[0], a[1]))
        return NotImplemented
    mm = re.match(r'^<&?' + INT + r' as PartialEq(?:<&?' + INT + r'>)?>::(eq|ne)$', c)
    if mm:
        a, b = _d(vm, m, args[0]), _d(vm, m, args[1]); r = vm.binop('Eq', a, b)
        return ret(m, r if mm.group(3) == 'eq' else (z3.Not(r) if is_sym(r) else not r))
    # by-reference (and mixed) arithmetic: <&i64 as Mul<i64>>::mul, <i64 as Add<&i64>>::add, <&i64 as Shl<usize>>::shl, ...
    mm = re.match(r"^<&?(?:'\w+ )?" + INT + r" as (Add|Sub|Mul|Div|Rem|Shl|Shr|BitAnd|BitOr|BitXor)(?:<&?(?:'\w+ )?" + INT + r">)?>::(\w+)$", c)
    if mm:
        t, op = mm.group(1), mm.group(2); a, b = _d(vm, m, args[0]), _d(vm, m, args[1]); lo, hi = _rng(t)
        if op in ('Div', 'Rem'):
            outs = []
            for (m1, z) in vm.branch(m, b == 0):
                if z: outs.append((m1, 'panic', ('attempt to divide by zero' if op == 'Div' else 'attempt to calculate the remainder with a divisor of zero', None, None))); continue
                if lo < 0:
                    for (m2, ov) in vm.branch(m1, z3.And(a == lo, b == -1) if (is_sym(a) or is_sym(b)) else (a == lo and b == -1)):
                        if ov: outs.append((m2, 'panic', ('attempt to divide with overflow', None, None)))
                        else: outs.append((m2, 'ret', vm.int_binop(op, a, b, t)))
                else: outs.append((m1, 'ret', vm.int_binop(op, a, b, t)))
            return outs
        if op in ('Shl', 'Shr'):
            _conc(b)
            if b >= _bits(t) or b < 0: return panic(m, ('attempt to shift with overflow', None, None))
            return ret(m, vm.int_binop(op, a, b, t))
        r = vm.int_binop(op, a, b, t)
        if op in ('Add', 'Sub', 'Mul'):
            outs = []
            for (m1, ok) in vm.branch(m, z3.And(r >= lo, r <= hi) if is_sym(r) else (lo <= r <= hi)):
                outs.append((m1, 'ret', r) if ok else (m1, 'panic', ('attempt to %s with overflow' % {'Add': 'add', 'Sub': 'subtract', 'Mul': 'multiply'}[op], None, None)))
            return outs
        return ret(m, r)
    mm = re.match(r"^<" + INT + r" as (Add|Sub|Mul|Div|Rem|Shl|Shr|BitAnd|BitOr|BitXor)Assign(?:<&?(?:'\w+ )?" + INT + r">)?>::\w+$", c)
    if mm:
        r = args[0]; t, op = mm.group(1), mm.group(2)
        outs = []
        for (m1, k, v) in dispatch(vm, m, '<%s as %s<%s>>::x' % (t, op, t), [vm.read_at(m, r.cell, r.path), args[1]]):
            if k == 'ret': vm.write_at(m1, r.cell, list(r.path), v); outs.append((m1, 'ret', UNIT))
            else: outs.append((m1, k, v))
        return outs
    mm = re.match(r"^<&?" + INT + r" as (Neg|Not)>::\w+$", c)
    if mm:
        t, op = mm.groups(); x = _d(vm, m, args[0]); lo, hi = _rng(t)
        if op == 'Neg':
            outs = []
            for (m1, ov) in vm.branch(m, x == lo):
                outs.append((m1, 'panic', ('attempt to negate with overflow', None, None)) if ov and lo < 0 else (m1, 'ret', -x))
            return outs
        _conc(x); return ret(m, hi - x if lo == 0 else -x - 1)
    mm = re.match(r'^<' + INT + r' as (?:TryFrom|TryInto)<' + INT + r'>>::(try_from|try_into)$', c)
    if mm:
        a, b, n = mm.groups(); tgt = a if n == 'try_from' else b; lo, hi = _rng(tgt); x = _d(vm, m, args[0]); outs = []
        for (m1, ok) in vm.branch(m, z3.And(x >= lo, x <= hi) if is_sym(x) else (lo <= x <= hi)): outs.append((m1, 'ret', OK(x) if ok else ERR(Struct((), 'TryFromIntError'))))
        return outs
    mm = re.match(r'^<' + INT + r' as (?:From|Into)<(' + INT[1:-1] + r'|bool|char)>>::(from|into)$', c)
    if mm:
        x = _d(vm, m, args[0])
        if isinstance(x, bool): x = int(x)
        return ret(m, x)
    mm = re.match(r'^<' + INT + r' as (Default|Clone)>::(default|clone)$', c)
    if mm: return ret(m, 0 if mm.group(2) == 'Default' else _d(vm, m, args[0]))
    mm = re.match(r'^<' + INT + r' as (?:Sum|Product)<.*>>::(sum|product)::<', c)
    if mm:
        from . import liter
        it = liter.from_any(vm, m, args[0])
        if it is None: return NotImplemented
        return [(m1, k, v) for (m1, k, v, _i) in liter._consumer(vm, m, 'x as Iterator>::%s::<%s>' % (mm.group(2), mm.group(1)), mm.group(2), it, args)]
    return NotImplemented

def _imin(a, b):
    if is_sym(a) or is_sym(b): return z3.If(a <= b, a, b)
    return min(a, b)
def _imax(a, b):
    if is_sym(a) or is_sym(b): return z3.If(a >= b, a, b)
    return max(a, b)
def _clamp(vm, m, x, lo, hi):
    outs = []
    for (m1, bad) in vm.branch(m, lo > hi):
        if bad: outs.append((m1, 'panic', ('assertion failed: min <= max', None, None)))
        else: outs.append((m1, 'ret', _imin(_imax(x, lo), hi)))
    return outs

# ---------------------------------------------------------------------------------------------- floats
def _fbits(x): return struct.unpack('<Q', struct.pack('<d', x))[0]
def _ffrom(b): return struct.unpack('<d', struct.pack('<Q', b & (2 ** 64 - 1)))[0]

def _floats(vm, m, c, args):
    A = vm.alg
    mm = re.match(r'^<impl f(64|32)>::(\w+)$', c)
    if mm:
        n = mm.group(2); a = [_d(vm, m, x) for x in args]; x = a[0]
        conc = isinstance(x, Fl) and isinstance(x.v, float)
        if n == 'from_bits':
            if isinstance(x, int): return ret(m, Fl(_ffrom(x)) if A.name == 'CONC' else NotImplemented)
            return NotImplemented
        if not isinstance(x, Fl): return NotImplemented
        if n in ('is_sign_negative', 'is_sign_positive'):
            if conc: neg = math.copysign(1.0, x.v) < 0; return ret(m, neg if n == 'is_sign_negative' else not neg)
            if hasattr(A, 'is_sign_negative'):
                r = A.is_sign_negative(x); return ret(m, r if n == 'is_sign_negative' else (z3.Not(r) if is_sym(r) else not r))
            raise Unmodelled('sign bit of a float under policy ' + A.name)
        if n == 'signum':
            if conc: return ret(m, Fl(math.nan if math.isnan(x.v) else math.copysign(1.0, x.v)))
            raise Unmodelled('f64::signum under policy ' + A.name)
        if n == 'copysign':
            if conc: return ret(m, Fl(math.copysign(x.v, a[1].v)))
            raise Unmodelled('f64::copysign under policy ' + A.name)
        if n == 'to_bits':
            if conc: return ret(m, _fbits(x.v))
            raise Unmodelled('f64::to_bits under policy ' + A.name)
        if n == 'total_cmp':
            y = a[1]
            if conc and isinstance(y.v, float):
                def key(v):
                    b = _fbits(v); s_ = b - 2 ** 64 if b >= 2 ** 63 else b
                    return s_ if s_ >= 0 else s_ ^ (2 ** 63 - 1)
                kx, ky = key(x.v), key(y.v); return ret(m, _ordering((kx > ky) - (kx < ky)))
            raise Unmodelled('f64::total_cmp under policy ' + A.name)
        if conc:
            f1 = {'trunc': math.trunc, 'fract': lambda v: v - math.trunc(v), 'log10': math.log10, 'log2': math.log2, 'cbrt': getattr(math, 'cbrt', None), 'exp2': lambda v: 2.0 ** v,
                  'asin': math.asin, 'acos': math.acos, 'atan': math.atan, 'sinh': math.sinh, 'cosh': math.cosh, 'tanh': math.tanh, 'asinh': math.asinh, 'acosh': math.acosh, 'atanh': math.atanh,
                  'to_degrees': math.degrees, 'to_radians': math.radians, 'tan': math.tan}
            if n in f1 and f1[n] is not None:
                v = x.v
                if math.isnan(v): return ret(m, Fl(math.nan))
                if math.isinf(v) and n in ('trunc',): return ret(m, x)
                if math.isinf(v) and n == 'fract': return ret(m, Fl(math.nan))
                try: r = f1[n](v)
                except (ValueError, OverflowError):
                    r = {'log10': -math.inf if v == 0 else math.nan, 'log2': -math.inf if v == 0 else math.nan, 'sinh': math.copysign(math.inf, v), 'cosh': math.inf, 'exp2': math.inf}.get(n, math.nan)
                return ret(m, Fl(float(r)))
            if n in ('hypot', 'atan2', 'rem_euclid', 'div_euclid', 'powf', 'log', 'abs_sub'):
                y = a[1].v; v = x.v
                try:
                    if n == 'hypot': r = math.hypot(v, y)
                    elif n == 'atan2': r = math.atan2(v, y)
                    elif n == 'log': r = math.log(v) / math.log(y)
                    elif n == 'powf': r = math.pow(v, y)
                    elif n == 'rem_euclid':
                        r = math.fmod(v, y); r = r + abs(y) if r < 0.0 else r
                    else: return NotImplemented
                except (ValueError, OverflowError, ZeroDivisionError): r = math.nan if n != 'powf' else math.inf
                return ret(m, Fl(float(r)))
        return NotImplemented
    mm = re.match(r"^<&?(?:'\w+ )?f(?:64|32) as (Add|Sub|Mul|Div|Rem)(?:<&?(?:'\w+ )?f(?:64|32)>)?>::\w+$", c)
    if mm:
        a, b = _d(vm, m, args[0]), _d(vm, m, args[1]); op = mm.group(1)
        if op == 'Rem': return ret(m, _frem(vm, a, b))
        return ret(m, vm.binop(op, a, b))
    mm = re.match(r"^<f(?:64|32) as (Add|Sub|Mul|Div|Rem)Assign(?:<&?(?:'\w+ )?f(?:64|32)>)?>::\w+$", c)
    if mm:
        r = args[0]; a = vm.read_at(m, r.cell, r.path); b = _d(vm, m, args[1]); op = mm.group(1)
        vm.write_at(m, r.cell, list(r.path), _frem(vm, a, b) if op == 'Rem' else vm.binop(op, a, b)); return ret(m, UNIT)
    mm = re.match(r'^<&?f(?:64|32) as PartialOrd(?:<&?f(?:64|32)>)?>::(\w+)$', c)
    if mm:
        a, b = _d(vm, m, args[0]), _d(vm, m, args[1]); n = mm.group(1)
        if n in ('lt', 'le', 'gt', 'ge'): return ret(m, getattr(A, n)(a, b))
        if n == 'partial_cmp':
            outs = []
            for (m1, lt) in vm.branch(m, A.lt(a, b)):
                if lt: outs.append((m1, 'ret', SOME(_ordering(-1)))); continue
                for (m2, gt) in vm.branch(m1, A.gt(a, b)):
                    if gt: outs.append((m2, 'ret', SOME(_ordering(1)))); continue
                    for (m3, eq) in vm.branch(m2, A.eq(a, b)): outs.append((m3, 'ret', SOME(_ordering(0)) if eq else NONE()))
            return outs
        return NotImplemented
    mm = re.match(r'^<&?f(?:64|32) as PartialEq(?:<&?f(?:64|32)>)?>::(eq|ne)$', c)
    if mm:
        a, b = _d(vm, m, args[0]), _d(vm, m, args[1]); return ret(m, A.eq(a, b) if mm.group(1) == 'eq' else A.ne(a, b))
    mm = re.match(r'^<f(64|32) as (?:Sum|Product)<.*>>::(sum|product)::<', c)
    if mm:
        from . import liter
        it = liter.from_any(vm, m, args[0])
        if it is None: return NotImplemented
        return [(m1, k, v) for (m1, k, v, _i) in liter._consumer(vm, m, 'x as Iterator>::%s::<f64>' % mm.group(2), mm.group(2), it, args)]
    if re.match(r'^<f(64|32) as (Default)>::default$', c): return ret(m, A.const(0.0))
    if re.match(r'^<f(64|32) as Clone>::clone$', c): return ret(m, _d(vm, m, args[0]))
    if re.match(r'^<f64 as From<f32>>::from$', c): return ret(m, args[0])
    return NotImplemented

def _frem(vm, a, b):
    if isinstance(a.v, float) and isinstance(b.v, float):
        if math.isnan(a.v) or math.isnan(b.v) or math.isinf(a.v) or b.v == 0: return Fl(math.nan)
        if math.isinf(b.v): return a
        return Fl(math.fmod(a.v, b.v))
    raise Unmodelled('float remainder under policy ' + vm.alg.name)

# ---------------------------------------------------------------------------------------------- Option / Result
def _truth(vm, m, v):
    for (m1, bv) in vm.branch(m, v): yield m1, bv

def _optres(vm, m, c, args):
    mm = re.match(r'^(Option|Result)::<.*?>::(\w+)(?:::<.*>)?$', c)
    if not mm: return NotImplemented
    ty, n = mm.groups()
    if n in ('Some', 'Ok', 'Err') and len(args) == 1: return ret(m, {'Some': SOME, 'Ok': OK, 'Err': ERR}[n](args[0]))      # the variant used as a function
    v = args[0]; rv = _d(vm, m, v)
    if not isinstance(rv, Enum): raise Unmodelled('%s method %s on a symbolic value' % (ty, n))
    good = rv.name in ('Some', 'Ok'); call = vm.call_closure
    def each(outs, f):
        res = []
        for (m1, k, r) in outs: res.append((m1, k, f(m1, r) if k == 'ret' else r))
        return res
    def wrap_good(x): return SOME(x) if ty == 'Option' else OK(x)
    if n == 'map': return each(call(m, args[1], [rv.f[0]]), lambda m1, r: wrap_good(r)) if good else ret(m, rv)
    if n == 'map_err': return ret(m, rv) if good else each(call(m, args[1], [rv.f[0]]), lambda m1, r: ERR(r))
    if n == 'and_then': return call(m, args[1], [rv.f[0]]) if good else ret(m, rv)
    if n == 'or_else': return ret(m, rv) if good else call(m, args[1], [] if ty == 'Option' else [rv.f[0]])
    if n == 'unwrap_or_else': return ret(m, rv.f[0]) if good else call(m, args[1], [] if ty == 'Option' else [rv.f[0]])
    if n == 'unwrap_or': return ret(m, rv.f[0] if good else args[1])
    if n == 'unwrap_or_default':
        if good: return ret(m, rv.f[0])
        t = re.match(r'^(?:Option|Result)::<(.*)>::unwrap_or_default', c).group(1).split(',')[0].strip()
        return _default(vm, m, t)
    if n == 'map_or': return call(m, args[2], [rv.f[0]]) if good else ret(m, args[1])
    if n == 'map_or_else': return call(m, args[2], [rv.f[0]]) if good else call(m, args[1], [] if ty == 'Option' else [rv.f[0]])
    if n == 'ok_or': return ret(m, OK(rv.f[0]) if good else ERR(args[1]))
    if n == 'ok_or_else': return ret(m, OK(rv.f[0])) if good else each(call(m, args[1], []), lambda m1, r: ERR(r))
    if n == 'filter':
        if not good: return ret(m, rv)
        outs = []
        for (m1, k, r) in call(m, args[1], [Ref(m.alloc(rv.f[0]))]):
            if k != 'ret': outs.append((m1, k, r)); continue
            for (m2, bv) in _truth(vm, m1, r): outs.append((m2, 'ret', rv if bv else NONE()))
        return outs
    if n in ('is_some_and', 'is_ok_and', 'is_err_and', 'is_none_or'):
        hit = (not good) if n == 'is_err_and' else good
        if not hit: return ret(m, n == 'is_none_or')
        return call(m, args[1], [rv.f[0]])
    if n in ('is_some', 'is_ok'): return ret(m, good)
    if n in ('is_none', 'is_err'): return ret(m, not good)
    if n == 'and': return ret(m, args[1] if good else rv)
    if n == 'or': return ret(m, rv if good else args[1])
    if n == 'xor':
        o = _d(vm, m, args[1]); og = o.name == 'Some'
        return ret(m, rv if good and not og else (o if og and not good else NONE()))
    if n == 'zip':
        o = _d(vm, m, args[1]); return ret(m, SOME(Struct((rv.f[0], o.f[0]))) if good and o.name == 'Some' else NONE())
    if n == 'unzip':
        return ret(m, Struct((SOME(rv.f[0].f[0]), SOME(rv.f[0].f[1]))) if good else Struct((NONE(), NONE())))
    if n == 'flatten': return ret(m, rv.f[0] if good else rv)
    if n in ('ok', 'err'):
        if n == 'ok': return ret(m, SOME(rv.f[0]) if good else NONE())
        return ret(m, NONE() if good else SOME(rv.f[0]))
    if n in ('unwrap', 'expect', 'unwrap_err', 'expect_err'):
        want_good = n in ('unwrap', 'expect')
        if good == want_good: return ret(m, rv.f[0])
        return panic(m, ('%s on %s' % (n, rv.name), args[1:2], None))
    if n in ('copied', 'cloned'): return ret(m, wrap_good(_d(vm, m, rv.f[0])) if good else rv)
    if n in ('iter', 'iter_mut', 'into_iter'):
        from .liter import LIter
        if not good: return ret(m, LIter('seq', (), 0, 0))
        if n == 'into_iter' or not isinstance(v, Ref): return ret(m, LIter('seq', (rv.f[0],), 0, 1))
        r = v
        while isinstance(vm.read_at(m, r.cell, r.path), Ref): r = vm.read_at(m, r.cell, r.path)
        return ret(m, LIter('seq', (Ref(r.cell, r.path + (('f', 0),)),), 0, 1))
    if n in ('inspect', 'inspect_err'):
        hit = good if n == 'inspect' else not good
        if not hit: return ret(m, rv)
        return each(call(m, args[1], [Ref(m.alloc(rv.f[0]))]), lambda m1, r: rv)
    if isinstance(v, Ref):
        r = v
        while isinstance(vm.read_at(m, r.cell, r.path), Ref): r = vm.read_at(m, r.cell, r.path)
        inner = Ref(r.cell, r.path + (('f', 0),))
        if n in ('as_ref', 'as_mut', 'as_deref', 'as_deref_mut'): return ret(m, Enum(rv.idx, rv.name, (inner,), rv.ty) if rv.f else rv)
        if n == 'take': vm.write_at(m, r.cell, list(r.path), NONE()); return ret(m, rv)
        if n == 'take_if':
            if not good: return ret(m, NONE())
            outs = []
            for (m1, k, b) in call(m, args[1], [inner]):
                if k != 'ret': outs.append((m1, k, b)); continue
                for (m2, bv) in _truth(vm, m1, b):
                    if bv: cur = vm.read_at(m2, r.cell, r.path); vm.write_at(m2, r.cell, list(r.path), NONE()); outs.append((m2, 'ret', cur))
                    else: outs.append((m2, 'ret', NONE()))
            return outs
        if n == 'replace': vm.write_at(m, r.cell, list(r.path), SOME(args[1])); return ret(m, rv)
        if n == 'insert': vm.write_at(m, r.cell, list(r.path), SOME(args[1])); return ret(m, inner)
        if n == 'get_or_insert':
            if not good: vm.write_at(m, r.cell, list(r.path), SOME(args[1]))
            return ret(m, inner)
        if n in ('get_or_insert_with', 'get_or_insert_default'):
            if good: return ret(m, inner)
            if n == 'get_or_insert_default': raise Unmodelled('get_or_insert_default')
            outs = []
            for (m1, k, x) in call(m, args[1], []):
                if k == 'ret': vm.write_at(m1, r.cell, list(r.path), SOME(x)); outs.append((m1, 'ret', inner))
                else: outs.append((m1, k, x))
            return outs
    if n == 'transpose':
        if ty == 'Option':
            if not good: return ret(m, OK(NONE()))
            inner = _d(vm, m, rv.f[0]); return ret(m, OK(SOME(inner.f[0])) if inner.name == 'Ok' else inner)
        if not good: return ret(m, SOME(rv))
        inner = _d(vm, m, rv.f[0]); return ret(m, SOME(OK(inner.f[0])) if inner.name == 'Some' else NONE())
    return NotImplemented

def _default(vm, m, t):
    t = t.strip()
    if re.match('^' + INT + '$', t): return ret(m, 0)
    if t in ('f64', 'f32'): return ret(m, vm.alg.const(0.0))
    if t == 'bool': return ret(m, False)
    if t == '()': return ret(m, UNIT)
    if t.startswith('Vec<') or t.startswith('VecDeque<'): return ret(m, Seq(()))
    if t == 'String': return ret(m, Str(''))
    if t.startswith('Option<'): return ret(m, NONE())
    return vm.call(m, '<%s as Default>::default' % t, [])

# ---------------------------------------------------------------------------------------------- slices
def _slice_of(vm, m, v):
    """(cell, path, start, count) of a slice-like reference (&[T], &Vec<T>, &[T; N], &mut ..)"""
    from .intrinsics import as_slice
    s = as_slice(vm, m, v)
    if s.shape is not None: raise Unmodelled('method on a re-shaped slice')
    return s
def _items(vm, m, s): return [vm.read_at(m, s.cell, s.path + (('i', s.start + k),)) for k in range(s.count)]
def _write_items(vm, m, s, vals):
    full = vm.read_at(m, s.cell, s.path); l = list(full.items); l[s.start:s.start + s.count] = vals
    vm.write_at(m, s.cell, list(s.path), Seq(l))
def _sub(s, a, n): return SliceRef(s.cell, s.path, s.start + a, n)

def _sort_vals(vm, m, vals, less):
    """stable merge-free insertion sort driven by `less(m, a, b) -> [(m, bool)]`: forks on symbolic comparisons"""
    cur = [(m, [])]
    for v in vals:
        nxt = []
        for (m0, acc) in cur:
            # insert v after the last element that is <= v (stability): scan from the back
            work = [(m0, len(acc))]
            while work:
                (m1, pos) = work.pop()
                if pos == 0: nxt.append((m1, [v] + acc)); continue
                for (m2, lt) in less(m1, v, acc[pos - 1]):
                    if lt: work.append((m2, pos - 1))
                    else: nxt.append((m2, acc[:pos] + [v] + acc[pos:]))
        cur = nxt
    return cur

def _slices(vm, m, c, args):
    from . import liter
    mm = re.match(r'^<impl \[(.*?)\]>::(\w+)(?:::<.*>)?$', c) or re.match(r'^<impl \[(.*); \d+\]>::(\w+)(?:::<.*>)?$', c)
    if not mm: return NotImplemented
    n = mm.group(2); A = vm.alg
    if n == 'map' and re.match(r'^<impl \[.*; \d+\]>::map', c):
        vals = list(_d(vm, m, args[0]).items) if not isinstance(args[0], SliceRef) else _items(vm, m, args[0]); cur = [(m, [])]
        for v in vals:
            nxt = []
            for (m0, acc) in cur:
                for (m1, k, r) in vm.call_closure(m0, args[1], [v]):
                    if k != 'ret': return [(m1, k, r)]
                    nxt.append((m1, acc + [r]))
            cur = nxt
        return [(m0, 'ret', Seq(acc)) for (m0, acc) in cur]
    try: s = _slice_of(vm, m, args[0])
    except (VMError, Unmodelled): return NotImplemented
    cnt = s.count
    def refs(a=0, b=None): return [s.elem_ref(k) for k in range(a, cnt if b is None else b)]
    if n in ('chunks_mut', 'chunks_exact_mut', 'rchunks_mut'): n = n[:-4]
    if n in ('windows', 'chunks', 'chunks_exact', 'rchunks'):
        k = args[1]
        if not isinstance(k, int): raise Unmodelled('symbolic ' + n + ' size')
        if k == 0: return panic(m, ('%s size must be non-zero' % n, None, None))
        if n == 'windows': parts = [_sub(s, i, k) for i in range(0, cnt - k + 1)]
        elif n == 'chunks': parts = [_sub(s, i, min(k, cnt - i)) for i in range(0, cnt, k)]
        elif n == 'rchunks': parts = [_sub(s, max(0, e - k), e - max(0, e - k)) for e in range(cnt, 0, -k)]
        else:
            full = cnt // k; parts = [_sub(s, i * k, k) for i in range(full)]
            return ret(m, Struct((liter.LIter('seq', tuple(parts), 0, len(parts)), _sub(s, full * k, cnt - full * k)), 'ChunksExact'))
        return ret(m, liter.LIter('seq', tuple(parts), 0, len(parts)))
    if n in ('split_first', 'split_last', 'split_first_mut', 'split_last_mut'):
        if cnt == 0: return ret(m, NONE())
        if n.startswith('split_first'): return ret(m, SOME(Struct((s.elem_ref(0), _sub(s, 1, cnt - 1)))))
        return ret(m, SOME(Struct((s.elem_ref(cnt - 1), _sub(s, 0, cnt - 1)))))
    if n in ('split_at', 'split_at_mut', 'split_at_checked'):
        k = args[1]
        if not isinstance(k, int): raise Unmodelled('symbolic split_at')
        if k > cnt: return ret(m, NONE()) if n == 'split_at_checked' else panic(m, ('mid > len', None, None))
        r = Struct((_sub(s, 0, k), _sub(s, k, cnt - k))); return ret(m, SOME(r) if n == 'split_at_checked' else r)
    if n in ('first', 'last', 'first_mut', 'last_mut'):
        if cnt == 0: return ret(m, NONE())
        return ret(m, SOME(s.elem_ref(0 if n.startswith('first') else cnt - 1)))
    if n in ('swap',):
        i, j = args[1], args[2]
        if not (isinstance(i, int) and isinstance(j, int)): raise Unmodelled('symbolic swap index')
        if i >= cnt or j >= cnt: return panic(m, ('index out of bounds', None, None))
        v = _items(vm, m, s); v[i], v[j] = v[j], v[i]; _write_items(vm, m, s, v); return ret(m, UNIT)
    if n in ('reverse', 'rotate_left', 'rotate_right', 'fill'):
        v = _items(vm, m, s)
        if n == 'reverse': v.reverse()
        elif n == 'fill': v = [args[1]] * cnt
        else:
            k = args[1]
            if not isinstance(k, int): raise Unmodelled('symbolic rotate')
            if k > cnt: return panic(m, ('assertion failed: mid <= self.len()', None, None))
            v = v[k:] + v[:k] if n == 'rotate_left' else v[cnt - k:] + v[:cnt - k]
        _write_items(vm, m, s, v); return ret(m, UNIT)
    if n in ('copy_from_slice', 'clone_from_slice'):
        o = _slice_of(vm, m, args[1])
        if o.count != cnt: return panic(m, ('source slice length does not match destination slice length', None, None))
        _write_items(vm, m, s, [_d(vm, m, x) if not isinstance(x, (Seq, Struct, Enum)) else x for x in _items(vm, m, o)]); return ret(m, UNIT)
    if n in ('starts_with', 'ends_with', 'contains'):
        if n == 'contains':
            x = _d(vm, m, args[1]); cur = [(m, False)]
            for v in _items(vm, m, s):
                nxt = []
                for (m0, hit) in cur:
                    if hit: nxt.append((m0, True)); continue
                    for (m1, eq) in vm.branch(m0, _eqv(vm, v, x)): nxt.append((m1, eq))
                cur = nxt
            return [(m0, 'ret', hit) for (m0, hit) in cur]
        o = _slice_of(vm, m, args[1])
        if o.count > cnt: return ret(m, False)
        mine = _items(vm, m, s); mine = mine[:o.count] if n == 'starts_with' else mine[cnt - o.count:]
        cur = [(m, True)]
        for a_, b_ in zip(mine, _items(vm, m, o)):
            nxt = []
            for (m0, ok) in cur:
                if not ok: nxt.append((m0, False)); continue
                for (m1, eq) in vm.branch(m0, _eqv(vm, a_, b_)): nxt.append((m1, eq))
            cur = nxt
        return [(m0, 'ret', ok) for (m0, ok) in cur]
    if n in ('sort', 'sort_unstable', 'sort_by', 'sort_unstable_by', 'sort_by_key', 'sort_unstable_by_key', 'sort_by_cached_key'):
        vals = _items(vm, m, s)
        if n in ('sort', 'sort_unstable'):
            def less(m0, a_, b_): return [(m1, cc < 0) for (m1, cc) in liter._cmp(vm, m0, a_, b_)]
        elif n in ('sort_by', 'sort_unstable_by'):
            def less(m0, a_, b_):
                res = []
                for (m1, k, o) in vm.call_closure(m0, args[1], [Ref(m0.alloc(a_)), Ref(m0.alloc(b_))]):
                    if k != 'ret': raise Unmodelled('panic inside a sort comparator')
                    res.append((m1, liter._ord_val(vm, m1, o) < 0))
                return res
        else:
            def less(m0, a_, b_):
                res = []
                for (m1, k, ka) in vm.call_closure(m0, args[1], [Ref(m0.alloc(a_))]):
                    if k != 'ret': raise Unmodelled('panic inside a sort key function')
                    for (m2, k2, kb) in vm.call_closure(m1, args[1], [Ref(m1.alloc(b_))]):
                        if k2 != 'ret': raise Unmodelled('panic inside a sort key function')
                        res += [(m3, cc < 0) for (m3, cc) in liter._cmp(vm, m2, ka, kb)]
                return res
        outs = []
        for (m0, acc) in _sort_vals(vm, m, vals, less): _write_items(vm, m0, s, acc); outs.append((m0, 'ret', UNIT))
        return outs
    if n in ('binary_search',):
        vals = _items(vm, m, s); x = _d(vm, m, args[1])
        if any(is_sym(v) for v in vals) or is_sym(x): raise Unmodelled('symbolic binary_search')
        # std's implementation (size-halving, last equal candidate wins as in core 1.7x+): reproduce by definition - any matching index is allowed by the
        # documentation; the deterministic choice below is the one the current implementation makes
        size = len(vals); base = 0
        if size == 0: return ret(m, ERR(0))
        while size > 1:
            half = size // 2; mid = base + half
            if not (vals[mid] > x): base = mid
            size -= half
        if vals[base] == x: return ret(m, OK(base))
        return ret(m, ERR(base + (1 if vals[base] < x else 0)))
    if n in ('concat',):
        out = []
        for part in _items(vm, m, s):
            if isinstance(part, Seq): out += list(part.items); continue
            ps = _slice_of(vm, m, part); out += _items(vm, m, ps)
        return ret(m, Seq(out))
    if n in ('is_sorted', 'is_sorted_by', 'is_sorted_by_key'):
        it = liter.LIter('seq', tuple(refs()), 0, cnt)
        if n == 'is_sorted_by_key': it = liter.LIter('map', it, liter._keep(m, args[1])); n2 = 'is_sorted'
        else: n2 = n
        return [(m1, k, v) for (m1, k, v, _i) in liter._consumer(vm, m, c, n2, it, args)]
    if n in ('iter', 'iter_mut'): return ret(m, liter.LIter('seq', tuple(refs()), 0, cnt))
    if n in ('get', 'get_mut'):
        idx = args[1]
        if isinstance(idx, int): return ret(m, SOME(s.elem_ref(idx)) if idx < cnt else NONE())
        if isinstance(idx, Struct) and idx.ty in ('Range', 'RangeInclusive', 'RangeTo', 'RangeFrom', 'RangeFull', 'RangeToInclusive'):
            lo, hi = _range_bounds(idx, cnt)
            if lo is None: raise Unmodelled('symbolic range index')
            return ret(m, SOME(_sub(s, lo, hi - lo)) if lo <= hi <= cnt else NONE())
        return NotImplemented
    if n == 'to_vec' or n == 'into_vec': return ret(m, Seq([_d(vm, m, x) if isinstance(x, Ref) else x for x in _items(vm, m, s)]))
    if n == 'len': return ret(m, cnt)
    if n == 'is_empty': return ret(m, cnt == 0)
    if n == 'repeat':
        k = args[1]; return ret(m, Seq(_items(vm, m, s) * k))
    if n == 'iter().rev': return NotImplemented
    return NotImplemented

def _range_bounds(r, cnt):
    f = r.f
    if r.ty == 'Range': lo, hi = f[0], f[1]
    elif r.ty == 'RangeInclusive': lo, hi = f[0], f[1] + 1
    elif r.ty == 'RangeTo': lo, hi = 0, f[0]
    elif r.ty == 'RangeToInclusive': lo, hi = 0, f[0] + 1
    elif r.ty == 'RangeFrom': lo, hi = f[0], cnt
    else: lo, hi = 0, cnt
    if not (isinstance(lo, int) and isinstance(hi, int)): return None, None
    return lo, hi

def _eqv(vm, a, b):
    if isinstance(a, Fl) and isinstance(b, Fl): return vm.alg.eq(a, b)
    if isinstance(a, Str) and isinstance(b, Str): return a.s == b.s
    if isinstance(a, (Struct, Enum, Seq)) or isinstance(b, (Struct, Enum, Seq)): return vm._same(a, b)
    return a == b

# ---------------------------------------------------------------------------------------------- Vec
def _vecs(vm, m, c, args):
    from . import liter
    mm = re.match(r'^Vec::<.*?>::(\w+)(?:::<.*>)?$', c)
    if mm:
        n = mm.group(1)
        if n in ('new', 'with_capacity'): return ret(m, Seq(()))
        r = args[0]
        if not isinstance(r, Ref):
            if n in ('into_boxed_slice', 'into_iter', 'leak'): return ret(m, r)
            return NotImplemented
        while isinstance(vm.read_at(m, r.cell, r.path), Ref): r = vm.read_at(m, r.cell, r.path)
        v = vm.read_at(m, r.cell, r.path)
        if not isinstance(v, Seq): return NotImplemented
        items = list(v.items); put = lambda mm_, l: vm.write_at(mm_, r.cell, list(r.path), Seq(l))
        def idx(i, lim, what):
            if not isinstance(i, int): raise Unmodelled('symbolic index in Vec::' + n)
            return None if i <= lim else panic(m, ('%s index (is %d) should be <= len (is %d)' % (what, i, len(items)), None, None))
        if n == 'insert':
            bad = idx(args[1], len(items), 'insertion')
            if bad: return bad
            items.insert(args[1], args[2]); put(m, items); return ret(m, UNIT)
        if n == 'remove':
            bad = idx(args[1], len(items) - 1, 'removal')
            if bad: return bad
            x = items.pop(args[1]); put(m, items); return ret(m, x)
        if n == 'swap_remove':
            bad = idx(args[1], len(items) - 1, 'swap_remove')
            if bad: return bad
            x = items[args[1]]; items[args[1]] = items[-1]; items.pop(); put(m, items); return ret(m, x)
        if n == 'resize':
            k = args[1]
            if not isinstance(k, int): raise Unmodelled('symbolic resize')
            put(m, items[:k] + [args[2]] * max(0, k - len(items))); return ret(m, UNIT)
        if n == 'resize_with':
            k = args[1]; cur = [(m, items[:k])]
            for _ in range(max(0, k - len(items))):
                nxt = []
                for (m0, acc) in cur:
                    for (m1, kk, x) in vm.call_closure(m0, args[2], []):
                        if kk != 'ret': return [(m1, kk, x)]
                        nxt.append((m1, acc + [x]))
                cur = nxt
            outs = []
            for (m0, acc) in cur: put(m0, acc); outs.append((m0, 'ret', UNIT))
            return outs
        if n == 'truncate':
            k = args[1]
            if not isinstance(k, int): raise Unmodelled('symbolic truncate')
            put(m, items[:k]); return ret(m, UNIT)
        if n == 'append':
            o = args[1]
            while isinstance(vm.read_at(m, o.cell, o.path), Ref): o = vm.read_at(m, o.cell, o.path)
            ov = vm.read_at(m, o.cell, o.path); put(m, items + list(ov.items)); vm.write_at(m, o.cell, list(o.path), Seq(())); return ret(m, UNIT)
        if n == 'split_off':
            k = args[1]
            if not isinstance(k, int): raise Unmodelled('symbolic split_off')
            if k > len(items): return panic(m, ('`at` split index out of bounds', None, None))
            put(m, items[:k]); return ret(m, Seq(items[k:]))
        if n == 'drain':
            lo, hi = _range_bounds(args[1], len(items)) if isinstance(args[1], Struct) else (None, None)
            if lo is None: raise Unmodelled('Vec::drain range')
            if lo > hi or hi > len(items): return panic(m, ('drain range out of bounds', None, None))
            put(m, items[:lo] + items[hi:]); return ret(m, liter.LIter('seq', tuple(items[lo:hi]), 0, hi - lo))
        if n in ('retain', 'retain_mut'):
            cur = [(m, [], 0)]
            for k in range(len(items)):
                nxt = []
                for (m0, acc, _z) in cur:
                    eref = Ref(r.cell, r.path + (('i', k),))
                    for (m1, kk, b) in vm.call_closure(m0, args[1], [eref]):
                        if kk != 'ret': return [(m1, kk, b)]
                        for (m2, bv) in vm.branch(m1, b):
                            cur_v = vm.read_at(m2, r.cell, r.path + (('i', k),)); nxt.append((m2, acc + [cur_v] if bv else acc, 0))
                cur = nxt
            outs = []
            for (m0, acc, _z) in cur: put(m0, acc); outs.append((m0, 'ret', UNIT))
            return outs
        if n in ('dedup', 'dedup_by_key', 'dedup_by'):
            cur = [(m, [])]
            for x in items:
                nxt = []
                for (m0, acc) in cur:
                    if not acc: nxt.append((m0, [x])); continue
                    if n == 'dedup':
                        for (m1, eq) in vm.branch(m0, _eqv(vm, _d(vm, m0, acc[-1]), _d(vm, m0, x))): nxt.append((m1, acc if eq else acc + [x]))
                    elif n == 'dedup_by_key':
                        for (m1, k1, ka) in vm.call_closure(m0, args[1], [Ref(m0.alloc(acc[-1]))]):
                            if k1 != 'ret': return [(m1, k1, ka)]
                            for (m2, k2, kb) in vm.call_closure(m1, args[1], [Ref(m1.alloc(x))]):
                                if k2 != 'ret': return [(m2, k2, kb)]
                                for (m3, eq) in vm.branch(m2, _eqv(vm, _d(vm, m2, ka), _d(vm, m2, kb))): nxt.append((m3, acc if eq else acc + [x]))
                    else:
                        for (m1, k1, b) in vm.call_closure(m0, args[1], [Ref(m0.alloc(x)), Ref(m0.alloc(acc[-1]))]):
                            if k1 != 'ret': return [(m1, k1, b)]
                            for (m2, eq) in vm.branch(m1, b): nxt.append((m2, acc if eq else acc + [x]))
                cur = nxt
            outs = []
            for (m0, acc) in cur: put(m0, acc); outs.append((m0, 'ret', UNIT))
            return outs
        if n == 'capacity': return ret(m, len(items))
        if n in ('reserve', 'reserve_exact', 'shrink_to_fit'): return ret(m, UNIT)
        if n == 'extend_from_within': raise Unmodelled('extend_from_within')
        if n in ('first', 'last', 'iter', 'iter_mut', 'sort', 'contains', 'swap', 'reverse', 'fill', 'windows', 'chunks', 'split_at', 'to_vec', 'binary_search', 'starts_with', 'ends_with',
                 'sort_by', 'sort_by_key', 'sort_unstable', 'sort_unstable_by', 'rotate_left', 'rotate_right', 'concat', 'split_first', 'split_last', 'first_mut', 'last_mut', 'get', 'get_mut', 'is_sorted'):
            return _slices(vm, m, '<impl [T]>::' + c.split('::', 2)[-1].split('::')[-1] if False else '<impl [T]>::' + n, args)
        return NotImplemented
    if re.match(r'^from_elem::<', c):
        k = args[1]
        if not isinstance(k, int): raise Unmodelled('vec![x; n] with a symbolic n')
        return ret(m, Seq([args[0]] * k))
    mm = re.match(r'^<(?:Vec<.*>|\[.*\]|&\[.*\]|&Vec<.*>|&mut \[.*\]) as PartialEq(?:<.*>)?>::(eq|ne)$', c)
    if mm:
        try: a, b = _slice_of(vm, m, args[0] if isinstance(args[0], (Ref, SliceRef)) else Ref(m.alloc(args[0]))), _slice_of(vm, m, args[1] if isinstance(args[1], (Ref, SliceRef)) else Ref(m.alloc(args[1])))
        except (VMError, Unmodelled): return NotImplemented
        want = mm.group(1) == 'eq'
        if a.count != b.count: return ret(m, not want)
        cur = [(m, True)]
        for x, y in zip(_items(vm, m, a), _items(vm, m, b)):
            nxt = []
            for (m0, ok) in cur:
                if not ok: nxt.append((m0, False)); continue
                for (m1, eq) in vm.branch(m0, _eqv(vm, _d(vm, m0, x), _d(vm, m0, y))): nxt.append((m1, eq))
            cur = nxt
        return [(m0, 'ret', ok == want) for (m0, ok) in cur]
    mm = re.match(r'^<Vec<.*> as Extend<.*>>::extend::<', c)
    if mm:
        r = args[0]; it = liter.from_any(vm, m, args[1])
        if it is None: return NotImplemented
        outs = []
        for (m1, k, acc, _i, _s) in liter.consume(vm, m, it, [], lambda m1, acc, v: [(m1, 'ret', acc + [_d(vm, m1, v) if '&' in c.split('Extend<')[1].split('>')[0] else v], False)]):
            if k != 'ret': outs.append((m1, k, acc)); continue
            cur = vm.read_at(m1, r.cell, r.path); vm.write_at(m1, r.cell, list(r.path), Seq(list(cur.items) + acc)); outs.append((m1, 'ret', UNIT))
        return outs
    if re.match(r'^<Vec<.*> as (?:From|Into)<.*>>::(from|into)$', c) or re.match(r'^<&(?:mut )?\[.*\] as Into<Vec<.*>>>::into$', c):
        v = args[0]
        if isinstance(v, (Ref, SliceRef)):
            try: s = _slice_of(vm, m, v); return ret(m, Seq(_items(vm, m, s)))
            except (VMError, Unmodelled): return NotImplemented
        return ret(m, v)
    if re.match(r'^<Vec<.*> as Default>::default$', c): return ret(m, Seq(()))
    if re.match(r'^<(?:Vec<.*>|Box<\[.*\]>) as (?:Deref|DerefMut|AsRef<.*>|AsMut<.*>|Borrow<.*>)>::(deref|deref_mut|as_ref|as_mut|borrow)$', c): return ret(m, args[0])
    if re.match(r'^<(?:Vec<.*>|\[.*\]) as FromIterator<.*>>::from_iter::<', c):
        it = liter.from_any(vm, m, args[0])
        if it is None: return NotImplemented
        return [(m1, k, v) for (m1, k, v, _i) in liter._consumer(vm, m, 'x as Iterator>::collect::<Vec<_>>', 'collect', it, args)]
    return NotImplemented

# ---------------------------------------------------------------------------------------------- the rest
def _misc(vm, m, c, args):
    from . import liter
    if re.match(r'^RangeInclusive::<.*>::new$', c): return ret(m, Struct((args[0], args[1], False), 'RangeInclusive'))
    mm = re.match(r'^<RangeInclusive<.*> as (Iterator|DoubleEndedIterator)>::(next|next_back)$', c) or re.match(r'^<Range<.*> as (DoubleEndedIterator)>::(next_back)$', c)
    if mm:
        r = args[0]; rng = vm.read_at(m, r.cell, r.path); lo, hi = rng.f[0], rng.f[1]; incl = rng.ty == 'RangeInclusive'
        if is_sym(lo) or is_sym(hi): raise Unmodelled('symbolic inclusive range')
        empty = (lo > hi or (len(rng.f) > 2 and rng.f[2])) if incl else lo >= hi
        if empty: return ret(m, NONE())
        if mm.group(2) == 'next':
            vm.write_at(m, r.cell, list(r.path), Struct((lo + 1, hi, False) if lo < hi else (lo, hi, True), rng.ty)); return ret(m, SOME(lo))
        if incl:
            vm.write_at(m, r.cell, list(r.path), Struct((lo, hi - 1, False) if lo < hi else (lo, hi, True), rng.ty)); return ret(m, SOME(hi))
        vm.write_at(m, r.cell, list(r.path), Struct((lo, hi - 1), rng.ty)); return ret(m, SOME(hi - 1))
    mm = re.match(r'^<(?:Range|RangeInclusive)<.*> as (?:Iterator|DoubleEndedIterator|ExactSizeIterator)>::(\w+)(?:::<.*>)?$', c)
    if mm:
        it = liter.from_any(vm, m, _d(vm, m, args[0]) if isinstance(args[0], Ref) else args[0])
        if it is None: return NotImplemented
        return liter.dispatch(vm, m, '<X as Iterator>::' + c.split(' as ', 1)[1].split('>::', 1)[1], [it] + list(args[1:]))
    mm = re.match(r'^(?:Range|RangeInclusive)::<.*>::(contains|is_empty|len)(?:::<.*>)?$', c)
    if mm:
        rng = _d(vm, m, args[0]); lo, hi = rng.f[0], rng.f[1]; incl = rng.ty == 'RangeInclusive'
        if mm.group(1) == 'contains':
            x = _d(vm, m, args[1]); cond = [lo <= x, (x <= hi) if incl else (x < hi)]
            if any(is_sym(k) for k in cond): return ret(m, z3.And(*[k if is_sym(k) else z3.BoolVal(k) for k in cond]))
            return ret(m, all(cond))
        if mm.group(1) == 'is_empty': return ret(m, (lo > hi) if incl else (lo >= hi))
    mm = re.match(r'^ChunksExact::<.*>::remainder$', c)
    if mm: return ret(m, _d(vm, m, args[0]).f[1] if isinstance(_d(vm, m, args[0]), Struct) else NotImplemented)
    mm = re.match(r'^<ChunksExact<.*> as Iterator>::(\w+)(?:::<.*>)?$', c)
    if mm:
        v = args[0]
        if isinstance(v, Ref):
            inner = _d(vm, m, v)
            if isinstance(inner, Struct) and inner.ty == 'ChunksExact':
                r = v
                while isinstance(vm.read_at(m, r.cell, r.path), Ref): r = vm.read_at(m, r.cell, r.path)
                return liter.dispatch(vm, m, '<X as Iterator>::' + mm.group(1), [Ref(r.cell, r.path + (('f', 0),))] + list(args[1:]))
        if isinstance(v, Struct) and v.ty == 'ChunksExact': return liter.dispatch(vm, m, '<X as Iterator>::' + c.split('>::', 1)[1], [v.f[0]] + list(args[1:]))
    if re.match(r'^<ChunksExact<.*> as IntoIterator>::into_iter$', c): return ret(m, args[0].f[0])
    mm = re.match(r'^<(.+) as (PartialOrd|Ord)(<.+>)?>::(lt|le|gt|ge|max|min|clamp)$', c)
    if mm and not re.match(r'^&?' + INT + '$|^&?f(64|32)$', mm.group(1)):
        t, tr, u, meth = mm.groups()
        if meth in ('lt', 'le', 'gt', 'ge'):
            outs = []
            for (m1, k, r) in _partial_cmp(vm, m, t, u, args[0], args[1]):
                if k != 'ret': outs.append((m1, k, r)); continue
                o = None if r.name == 'None' else r.f[0].idx
                outs.append((m1, 'ret', o is not None and {'lt': o < 0, 'le': o <= 0, 'gt': o > 0, 'ge': o >= 0}[meth]))
            return outs
        if meth in ('max', 'min') and tr == 'Ord':
            outs = []
            for (m1, k, r) in vm.call(m, '<%s as Ord>::cmp' % t, [Ref(m.alloc(args[0])), Ref(m.alloc(args[1]))]):
                if k != 'ret': outs.append((m1, k, r)); continue
                # max returns the second argument when equal, min the first
                outs.append((m1, 'ret', (args[1] if r.idx <= 0 else args[0]) if meth == 'max' else (args[0] if r.idx <= 0 else args[1])))
            return outs
    # either::Either
    mm = re.match(r'^(?:either::)?Either::<.*?>::(\w+)(?:::<.*>)?$', c)
    if mm and args:
        n = mm.group(1); v = args[0]; ev = _d(vm, m, v)
        if isinstance(ev, Enum) and ev.name in ('Left', 'Right'):
            left = ev.name == 'Left'
            if n in ('as_ref', 'as_mut') and isinstance(v, Ref):
                r = v
                while isinstance(vm.read_at(m, r.cell, r.path), Ref): r = vm.read_at(m, r.cell, r.path)
                return ret(m, Enum(ev.idx, ev.name, (Ref(r.cell, r.path + (('f', 0),)),), ev.ty))
            if n == 'either': return vm.call_closure(m, args[1] if left else args[2], [ev.f[0]])
            if n in ('is_left', 'is_right'): return ret(m, left == (n == 'is_left'))
            if n in ('left', 'right'): return ret(m, SOME(ev.f[0]) if left == (n == 'left') else NONE())
            if n in ('map_left', 'map_right'):
                if left != (n == 'map_left'): return ret(m, ev)
                return [(m1, k, Enum(ev.idx, ev.name, (r,), ev.ty) if k == 'ret' else r) for (m1, k, r) in vm.call_closure(m, args[1], [ev.f[0]])]
            if n == 'flip': return ret(m, Enum(1 - ev.idx, 'Right' if left else 'Left', ev.f, ev.ty))
            if n in ('unwrap_left', 'unwrap_right', 'expect_left', 'expect_right'):
                if left == ('left' in n): return ret(m, ev.f[0])
                return panic(m, ('%s on the other side' % n, None, None))
    # a tuple variant used as a function value (`.map(StepSizeAdaptMethod::Fixed)`, `.map(Some)`, `.map_err(MyError::Io)`)
    mm = re.match(r'^(?:\w+::)*([A-Z]\w*)::([A-Z]\w*)$', c)
    if mm and mm.group(1) in vm.enums and mm.group(2) in vm.enums[mm.group(1)] and not vm.mir.enum_discr.get(mm.group(1)):
        return ret(m, Enum(vm._variant_idx(mm.group(1), mm.group(2)), mm.group(2), tuple(args), mm.group(1)))
    if c in ('Some', 'Option::Some') and len(args) == 1: return ret(m, SOME(args[0]))
    if c in ('Ok', 'Result::Ok') and len(args) == 1: return ret(m, OK(args[0]))
    if c in ('Err', 'Result::Err') and len(args) == 1: return ret(m, ERR(args[0]))
    # comparison traits on references compare the referents: <&T as PartialEq<&U>>::eq(&&T, &&U) = <T as PartialEq<U>>::eq(&T, &U)
    mm = re.match(r"^<&(?:'\w+ )?(?:mut )?(.+?) as (PartialEq|PartialOrd|Ord)(?:<&(?:'\w+ )?(?:mut )?(.+)>)?>::(\w+)$", c)
    if mm and all(isinstance(a, Ref) for a in args[:2]):
        t, tr, u, meth = mm.groups(); inner = [vm.read_at(m, a.cell, a.path) for a in args[:2]]
        if all(isinstance(a, (Ref, SliceRef, Str)) for a in inner):
            return vm.call(m, '<%s as %s%s>::%s' % (t, tr, '<%s>' % u if u else '', meth), inner + list(args[2:]))
    # Box
    if re.match(r'^Box::<.*>::new$', c): return NotImplemented
    mm = re.match(r'^<Box<(.*)> as Clone>::clone$', c)
    if mm:
        b = vm.read_at(m, args[0].cell, args[0].path) if isinstance(args[0], Ref) else args[0]
        while isinstance(b, Ref): b = vm.read_at(m, b.cell, b.path)
        if isinstance(b, Struct) and b.ty == 'Box' and b.f and isinstance(b.f[0], Struct) and b.f[0].f and isinstance(b.f[0].f[0], Ref):
            src = b.f[0].f[0]; val = vm.read_at(m, src.cell, src.path)       # values are immutable: the copy may share structure
            return ret(m, Struct((Struct((Ref(m.alloc(val)),)),) + tuple(b.f[1:]), 'Box'))
        if isinstance(b, Seq) and not any(isinstance(x, (Ref, SliceRef, Struct, Enum, Seq)) for x in b.items): return ret(m, b)   # a boxed slice of scalars modelled by its contents
        return NotImplemented
    mm = re.match(r'^<Option<(.*)> as Clone>::clone$', c)
    if mm and isinstance(args[0], Ref):
        o = vm.read_at(m, args[0].cell, args[0].path)
        if isinstance(o, Enum) and o.name == 'None': return ret(m, o)
        if isinstance(o, Enum) and o.name == 'Some':
            return [(m1, k, SOME(v) if k == 'ret' else v) for (m1, k, v) in vm.call(m, '<%s as Clone>::clone' % mm.group(1), [Ref(args[0].cell, tuple(args[0].path) + (('f', 0),))])]
        return NotImplemented
    # String
    if re.match(r'^<String as From<&str>>::from$|^<str as ToOwned>::to_owned$|^<String as Clone>::clone$|^<&str as Into<String>>::into$|^<impl str>::(to_string|to_owned)$|^String::from_str$|^<(?:str|&str|String) as ToString>::to_string$', c): return ret(m, _d(vm, m, args[0]))
    if c == 'String::new': return ret(m, Str(''))
    mm = re.match(r'^String::(\w+)$', c) or re.match(r'^<impl str>::(\w+)$', c)
    if mm and args:
        n = mm.group(1); r = args[0]; sv = _d(vm, m, r)
        if isinstance(sv, Str):
            if n in ('push_str', 'push') and isinstance(r, Ref):
                x = _d(vm, m, args[1])
                if not isinstance(x, Str): raise Unmodelled('String::%s of %r' % (n, x))
                while isinstance(vm.read_at(m, r.cell, r.path), Ref): r = vm.read_at(m, r.cell, r.path)
                vm.write_at(m, r.cell, list(r.path), Str(sv.s + x.s)); return ret(m, UNIT)
            if n == 'len': return ret(m, len(sv.s.encode()))
            if n == 'is_empty': return ret(m, sv.s == '')
            if n in ('as_str', 'as_ref', 'to_string', 'to_owned', 'clone'): return ret(m, sv)
            if n in ('starts_with', 'ends_with', 'contains') and isinstance(_d(vm, m, args[1]), Str):
                x = _d(vm, m, args[1]).s; return ret(m, {'starts_with': sv.s.startswith, 'ends_with': sv.s.endswith, 'contains': sv.s.__contains__}[n](x))
            if n == 'clear' and isinstance(r, Ref):
                while isinstance(vm.read_at(m, r.cell, r.path), Ref): r = vm.read_at(m, r.cell, r.path)
                vm.write_at(m, r.cell, list(r.path), Str('')); return ret(m, UNIT)
            if n in ('to_uppercase', 'to_lowercase', 'trim'): return ret(m, Str(getattr(sv.s, {'to_uppercase': 'upper', 'to_lowercase': 'lower', 'trim': 'strip'}[n])()))
    if re.match(r'^<String as Add<&str>>::add$', c):
        a, b = _d(vm, m, args[0]), _d(vm, m, args[1])
        if isinstance(a, Str) and isinstance(b, Str): return ret(m, Str(a.s + b.s))
    mm = re.match(r'^<(?:String|str|&str) as PartialEq<(?:String|str|&str)>>::(eq|ne)$', c) or re.match(r'^<(String|str|&str) as PartialEq>::(eq|ne)$', c)
    if mm:
        a, b = _d(vm, m, args[0]), _d(vm, m, args[1])
        if isinstance(a, Str) and isinstance(b, Str): return ret(m, (a.s == b.s) == (c.endswith('::eq')))
    # bool / unit / tuple / Ordering helpers
    if re.match(r'^<bool as (?:Not)>::not$', c):
        x = _d(vm, m, args[0]); return ret(m, z3.Not(x) if is_sym(x) else not x)
    mm = re.match(r'^<impl bool>::(then|then_some)(?:::<.*>)?$', c)
    if mm:
        outs = []
        for (m1, bv) in vm.branch(m, _d(vm, m, args[0])):
            if not bv: outs.append((m1, 'ret', NONE()))
            elif mm.group(1) == 'then_some': outs.append((m1, 'ret', SOME(args[1])))
            else: outs += [(m2, k, SOME(v) if k == 'ret' else v) for (m2, k, v) in vm.call_closure(m1, args[1], [])]
        return outs
    mm = re.match(r'^Ordering::(\w+)$', c) or re.match(r'^<Ordering as \w+>::(\w+)$', c)
    if mm and args and isinstance(_d(vm, m, args[0]), Enum):
        o = _d(vm, m, args[0]).idx; n = mm.group(1)
        if n == 'reverse': return ret(m, _ordering(-o))
        if n == 'then': return ret(m, _ordering(o) if o != 0 else _d(vm, m, args[1]))
        if n == 'then_with': return ret(m, _ordering(o)) if o != 0 else vm.call_closure(m, args[1], [])
        if n in ('is_lt', 'is_le', 'is_gt', 'is_ge', 'is_eq', 'is_ne'): return ret(m, {'is_lt': o < 0, 'is_le': o <= 0, 'is_gt': o > 0, 'is_ge': o >= 0, 'is_eq': o == 0, 'is_ne': o != 0}[n])
        if n in ('eq', 'ne'): return ret(m, (o == _d(vm, m, args[1]).idx) == (n == 'eq'))
    if re.match(r'^(?:cmp::)?(min|max)::<' + INT + '>$', c):
        a, b = args; return ret(m, _imin(a, b) if c.startswith('min') or '::min' in c else _imax(a, b))
    mm = re.match(r'^take::<(.*)>$', c)
    if mm:
        r = args[0]; old = vm.read_at(m, r.cell, r.path); outs = []
        for (m1, k, dv) in _default(vm, m, mm.group(1)):
            if k == 'ret': vm.write_at(m1, r.cell, list(r.path), dv); outs.append((m1, 'ret', old))
            else: outs.append((m1, k, dv))
        return outs
    mm = re.match(r'^<(.*) as Default>::default$', c)
    if mm and (mm.group(1).startswith('Option<') or mm.group(1) in ('String', 'bool', '()') or mm.group(1).startswith('Vec<')): return _default(vm, m, mm.group(1))
    return NotImplemented


def _partial_cmp(vm, m, t, u, a, b):
    """partial_cmp of two references: tuples lexicographically, everything else through the type's own (derived) partial_cmp"""
    if t.startswith('('):
        va, vb = _d(vm, m, a), _d(vm, m, b); cur = [(m, 0)]
        for x, y in zip(va.f, vb.f):
            nxt = []
            for (m0, o) in cur:
                if o != 0: nxt.append((m0, o)); continue
                if isinstance(x, Fl):
                    for (m1, k, r) in _floats(vm, m0, '<f64 as PartialOrd>::partial_cmp', [x, y]): nxt.append((m1, None if r.name == 'None' else r.f[0].idx))
                else:
                    from .liter import _cmp
                    nxt += _cmp(vm, m0, x, y)
            cur = nxt
        return [(m0, 'ret', NONE() if o is None else SOME(_ordering(o))) for (m0, o) in cur]
    return vm.call(m, '<%s as PartialOrd%s>::partial_cmp' % (t, u or ''), [a, b])
