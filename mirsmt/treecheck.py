"""Tree-level obligations shared by C01 / C03 / C05: exploration of nuts::draw against the oracle
Hamiltonian, an independent symbolic reference of the doubling / termination rule, re-rooting."""
import time, itertools
import z3
from .tree import TreeHarness, W, TURN, FAULT, leaves
from .vm import is_sym

KINDS = {'maxdepth': 0, 'turn_acc': 1, 'turn_rej': 2, 'div': 3, 'err': 4}

def T(i, j): return TURN(min(i, j), max(i, j))

class Ref:
    """symbolic reference of the NUTS doubling rule over the oracle tables (written from the algorithm's
    description: balanced doubling, U-turn test on the whole span and - for sub-trees of more than one
    point on each side - on the two overlapping sub-spans, first failing leapfrog aborts)."""
    def __init__(self, start, faults): self.start = start; self.faults = faults
    def build(self, sites, check):
        F = z3.BoolVal(False)
        if len(sites) == 1:
            s = sites[0]
            return {'turn': F, 'div': FAULT(s) == 1 if self.faults else F, 'err': FAULT(s) == 2 if self.faults else F}
        h = len(sites) // 2
        X = self.build(sites[:h], check); Y = self.build(sites[h:], check)
        okX = z3.Not(z3.Or(X['turn'], X['div'], X['err'])); okY = z3.Not(z3.Or(Y['turn'], Y['div'], Y['err']))
        chk = self.checks(sites[:h], sites[h:]) if check else F
        return {'turn': z3.Or(X['turn'], z3.And(okX, Y['turn']), z3.And(okX, okY, chk)),
                'div': z3.Or(X['div'], z3.And(okX, Y['div'])), 'err': z3.Or(X['err'], z3.And(okX, Y['err']))}
    def checks(self, X, Y):
        allp = X + Y
        c = [T(min(allp), max(allp))]
        if len(X) > 1: c += [T(max(X), max(Y)), T(min(X), min(Y))]
        return z3.Or(*c)
    def outcome(self, dirs, maxdepth, mindepth, check_turning=True):
        """returns z3 Int expr code = depth*8 + kind for the given concrete direction script (forward = True)"""
        lo = hi = self.start; cur = [self.start]; chain = []      # list of (condition, code)
        for j in range(maxdepth):
            n = 2 ** j; d = dirs[j] if j < len(dirs) else None
            if d is None: break
            new = [hi + 1 + k for k in range(n)] if d else [lo - 1 - k for k in range(n)]
            check = check_turning and not (j < mindepth)
            H = self.build(new, check)
            chain.append((H['turn'], j * 8 + KINDS['turn_rej'])); chain.append((H['div'], j * 8 + KINDS['div'])); chain.append((H['err'], j * 8 + KINDS['err']))
            top = self.checks(cur, new) if check else z3.BoolVal(False)
            cur = cur + new; lo, hi = min(cur), max(cur)
            chain.append((top, (j + 1) * 8 + KINDS['turn_acc']))
        code = z3.IntVal(maxdepth * 8 + KINDS['maxdepth'])
        for cond, val in reversed(chain): code = z3.If(cond, z3.IntVal(val), code)
        return code

def accepted_range(start, dirs, depth):
    lo = hi = start
    for j in range(depth):
        n = 2 ** j
        if dirs[j]: hi += n
        else: lo -= n
    return lo, hi

def path_code(o):
    if o['result'] == 'Err': return None, 'err'
    if o['divergence'].name == 'Some': kind = 'div'
    elif o['maxdepth_flag'] is True: kind = 'maxdepth'
    else:
        # turn: accepted (merged) vs rejected doubling is told apart by depth vs doublings attempted
        kind = 'turn_acc' if o['depth'] == len(o['dirs']) else 'turn_rej'
    return o['depth'], kind

def explore(mir, L, maxdepth, mindepth=0, faults=False, start=0, dim=1, dir_oracle=None, extra_pc=(), check_turning=True):
    H = TreeHarness(mir, L, maxdepth, mindepth=mindepth, start_site=start, dim=dim, faults=faults, dir_oracle=dir_oracle, check_turning=check_turning)
    outs = [H.summarize(*o) for o in H.run_draw(list(extra_pc))]
    return H, outs

def check_paths(rep, tag, H, outs, maxdepth, mindepth, faults, start=0):
    """C03 (1)(2)(3)(5) + C05 (2) on every path of one exploration.  returns number of violations recorded"""
    ref = Ref(start, faults); nv = 0
    s = z3.Solver(); s.set('timeout', 60000)
    def sat(conds):
        s.push(); s.add(*conds); r = s.check(); s.pop()
        if r == z3.unknown: rep.unknown(tag + ' solver unknown'); return False
        return r == z3.sat
    nob = 0
    for o in outs:
        desc = {'maxdepth': maxdepth, 'mindepth': mindepth, 'dirs': ['F' if d else 'B' for d in o['dirs']], 'leapfrogs': o['leapfrogs'][:20]}
        badargs = [e for e in o.get('events', []) if e[0] == 'bad_leapfrog_args']
        if badargs:
            rep.violated(tag + ' leapfrog arguments', 'tree.leapfrog_args', 'the tree calls leapfrog with %s = %s (must be the Hamiltonian\'s own step size, factor 1, and the max_energy_error of its options) on path %s' % (badargs[0][1], badargs[0][2], desc), model=desc); nv += 1; continue
        if o['kind'] == 'panic':
            rep.violated(tag + ' no panic', 'tree.panic', 'nuts::draw reaches a panic: %r on path %s pc=%s' % (o['panic'], desc, [str(c) for c in o['pc'][-4:]]), model=desc); nv += 1; continue
        ev = o['events']
        # (5) initialize_trajectory exactly once, resample = true, before the first leapfrog
        inits = [e for e in ev if e[0] == 'init_trajectory']
        first_lf = next((i for i, e in enumerate(ev) if e[0] == 'leapfrog'), len(ev))
        if len(inits) != 1 or inits[0][2] is not True or ev.index(inits[0]) > first_lf:
            rep.violated(tag + ' (5) momentum refreshed once per trajectory', 'tree.init_once', 'initialize_trajectory(resample=true) not called exactly once before the first leapfrog: %s' % desc, model=desc); nv += 1
        # leapfrog order: outward, contiguous, each site once
        seen = {start}; okorder = True
        for (site, kd) in o['leapfrogs']:
            if site in seen or not (site - 1 in seen or site + 1 in seen): okorder = False
            if kd == 0: seen.add(site)
        if not okorder:
            rep.violated(tag + ' leapfrog sites contiguous', 'tree.order', 'leapfrog sites are not visited outward/contiguously: %s' % desc, model=desc); nv += 1
        depth, kind = path_code(o)
        code = ref.outcome(o['dirs'], maxdepth, mindepth)
        if kind == 'err':
            # (C05) Err iff the first fault reached is unrecoverable; depth is not observable: compare the kind only
            bad = [code % 8 != KINDS['err']]
        else:
            bad = [code != depth * 8 + KINDS[kind]]
        nob += 1
        if sat(o['pc'] + bad):
            s.push(); s.add(*(o['pc'] + bad)); s.check(); mdl = s.model(); s.pop()
            md = {d.name(): str(mdl[d]) for d in mdl.decls() if d.name().startswith(('turn_', 'fault_'))}
            rep.violated(tag + ' (3) termination exact vs reference', 'tree.termination',
                         'doubling stopped with (depth=%s, %s) but the reference rule says code=%s (depth*8+kind %s) on %s with tables %s' % (depth, kind, mdl.eval(code), KINDS, desc, md), model={'path': desc, 'tables': md}); nv += 1
            continue
        if kind == 'err':
            if len(o['leapfrogs']) == 0 or o['leapfrogs'][-1][1] != 2:
                rep.violated(tag + ' Err only from an unrecoverable evaluation', 'tree.err_source', 'Err returned but the last evaluation was not the unrecoverable one: %s' % desc, model=desc); nv += 1
            continue
        # (2) bookkeeping
        n_ok, n_all = o['nleap_ok'], o['nleap']
        if not (depth <= maxdepth and 2 ** depth - 1 <= n_all <= 2 ** (depth + 1) - 1):
            rep.violated(tag + ' (2) depth/steps bounds', 'tree.bounds', 'depth=%d leapfrogs=%d violates 2^d-1 <= steps <= 2^(d+1)-1 or depth <= maxdepth: %s' % (depth, n_all, desc), model=desc); nv += 1
        if kind == 'div' and o['maxdepth_flag'] is not False and rep.pid == 'C03':      # a C03 clause (C05 only asks that the draw is reported divergent)
            rep.violated(tag + ' (3) maxdepth flag only when maxdepth was the only reason to stop', 'tree.maxdepth_flag', 'a trajectory that stopped on a divergence carries the reached-maxdepth flag: %s' % desc, model=desc); nv += 1
        if kind in ('div',) and (not o['leapfrogs'] or o['leapfrogs'][-1][1] != 1):
            rep.violated(tag + ' divergence info only from a divergent leapfrog', 'tree.div_source', 'divergence reported but last leapfrog was not divergent: %s' % desc, model=desc); nv += 1
        if kind not in ('div',) and any(k != 0 for (_, k) in o['leapfrogs']):
            rep.violated(tag + ' fault not reported', 'tree.fault_lost', 'a faulty leapfrog happened but the draw is not flagged: %s' % desc, model=desc); nv += 1
        # (1) draw is the start or a state reached in the accepted trajectory
        lo, hi = accepted_range(start, o['dirs'], depth)
        for sid, cond in leaves(o['draw_sid']):
            st = o['states'].get(sid)
            good = st is not None and lo <= st['site'] <= hi and abs(st['idx']) <= 2 ** depth - 1 and ((st['idx'] == 0) == (sid == 0)) and st['site'] - start == st['idx']
            nob += 1
            if not good and sat(o['pc'] + [cond]):
                rep.violated(tag + ' (1) draw inside the accepted trajectory', 'tree.draw_range',
                             'returned state (site %s, index %s) is outside the accepted trajectory [%d,%d] / index rules on %s' % (st and st['site'], st and st['idx'], lo, hi, desc), model=desc); nv += 1
        # register_draw called once with the returned state
        rd = [e for e in ev if e[0] == 'register_draw']
        if len(rd) != 1 or not (rd[0][1] is o['draw_sid'] or (is_sym(rd[0][1]) and is_sym(o['draw_sid']) and rd[0][1].eq(o['draw_sid'])) or rd[0][1] == o['draw_sid']):
            rep.violated(tag + ' register_draw sees the returned state', 'tree.register_draw', 'register_draw not called exactly once with the returned state: %s' % desc, model=desc); nv += 1
    rep.paths += len(outs)
    return nv, nob
