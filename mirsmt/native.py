"""Engine R front end: builds /verif/replay against /repo's current tree (own target dir) and runs one replay family."""
import os, json, subprocess, fcntl
from .driver import VERIF, CACHE, REPO, OUT
TARGET = os.path.join(CACHE, 'target-replay')
CRATE = os.path.join(VERIF, 'replay')
if REPO != '/repo':   # self-test on a scratch copy: private copy of the driver crate pointing at it, own target dir under the scratch output
    import shutil
    CRATE = os.path.join(OUT or '/tmp', 'replay-crate'); TARGET = os.path.join(OUT or '/tmp', 'target-replay')
    if not os.path.exists(CRATE):
        shutil.copytree(os.path.join(VERIF, 'replay'), CRATE, ignore=shutil.ignore_patterns('target'))
        t = open(os.path.join(CRATE, 'Cargo.toml')).read().replace('path = "/repo"', 'path = "%s"' % REPO); open(os.path.join(CRATE, 'Cargo.toml'), 'w').write(t)
_built = [False]
def build():
    if _built[0]: return True
    os.makedirs(CACHE, exist_ok=True)
    lock = open(os.path.join(CACHE, 'replay.lock'), 'w'); fcntl.flock(lock, fcntl.LOCK_EX)
    try:
        env = dict(os.environ, CARGO_NET_OFFLINE='true', CARGO_TARGET_DIR=TARGET)
        p = subprocess.run(['cargo', 'build', '--offline', '--quiet'], cwd=CRATE, env=env, stdout=subprocess.PIPE, stderr=subprocess.STDOUT, text=True)
        _built[0] = p.returncode == 0
        if p.returncode != 0: print('native replay build failed:\n' + p.stdout[-2000:])
        return _built[0]
    finally:
        fcntl.flock(lock, fcntl.LOCK_UN); lock.close()
def run(family, params, timeout=300):
    """returns the replay's JSON dict ({'confirmed': bool, ...}) or None when the driver cannot be built/run"""
    if not build(): return None
    try:
        p = subprocess.run([os.path.join(TARGET, 'debug', 'verif-replay'), family, json.dumps(params)], stdout=subprocess.PIPE, stderr=subprocess.PIPE, text=True, timeout=timeout)
        line = p.stdout.strip().split('\n')[-1] if p.stdout.strip() else ''
        out = json.loads(line); out['family'] = family; out['params'] = params
        return out
    except Exception as e:
        return None


# ---- second driver crate (nuts-rs with the zarr feature): Zarr-vs-HashMap differential through the real build, used as model validation by C15
ZTARGET = os.path.join(CACHE, 'target-replay-zarr'); _zbuilt = [None]
def build_zarr():
    if REPO != '/repo': return False           # self-test runs on scratch copies skip the (slow to build) validation driver
    if _zbuilt[0] is not None: return _zbuilt[0]
    lock = open(os.path.join(CACHE, 'replay-zarr.lock'), 'w'); fcntl.flock(lock, fcntl.LOCK_EX)
    try:
        env = dict(os.environ, CARGO_NET_OFFLINE='true', CARGO_TARGET_DIR=ZTARGET)
        p = subprocess.run(['cargo', 'build', '--offline', '--quiet'], cwd=os.path.join(VERIF, 'replay-zarr'), env=env, stdout=subprocess.PIPE, stderr=subprocess.STDOUT, text=True)
        _zbuilt[0] = p.returncode == 0
        if p.returncode != 0: print('zarr replay build failed:\n' + p.stdout[-1500:])
        return _zbuilt[0]
    finally:
        fcntl.flock(lock, fcntl.LOCK_UN); lock.close()
def run_zarr(params, timeout=300):
    if not build_zarr(): return None
    try:
        p = subprocess.run([os.path.join(ZTARGET, 'debug', 'verif-replay-zarr'), json.dumps(params)], stdout=subprocess.PIPE, stderr=subprocess.PIPE, text=True, timeout=timeout)
        return json.loads(p.stdout.strip().split('\n')[-1])
    except Exception: return None
