"""C02 - the integrator is the textbook leapfrog for the implied mass matrix (DESIGN section 4, C02)."""
import time, itertools
import z3
from ..driver import load_mir, REPO
from ..layout import Layouts
from ..vm import VM, Machine, Struct, Enum, Seq, Ref, Opaque, UNIT, NONE, SOME, OK, ERR, ret, VMError
from ..alg import RealAlg, Fl
from ..mathenv import MathEnv, StateEnv, install_misc
from ..intrinsics import deref_val

POINT_VECS = ('untransformed_position', 'untransformed_gradient', 'transformed_position', 'transformed_gradient', 'velocity')

class Setup:
    """a real TransformedHamiltonian<M, T> over the Math environment, T = DiagMassMatrix or LowRankMassMatrix (rank 0 / 1)"""
    def __init__(self, mir, L, d, tkind, kkind, logp_mode='uf', factor_mode=False):
        self.factor_mode = factor_mode; self.mir = mir; self.L = L; self.d = d; self.tkind = tkind; self.kkind = kkind
        A = self.A = RealAlg()
        inst = {'T': ('DiagMassMatrix', None)} if tkind == 'diag' else {'T': ('LowRankMassMatrix', None)}
        vm = self.vm = VM(mir, A, inst=inst, timeout_ms=1500); vm.unknown_is_feasible = True; self.env = MathEnv(vm, d, logp_mode, L); self.se = StateEnv(vm, mir); install_misc(vm)
        vm.add_model(r'^<C as Collector<M, .*>>::register_leapfrog$', lambda vm, m, c, a: ret(m, UNIT))
        self.m = Machine(); self.m.ghost['events'] = []
        self.math = Ref(self.m.alloc(Opaque('math')))
        self.sigma = [A.fresh('sigma_%d' % i) for i in range(d)]; self.mu = [A.fresh('mu_%d' % i) for i in range(d)]
        self.pre = [s.v > 0 for s in self.sigma]
        self.transformation = self.make_transformation()
        en = vm.enums['KineticEnergyKind']
        self.eps = A.fresh('eps')
        ham = L.make('TransformedHamiltonian', {'ones': Seq([A.const(1.0)] * d), 'zeros': Seq([A.const(0.0)] * d), 'step_size': (A.const(1.0) if factor_mode else self.eps), 'momentum_decoherence_length': NONE(),
                                                'transformation': self.transformation, 'kinetic_energy_kind': Enum(en.index(kkind), kkind, (), 'KineticEnergyKind'), 'pool': Opaque('pool')})
        self.hc = self.m.alloc(ham)
        self.m.pc += self.pre

    def make_transformation(self):
        L = self.L; A = self.A; d = self.d; m = self.m
        diag = L.make('DiagMassMatrix', {'mean': Seq([A.const(0.0)] * d), 'inv_stds': Seq([A.const(0.0)] * d), 'stds': Seq([A.const(0.0)] * d), 'logdet': A.const(0.0), 'store_mass_matrix': False, 'id': z3.Int('diag_id0')})
        dc = m.alloc(diag); m.pc += [z3.Int('diag_id0') > -2 ** 40, z3.Int('diag_id0') < 2 ** 40]
        st = self.mir.method('DiagMassMatrix', None, 'set_transform')
        outs = self.vm.run(st, [Ref(dc), self.math, Ref(m.alloc(Seq(self.sigma))), Ref(m.alloc(Seq(self.mu)))], m)
        assert len(outs) == 1 and outs[0][1] == 'ret'
        diag = m.mem[dc]
        self.logdet_diag = L.get('DiagMassMatrix', diag, 'logdet'); self.diag_id_after = L.get('DiagMassMatrix', diag, 'id')
        if self.tkind == 'diag':
            self.tid = L.get('DiagMassMatrix', diag, 'id'); self.logdet = self.logdet_diag
            return diag
        rank = 1 if self.tkind == 'lowrank1' else 0
        if rank == 0 and self.tkind == 'lowrank_none': inner = NONE()
        else:
            self.u = [A.fresh('u_%d' % i) for i in range(d)]; self.ls = A.fresh('lambda_sqrt'); self.lmu = [A.fresh('lrmu_%d' % i) for i in range(d)]
            self.pre += [self.ls.v > 0, z3.Sum([x.v * x.v for x in self.u]) == 1]
            self.ld_inner = A.fresh('logdet_lowrank')
            inner = SOME(L.make('InnerMatrix', {'vecs': Seq([Seq(self.u)] if rank else []), 'vals_sqrt': Seq([self.ls] if rank else []), 'vals_sqrt_inv': Seq([A.div(A.const(1.0), self.ls)] if rank else []),
                                                'logdet_contribution': self.ld_inner, 'mu': Seq(self.lmu), 'num_eigenvalues': rank}))
        self.tid = z3.Int('lr_id')
        self.logdet = A.add(self.ld_inner, self.logdet_diag) if inner.name == 'Some' else self.logdet_diag
        return L.make('LowRankMassMatrix', {'diag': diag, 'inner': inner, 'settings': Opaque('settings'), 'logdet': self.logdet, 'id': self.tid})

    # F(y) and F^-T etc. as reference formulas (written from the documentation of the transformation)
    def F(self, y):
        A = self.A; d = self.d
        if self.tkind in ('diag', 'lowrank_none'): z = list(y)
        else:
            c = z3.Sum([self.u[i].v * y[i] for i in range(d)]); z = [y[i] + self.u[i].v * (self.ls.v - 1) * c + self.lmu[i].v for i in range(d)]
        return [self.sigma[i].v * z[i] + self.mu[i].v for i in range(d)]
    def JT(self, g):
        """J_F^T g  (gradient pull-back):  (I + u (ls-1) u^T) (sigma * g)"""
        d = self.d; sg = [self.sigma[i].v * g[i] for i in range(d)]
        if self.tkind in ('diag', 'lowrank_none'): return sg
        c = z3.Sum([self.u[i].v * sg[i] for i in range(d)]); return [sg[i] + self.u[i].v * (self.ls.v - 1) * c for i in range(d)]
    def Jv(self, v):
        """J_F v = sigma * (I + u (ls-1) u^T) v"""
        d = self.d
        if self.tkind in ('diag', 'lowrank_none'): z = list(v)
        else:
            c = z3.Sum([self.u[i].v * v[i] for i in range(d)]); z = [v[i] + self.u[i].v * (self.ls.v - 1) * c for i in range(d)]
        return [self.sigma[i].v * z[i] for i in range(d)]
    def JinvT(self, v):
        """p = F^-T v = (1/sigma) * (I + u (1/ls - 1) u^T) v"""
        d = self.d
        if self.tkind in ('diag', 'lowrank_none'): z = list(v)
        else:
            c = z3.Sum([self.u[i].v * v[i] for i in range(d)]); z = [v[i] + self.u[i].v * (1 / self.ls.v - 1) * c for i in range(d)]
        return [z[i] / self.sigma[i].v for i in range(d)]

    def U(self, x): return z3.Function('U', *([z3.RealSort()] * (self.d + 1)))(*x)
    def G(self, x): return [z3.Function('G%d' % i, *([z3.RealSort()] * (self.d + 1)))(*x) for i in range(self.d)]

    def consistent_start(self, tag='', free=False):
        """a start state whose four coordinate arrays are mutually consistent under the transformation (what init_state / a previous leapfrog leave behind);
        free=True: all five arrays are independent symbols (used where consistency is not needed: keeps the queries linear)"""
        A = self.A; d = self.d; L = self.L
        y = [z3.Real('y%s_%d' % (tag, i)) for i in range(d)]; v = [z3.Real('v%s_%d' % (tag, i)) for i in range(d)]
        if free:
            x = [z3.Real('x%s_%d' % (tag, i)) for i in range(d)]; g = [z3.Real('g%s_%d' % (tag, i)) for i in range(d)]; tg = [z3.Real('tg%s_%d' % (tag, i)) for i in range(d)]
        else:
            x = self.F(y); g = self.G(x) if self.env.mode == 'uf' else [-xi for xi in x]
            tg = self.JT(g)
        m = self.m
        m2, h = self.se.new_state(m, self.math); self.m = m2
        pt = m2.mem[h.f[0].cell]; names = L.fields('TransformedPoint'); vals = {n: pt.f[i] for i, n in enumerate(names)}
        vals.update({'untransformed_position': Seq([Fl(t) for t in x]), 'untransformed_gradient': Seq([Fl(t) for t in g]), 'transformed_position': Seq([Fl(t) for t in y]),
                     'transformed_gradient': Seq([Fl(t) for t in tg]), 'velocity': Seq([Fl(t) for t in v])})
        logp = (z3.Real('logp' + tag) if free else self.U(x)) if self.env.mode == 'uf' else -z3.RealVal('1/2') * z3.Sum([xi * xi for xi in x])
        ke = z3.RealVal('1/2') * z3.Sum([vi * vi for vi in v])
        idx = z3.Int('idx' + tag)
        vals.update({'index_in_trajectory': idx, 'logp': Fl(logp), 'logdet': self.logdet, 'kinetic_energy': Fl(ke), 'initial_energy': A.fresh('E0' + tag), 'transform_id': self.tid})
        m2.mem[h.f[0].cell] = L.make('TransformedPoint', vals)
        m2.pc += [idx > -2 ** 40, idx < 2 ** 40]
        return h, {'y': y, 'v': v, 'x': x, 'g': g, 'tg': tg, 'idx': idx, 'logp': logp, 'ke': ke}

    def leapfrog(self, m, h, direction):
        lf = self.mir.method('TransformedHamiltonian', 'Hamiltonian', 'leapfrog'); A = self.A; vm = self.vm
        sc = m.alloc(h)
        args = [Ref(self.hc), self.math, Ref(sc), Enum(vm.enums['Direction'].index(direction), direction, (), 'Direction'), (self.eps if self.factor_mode else A.const(1.0)), A.fresh('baseline'), A.fresh('max_energy_error'), Ref(m.alloc(Opaque('coll')))]
        return list(vm.exec_fn(m, lf, args))

    def point(self, m, h):
        pt = m.mem[h.f[0].cell]; L = self.L
        out = {n: [t.v for t in L.get('TransformedPoint', pt, n).items] for n in POINT_VECS}
        for n in ('logp', 'logdet', 'kinetic_energy', 'initial_energy'): out[n] = L.get('TransformedPoint', pt, n).v
        out['idx'] = L.get('TransformedPoint', pt, 'index_in_trajectory'); out['tid'] = L.get('TransformedPoint', pt, 'transform_id')
        return out

def run(rep):
    mir = load_mir(rep); L = Layouts(REPO)
    dims = (1, 2) if rep.tier == 'quick' else (1, 2, 3)
    rep.bounds = {'dimension': list(dims), 'rank': '0 (diag, low-rank without / with empty inner) and 1', 'arithmetic': 'exact reals', 'kinetic energy': 'Euclidean and ExactNormal (Microcanonical: bookkeeping only, under C18)'}
    rep.assumptions += ['Math methods by their algebraic meaning (what C17 checks for the CPU backend); logp(x) = U(x) uninterpreted with uninterpreted gradient G(x)',
                        'low-rank factor: one unit eigenvector u (u.u = 1), sqrt-eigenvalue > 0 with vals_sqrt_inv = 1/vals_sqrt (representation invariant of InnerMatrix::new, not re-derived here), sigma > 0',
                        'diag scales established by the real DiagMassMatrix::set_transform (inv_stds = 1/stds)', 'sin^2 + cos^2 = 1 (ExactNormal)']
    rep.outside += ['O(eps^2) energy error (follows from (a) for the textbook scheme)', 'rank > 1, dimension above the bound', 'floating-point rounding', 'the ESH closed form']
    s = z3.Solver(); s.set('timeout', 120000)
    for d in dims:
        for tkind in ('diag', 'lowrank_none', 'lowrank1'):
            if tkind == 'lowrank1' and d < 2: continue
            leapfrog_textbook(rep, mir, L, d, tkind)
            transformation(rep, mir, L, d, tkind)
            init_trajectory(rep, mir, L, d, tkind)
    step_size_factor(rep, mir, L)
    microcanonical_bookkeeping(rep, mir, L)
    for d in dims: exact_normal(rep, mir, L, d)
    for d in dims:
        for tkind in ('diag', 'lowrank1'):
            if tkind == 'lowrank1' and d < 2: continue
            exact_normal_scheme(rep, mir, L, d, tkind)
    substeps(rep, mir, L)

def _check(rep, name, key, cons, describe, timeout=None):
    verdict, model = rep.check(name, cons, timeout_ms=timeout)
    if verdict == 'violated':
        md = {d.name(): str(model[d]) for d in model.decls() if d.arity() == 0}
        rep.violated(name, key, describe + ': ' + str(md)[:700], model=md)
    return verdict

def leapfrog_textbook(rep, mir, L, d, tkind):
    """(a1) the step in whitened coordinates from an arbitrary start (all arrays free symbols): linear queries;
    (a2) direct equivalence with the textbook leapfrog in the original space for M^-1 = F F^T (diag / rank 0; for rank 1 the same
    conclusion follows from (a1) + the transformation facts of C02.d: F affine with Jacobian J, J^T pull-back, J^-T J^T = id);
    (b) forward o backward = id."""
    for direction in ('Forward', 'Backward'):
        sign = 1 if direction == 'Forward' else -1
        tag = 'd=%d %s %s' % (d, tkind, direction)
        # ---- (a1) whitened-space scheme, free start
        S = Setup(mir, L, d, tkind, 'Euclidean'); A = S.A
        h, st = S.consistent_start(free=True); eps = sign * S.eps.v
        outs = S.leapfrog(S.m, h, direction); rep.paths += len(outs)
        oks = [(m, v) for (m, k, v) in outs if k == 'ret' and v.name == 'Ok']
        rep.cover('C02.a leapfrog has a feasible Ok path whose outputs are compared (%s)' % tag, bool(oks))
        if any(k == 'panic' for (_, k, _) in outs) or not oks:
            rep.violated('C02.a leapfrog reaches Ok (%s)' % tag, 'leapfrog.reach', 'leapfrog panics or never returns Ok: %s' % [(k, getattr(v, 'name', v)) for (_, k, v) in outs]); continue
        for (m, v) in oks:
            out = S.point(m, v.f[0]); pre = S.pre + m.pc
            vh = [st['v'][i] + eps / 2 * st['tg'][i] for i in range(d)]
            y1 = [st['y'][i] + eps * vh[i] for i in range(d)]
            x1 = S.F(y1); g1 = S.G(x1); tg1 = S.JT(g1)
            v1 = [vh[i] + eps / 2 * tg1[i] for i in range(d)]
            cons = [out['transformed_position'][i] != y1[i] for i in range(d)]
            _check(rep, 'C02.a whitened position y\' = y + eps (v + eps/2 grad_y) (%s)' % tag, 'leapfrog.position.%s' % tkind, pre + [z3.Or(*cons)], 'position step deviates from the leapfrog scheme (eps vs eps/2, sign, wrong array)')
            cons = [out['untransformed_position'][i] != x1[i] for i in range(d)] + [out['untransformed_gradient'][i] != g1[i] for i in range(d)] + [out['transformed_gradient'][i] != tg1[i] for i in range(d)] + [out['logp'] != S.U(x1)]
            _check(rep, 'C02.a new point evaluated at x\' = F(y\'): gradient G(x\'), pulled back by J^T, logp U(x\') (%s)' % tag, 'leapfrog.consistent.%s' % tkind, pre + [z3.Or(*cons)], 'density evaluated at the wrong point / gradient not pulled back')
            cons = [out['velocity'][i] != v1[i] for i in range(d)]
            _check(rep, 'C02.a velocity v\' = v + eps/2 grad_y(y) + eps/2 grad_y(y\') (%s)' % tag, 'leapfrog.momentum.%s' % tkind, pre + [z3.Or(*cons)], 'velocity half-steps deviate from the leapfrog scheme')
            E = z3.RealVal('1/2') * z3.Sum([t * t for t in out['velocity']]) - (out['logp'] + S.logdet.v)
            _check(rep, 'C02.a energy = 1/2|v|^2 - (logp + logdet), index advanced, ids kept (%s)' % tag, 'leapfrog.energy.%s' % tkind,
                   pre + [z3.Or(out['kinetic_energy'] - (out['logp'] + out['logdet']) != E, out['idx'] != st['idx'] + sign, out['tid'] != S.tid, out['initial_energy'] != z3.Real('E0'))], 'energy / bookkeeping of the new point wrong')
            if direction == 'Forward':
                # (b) reversibility from the produced state (consistent by the previous obligation)
                m2 = m.clone(); back = S.leapfrog(m2, v.f[0], 'Backward'); rep.paths += len(back)
                for (m3, k3, v3) in back:
                    if k3 != 'ret' or v3.name != 'Ok': continue
                    o2 = S.point(m3, v3.f[0])
                    # reversibility needs the start to be consistent in the one place the scheme reads it: grad_y(y) = J^T G(F(y))
                    hyp = [st['tg'][i] == S.JT(S.G(S.F(st['y'])))[i] for i in range(d)]
                    _check(rep, 'C02.b forward then backward step returns whitened position, velocity and index (%s)' % tag, 'leapfrog.reversible.%s' % tkind,
                           S.pre + m3.pc + hyp + [z3.Or(*([o2['transformed_position'][i] != st['y'][i] for i in range(d)] + [o2['velocity'][i] != st['v'][i] for i in range(d)] + [o2['idx'] != st['idx']]))],
                           'a forward step followed by a backward step does not return to the start', timeout=60000)
        rep.absorb_vm(S.vm)
        if d == 1 and tkind == 'diag' and direction == 'Forward': rep.sample({'query': 'C02.a ' + tag, 'y_after (code)': str(z3.simplify(out['transformed_position'][0]))[:300]})
        # ---- (a2) direct textbook equivalence in the original space
        if tkind == 'lowrank1': continue
        S = Setup(mir, L, d, tkind, 'Euclidean'); A = S.A
        h, st = S.consistent_start(); eps = sign * S.eps.v
        outs = S.leapfrog(S.m, h, direction); rep.paths += len(outs)
        # momentum p is the free variable and v = F^T p (every v is of this form: F^-T F^T = id is obligation C02.d); keeps the queries free of divisions
        p = [z3.Real('p0_%d' % i) for i in range(d)]; vdef = [st['v'][i] == S.JT(p)[i] for i in range(d)]; g0 = st['g']
        p_half = [p[i] + eps / 2 * g0[i] for i in range(d)]
        Minv_p = S.Jv(S.JT(p_half))
        x1 = [st['x'][i] + eps * Minv_p[i] for i in range(d)]
        g1 = S.G(x1); p1 = [p_half[i] + eps / 2 * g1[i] for i in range(d)]
        for (m, k, v) in outs:
            if k != 'ret' or v.name != 'Ok': continue
            out = S.point(m, v.f[0]); pre = S.pre + m.pc + vdef; v1_ref = S.JT(p1)
            vp = _check(rep, 'C02.a original-space position = textbook x + eps M^-1 p_half, M^-1 = F F^T (%s)' % tag, 'textbook.position.%s' % tkind, pre + [z3.Or(*[out['untransformed_position'][i] != x1[i] for i in range(d)])], 'position deviates from the textbook leapfrog', timeout=60000)
            # the position equality just proved is handed to the momentum query as a lemma (it lets congruence identify grad(x') in both schemes without non-linear reasoning)
            lemma = [out['untransformed_position'][i] == x1[i] for i in range(d)] if vp == 'holds' else []
            for i in range(d):     # one coordinate per query: the disjunction over coordinates made z3's non-linear search erratic
                _check(rep, 'C02.a original-space momentum, coordinate %d: v\' = F^T p\' with the textbook p\' = p_half + eps/2 grad(x\'), v = F^T p (%s)' % (i, tag), 'textbook.momentum.%s' % tkind, pre + lemma + [out['velocity'][i] != v1_ref[i]], 'momentum deviates from the textbook leapfrog', timeout=120000)
        rep.absorb_vm(S.vm)

def step_size_factor(rep, mir, L):
    """the step actually taken is step_size x step_size_factor (MCLMC retries pass factors 1/2, 1/4, ...): the same whitened-scheme obligations with the
    Hamiltonian's step size fixed to 1 and the factor symbolic"""
    for kk in ('Euclidean', 'ExactNormal'):
        for direction in ('Forward', 'Backward'):
            sign = 1 if direction == 'Forward' else -1; d = 1
            S = Setup(mir, L, d, 'diag', kk, factor_mode=True); A = S.A
            h, st = S.consistent_start(free=True); eps = sign * S.eps.v
            outs = S.leapfrog(S.m, h, direction); rep.paths += len(outs)
            oks = [(m, v) for (m, k, v) in outs if k == 'ret' and v.name == 'Ok']
            rep.cover('C02.f leapfrog with a symbolic step-size factor has a feasible Ok path (%s %s)' % (kk, direction), bool(oks))
            for (m, v) in oks:
                out = S.point(m, v.f[0]); pre = S.pre + m.pc
                if kk == 'Euclidean':
                    vh = [st['v'][i] + eps / 2 * st['tg'][i] for i in range(d)]; y1 = [st['y'][i] + eps * vh[i] for i in range(d)]
                    cons = [out['transformed_position'][i] != y1[i] for i in range(d)]
                else:
                    used = [(n, a, t) for (n, a, t) in A.used if n in ('sin', 'cos')]
                    cons = [used[0][1][0] != eps] if used else [z3.BoolVal(True)]
                _check(rep, 'C02.f the step taken is step_size x step_size_factor, signed by the direction (%s %s)' % (kk, direction), 'leapfrog.factor', pre + [z3.Or(*cons)], 'the effective step size is not step_size * step_size_factor')
            rep.absorb_vm(S.vm)

def microcanonical_bookkeeping(rep, mir, L):
    """Microcanonical kind (the ESH update itself is C18 / C17): the step is  ESH(eps sqrt(n)/2) - drift y' = y + eps sqrt(n) u - evaluate at F(y') - ESH(eps sqrt(n)/2),
    both ESH calls get the whitened gradient of the point they act on, and the kinetic energy of the new point is the old one plus the two reported changes"""
    d = 2
    for direction in ('Forward', 'Backward'):
        sign = 1 if direction == 'Forward' else -1
        S = Setup(mir, L, d, 'diag', 'Microcanonical'); A = S.A
        h, st = S.consistent_start(free=True); eps = sign * S.eps.v
        ke0 = z3.Real('ke_start'); pt = S.m.mem[h.f[0].cell]; names = L.fields('TransformedPoint'); vals = {n_: pt.f[i] for i, n_ in enumerate(names)}; vals['kinetic_energy'] = Fl(ke0); S.m.mem[h.f[0].cell] = L.make('TransformedPoint', vals)
        outs = S.leapfrog(S.m, h, direction); rep.paths += len(outs)
        oks = [(m, v) for (m, k, v) in outs if k == 'ret' and v.name == 'Ok']
        rep.cover('C02.g microcanonical leapfrog has a feasible Ok path (%s)' % direction, bool(oks))
        for (m, v) in oks:
            out = S.point(m, v.f[0]); pre = S.pre + m.pc; calls = m.ghost.get('esh_calls', [])
            if len(calls) != 2: rep.violated('C02.g two ESH half-steps (%s)' % direction, 'micro.esh_count', 'the microcanonical step makes %d ESH updates instead of 2' % len(calls)); continue
            (g1, u0, h1, u1, dk1), (g2, u1b, h2, u2, dk2) = calls
            sq = A.uf['sqrt'](z3.RealVal(d)); half = sq * eps / 2
            y1 = [st['y'][i] + eps * sq * u1[i] for i in range(d)]; x1 = S.F(y1); tg1 = S.JT(S.G(x1))
            _check(rep, 'C02.g first ESH half-step: whitened gradient and momentum of the start, step sqrt(n) eps / 2 (%s)' % direction, 'micro.first', pre + [z3.Or(h1 != half, *([g1[i] != st['tg'][i] for i in range(d)] + [u0[i] != st['v'][i] for i in range(d)]))], 'first ESH half-step gets the wrong gradient / momentum / step')
            _check(rep, 'C02.g drift y\' = y + sqrt(n) eps u and evaluation at F(y\') (%s)' % direction, 'micro.drift', pre + [z3.Or(*([out['transformed_position'][i] != y1[i] for i in range(d)] + [out['untransformed_position'][i] != x1[i] for i in range(d)] + [out['transformed_gradient'][i] != tg1[i] for i in range(d)]))], 'microcanonical drift / evaluation point wrong')
            _check(rep, 'C02.g second ESH half-step: gradient of the new point, momentum from the first half-step, same step (%s)' % direction, 'micro.second', pre + [z3.Or(h2 != half, *([g2[i] != tg1[i] for i in range(d)] + [u1b[i] != u1[i] for i in range(d)] + [out['velocity'][i] != u2[i] for i in range(d)]))], 'second ESH half-step gets the wrong gradient / momentum / step')
            _check(rep, 'C02.g kinetic energy of the new point = old + both reported ESH changes; index advanced (%s)' % direction, 'micro.energy', pre + [z3.Or(out['kinetic_energy'] != ke0 + dk1 + dk2, out['idx'] != st['idx'] + sign)], 'microcanonical kinetic-energy bookkeeping wrong (a reported ESH change dropped or subtracted)')
        rep.absorb_vm(S.vm)

def transformation(rep, mir, L, d, tkind):
    """bijection, gradient pull-back, log-determinant"""
    S = Setup(mir, L, d, tkind, 'Euclidean'); A = S.A; vm = S.vm; m = S.m
    if tkind == 'diag': _check(rep, 'C02.d DiagMassMatrix::set_transform bumps the transformation id (d=%d)' % d, 'transform.id', S.pre + S.m.pc + [S.diag_id_after != z3.Int('diag_id0') + 1], 'set_transform changes the transformation without changing its id: states keep stale whitened coordinates and no update event is reported')
    ty = 'DiagMassMatrix' if tkind == 'diag' else 'LowRankMassMatrix'
    tc = m.alloc(S.transformation)
    fwd = mir.method(ty, None, 'compute_untransformed_position'); inv = mir.method(ty, None, 'compute_transformed_position'); grad = mir.method(ty, None, 'compute_transformed_gradient')
    y = [A.fresh('ty_%d' % i) for i in range(d)]; x = [A.fresh('tx_%d' % i) for i in range(d)]; g = [A.fresh('tg_%d' % i) for i in range(d)]
    def call(fn, inp):
        mm = m.clone(); oc = mm.alloc(Seq([A.const(0.0)] * d))
        outs = vm.run(fn, [Ref(tc), S.math, Ref(mm.alloc(Seq(inp))), Ref(oc)], mm)
        (m2, k, v) = outs[0]; return m2, [t.v for t in m2.mem[oc].items]
    tag = 'd=%d %s' % (d, tkind)
    m1, Fy = call(fwd, y)
    _check(rep, 'C02.d forward map = sigma*(L y + mu_lr) + mean as documented (%s)' % tag, 'transform.forward.%s' % tkind, S.pre + [z3.Or(*[Fy[i] != S.F([t.v for t in y])[i] for i in range(d)])], 'forward map differs from the documented F(y)')
    # round trips through the real inverse
    mm = m1.clone(); oc = mm.alloc(Seq([A.const(0.0)] * d)); outs = vm.run(inv, [Ref(tc), S.math, Ref(mm.alloc(Seq([Fl(t) for t in Fy]))), Ref(oc)], mm); back = [t.v for t in outs[0][0].mem[oc].items]
    _check(rep, 'C02.d F^-1(F(y)) = y (%s)' % tag, 'transform.roundtrip.%s' % tkind, S.pre + [z3.Or(*[back[i] != y[i].v for i in range(d)])], 'transformation is not a bijection: inverse(forward(y)) != y')
    m2, Finv_x = call(inv, x)
    mm = m2.clone(); oc = mm.alloc(Seq([A.const(0.0)] * d)); outs = vm.run(fwd, [Ref(tc), S.math, Ref(mm.alloc(Seq([Fl(t) for t in Finv_x]))), Ref(oc)], mm); back2 = [t.v for t in outs[0][0].mem[oc].items]
    _check(rep, 'C02.d F(F^-1(x)) = x (%s)' % tag, 'transform.roundtrip2.%s' % tkind, S.pre + [z3.Or(*[back2[i] != x[i].v for i in range(d)])], 'transformation is not a bijection: forward(inverse(x)) != x')
    m3, tgr = call(grad, g)
    # pull-back = J_F^T g where J_F is the Jacobian of the *real* forward map: compare with directional derivative structure via the documented J
    _check(rep, 'C02.d pulled-back gradient = J_F^T grad (%s)' % tag, 'transform.gradient.%s' % tkind, S.pre + [z3.Or(*[tgr[i] != S.JT([t.v for t in g])[i] for i in range(d)])], 'gradient pull-back inconsistent with the forward map')
    # J_F really is the Jacobian of the forward map (affine): F(y + e) - F(y) = J_F e
    e = [A.fresh('te_%d' % i) for i in range(d)]
    m4, Fye = call(fwd, [A.add(y[i], e[i]) for i in range(d)])
    _check(rep, 'C02.d forward map is affine with Jacobian J_F (%s)' % tag, 'transform.jacobian.%s' % tkind, S.pre + [z3.Or(*[Fye[i] - Fy[i] != S.Jv([t.v for t in e])[i] for i in range(d)])], 'forward map Jacobian differs from J_F')
    # premises that turn the whitened-space scheme into the textbook one: J^T is the adjoint of J, and F^-T J^T = id
    gg = [t.v for t in g]; ee = [t.v for t in e]
    _check(rep, 'C02.d <J e, g> = <e, J^T g> (pull-back is the transpose of the Jacobian) (%s)' % tag, 'transform.adjoint.%s' % tkind,
           S.pre + [z3.Sum([S.Jv(ee)[i] * gg[i] for i in range(d)]) != z3.Sum([ee[i] * S.JT(gg)[i] for i in range(d)])], 'gradient pull-back is not the transpose of the forward Jacobian')
    _check(rep, 'C02.d F^-T (J^T g) = g (momentum map p = F^-T v inverts the pull-back) (%s)' % tag, 'transform.invT.%s' % tkind,
           S.pre + [z3.Or(*[S.JinvT(S.JT(gg))[i] != gg[i] for i in range(d)])], 'F^-T is not the inverse of J^T', timeout=60000)
    # log-determinant: diag part = -sum ln sigma
    ln = A.uf['ln']; ax = [ln(1 / s.v) == -ln(s.v) for s in S.sigma]
    _check(rep, 'C02.d diagonal log-determinant = -sum ln(sigma) (%s)' % tag, 'transform.logdet.%s' % tkind, S.pre + ax + [S.logdet_diag.v != -z3.Sum([ln(s.v) for s in S.sigma])], 'log-determinant of the diagonal part wrong')
    rep.axioms.append('ln(1/s) = -ln(s) for s > 0 (instances on sigma)')
    rep.absorb_vm(vm)

def init_trajectory(rep, mir, L, d, tkind):
    """initialize_trajectory: index 0, initial_energy = energy of the (possibly re-normalised) point, whitened coordinates recomputed with the
    current transformation iff the id differs (compared with the real compute_transformed_* functions, which C02.d checks)"""
    ty = 'DiagMassMatrix' if tkind == 'diag' else 'LowRankMassMatrix'
    for same_id in (True, False):
        S = Setup(mir, L, d, tkind, 'Euclidean'); A = S.A; vm = S.vm
        h, st = S.consistent_start(free=True)
        m = S.m; cell = h.f[0].cell; pt = m.mem[cell]
        if not same_id:
            vals = {n: pt.f[i] for i, n in enumerate(L.fields('TransformedPoint'))}
            vals.update({'logdet': A.fresh('stale_logdet'), 'transform_id': z3.Int('stale_id')})
            m.mem[cell] = L.make('TransformedPoint', vals); m.pc.append(z3.Int('stale_id') != S.tid)
        # what the current transformation makes of (x, g)
        tc = m.alloc(S.transformation)
        def call(fn, inp):
            mm = m.clone(); oc = mm.alloc(Seq([A.const(0.0)] * d))
            o = vm.run(fn, [Ref(tc), S.math, Ref(mm.alloc(Seq([Fl(t) for t in inp]))), Ref(oc)], mm); return [t.v for t in o[0][0].mem[oc].items]
        want_tp = call(mir.method(ty, None, 'compute_transformed_position'), st['x']) if not same_id else st['y']
        want_tg = call(mir.method(ty, None, 'compute_transformed_gradient'), st['g']) if not same_id else st['tg']
        fn = mir.method('TransformedHamiltonian', 'Hamiltonian', 'initialize_trajectory')
        sc = m.alloc(h)
        for resample in (True, False):
            mm = m.clone()
            outs = vm.run(fn, [Ref(S.hc), S.math, Ref(sc), resample, Ref(mm.alloc(Opaque('rng')))], mm); rep.paths += len(outs)
            tag = 'd=%d %s id %s resample=%s' % (d, tkind, 'same' if same_id else 'changed', resample)
            for (m2, k, v) in outs:
                if k != 'ret' or v.name != 'Ok': rep.violated('C02.f initialize_trajectory returns Ok (%s)' % tag, 'init_traj.reach', 'initialize_trajectory fails: %s %s' % (k, v)); continue
                o = S.point(m2, h)
                ke = z3.RealVal('1/2') * z3.Sum([t * t for t in o['velocity']])
                cons = [o['idx'] != 0, o['kinetic_energy'] != ke, o['initial_energy'] != o['kinetic_energy'] - (o['logp'] + o['logdet']), o['tid'] != S.tid, o['logdet'] != S.logdet.v]
                cons += [o['transformed_gradient'][i] != want_tg[i] for i in range(d)] + [o['transformed_position'][i] != want_tp[i] for i in range(d)]
                cons += [o['untransformed_position'][i] != st['x'][i] for i in range(d)] + [o['untransformed_gradient'][i] != st['g'][i] for i in range(d)] + [o['logp'] != st['logp']]
                if not resample: cons += [o['velocity'][i] != st['v'][i] for i in range(d)]
                _check(rep, 'C02.f initialize_trajectory: index 0, initial_energy = 1/2|v|^2 - (logp + current logdet), whitened coordinates those of the current transformation (%s)' % tag,
                       'init_traj.%s' % tkind, S.pre + m2.pc + [z3.Or(*cons)], 'trajectory start inconsistent (stale energy / log-determinant / coordinates)')
                if resample:
                    ev = [e for e in m2.ghost.get('events', []) if e[0] == 'array_gaussian']
                    if len(ev) != 1 or any(sd != '1' for sd in ev[0][1]): rep.violated('C02.f momentum ~ N(0, I) (%s)' % tag, 'init_traj.gaussian', 'momentum not drawn once through array_gaussian(ones): %s' % ev)
                    if any(e[0] == 'array_normalize' for e in m2.ghost.get('events', [])): rep.violated('C02.f Gaussian momentum is not normalised for the Euclidean kind (%s)' % tag, 'init_traj.gaussian', 'the Euclidean kinetic energy gets a momentum projected to the unit sphere')
        rep.absorb_vm(vm)
    if tkind != 'diag' or d != 2: return
    # Microcanonical kind: fresh momentum = Gaussian draw projected to the unit sphere, accumulated kinetic-energy change reset to 0
    S = Setup(mir, L, d, tkind, 'Microcanonical'); A = S.A; vm = S.vm
    h, st = S.consistent_start(free=True); m = S.m; sc = m.alloc(h); fn = mir.method('TransformedHamiltonian', 'Hamiltonian', 'initialize_trajectory')
    outs = vm.run(fn, [Ref(S.hc), S.math, Ref(sc), True, Ref(m.alloc(Opaque('rng')))], m); rep.paths += len(outs)
    for (m2, k, v) in outs:
        if k != 'ret' or v.name != 'Ok': rep.violated('C02.f microcanonical initialize_trajectory returns Ok', 'init_traj.reach', 'initialize_trajectory fails: %s %s' % (k, v)); continue
        o = S.point(m2, h); names = [e[0] for e in m2.ghost.get('events', [])]; units = m2.ghost.get('unit_vectors', [])
        if names.count('array_gaussian') != 1 or names.count('array_normalize') != 1 or names.index('array_gaussian') > names.index('array_normalize') or not units or not all(a_.eq(b_) for a_, b_ in zip(o['velocity'], units[-1])):
            rep.violated('C02.f microcanonical momentum = normalised Gaussian draw', 'init_traj.microcanonical', 'the microcanonical trajectory does not start from a Gaussian draw projected to the unit sphere (events %s)' % names)
        _check(rep, 'C02.f microcanonical initialize_trajectory: accumulated kinetic energy 0, initial_energy = -(logp + logdet), index 0', 'init_traj.microcanonical', S.pre + m2.pc + [z3.Or(o['kinetic_energy'] != 0, o['initial_energy'] != -(o['logp'] + o['logdet']), o['idx'] != 0)], 'microcanonical trajectory start inconsistent')
    rep.absorb_vm(vm)

def exact_normal(rep, mir, L, d):
    """ExactNormal integrator on a standard normal with the identity transformation conserves energy exactly"""
    S = Setup(mir, L, d, 'diag', 'ExactNormal', logp_mode='normal'); A = S.A
    h, st = S.consistent_start()
    ident = [s.v == 1 for s in S.sigma] + [mu.v == 0 for mu in S.mu]
    for direction in ('Forward', 'Backward'):
        mm = S.m.clone(); outs = S.leapfrog(mm, h, direction); rep.paths += len(outs)
        for (m, k, v) in outs:
            if k != 'ret' or v.name != 'Ok': continue
            o = S.point(m, v.f[0]); sin, cos = A.uf['sin'], A.uf['cos']
            ax = []
            for (n, args, term) in A.used:
                if n == 'sin': ax.append(term * term + cos(args[0]) * cos(args[0]) == 1)
            E1 = o['kinetic_energy'] - (o['logp'] + o['logdet']); E0 = st['ke'] - (st['logp'] + S.logdet.v)
            # the identity transformation is substituted (sigma = 1, mu = 0) instead of being handed over as equations: what is left is a polynomial
            # identity in the state and in sin / cos of the step with sin^2 + cos^2 = 1, which no longer depends on the solver's luck
            sub = [(x.v, z3.RealVal(1)) for x in S.sigma] + [(x.v, z3.RealVal(0)) for x in S.mu]
            cons = [z3.simplify(z3.substitute(c_, *sub)) for c_ in (S.pre + m.pc + ax + [E1 != E0]) if z3.is_expr(c_)] + [c_ for c_ in (S.pre + m.pc) if not z3.is_expr(c_)]
            _check(rep, 'C02.e ExactNormal conserves energy exactly on a standard normal (d=%d %s)' % (d, direction), 'exact_normal.energy', cons, 'ExactNormal integrator changes the energy on a standard-normal target', timeout=240000)
    rep.axioms.append('sin(t)^2 + cos(t)^2 = 1 on the occurring arguments'); rep.absorb_vm(S.vm)

def exact_normal_scheme(rep, mir, L, d, tkind):
    """ExactNormal kind with an arbitrary transformation and density: the step is  kick(eps/2) o rotation(eps) o kick(eps/2)  in whitened
    coordinates with the residual force  y + grad_y  (the N(0, I) part is integrated exactly by the rotation), the new point is evaluated at
    x' = F(y'), and a forward step followed by a backward step returns the start."""
    for direction in ('Forward', 'Backward'):
        sign = 1 if direction == 'Forward' else -1
        tag = 'd=%d %s %s' % (d, tkind, direction)
        S = Setup(mir, L, d, tkind, 'ExactNormal'); A = S.A
        h, st = S.consistent_start(free=True); eps = sign * S.eps.v
        outs = S.leapfrog(S.m, h, direction); rep.paths += len(outs)
        oks = [(m, v) for (m, k, v) in outs if k == 'ret' and v.name == 'Ok']
        rep.cover('C02.e2 ExactNormal leapfrog has a feasible Ok path whose outputs are compared (%s)' % tag, bool(oks))
        if any(k == 'panic' for (_, k, _) in outs) or not oks:
            rep.violated('C02.e2 ExactNormal leapfrog reaches Ok (%s)' % tag, 'exact_normal.reach', 'ExactNormal leapfrog panics or never returns Ok'); continue
        sin, cos = A.uf['sin'], A.uf['cos']
        def trig_ax():
            ax = []
            for (n, args, term) in list(A.used):
                if n in ('sin', 'cos'):
                    t = args[0]; ax += [sin(t) * sin(t) + cos(t) * cos(t) == 1, sin(-t) == -sin(t), cos(-t) == cos(t)]
            return ax
        for (m, v) in oks:
            out = S.point(m, v.f[0]); pre = S.pre + m.pc
            used = [(n, a, t) for (n, a, t) in A.used if n in ('sin', 'cos')]
            if not used: rep.violated('C02.e2 rotation present (%s)' % tag, 'exact_normal.scheme', 'ExactNormal step contains no rotation'); continue
            e_code = used[0][1][0]; sn, cs = sin(e_code), cos(e_code)
            vh = [st['v'][i] + eps / 2 * (st['y'][i] + st['tg'][i]) for i in range(d)]
            y1 = [st['y'][i] * cs + vh[i] * sn for i in range(d)]; vr = [-st['y'][i] * sn + vh[i] * cs for i in range(d)]
            x1 = S.F(y1); g1 = S.G(x1); tg1 = S.JT(g1)
            v1 = [vr[i] + eps / 2 * (y1[i] + tg1[i]) for i in range(d)]
            _check(rep, 'C02.e2 ExactNormal: rotation angle = signed step size; y\' = y cos + v_half sin with v_half = v + eps/2 (y + grad_y) (%s)' % tag, 'exact_normal.position.%s' % tkind,
                   pre + [z3.Or(e_code != eps, *[out['transformed_position'][i] != y1[i] for i in range(d)])], 'ExactNormal position update deviates from kick-rotate-kick')
            cons = [out['untransformed_position'][i] != x1[i] for i in range(d)] + [out['untransformed_gradient'][i] != g1[i] for i in range(d)] + [out['transformed_gradient'][i] != tg1[i] for i in range(d)] + [out['logp'] != S.U(x1)]
            _check(rep, 'C02.e2 ExactNormal: new point evaluated at x\' = F(y\') (%s)' % tag, 'exact_normal.consistent.%s' % tkind, pre + [z3.Or(*cons)], 'ExactNormal: density evaluated at the wrong point / gradient not pulled back')
            _check(rep, 'C02.e2 ExactNormal: v\' = rotated velocity + eps/2 (y\' + grad_y(y\')) (residual force in whitened coordinates) (%s)' % tag, 'exact_normal.momentum.%s' % tkind,
                   pre + [z3.Or(*[out['velocity'][i] != v1[i] for i in range(d)])], 'ExactNormal second half-kick deviates from eps/2 (y\' + grad_y(y\')) in whitened coordinates')
            E = z3.RealVal('1/2') * z3.Sum([t * t for t in out['velocity']]) - (out['logp'] + S.logdet.v)
            _check(rep, 'C02.e2 ExactNormal: energy = 1/2|v|^2 - (logp + logdet), index advanced (%s)' % tag, 'exact_normal.energy_def.%s' % tkind,
                   pre + [z3.Or(out['kinetic_energy'] - (out['logp'] + out['logdet']) != E, out['idx'] != st['idx'] + sign)], 'ExactNormal energy / bookkeeping of the new point wrong')
        rep.absorb_vm(S.vm)
    if tkind != 'diag': return
    # reversibility: the code equals the scheme Phi_eps from ANY start and for both signs (obligations above), so forward-then-backward is
    # Phi_-eps o Phi_eps on the scheme; T1 stands for grad_y at the intermediate point (same value in both steps: same point), and the
    # backward step's gradient at its end point y2 is grad_y(y) once y2 = y (stage 1) by congruence.
    y = [z3.Real('ry_%d' % i) for i in range(d)]; v = [z3.Real('rv_%d' % i) for i in range(d)]; tg = [z3.Real('rtg_%d' % i) for i in range(d)]; T1 = [z3.Real('rT1_%d' % i) for i in range(d)]
    e, sn, cs = z3.Real('reps'), z3.Real('rsin'), z3.Real('rcos'); circ = [sn * sn + cs * cs == 1]
    vh = [v[i] + e / 2 * (y[i] + tg[i]) for i in range(d)]; y1 = [y[i] * cs + vh[i] * sn for i in range(d)]; vr = [-y[i] * sn + vh[i] * cs for i in range(d)]
    v1 = [vr[i] + e / 2 * (y1[i] + T1[i]) for i in range(d)]
    # backward: eps -> -eps, sin -> -sin, cos -> cos
    bh = [v1[i] - e / 2 * (y1[i] + T1[i]) for i in range(d)]; y2 = [y1[i] * cs - bh[i] * sn for i in range(d)]; br = [y1[i] * sn + bh[i] * cs for i in range(d)]
    v2 = [br[i] - e / 2 * (y2[i] + tg[i]) for i in range(d)]
    _check(rep, 'C02.e2 kick-rotate-kick scheme: backward after forward returns the position (sin^2+cos^2=1, sin odd, cos even) (d=%d)' % d, 'exact_normal.reversible', circ + [z3.Or(*[y2[i] != y[i] for i in range(d)])], 'ExactNormal scheme not reversible in position', timeout=60000)
    _check(rep, 'C02.e2 kick-rotate-kick scheme: backward after forward returns the velocity (d=%d)' % d, 'exact_normal.reversible', circ + [y2[i] == y[i] for i in range(d)] + [z3.Or(*[v2[i] != v[i] for i in range(d)])], 'ExactNormal scheme not reversible in velocity', timeout=60000)

def substeps(rep, mir, L):
    """each sub-step is a shear: the velocity increment does not depend on the velocity, the position increment not on the position"""
    d = 2
    for kk in ('Euclidean', 'ExactNormal'):
        S = Setup(mir, L, d, 'diag', kk); A = S.A; vm = S.vm
        f1 = mir.method('TransformedPoint', None, 'first_velocity_halfstep'); f2 = mir.method('TransformedPoint', None, 'position_step')
        en = vm.enums['KineticEnergyKind']; kind = Enum(en.index(kk), kk, (), 'KineticEnergyKind')
        res = []
        for tag in ('a', 'b'):
            S.m = S.m.clone()
            h, st = S.consistent_start(tag); m = S.m
            m, ho = S.se.new_state(m, S.math)
            outs = vm.run(f1, [h.f[0], S.math, ho.f[0], S.eps, kind], m); m1 = outs[0][0]
            vh = [t.v for t in L.get('TransformedPoint', m1.mem[ho.f[0].cell], 'velocity').items]
            res.append((st, vh, m1))
        (sa, va, ma), (sb, vb, mb) = res
        same_pos = [sa['y'][i] == sb['y'][i] for i in range(d)]
        _check(rep, 'C02.c first half-step is a shear: velocity increment independent of the velocity (%s)' % kk, 'shear.velocity.%s' % kk,
               S.pre + ma.pc + mb.pc + same_pos + [z3.Or(*[va[i] - sa['v'][i] != vb[i] - sb['v'][i] for i in range(d)])], 'velocity half-step is not a shear')
        rep.absorb_vm(vm)
