"""C17 - SIMD kernels of src/math/util.rs against the scalar formula, for every length 0..=130 and
lane counts {2,4,8} (DESIGN section 4, C17).  The real `WithSimd::with_simd` bodies and all their closures are executed from
the MIR; pulp::Simd is the environment (lane-wise semantics)."""
import time, os, re, multiprocessing as mp
import z3
from ..vm import VM, Machine, Struct, Seq, Ref, SliceRef, Opaque, UNIT
from ..alg import RealAlg, AbsAlg, ConcAlg, FP64Alg, Fl
from ..layout import Layouts
from ..iters import install_simd
from ..driver import load_mir, REPO, dump_mir
from ..mir import Mir

GUARD = 2
# kernel -> (struct name, slice fields in order [(field, role)], scalar fields, outputs)
KERNELS = {
    'Multiply': dict(slices=['x', 'y', 'out'], scalars=[], outs=['out']),
    'MultiplyInplace': dict(slices=['x', 'out'], scalars=[], outs=['out']),
    'ScalarProds2': dict(slices=['positive1', 'positive2', 'x', 'y'], scalars=[], outs=[]),
    'ScalarProds3': dict(slices=['positive1', 'negative1', 'positive2', 'x', 'y'], scalars=[], outs=[]),
    'VectorDot': dict(slices=['x', 'y'], scalars=[], outs=[]),
    'Axpy': dict(slices=['x', 'y'], scalars=['a'], outs=['y']),
    'AxpyOut': dict(slices=['x', 'y', 'out'], scalars=['a'], outs=['out']),
    'StdNormFlow': dict(slices=['pos', 'pos_out', 'vel'], scalars=['eps_sin', 'eps_cos'], outs=['pos_out', 'vel']),
    'StdNormGradFlow': dict(slices=['pos', 'grad', 'vel', 'vel_out'], scalars=['epsilon'], outs=['vel_out']),
    'StdNormGradFlowInplace': dict(slices=['pos', 'grad', 'vel'], scalars=['epsilon'], outs=['vel']),
}

def reference(A, k, i, inp, sc):
    """allowed IEEE expression shapes of output element i (first = the documented scalar formula); under R they coincide"""
    g = lambda f: inp[f][i]
    if k == 'Multiply': return {'out': [A.mul(g('x'), g('y'))]}
    if k == 'MultiplyInplace': return {'out': [A.mul(g('x'), g('out'))]}
    if k == 'Axpy': return {'y': [A.fma(sc['a'], g('x'), g('y'))]}
    if k == 'AxpyOut': return {'out': [A.fma(sc['a'], g('x'), g('y'))]}
    if k == 'StdNormFlow':
        s, c = sc['eps_sin'], sc['eps_cos']; p, v = g('pos'), g('vel')
        return {'pos_out': [A.add(A.mul(p, c), A.mul(v, s)), A.fma(p, c, A.mul(v, s))],
                'vel': [A.add(A.mul(p, A.neg(s)), A.mul(v, c)), A.fma(p, A.neg(s), A.mul(v, c))]}
    if k == 'StdNormGradFlow':
        e = sc['epsilon']; p, gr, v = g('pos'), g('grad'), g('vel')
        return {'vel_out': [A.add(v, A.mul(e, A.add(p, gr))), A.fma(e, A.add(p, gr), v)]}
    if k == 'StdNormGradFlowInplace':
        e = sc['epsilon']; p, gr, v = g('pos'), g('grad'), g('vel')
        return {'vel': [A.add(v, A.mul(e, A.add(p, gr))), A.fma(e, A.add(p, gr), v)]}
    raise KeyError(k)

def red_terms(A, k, i, inp):
    """(weight term alternatives, partner) per reduction output for index i"""
    g = lambda f: inp[f][i]
    if k == 'VectorDot': return [([g('x')], g('y'))]
    if k == 'ScalarProds2':
        w = [A.add(g('positive1'), g('positive2'))]; return [(w, g('x')), (w, g('y'))]
    if k == 'ScalarProds3':
        w = [A.add(A.sub(g('positive1'), g('negative1')), g('positive2')), A.sub(A.add(g('positive1'), g('positive2')), g('negative1'))]
        return [(w, g('x')), (w, g('y'))]
    raise KeyError(k)

def build(vm, L, k, n, A, conc=None):
    spec = KERNELS[k]; m = Machine(); inp = {}; cells = {}
    for f in spec['slices']:
        vals = [A.fresh('%s_%d' % (f, i)) if conc is None else Fl(conc[f][i]) for i in range(n + GUARD)]
        inp[f] = vals; cells[f] = m.alloc(Seq(vals))
    sc = {f: (A.fresh(f) if conc is None else Fl(conc[f])) for f in spec['scalars']}
    vals = {f: SliceRef(cells[f], (), 0, n) for f in spec['slices']}; vals.update(sc)
    return m, inp, sc, cells, L.make(k, vals)

def fn_of(mir, L, k):
    hits = [n for (ty, tr, me), ns in mir.index().items() if ty == k and tr == 'WithSimd' and me == 'with_simd' for n in ns]
    if len(hits) != 1: raise KeyError('with_simd of %s: %d' % (k, len(hits)))
    return mir.get(hits[0])

def comm_norm(t):
    """canonical argument order for the commutative IEEE operations of the ABS policy (x + y = y + x, x * y = y * x, fma(x, y, z) = fma(y, x, z) hold
    bit for bit in IEEE-754, NaN payloads aside): two kernels that differ only in the order of such operands compute the same doubles"""
    if t.num_args() == 0: return t
    args = [comm_norm(t.arg(i)) for i in range(t.num_args())]; nm = t.decl().name()
    if nm in ('f_add', 'f_mul') and len(args) == 2: args = sorted(args, key=str)
    elif nm == 'f_fma' and len(args) == 3: args = sorted(args[:2], key=str) + [args[2]]
    return t.decl()(*args)

def sum_leaves(t, zero_names):
    """flatten an ABS-policy reduction result into (product leaves, ok) - only add/fma/mul nodes allowed"""
    leaves = []; ok = True; stack = [t]
    while stack:
        t = stack.pop(); nm = t.decl().name()
        if nm == 'f_add': stack += [t.arg(0), t.arg(1)]
        elif nm == 'f_fma': leaves.append((t.arg(0), t.arg(1))); stack.append(t.arg(2))
        elif nm == 'f_mul': leaves.append((t.arg(0), t.arg(1)))
        elif nm in zero_names: pass
        else: ok = False
    return leaves, ok

def one(mirpath, k, lanes, ns):
    """worker: all lengths for one kernel x lane count; returns dict of results"""
    mir = Mir(mirpath, REPO); L = Layouts(REPO); fn = fn_of(mir, L, k); spec = KERNELS[k]
    res = {'k': k, 'L': lanes, 'queries': 0, 'bad': [], 'stmts': 0, 'fns': set(), 'solver_s': 0.0, 'err': None, 'sample': None, 'panics': 0}
    try:
        for n in ns:
            for pol in ('R', 'ABS'):
                A = RealAlg() if pol == 'R' else AbsAlg(); vm = VM(mir, A); install_simd(vm, lanes)
                m, inp, sc, cells, kv = build(vm, L, k, n, A)
                outs = vm.merge_outcomes(vm.run(fn, [kv, Opaque('simd')], m))
                res['stmts'] += vm.nstmt; res['fns'] |= vm.fns_used
                if len(outs) != 1 or outs[0][1] != 'ret':
                    res['panics'] += 1; res['bad'].append({'n': n, 'L': lanes, 'policy': pol, 'what': 'panic or fork', 'detail': str([o[1:] for o in outs])[:300]}); continue
                m2, _, rv = outs[0]
                bad = []; what = []
                if spec['outs']:
                    for f in spec['slices']:
                        after = m2.mem[cells[f]].items
                        for i in range(n + GUARD):
                            if f in spec['outs'] and i < n:
                                ref = reference(A, k, i, inp, sc)[f]
                                if pol == 'R': bad.append(after[i].v != ref[0].v)
                                else:
                                    if not any(z3.eq(after[i].v, r.v) for r in ref) and not any(z3.eq(comm_norm(after[i].v), comm_norm(r.v)) for r in ref): bad.append(z3.And(*[after[i].v != r.v for r in ref]))
                            else:
                                if not z3.eq(after[i].v, inp[f][i].v): bad.append(after[i].v != inp[f][i].v)
                else:
                    rs = [rv] if isinstance(rv, Fl) else list(rv.f)
                    # inputs must be untouched
                    for f in spec['slices']:
                        after = m2.mem[cells[f]].items
                        for i in range(n + GUARD):
                            if not z3.eq(after[i].v, inp[f][i].v): bad.append(after[i].v != inp[f][i].v)
                    terms = [red_terms(A, k, i, inp) for i in range(n)]
                    for j, r in enumerate(rs):
                        if pol == 'R':
                            tot = z3.Sum([terms[i][j][0][0].v * terms[i][j][1].v for i in range(n)]) if n else z3.RealVal(0)
                            bad.append(r.v != tot)
                        else:
                            zero = A.const(0.0).v.decl().name()
                            leaves, ok = sum_leaves(r.v, {zero})
                            exp = [(set(str(w.v) for w in terms[i][j][0]), str(terms[i][j][1].v)) for i in range(n)]
                            got = [(str(a), str(b)) for (a, b) in leaves]
                            good = ok and len(got) == len(exp)
                            if good:
                                rem = list(exp)
                                for (a, b) in got:
                                    hit = next((e for e in rem if (a in e[0] and b == e[1]) or (b in e[0] and a == e[1])), None)
                                    if hit is None: good = False; break
                                    rem.remove(hit)
                            if not good: bad.append(z3.BoolVal(True)); what.append('term multiset of output %d differs: got %d leaves, structural ok=%s' % (j, len(got), ok))
                res['queries'] += 1
                if bad:
                    s = z3.Solver(); s.set('timeout', 120000); s.add(z3.Or(*bad)); t0 = time.time(); r = s.check(); res['solver_s'] += time.time() - t0
                    if r != z3.unsat:
                        md = {}
                        if r == z3.sat:
                            mdl = s.model(); md = {d.name(): str(mdl[d]) for d in mdl.decls()}
                        res['bad'].append({'n': n, 'L': lanes, 'policy': pol, 'what': '; '.join(what) or ('solver: %s' % r), 'model': md, 'verdict': str(r)})
                if res['sample'] is None and n == 5 and pol == 'ABS' and spec['outs']:
                    f = spec['outs'][0]; res['sample'] = {'kernel': k, 'lanes': lanes, 'n': n, 'out[%s][4]' % f: str(m2.mem[cells[f]].items[4].v)}
    except Exception as e:
        import traceback
        res['err'] = '%s: %s | %s' % (type(e).__name__, str(e)[:300], ' <- '.join(l.strip() for l in traceback.format_exc().split('\n') if l.strip().startswith('File'))[-600:])
    res['fns'] = sorted(res['fns'])
    return res

def run(rep):
    mir = load_mir(rep); mirpath = mir.path
    nmax = 130
    rep.bounds = {'lengths': '0..=%d (each a concrete length, all element values symbolic)' % nmax, 'lanes': [2, 4, 8], 'guard_elements_past_end': GUARD,
                  'policies': 'R (exact reals) and ABS (uninterpreted IEEE ops: same expression => same bits, NaN/inf included)'}
    rep.assumptions += ['pulp::Simd is modelled lane-wise (as_simd_f64s = floor(n/L) vectors + scalar tail, as_arrays::<4>, splat, add/sub/mul, mul_add(_e) = one fused fma symbol, reduce_sum pairwise); the x86 intrinsics behind V3/V4 are trusted',
                        'element-wise kernels: output element must be one of the listed IEEE expression shapes (fused or unfused form of the documented formula) - both are "the scalar formula up to rounding"',
                        'reductions: exact equality with the sum of scalar terms over the reals + the leaves of the add/fma tree are exactly the expected products (so a NaN/inf term reaches the result through additions only)',
                        'alignment: pulp splits by length only']
    rep.outside += ['apply_lowrank_transform*, array_mult_eigs, array_gaussian_eigs (faer matmul)', 'hardware intrinsics', 'floating-point summation error bound']
    jobs = [(mirpath, k, lanes, list(range(0, nmax + 1))) for k in KERNELS for lanes in (2, 4, 8)]
    with mp.Pool(min(16, os.cpu_count() or 4)) as pool:
        results = pool.starmap(one, jobs)
    for r in results:
        name = 'C17 %s lanes=%d n=0..%d' % (r['k'], r['L'], nmax)
        rep.stmts += r['stmts']; rep.functions |= set(r['fns']); rep.solver_s += r['solver_s']; rep.paths += r['queries']
        if r['err']: rep.unknown(name, r['err']); continue
        if r['sample']: rep.sample(r['sample'])
        if r['bad']:
            b = r['bad'][0]
            if b.get('verdict') == 'unknown': rep.unknown(name, str(b)); continue
            conf = native_confirm(mir, r['k'], b)
            rep.violated(name, 'kernel.%s' % r['k'], 'kernel %s differs from the scalar formula first at lanes=%d n=%d (%s policy): %s' % (r['k'], b['L'], b['n'], b['policy'], b['what']),
                         model=b.get('model'), native=conf, extra={'all_failing': [(x['L'], x['n'], x['policy']) for x in r['bad']][:40]})
        else:
            rep.holds(name + ' (%d queries)' % r['queries'], r['solver_s'])
    rep.cover('C17 4x unrolled body entered (n >= 4*lanes)', nmax >= 32)
    validate(rep, mir)
    from ..driver import parts
    parts(rep, [lambda: cpumath_meaning(rep, mir), lambda: lowrank_meaning(rep, mir)])

def conc_run(mir, k, lanes, n, conc):
    L = Layouts(REPO); C = ConcAlg(); vm = VM(mir, C); install_simd(vm, lanes)
    m, inp, sc, cells, kv = build(vm, L, k, n, C, conc)
    outs = vm.run(fn_of(mir, L, k), [kv, Opaque('simd')], m)
    m2, kind, rv = outs[0]
    return {f: [x.v for x in m2.mem[cells[f]].items] for f in KERNELS[k]['slices']}, rv

def native_confirm(mir, k, b):
    """no native driver yet for private kernels; concrete VM replay of the model under python doubles"""
    return None

def validate(rep, mir):
    """translator validation against the scalar formulas in python doubles on seeded inputs (concrete VM run)"""
    import random, math
    rnd = random.Random(rep.seed)
    cnt = 12 if rep.tier == 'quick' else 120
    for t in range(cnt):
        k = rnd.choice(list(KERNELS)); lanes = rnd.choice([2, 4, 8]); n = rnd.randint(0, 40); spec = KERNELS[k]
        conc = {f: [rnd.uniform(-3, 3) for _ in range(n + GUARD)] for f in spec['slices']}
        for f in spec['scalars']: conc[f] = rnd.uniform(-2, 2)
        try:
            after, rv = conc_run(mir, k, lanes, n, conc)
        except Exception as e:
            rep.errors.append('concrete run failed: %s %s' % (k, e)); return
        C = ConcAlg(); ok = True
        if spec['outs']:
            for i in range(n):
                inp = {f: [Fl(x) for x in conc[f]] for f in spec['slices']}; sc = {f: Fl(conc[f]) for f in spec['scalars']}
                ref = reference(C, k, i, inp, sc)
                for f in spec['outs']:
                    if not any(abs(after[f][i] - r.v) <= 1e-12 * max(1.0, abs(r.v)) for r in ref[f]): ok = False
        else:
            rs = [rv.v] if isinstance(rv, Fl) else [x.v for x in rv.f]
            inp = {f: [Fl(x) for x in conc[f]] for f in spec['slices']}
            for j, r in enumerate(rs):
                tot = math.fsum(red_terms(C, k, i, inp)[j][0][0].v * red_terms(C, k, i, inp)[j][1].v for i in range(n))
                if abs(r - tot) > 1e-9 * max(1.0, abs(tot)): ok = False
        rep.validated += 1
        if not ok: rep.validation_mismatch.append({'kernel': k, 'lanes': lanes, 'n': n})
    if rep.validation_mismatch: rep.errors.append('translator validation mismatch on kernels')

# ------------------------------------------------------------------------------------------------
def cpumath_meaning(rep, mir):
    """C17.B: every `impl Math for CpuMath` method (dispatch layer + non-SIMD helpers) computes the algebraic meaning that the other checks
    assume for the Math environment (mathenv.MathEnv): the real method is executed from the MIR on vectors of length n with symbolic entries and
    compared with the environment model applied to the same arguments."""
    from ..mathenv import MathEnv
    from .. import cpuenv
    L = Layouts(REPO)
    methods = {   # name -> (argument kinds after (self, ...)),  v = input vector, o = output vector (arbitrary old content), s = scalar
        'axpy': 'vos', 'axpy_out': 'vvso', 'array_mult': 'vvo', 'array_mult_inplace': 'ov', 'array_recip': 'vo', 'fill_array': 'os', 'copy_into': 'vo',
        'array_vector_dot': 'vv', 'scalar_prods2': 'vvvv', 'scalar_prods3': 'vvvvv', 'sq_norm_sum': 'vv', 'array_sum_ln': 'v', 'array_all_finite': 'v', 'array_all_finite_and_nonzero': 'v',
        'std_norm_flow': 'voos', 'std_norm_grad_flow': 'vvvos', 'std_norm_grad_flow_inplace': 'vvos', 'array_update_variance': 'oovs'}
    bad = []; nq = 0; t0 = time.time()
    for name, kinds in methods.items():
        for n in (0, 1, 3, 9):
            for pol in (('R', 'FP64') if name.startswith('array_all_finite') else ('R',)):
                A = RealAlg() if pol == 'R' else FP64Alg()
                # real code
                vm = VM(mir, A, inst={}); cpuenv.install(vm, 2)
                try: fn = mir.method('CpuMath', 'Math', name)
                except KeyError as e: bad.append((name, 'method not found in the MIR', str(e))); break
                def mkargs(m):
                    args = []; cells = []
                    for j, kd in enumerate(kinds):
                        if kd == 's': args.append(A.fresh('s%d' % j)); cells.append(None)
                        else:
                            c = m.alloc(Seq([A.fresh('a%d_%d' % (j, i)) for i in range(n)])); cells.append(c); args.append(Ref(c))
                    return args, cells
                m = Machine(); selfc = m.alloc(Struct((Opaque('logp'), Opaque('arch'), Seq(())), 'CpuMath')); args, cells = mkargs(m)
                try:
                    outs = vm.run(fn, [Ref(selfc)] + args, m)
                except (VMError, Unmodelled, KeyError) as e:
                    rep.unknown('C17.B %s n=%d' % (name, n), '%s: %s' % (type(e).__name__, str(e)[:200])); break
                rep.functions |= set(vm.fns_used); rep.stmts += vm.nstmt
                # environment meaning on identical symbols
                vm2 = VM(mir, A, inst={}); env = MathEnv(vm2, n, 'uf', L)
                m2 = Machine(); args2, cells2 = mkargs(m2)
                h = next(hh for (rx, hh) in vm2.models if rx.search('<M as Math>::%s' % name))
                outs2 = list(h(vm2, m2, '<M as Math>::%s' % name, [Ref(m2.alloc(Opaque('math')))] + args2))
                (mb, kb, vb) = outs2[0]
                def cmpv(x, y):
                    if isinstance(x, Fl): return [] if z3.eq(x.v, y.v) else [x.v != y.v]
                    if isinstance(x, Struct): return [d for a_, b_ in zip(x.f, y.f) for d in cmpv(a_, b_)]
                    if isinstance(x, bool) or z3.is_expr(x):
                        xa_ = z3.BoolVal(x) if isinstance(x, bool) else x; yb_ = z3.BoolVal(y) if isinstance(y, bool) else y
                        return [] if z3.eq(xa_, yb_) else [xa_ != yb_]
                    return []
                for (ma, ka, va) in outs:          # the real method may fork (short-circuiting iterators): every outcome must agree under its path condition
                    if ka != 'ret': bad.append((name, n, 'real method panics', str(va)[:100])); continue
                    diffs = []
                    for ca, cb in zip(cells, cells2):
                        if ca is None: continue
                        xa, xb = ma.mem[ca].items, mb.mem[cb].items
                        if len(xa) != len(xb): diffs.append(z3.BoolVal(True)); continue
                        diffs += [x.v != y.v for x, y in zip(xa, xb) if not z3.eq(x.v, y.v)]
                    diffs += cmpv(va, vb)
                    nq += 1
                    if diffs:
                        sol = z3.Solver(); sol.set('timeout', 60000); sol.add(*ma.pc); sol.add(z3.Or(*diffs)); r = sol.check()
                        if r == z3.sat: bad.append((name, n, 'CpuMath::%s differs from its algebraic meaning' % name, {d.name(): str(sol.model()[d]) for d in sol.model().decls()[:8]}))
                        elif r == z3.unknown: rep.unknown('C17.B %s n=%d' % (name, n), 'solver unknown')
    rep.paths += nq
    if bad: rep.violated('C17.B CpuMath methods compute the assumed algebraic meaning', 'cpumath.meaning', 'CpuMath method differs from the formula the other checks assume: %s' % (bad[0],), model={'problems': [str(b)[:300] for b in bad[:6]]})
    else: rep.holds('C17.B all %d CpuMath Math methods (dispatch layer, faer zip helpers, variance update) equal the algebraic meaning assumed by the Math environment, n in {0,1,3,9}, lanes 2; the finiteness predicates also bit-precisely in FP64 (NaN, inf, zeros, subnormals) (%d comparisons)' % (len(methods), nq), time.time() - t0)


def lowrank_meaning(rep, mir):
    """C17.C the low-rank Math methods of CpuMath (faer matmul / operator code) executed from the MIR with faer's dense linear algebra as exact
    arithmetic: apply_lowrank_transform(_inplace) = (I + U (diag(vals) - I) U^T) x - the meaning C02 assumes for its low-rank results -,
    array_mult_eigs = S (I + U (diag(vals) - I) U^T) S x, array_gaussian_eigs = S (I + U (diag(vals) - I) U^T) z with z standard normal draws"""
    from .. import cpuenv
    bad = []; nq = 0; t0 = time.time(); n = 3
    for rank in (0, 1, 2):
        for name in ('apply_lowrank_transform', 'apply_lowrank_transform_inplace', 'array_mult_eigs', 'array_gaussian_eigs'):
            from ..vm import VMError, Unmodelled, ret
            A = RealAlg(); vm = VM(mir, A, inst={}); cpuenv.install(vm, 2); cpuenv.install_linalg(vm); vm.linalg_nrows = n
            vm.add_model(r' as Math>::dim$', lambda vm, m, c, a: ret(m, n))
            try: fn = mir.method('CpuMath', 'Math', name)
            except KeyError as e: bad.append((name, 'method not found', str(e))); continue
            m = Machine(); m.ghost['normals'] = []
            U = [[A.fresh('u%d_%d' % (j, i)) for i in range(n)] for j in range(rank)]; vals = [A.fresh('lam%d' % j) for j in range(rank)]
            x = [A.fresh('x%d' % i) for i in range(n)]; sd = [A.fresh('s%d' % i) for i in range(n)]; old = [A.fresh('old%d' % i) for i in range(n)]
            Uc = m.alloc(Seq([Seq(c) for c in U])); vc = m.alloc(Seq(vals)); xc = m.alloc(Seq(x)); sc = m.alloc(Seq(sd)); oc = m.alloc(Seq(old))
            selfc = m.alloc(Struct((Opaque('logp'), Opaque('arch'), Seq([A.fresh('scratch_old')])), 'CpuMath'))
            if name == 'apply_lowrank_transform': args = [Ref(selfc), Ref(Uc), Ref(vc), Ref(xc), Ref(oc)]; outc = oc; inp = x; scale = None
            elif name == 'apply_lowrank_transform_inplace': args = [Ref(selfc), Ref(Uc), Ref(vc), Ref(xc)]; outc = xc; inp = x; scale = None
            elif name == 'array_mult_eigs': args = [Ref(selfc), Ref(sc), Ref(xc), Ref(oc), Ref(Uc), Ref(vc)]; outc = oc; inp = [A.mul(s_, x_) for s_, x_ in zip(sd, x)]; scale = sd
            else: args = [Ref(selfc), Ref(m.alloc(Opaque('rng'))), Ref(oc), Ref(sc), Ref(vc), Ref(Uc)]; outc = oc; inp = None; scale = sd
            try: outs = vm.run(fn, args, m)
            except (VMError, Unmodelled, KeyError) as e:
                rep.unknown('C17.C %s rank=%d' % (name, rank), '%s: %s' % (type(e).__name__, str(e)[:200])); continue
            rep.functions |= set(vm.fns_used); rep.stmts += vm.nstmt
            for (m1, k, v) in outs:
                if k != 'ret': bad.append((name, rank, 'panics', str(v)[:120])); continue
                if inp is None:
                    z = list(m1.ghost.get('normals', []))
                    if len(z) != n: bad.append((name, rank, 'draws %d standard normals instead of %d' % (len(z), n))); continue
                    inp_ = z
                else: inp_ = inp
                ref = list(inp_)
                for col, lam in zip(U, vals):
                    c = A.const(0.0)
                    for ui, xi in zip(col, inp_): c = A.add(c, A.mul(ui, xi))
                    f = A.mul(A.sub(lam, A.const(1.0)), c); ref = [A.add(o, A.mul(ui, f)) for o, ui in zip(ref, col)]
                if scale is not None: ref = [A.mul(s_, r_) for s_, r_ in zip(scale, ref)]
                got = m1.mem[outc].items; nq += 1
                if len(got) != n: bad.append((name, rank, 'result has length %d' % len(got))); continue
                sol = z3.Solver(); sol.set('timeout', 60000); sol.add(*m1.pc); sol.add(z3.Or(*[g.v != r.v for g, r in zip(got, ref)])); r = sol.check()
                if r == z3.sat: bad.append((name, rank, 'differs from (I + U (diag(vals) - I) U^T) applied to the input%s' % (' and scaled' if scale is not None else '')))
                elif r == z3.unknown: rep.unknown('C17.C %s rank=%d' % (name, rank), 'solver unknown')
    rep.paths += nq
    if bad: rep.violated('C17.C low-rank CpuMath methods compute the assumed linear map', 'cpumath.lowrank', 'low-rank Math method: %s' % (bad[0],), model={'problems': [str(b)[:300] for b in bad[:6]]})
    else: rep.holds('C17.C apply_lowrank_transform(_inplace), array_mult_eigs, array_gaussian_eigs (n = 3, rank 0..2) equal (I + U (diag(vals) - I) U^T) x, resp. S(..)S x and S(..)z, with faer matmul / operators as exact linear algebra (%d comparisons)' % nq, time.time() - t0)
