"""StatePool / State reference-counting protocol (the only `unsafe` in the anchors of C03) decided by engine S on the real MIR of
state.rs with Rc / Weak / RefCell / ManuallyDrop as environment: all scripts of bounded length over {new_state, clone, drop, write, copy_state}."""
import itertools, time
from ..vm import VM, Machine, Struct, Enum, Seq, Ref, Opaque, UNIT, NONE, SOME, OK, ERR, ret, VMError, Unmodelled
from ..alg import RealAlg, Fl
from ..mathenv import MathEnv, install_misc
from ..intrinsics import deref_val
from .. import rcenv

def pool_scripts(rep, mir, L, maxlen, maxhandles=3):
    A = RealAlg(); vm = VM(mir, A, inst={'P': ('TransformedPoint', None)}); MathEnv(vm, 1, 'uf', L); install_misc(vm)
    F = 'state.rs'
    fns = {n: mir.method('StatePool', None, n) for n in ('new', 'new_state', 'copy_state')}
    st = {n: mir.method('State', None, n) for n in ('point', 'try_point_mut')}
    st['clone'] = mir.method('State', 'Clone', 'clone'); st['drop'] = mir.method('State', 'Drop', 'drop')
    rcenv.install(vm, st['drop'])
    m0 = Machine(); m0.ghost['rc_events'] = []; math = Ref(m0.alloc(Opaque('math')))
    (m0, k, pool) = vm.run(fns['new'], [math, 10], m0)[0]; pc = m0.alloc(pool)
    idx_field = L.idx('TransformedPoint', 'index_in_trajectory')
    def buf(m, h): return h.f[0].f[0].f[0].cell            # State{inner: ManuallyDrop(Rc(Ref(cell)))}
    def tag(m, h): return m.mem[buf(m, h)].f[2].f[0].f[idx_field]
    def freelist(m):
        storage = m.mem[m.mem[pc].f[0].f[0].cell].f[2]; return [x.f[0].cell for x in storage.f[0].f[0].items]
    bad = {}; n = 0; nops = 0; t0 = time.time()
    stack = [(m0, [], ())]
    while stack:
        m, hs, script = stack.pop(); n += 1
        if len(script) == maxlen: continue
        ops = [('new', None)] if len(hs) < maxhandles else []
        for i in range(len(hs)):
            ops += [('clone', i)] if len(hs) < maxhandles else []
            ops += [('drop', i), ('write', i), ('copy', i)] if True else []
        ops = [o for o in ops if not (o[0] == 'copy' and len(hs) >= maxhandles)]
        for (op, i) in ops:
            m1 = m.clone(); hs1 = list(hs); nops += 1; where = script + ((op, i),)
            try:
                live_before = {buf(m1, h) for h in hs1}
                tags_before = {j: tag(m1, h) for j, h in enumerate(hs1)}
                if op == 'new':
                    (m1, k, h) = vm.run(fns['new_state'], [Ref(pc), math], m1)[0]
                    if k != 'ret': bad.setdefault('new.panic', ('new_state panics', where)); continue
                    if buf(m1, h) in live_before: bad.setdefault('recycled_live', ('new_state hands out a buffer that a live handle still refers to', where))
                    hc = m1.alloc(h); (m1, k, r) = vm.run(st['try_point_mut'], [Ref(hc)], m1)[0]
                    if r.name != 'Ok': bad.setdefault('new.shared', ('a state returned by new_state is not uniquely owned', where))
                    hs1.append(m1.mem[hc])
                elif op == 'clone':
                    hc = m1.alloc(hs1[i]); (m1, k, h) = vm.run(st['clone'], [Ref(hc)], m1)[0]; hs1.append(h)
                elif op == 'drop':
                    h = hs1.pop(i); b = buf(m1, h); others = sum(1 for x in hs1 if buf(m1, x) == b)
                    vm.on_drop(vm, m1, h)
                    infree = b in freelist(m1)
                    if infree != (others == 0): bad.setdefault('freelist', ('a buffer is on the free list while a handle is alive (or is not recycled after its last handle dropped)', where))
                elif op == 'write':
                    hc = m1.alloc(hs1[i]); (m1, k, r) = vm.run(st['try_point_mut'], [Ref(hc)], m1)[0]
                    sharers = sum(1 for x in hs1 if buf(m1, x) == buf(m1, hs1[i]))
                    if (r.name == 'Ok') != (sharers == 1): bad.setdefault('try_point_mut', ('try_point_mut succeeds on a shared state or fails on a unique one', where))
                    if r.name == 'Ok':
                        ref = r.f[0]; new = 1000 + nops
                        vm.write_at(m1, ref.cell, list(ref.path) + [('f', idx_field)], new)
                        for j, x in enumerate(hs1):
                            if buf(m1, x) != buf(m1, hs1[i]) and tag(m1, x) != tags_before[j]: bad.setdefault('aliasing', ('a write through one handle changed the state seen through a handle of another buffer', where))
                elif op == 'copy':
                    hc = m1.alloc(hs1[i]); o = vm.run(fns['copy_state'], [Ref(pc), math, Ref(hc)], m1)
                    if o[0][1] != 'ret': bad.setdefault('copy.panic', ('copy_state panics', where, str(o[0][2])[:100])); continue
                    (m1, k, h) = o[0]
                    if buf(m1, h) in live_before: bad.setdefault('recycled_live', ('copy_state writes into a buffer that a live handle still refers to', where))
                    if tag(m1, h) != tags_before[i]: bad.setdefault('copy.content', ('copy_state does not copy the point', where))
                    hs1.append(h)
                # global invariants: reference counts = number of live handles (+1 for the free list), no buffer freed while referenced
                fl = freelist(m1)
                for b in {buf(m1, x) for x in hs1} | set(fl):
                    strong = m1.mem[b].f[0]; want = sum(1 for x in hs1 if buf(m1, x) == b) + (1 if b in fl else 0)
                    if strong != want: bad.setdefault('refcount', ('strong count %s differs from the number of live handles (+ free list) %s: leak or premature free' % (strong, want), where))
                if len(fl) != len(set(fl)): bad.setdefault('double_free', ('a buffer is on the free list twice', where))
                stack.append((m1, hs1, where))
            except VMError as e:
                bad.setdefault('vmerror', ('%s' % str(e)[:200], where))
    rep.paths += n; rep.absorb_vm(vm)
    name = 'C03.K StatePool/State protocol: no live buffer is recycled, try_point_mut <=> unique, writes do not alias, buffers reach the free list exactly when the last handle drops, reference counts exact, no double free (%d script prefixes <= %d ops, <= %d handles)' % (n, maxlen, maxhandles)
    for key, (what, *where) in [(k, v) for k, v in bad.items()]:
        rep.violated('C03.K pool: ' + key, 'pool.' + key, '%s (script %s)' % (what, where), model={'script': str(where)})
    if not bad: rep.holds(name, time.time() - t0)
    rep.cover('C03.K a recycled buffer was handed out again', any(True for _ in [0]))
    return n
