"""C15 - flushed Zarr traces are complete at every flush point: chunk bookkeeping (DESIGN section 4, C15).
SampleBuffer::{new,push,finish_chunk,reset,copy_as_chunk,total_pushed}, Chunk::is_full and the index arithmetic of the sync
store_zarr_chunk are executed from the `--features zarr` MIR; the zarrs Array is the environment (a log of writes)."""
import itertools, time, re
import z3
from ..driver import load_mir, REPO, parts
from ..layout import Layouts
from ..vm import VM, Machine, Struct, Enum, Seq, Ref, SliceRef, Str, Iter, Opaque, UNIT, NONE, SOME, OK, ERR, ret, VMError, Unmodelled
from ..alg import RealAlg, Fl
from ..mathenv import install_misc
from ..intrinsics import deref_val, slice_items, as_slice

class Env:
    def __init__(self, mir, L):
        self.mir = mir; self.L = L; self.A = RealAlg(); vm = self.vm = VM(mir, self.A); install_misc(vm)
        en = vm.enums
        vm.add_model(r'^<u64 as TryInto<usize>>::try_into$', lambda vm, m, c, a: ret(m, OK(a[0])))
        vm.add_model(r'^<std::string::String as Clone>::clone$|^<SampleBufferValue as Clone>::clone$', lambda vm, m, c, a: ret(m, deref_val(vm, m, a[0])))
        # ---- zarrs Array environment: every store call is logged
        vm.add_model(r'Array::<dyn .*>::chunk_grid$', lambda vm, m, c, a: ret(m, Opaque('grid')))
        vm.add_model(r'^<ChunkGrid as Deref>::deref$|^<Arc<dyn ChunkGridTraits> as Deref>::deref$', lambda vm, m, c, a: ret(m, a[0]))
        vm.add_model(r' as ChunkGridTraits>::dimensionality$', lambda vm, m, c, a: ret(m, m.ghost['rank']))
        vm.add_model(r'Array::<dyn .*>::shape$', lambda vm, m, c, a: ret(m, SliceRef(m.ghost['shape_cell'], (), 0, m.ghost['rank'])))
        vm.add_model(r'Array::<dyn .*>::path$', lambda vm, m, c, a: ret(m, Opaque('path')))
        vm.add_model(r'^std::iter::once::<u64>$', lambda vm, m, c, a: ret(m, Iter([a[0]])))
        vm.add_model(r' as Iterator>::chain::<', lambda vm, m, c, a: ret(m, Iter(tuple(a[0].items) + tuple(a[1].items))))
        vm.add_model(r'^<std::iter::Once<u64> as Iterator>::cycle$', lambda vm, m, c, a: ret(m, Struct((a[0].items[0],), 'Cycle')))
        vm.add_model(r'^<Cycle<std::iter::Once<u64>> as Iterator>::take$', lambda vm, m, c, a: ret(m, Iter([a[0].f[0]] * a[1])))
        vm.add_model(r'^ArraySubset::new_with_start_shape$', lambda vm, m, c, a: ret(m, OK(Struct((a[0], a[1]), 'ArraySubset'))))
        vm.add_model(r'^ArraySubset::new_with_shape$', lambda vm, m, c, a: ret(m, Struct((Seq([0] * len(a[0].items)), a[0]), 'ArraySubset')))
        def nelem(vm, m, c, a):
            sub = deref_val(vm, m, a[0]); n = 1
            for d in sub.f[1].items: n = n * d
            return ret(m, n)
        vm.add_model(r'^ArraySubset::num_elements_usize$', nelem)
        vm.add_model(r'anyhow::Context<.*>>::context::<', lambda vm, m, c, a: ret(m, a[0]))
        def store(kind):
            def h(vm, m, c, a):
                if kind == 'chunk': idx = slice_items(vm, m, a[1]); vals = deref_val(vm, m, a[2]); m.log('writes', ('chunk', tuple(idx), None, tuple(vals.items)))
                elif kind == 'chunk_subset':
                    idx = slice_items(vm, m, a[1]); sub = deref_val(vm, m, a[2]); vals = deref_val(vm, m, a[3])
                    m.log('writes', ('chunk_subset', tuple(idx), (tuple(sub.f[0].items), tuple(sub.f[1].items)), tuple(vals.items)))
                else:
                    sub = deref_val(vm, m, a[1]); vals = deref_val(vm, m, a[2]); m.log('writes', ('array_subset', None, (tuple(sub.f[0].items), tuple(sub.f[1].items)), tuple(vals.items)))
                return ret(m, OK(UNIT))
            return h
        vm.add_model(r'::store_chunk::<', store('chunk')); vm.add_model(r'::store_chunk_subset::<', store('chunk_subset')); vm.add_model(r'::store_array_subset::<', store('array_subset'))
    def item(self, t):
        en = self.vm.enums['ItemType']; return Enum(en.index(t), t, (), 'ItemType')
    def value(self, t, k):
        en = self.vm.enums['Value']
        if t == 'U64': e = z3.Int('v%d' % k); return Enum(en.index('ScalarU64'), 'ScalarU64', (e,), 'Value'), [e]
        if t == 'String': e = Str('s%d' % k); return Enum(en.index('ScalarString'), 'ScalarString', (e,), 'Value'), [e]
        if t == 'F64':   # a vector statistic of width 2
            es = [self.A.fresh('f%d_%d' % (k, j)) for j in range(2)]; return Enum(en.index('F64'), 'F64', (Seq(es),), 'Value'), es
        raise KeyError(t)

def eqv(a, b):
    if isinstance(a, Fl): a = a.v
    if isinstance(b, Fl): b = b.v
    if z3.is_expr(a) and z3.is_expr(b): return a.eq(b)
    return (not z3.is_expr(a)) and (not z3.is_expr(b)) and a == b

def run(rep):
    mir = load_mir(rep, 'zarr'); L = Layouts(REPO)
    maxlen = 6 if rep.tier == 'quick' else 9
    rep.bounds = {'chunk size': '1..=4', 'script': 'every sequence of <= %d operations over {push, flush-copy, reset}' % maxlen, 'value kinds': 'u64 scalar, string scalar, f64 vector of width 2',
                  'store': 'sync store_zarr_chunk, array rank 2 and 3'}
    rep.assumptions += ['the zarrs Array is the environment: store_chunk(indices, values) writes one whole chunk at chunk-grid position `indices`; store_chunk_subset(indices, subset, values) writes `subset` relative to that chunk; store_array_subset(subset, values) writes at absolute array coordinates; the chunk size of the draw axis equals the buffer size (full_at)',
                        'one chain, one variable; the per-variable buffers are independent']
    rep.outside += ['zarrs I/O, codecs, the async writer queue and its join on flush, file system, crash consistency of the store itself', 'the async copy of store_zarr_chunk', 'finalisation trimming of event arrays']
    parts(rep, [lambda: scripts(rep, mir, L, maxlen)])

def scripts(rep, mir, L, maxlen):
    new = mir.method('SampleBuffer', None, 'new'); push = mir.method('SampleBuffer', None, 'push'); reset = mir.method('SampleBuffer', None, 'reset')
    copy = mir.method('SampleBuffer', None, 'copy_as_chunk'); total = mir.method('SampleBuffer', None, 'total_pushed'); store = mir.find(r'^store_zarr_chunk$')
    bad = {}; nscripts = 0; nops = 0; t0 = time.time(); reached = set()
    for t, width, rank in (('U64', 1, 2), ('String', 1, 2), ('F64', 2, 3)):
        for c in (1, 2, 3, 4):
            E = Env(mir, L); vm = E.vm
            m0 = Machine(); m0.ghost['writes'] = []; m0.ghost['rank'] = rank; m0.ghost['shape_cell'] = m0.alloc(Seq([1, 1000] + ([width] if rank == 3 else [])))
            o = vm.run(new, [E.item(t), c], m0)
            if len(o) != 1 or o[0][1] != 'ret': bad.setdefault('new', ('SampleBuffer::new panics', (t, c))); continue
            (m0, _, buf) = o[0]; bc = m0.alloc(buf)
            # DFS over scripts; state = (machine, logical sequence since reset, model store dict, depth)
            stack = [(m0, [], {}, 0, ())]
            while stack:
                m, logical, st, depth, script = stack.pop()
                nscripts += 1
                if depth == maxlen: continue
                for op in ('push', 'copy', 'reset'):
                    m1 = m.clone(); m1.ghost['writes'] = []; logical1 = list(logical); st1 = dict(st); key = None; nops += 1
                    if op == 'push':
                        v, es = E.value(t, len(script) * 10 + depth)
                        o = vm.run(push, [Ref(bc), v], m1)
                        if len(o) != 1 or o[0][1] != 'ret': bad.setdefault('push.panic', ('push panics', (t, c, script + (op,), str(o[0][2])[:150]))); continue
                        m1 = o[0][0]; ch = o[0][2]; logical1.append(es)
                    elif op == 'copy':
                        before = m1.mem[bc]
                        o = vm.run(copy, [Ref(bc)], m1)
                        if len(o) != 1 or o[0][1] != 'ret': bad.setdefault('copy.panic', ('copy_as_chunk panics', (t, c, script + (op,)))); continue
                        m1 = o[0][0]; ch = o[0][2]
                        if not vm._same(before, m1.mem[bc]): bad.setdefault('copy.mutates', ('copy_as_chunk (flush) changes the buffer', (t, c, script + (op,))))
                    else:
                        o = vm.run(reset, [Ref(bc)], m1)
                        if len(o) != 1 or o[0][1] != 'ret': bad.setdefault('reset.panic', ('reset panics', (t, c, script + (op,)))); continue
                        m1 = o[0][0]; ch = o[0][2]
                    # store whatever chunk came out through the real store_zarr_chunk
                    if ch.name == 'Some':
                        chunk = ch.f[0]; g = lambda f: L.get('Chunk', chunk, f)
                        reached.add(op + ('-full' if g('len') == g('full_at') else '-partial'))
                        o = vm.run(store, [Ref(m1.alloc(Opaque('array'))), chunk, 0], m1)
                        if len(o) != 1 or o[0][1] != 'ret' or o[0][2].name != 'Ok': bad.setdefault('store.panic', ('store_zarr_chunk fails', (t, c, script + (op,), str(o[0][2])[:200]))); continue
                        m1 = o[0][0]
                        for (kind, idx, sub, vals) in m1.ghost['writes']:
                            if kind == 'chunk': off = idx[1] * c; cnt = c; chain = idx[0]
                            elif kind == 'chunk_subset': off = idx[1] * c + sub[0][1]; cnt = sub[1][1]; chain = idx[0] + sub[0][0]
                            else: off = sub[0][1]; cnt = sub[1][1]; chain = sub[0][0]
                            if chain != 0: bad.setdefault('store.chain', ('chunk written to the wrong chain row', (t, c, script + (op,))))
                            if len(vals) != cnt * width: bad.setdefault('store.count', ('number of values differs from the written extent', (t, c, script + (op,), len(vals), cnt)))
                            for j in range(cnt): st1[off + j] = vals[j * width:(j + 1) * width]
                    if op == 'reset':
                        # everything recorded since the previous reset must now be in the store; then a new phase begins
                        key = 'reset'
                    # ---- assertions after the operation
                    n = len(logical1); full = (n // c) * c
                    upto = n if (op in ('copy', 'reset')) else full
                    for j in range(upto):
                        got = st1.get(j)
                        if got is None or len(got) != width or not all(eqv(x, y) for x, y in zip(got, logical1[j])):
                            bad.setdefault('store.content', ('after %s the store does not hold draw %d of the %d recorded since the last reset (chunk size %d): %s' % (op, j, n, c, 'missing' if got is None else 'wrong value'), (t, c, script + (op,))))
                            break
                    o = vm.run(total, [Ref(bc)], m1.clone())
                    tp = o[0][2] if len(o) == 1 and o[0][1] == 'ret' else None
                    want_total = 0 if op == 'reset' else n
                    if tp != want_total: bad.setdefault('total_pushed', ('total_pushed = %s after %d pushes since the last reset' % (tp, want_total), (t, c, script + (op,))))
                    b = m1.mem[bc]; bl = L.get('SampleBuffer', b, 'len'); cur = L.get('SampleBuffer', b, 'current_chunk')
                    if op == 'reset':
                        if bl != 0 or cur != 0: bad.setdefault('reset.state', ('reset leaves len/current_chunk non-zero', (t, c, script + (op,))))
                        logical1 = []; st1 = {}
                    else:
                        if bl != n % c or cur != n // c: bad.setdefault('buffer.state', ('buffer bookkeeping (len=%s, current_chunk=%s) inconsistent with %d pushes, chunk size %d' % (bl, cur, n, c), (t, c, script + (op,))))
                    stack.append((m1, logical1, st1, depth + 1, script + (op,)))
            rep.absorb_vm(vm)
    rep.paths += nscripts
    for r in ('push-full', 'copy-partial', 'reset-partial'): rep.cover('C15 chunk kind exercised: ' + r, r in reached)
    for key, (what, where) in bad.items():
        rep.violated('C15 ' + key, 'samplebuffer.' + key, '%s (value kind, chunk size, script: %s)' % (what, where), model={'where': str(where)})
    if not bad: rep.holds('C15 SampleBuffer + store_zarr_chunk: after every flush/reset the store holds exactly the draws recorded since the last reset at offsets chunk_idx*chunk_size.., full chunks are stored as soon as they fill, flush does not mutate the buffer, total_pushed and bookkeeping exact (%d script prefixes, %d operations)' % (nscripts, nops), time.time() - t0)
    rep.sample({'value kinds': ['U64', 'String', 'F64x2'], 'chunk sizes': [1, 2, 3, 4], 'max script length': maxlen, 'script prefixes': nscripts})
