"""C15 - flushed Zarr traces are complete at every flush point: chunk bookkeeping (DESIGN section 4, C15).
SampleBuffer::{new,push,finish_chunk,reset,copy_as_chunk,total_pushed}, Chunk::is_full and the index arithmetic of the sync
store_zarr_chunk are executed from the `--features zarr` MIR; the zarrs Array is the environment (a log of writes)."""
import itertools, time, re
import z3
from ..driver import load_mir, REPO, parts
from ..layout import Layouts
from ..vm import VM, Machine, Struct, Enum, Seq, Ref, SliceRef, Str, Iter, Opaque, UNIT, NONE, SOME, OK, ERR, ret, VMError, Unmodelled
from ..alg import RealAlg, Fl
from ..mathenv import install_misc
from ..intrinsics import deref_val, slice_items, as_slice

class Env:
    def __init__(self, mir, L):
        self.mir = mir; self.L = L; self.A = RealAlg(); vm = self.vm = VM(mir, self.A); install_misc(vm)
        en = vm.enums
        vm.add_model(r'^<u64 as TryInto<usize>>::try_into$', lambda vm, m, c, a: ret(m, OK(a[0])))
        vm.add_model(r'^<std::string::String as Clone>::clone$|^<SampleBufferValue as Clone>::clone$', lambda vm, m, c, a: ret(m, deref_val(vm, m, a[0])))
        # ---- zarrs Array environment: every store call is logged
        vm.add_model(r'Array::<dyn .*>::chunk_grid$', lambda vm, m, c, a: ret(m, Opaque('grid')))
        vm.add_model(r'^<ChunkGrid as Deref>::deref$|^<Arc<dyn ChunkGridTraits> as Deref>::deref$', lambda vm, m, c, a: ret(m, a[0]))
        vm.add_model(r' as ChunkGridTraits>::dimensionality$', lambda vm, m, c, a: ret(m, m.ghost['rank']))
        vm.add_model(r'Array::<dyn .*>::shape$', lambda vm, m, c, a: ret(m, SliceRef(m.ghost['shape_cell'], (), 0, m.ghost['rank'])))
        vm.add_model(r'Array::<dyn .*>::path$', lambda vm, m, c, a: ret(m, Opaque('path')))
        vm.add_model(r'^std::iter::once::<u64>$', lambda vm, m, c, a: ret(m, Iter([a[0]])))
        vm.add_model(r' as Iterator>::chain::<', lambda vm, m, c, a: ret(m, Iter(tuple(a[0].items) + tuple(a[1].items))))
        vm.add_model(r'^<std::iter::Once<u64> as Iterator>::cycle$', lambda vm, m, c, a: ret(m, Struct((a[0].items[0],), 'Cycle')))
        vm.add_model(r'^<Cycle<std::iter::Once<u64>> as Iterator>::take$', lambda vm, m, c, a: ret(m, Iter([a[0].f[0]] * a[1])))
        vm.add_model(r'^ArraySubset::new_with_start_shape$', lambda vm, m, c, a: ret(m, OK(Struct((a[0], a[1]), 'ArraySubset'))))
        vm.add_model(r'^ArraySubset::new_with_shape$', lambda vm, m, c, a: ret(m, Struct((Seq([0] * len(a[0].items)), a[0]), 'ArraySubset')))
        def nelem(vm, m, c, a):
            sub = deref_val(vm, m, a[0]); n = 1
            for d in sub.f[1].items: n = n * d
            return ret(m, n)
        vm.add_model(r'^ArraySubset::num_elements_usize$', nelem)
        vm.add_model(r'anyhow::Context<.*>>::context::<', lambda vm, m, c, a: ret(m, a[0]))
        vm.add_model(r'anyhow::Context<.*>>::with_context::<', lambda vm, m, c, a: ret(m, a[0]))
        def store(kind):
            def h(vm, m, c, a):
                if m.ghost.get('fail'): m.log('events', ('store:failed',)) if 'events' in m.ghost else None; return ret(m, ERR(Opaque('ArrayError')))
                if kind == 'chunk': idx = slice_items(vm, m, a[1]); vals = deref_val(vm, m, a[2]); m.log('writes', ('chunk', tuple(idx), None, tuple(vals.items), _atag(vm, m, a[0])))
                elif kind == 'chunk_subset':
                    idx = slice_items(vm, m, a[1]); sub = deref_val(vm, m, a[2]); vals = deref_val(vm, m, a[3])
                    m.log('writes', ('chunk_subset', tuple(idx), (tuple(sub.f[0].items), tuple(sub.f[1].items)), tuple(vals.items), _atag(vm, m, a[0])))
                else:
                    sub = deref_val(vm, m, a[1]); vals = deref_val(vm, m, a[2]); m.log('writes', ('array_subset', None, (tuple(sub.f[0].items), tuple(sub.f[1].items)), tuple(vals.items), _atag(vm, m, a[0])))
                return ret(m, OK(UNIT))
            return h
        vm.add_model(r'::store_chunk::<', store('chunk')); vm.add_model(r'::store_chunk_subset::<', store('chunk_subset')); vm.add_model(r'::store_array_subset::<', store('array_subset'))
    def item(self, t):
        en = self.vm.enums['ItemType']; return Enum(en.index(t), t, (), 'ItemType')
    def value(self, t, k):
        en = self.vm.enums['Value']
        if t == 'U64': e = z3.Int('v%d' % k); return Enum(en.index('ScalarU64'), 'ScalarU64', (e,), 'Value'), [e]
        if t == 'String': e = Str('s%d' % k); return Enum(en.index('ScalarString'), 'ScalarString', (e,), 'Value'), [e]
        if t == 'F64':   # a vector statistic of width 2
            es = [self.A.fresh('f%d_%d' % (k, j)) for j in range(2)]; return Enum(en.index('F64'), 'F64', (Seq(es),), 'Value'), es
        raise KeyError(t)

def _atag(vm, m, r):
    try: v = deref_val(vm, m, r)
    except Exception: return None
    return getattr(v, 'tag', None)

def eqv(a, b):
    if isinstance(a, Fl): a = a.v
    if isinstance(b, Fl): b = b.v
    if z3.is_expr(a) and z3.is_expr(b): return a.eq(b)
    return (not z3.is_expr(a)) and (not z3.is_expr(b)) and a == b

def run(rep):
    mir = load_mir(rep, 'zarr'); L = Layouts(REPO)
    maxlen = 6 if rep.tier == 'quick' else 9
    rep.bounds = {'chunk size': '1..=4', 'script': 'every sequence of <= %d operations over {push, flush-copy, reset}' % maxlen, 'value kinds': 'u64 scalar, string scalar, f64 vector of width 2',
                  'store': 'sync store_zarr_chunk, array rank 2 and 3'}
    rep.assumptions += ['the zarrs Array is the environment: store_chunk(indices, values) writes one whole chunk at chunk-grid position `indices`; store_chunk_subset(indices, subset, values) writes `subset` relative to that chunk; store_array_subset(subset, values) writes at absolute array coordinates; the chunk size of the draw axis equals the buffer size (full_at)',
                        'one chain, one variable; the per-variable buffers are independent']
    rep.outside += ['zarrs I/O, codecs, file system, crash consistency of the store itself', 'what tokio does with a spawned write between queue_write and the join (scheduling); the zarrs futures answer Ready / Pending as an oracle', 'finalisation trimming of event arrays']
    parts(rep, [lambda: scripts(rep, mir, L, maxlen), lambda: async_flush(rep, mir, L), lambda: async_queue(rep, mir, L), lambda: sync_chain_storage(rep, mir, L), lambda: async_writer(rep, mir, L), lambda: native_zarr(rep)])

def scripts(rep, mir, L, maxlen):
    new = mir.method('SampleBuffer', None, 'new'); push = mir.method('SampleBuffer', None, 'push'); reset = mir.method('SampleBuffer', None, 'reset')
    copy = mir.method('SampleBuffer', None, 'copy_as_chunk'); total = mir.method('SampleBuffer', None, 'total_pushed'); store = mir.find(r'^store_zarr_chunk$')
    bad = {}; nscripts = 0; nops = 0; t0 = time.time(); reached = set()
    for t, width, rank in (('U64', 1, 2), ('String', 1, 2), ('F64', 2, 3)):
        for c in (1, 2, 3, 4):
            E = Env(mir, L); vm = E.vm
            m0 = Machine(); m0.ghost['writes'] = []; m0.ghost['rank'] = rank; m0.ghost['shape_cell'] = m0.alloc(Seq([1, 1000] + ([width] if rank == 3 else [])))
            o = vm.merge_outcomes(vm.run(new, [E.item(t), c], m0))
            if len(o) != 1 or o[0][1] != 'ret': bad.setdefault('new', ('SampleBuffer::new panics', (t, c))); continue
            (m0, _, buf) = o[0]; bc = m0.alloc(buf)
            # DFS over scripts; state = (machine, logical sequence since reset, model store dict, depth)
            stack = [(m0, [], {}, 0, ())]
            while stack:
                m, logical, st, depth, script = stack.pop()
                nscripts += 1
                if depth == maxlen: continue
                for op in ('push', 'copy', 'reset'):
                    m1 = m.clone(); m1.ghost['writes'] = []; logical1 = list(logical); st1 = dict(st); key = None; nops += 1
                    if op == 'push':
                        v, es = E.value(t, len(script) * 10 + depth)
                        o = vm.merge_outcomes(vm.run(push, [Ref(bc), v], m1))
                        if len(o) != 1 or o[0][1] != 'ret': bad.setdefault('push.panic', ('push panics', (t, c, script + (op,), str(o[0][2])[:150]))); continue
                        m1 = o[0][0]; ch = o[0][2]; logical1.append(es)
                    elif op == 'copy':
                        before = m1.mem[bc]
                        o = vm.merge_outcomes(vm.run(copy, [Ref(bc)], m1))
                        if len(o) != 1 or o[0][1] != 'ret': bad.setdefault('copy.panic', ('copy_as_chunk panics', (t, c, script + (op,)))); continue
                        m1 = o[0][0]; ch = o[0][2]
                        if not vm._same(before, m1.mem[bc]): bad.setdefault('copy.mutates', ('copy_as_chunk (flush) changes the buffer', (t, c, script + (op,))))
                    else:
                        o = vm.merge_outcomes(vm.run(reset, [Ref(bc)], m1))
                        if len(o) != 1 or o[0][1] != 'ret': bad.setdefault('reset.panic', ('reset panics', (t, c, script + (op,)))); continue
                        m1 = o[0][0]; ch = o[0][2]
                    # store whatever chunk came out through the real store_zarr_chunk
                    if ch.name == 'Some':
                        chunk = ch.f[0]; g = lambda f: L.get('Chunk', chunk, f)
                        reached.add(op + ('-full' if g('len') == g('full_at') else '-partial'))
                        o = vm.merge_outcomes(vm.run(store, [Ref(m1.alloc(Opaque('array'))), chunk, 0], m1))
                        if len(o) != 1 or o[0][1] != 'ret' or o[0][2].name != 'Ok': bad.setdefault('store.panic', ('store_zarr_chunk fails', (t, c, script + (op,), str(o[0][2])[:200]))); continue
                        m1 = o[0][0]
                        for (kind, idx, sub, vals, _arr) in m1.ghost['writes']:
                            if kind == 'chunk': off = idx[1] * c; cnt = c; chain = idx[0]
                            elif kind == 'chunk_subset': off = idx[1] * c + sub[0][1]; cnt = sub[1][1]; chain = idx[0] + sub[0][0]
                            else: off = sub[0][1]; cnt = sub[1][1]; chain = sub[0][0]
                            if chain != 0: bad.setdefault('store.chain', ('chunk written to the wrong chain row', (t, c, script + (op,))))
                            if len(vals) != cnt * width: bad.setdefault('store.count', ('number of values differs from the written extent', (t, c, script + (op,), len(vals), cnt)))
                            for j in range(cnt): st1[off + j] = vals[j * width:(j + 1) * width]
                    if op == 'reset':
                        # everything recorded since the previous reset must now be in the store; then a new phase begins
                        key = 'reset'
                    # ---- assertions after the operation
                    n = len(logical1); full = (n // c) * c
                    upto = n if (op in ('copy', 'reset')) else full
                    for j in range(upto):
                        got = st1.get(j)
                        if got is None or len(got) != width or not all(eqv(x, y) for x, y in zip(got, logical1[j])):
                            bad.setdefault('store.content', ('after %s the store does not hold draw %d of the %d recorded since the last reset (chunk size %d): %s' % (op, j, n, c, 'missing' if got is None else 'wrong value'), (t, c, script + (op,))))
                            break
                    o = vm.run(total, [Ref(bc)], m1.clone())
                    tp = o[0][2] if len(o) == 1 and o[0][1] == 'ret' else None
                    want_total = 0 if op == 'reset' else n
                    if tp != want_total: bad.setdefault('total_pushed', ('total_pushed = %s after %d pushes since the last reset' % (tp, want_total), (t, c, script + (op,))))
                    b = m1.mem[bc]; bl = L.get('SampleBuffer', b, 'len'); cur = L.get('SampleBuffer', b, 'current_chunk')
                    if op == 'reset':
                        if bl != 0 or cur != 0: bad.setdefault('reset.state', ('reset leaves len/current_chunk non-zero', (t, c, script + (op,))))
                        logical1 = []; st1 = {}
                    else:
                        if bl != n % c or cur != n // c: bad.setdefault('buffer.state', ('buffer bookkeeping (len=%s, current_chunk=%s) inconsistent with %d pushes, chunk size %d' % (bl, cur, n, c), (t, c, script + (op,))))
                    stack.append((m1, logical1, st1, depth + 1, script + (op,)))
            rep.absorb_vm(vm)
    rep.paths += nscripts
    for r in ('push-full', 'copy-partial', 'reset-partial'): rep.cover('C15 chunk kind exercised: ' + r, r in reached)
    for key, (what, where) in bad.items():
        rep.violated('C15 ' + key, 'samplebuffer.' + key, '%s (value kind, chunk size, script: %s)' % (what, where), model={'where': str(where)})
    if not bad: rep.holds('C15 SampleBuffer + store_zarr_chunk: after every flush/reset the store holds exactly the draws recorded since the last reset at offsets chunk_idx*chunk_size.., full chunks are stored as soon as they fill, flush does not mutate the buffer, total_pushed and bookkeeping exact (%d script prefixes, %d operations)' % (nscripts, nops), time.time() - t0)
    rep.sample({'value kinds': ['U64', 'String', 'F64x2'], 'chunk sizes': [1, 2, 3, 4], 'max script length': maxlen, 'script prefixes': nscripts})


def _install_tokio(vm, mir, MAXPEND):
    """tokio as environment: Mutex::lock / JoinSet::join_next futures answer Ready or (a bounded number of times) Pending, block_on drives the
    coroutine state machine of an async block until Ready; m.ghost['pending'] counts queued writes, each reaped write succeeded / failed / panicked"""
    from ..vm import Coro
    def ev(m): return [e[0] for e in m.ghost['events']]
    def context(vm, m, c, a):
        v = a[0]
        if isinstance(v, Enum) and v.name == 'Ok': return ret(m, v)
        if isinstance(v, Enum) and v.name == 'Err': return ret(m, ERR(Struct((v.f[0], a[1]), 'Context')))
        return ret(m, Struct((v, a[1]), 'Context'))
    vm.add_model(r'anyhow::Context<.*>>::context::<', context)
    vm.add_model(r'^<Arc<.*> as Deref>::deref$|^<Arc<.*> as Clone>::clone$', lambda vm, m, c, a: ret(m, deref_val(vm, m, a[0]) if c.endswith('clone') else a[0]))
    vm.add_model(r' as IntoFuture>::into_future$', lambda vm, m, c, a: ret(m, a[0]))
    vm.add_model(r'^Pin::<&mut .*>::new_unchecked$', lambda vm, m, c, a: ret(m, Struct((a[0],), 'Pin')))
    def block_on(vm, m, c, a):
        coro = a[1]
        if not isinstance(coro, Coro): raise Unmodelled('block_on of %r' % (coro,))
        poll = mir.coroutine_of(coro.cty); cell = m.alloc(coro); outs = []; work = [(m, 0)]
        while work:
            mm, n = work.pop()
            if n > 3 * MAXPEND + 4: raise VMError('block_on: poll bound exceeded')
            for (m2, k, v) in vm.exec_fn(mm, poll, [Struct((Ref(cell),), 'Pin'), Ref(m.alloc(Opaque('task context')))]):
                if k != 'ret': outs.append((m2, k, v)); continue
                if v.name == 'Ready': outs.append((m2, 'ret', v.f[0]))
                else: m2.log('events', ('repoll',)); work.append((m2, n + 1))
        return outs
    vm.add_model(r'^Handle::block_on::<\{async block@src/storage/zarr/async_impl.rs', block_on)
    vm.add_model(r'^tokio::sync::Mutex::<JoinSet<.*>>::lock$', lambda vm, m, c, a: ret(m, Struct(('lock future',), 'Fut')))
    def pending_ok(m, tag): return len([e for e in ev(m) if e == 'pending:' + tag]) < MAXPEND
    def poll_lock(vm, m, c, a):
        outs = []; m1 = m.clone(); m1.log('events', ('lock:ready',)); outs.append((m1, 'ret', Enum(0, 'Ready', (Struct((Ref(m.ghost['joinset']),), 'TokioMutexGuard'),), 'Poll')))
        if pending_ok(m, 'lock'): m2 = m.clone(); m2.log('events', ('pending:lock',)); outs.append((m2, 'ret', Enum(1, 'Pending', (), 'Poll')))
        return outs
    vm.add_model(r'^<\{async fn body of tokio::sync::Mutex<.*>::lock\(\)\} as Future>::poll$', poll_lock)
    vm.add_model(r'^<tokio::sync::MutexGuard<.*> as DerefMut>::deref_mut$', lambda vm, m, c, a: ret(m, deref_val(vm, m, a[0]).f[0]))
    vm.add_model(r'^JoinSet::<.*>::join_next$', lambda vm, m, c, a: ret(m, Struct(('join_next future',), 'Fut')))
    def results(m):
        """outcomes of reaping one queued write: (event, value)"""
        return [('write:ok', OK(OK(UNIT))), ('write:failed', OK(ERR(Opaque('anyhow(write)')))), ('write:panicked', ERR(Opaque('JoinError')))]
    def take(m, evname, val, wrap):
        m2 = m.clone(); m2.ghost['pending'] -= 1; m2.log('events', (evname,)); return (m2, 'ret', wrap(SOME(val)))
    def poll_join(vm, m, c, a):
        rdy = lambda x: Enum(0, 'Ready', (x,), 'Poll'); outs = []
        if m.ghost['pending'] == 0:
            m2 = m.clone(); m2.log('events', ('join:none',)); return [(m2, 'ret', rdy(NONE()))]
        for (e, v) in results(m): outs.append(take(m, e, v, rdy))
        if pending_ok(m, 'join'): m2 = m.clone(); m2.log('events', ('pending:join',)); outs.append((m2, 'ret', Enum(1, 'Pending', (), 'Poll')))
        return outs
    vm.add_model(r'^<\{async fn body of JoinSet<.*>::join_next\(\)\} as Future>::poll$', poll_join)
    def try_join_next(vm, m, c, a):     # non-blocking: a write that has not finished yet is not returned
        outs = []; m2 = m.clone(); m2.log('events', ('try_join:none',)); outs.append((m2, 'ret', NONE()))
        if m.ghost['pending'] > 0:
            for (e, v) in results(m): outs.append(take(m, e, v, lambda x: x))
        return outs
    vm.add_model(r'^JoinSet::<.*>::try_join_next$', try_join_next)
    vm.add_model(r'^JoinSet::<.*>::(len|is_empty)$', lambda vm, m, c, a: ret(m, m.ghost['pending'] if c.endswith('len') else m.ghost['pending'] == 0))

    return ev

def async_flush(rep, mir, L):
    """the async backend's ZarrAsyncChainStorage::flush, including its `async` block (the state machine rustc generates for it, driven by
    block_on): when flush returns Ok no queued chunk write is still pending and none of them failed; a failing partial-chunk write or a
    failing / panicked queued write makes flush return Err.  tokio's Mutex, JoinSet and Handle::block_on are the environment."""
    from ..vm import Coro
    fns = [f for n, f in mir.fns.items() if re.search(r'async_impl::<impl at src/storage/zarr/async_impl.rs:\d+:1: \d+:\d+>::flush$', n)]
    if len(fns) != 1: rep.unknown('C15.B async flush not found in the MIR'); return
    fn = fns[0].parse(); A = RealAlg(); vm = VM(mir, A); install_misc(vm); vm.loop_bound = 64; vm.max_stmts = 5000000
    MAXPEND = 2        # each future may answer Pending this many times over the whole run
    ev = _install_tokio(vm, mir, MAXPEND)
    def copy_as_chunk(vm, m, c, a):
        b = deref_val(vm, m, a[0]); return ret(m, SOME(Struct((b.f[0],), 'Chunk')) if b.f[1] else NONE())
    vm.add_model(r'^SampleBuffer::copy_as_chunk$', copy_as_chunk)     # the real function is decided by the script queries above
    def store_sync(vm, m, c, a):
        outs = []
        for ok in (True, False):
            arr = deref_val(vm, m, a[1]); m2 = m.clone(); m2.log('events', ('partial:%s:%s' % (a[2].f[0], 'ok' if ok else 'failed'),)); m2.log('events', ('array:%s->%s' % (a[2].f[0], getattr(arr, 'tag', arr)),)); outs.append((m2, 'ret', OK(UNIT) if ok else ERR(Opaque('anyhow(partial write)'))))
        return outs
    vm.add_model(r'^store_zarr_chunk_sync$', store_sync)
    t0 = time.time(); bad = {}; npaths = 0; seen = set()
    def buf(tag, nonempty): return Struct((tag, nonempty), 'SampleBufferTok')
    def hmap(pairs):
        from ..intrinsics import hm_new
        return hm_new(vm, [Struct((Str(k), v)) for k, v in pairs])
    for pending in (0, 1, 2):
        for warm in (True, False):
            for parity in (0, 1):
                vm.hm_parity = parity
                m = Machine(); m.ghost['events'] = []; m.ghost['pending'] = pending; m.ghost['joinset'] = m.alloc(Opaque('JoinSet'))
                AF = 'async_impl'
                arrays = L.make('ArrayCollection', {f: (hmap([('a', Opaque(f + '/a')), ('b', Opaque(f + '/b'))]) if f.endswith('_arrays') else Opaque(f)) for f in L.fields('ArrayCollection', file=AF)}, file=AF)
                st = L.make('ZarrAsyncChainStorage', {'draw_buffers': hmap([('a', buf('draw a', True)), ('b', buf('draw b', False))]), 'stats_buffers': hmap([('a', buf('stat a', True))]), 'arrays': arrays, 'chain': 0,
                                                      'last_sample_was_warmup': warm, 'event_dim_of_stat': Opaque('ed'), 'warmup_event_counts': Opaque('wc'), 'pending_writes': Opaque('pending arc'), 'rt_handle': Opaque('handle'), 'max_queued_writes': 4})
                outs = list(vm.exec_fn(m, fn, [Ref(m.alloc(st))])); npaths += len(outs)
                for (m2, k, v) in outs:
                    e = ev(m2); fail = [x for x in e if x.endswith(':failed') or x == 'write:panicked']
                    if k == 'panic': bad.setdefault('async.flush.panic', 'async flush panics: %s (events %s)' % (str(v)[:100], e[-5:])); continue
                    seen.add((v.name, bool(fail), m2.ghost['pending'] == 0))
                    if v.name == 'Ok':
                        if m2.ghost['pending'] > 0: bad.setdefault('async.flush.pending', 'flush() returns Ok while %d queued chunk write(s) have not completed: a reader (or a crash) right after flush misses those chunks (events %s)' % (m2.ghost['pending'], e[-6:]))
                        if fail: bad.setdefault('async.flush.swallowed', 'flush() returns Ok although a write failed: %s' % fail)
                        want = {'partial:draw a:ok', 'partial:stat a:ok'}
                        pre = 'warmup' if warm else 'sample'
                        if 'array:draw a->%s_draw_arrays/a' % pre not in e or 'array:stat a->%s_param_arrays/a' % pre not in e: bad.setdefault('async.flush.array', 'flush() writes a partial chunk into the wrong array (warm-up = %s; events %s)' % (warm, [x for x in e if x.startswith('array:')]))
                        if not want <= set(e) or any(x.startswith('partial:draw b') for x in e): bad.setdefault('async.flush.partial', 'flush() does not write exactly the non-empty buffers as partial chunks (events %s)' % [x for x in e if x.startswith('partial')])
                    elif not fail: bad.setdefault('async.flush.spurious_err', 'flush() returns Err although every write succeeded (events %s)' % e[-6:])
    rep.paths += npaths; rep.absorb_vm(vm)
    for key, what in bad.items(): rep.violated('C15.B ' + key, key, what, model={})
    if not bad: rep.holds('C15.B ZarrAsyncChainStorage::flush with its async block (0..2 queued writes, every completion order/outcome, <= %d Pending answers per future, warm-up and sampling): Ok only when every non-empty buffer was written as a partial chunk into the array of its own name and phase, no queued write is left pending and none failed; otherwise Err (%d paths)' % (MAXPEND, npaths), time.time() - t0)
    rep.cover('C15.B flush: Ok with empty queue and Err after a failed write both reachable', ('Ok', False, True) in seen and any(s[0] == 'Err' and s[1] for s in seen))


def sync_chain_storage(rep, mir, L):
    """the sync backend end to end: the real ZarrChainStorage::{record_sample, push_param, push_draw, flush, finalize} with real SampleBuffers and
    the real store_zarr_chunk over the write-log Array model, one draw variable and one statistic (scalars), flush after every draw:
    after every flush - and after finalize - each of the four arrays holds exactly the draws of its phase recorded so far, in order."""
    SF = 'zarr/sync_impl'
    rec = mir.method('ZarrChainStorage', 'ChainStorage', 'record_sample', file=SF); flush = mir.method('ZarrChainStorage', 'ChainStorage', 'flush', file=SF); fin = mir.method('ZarrChainStorage', 'ChainStorage', 'finalize', file=SF)
    new = mir.method('SampleBuffer', None, 'new'); bad = {}; nruns = 0; nflush = 0; t0 = time.time()
    NMAX = 4 if rep.tier == 'quick' else 6
    from ..intrinsics import hm_new
    for c in (1, 2, 3):
        for N in range(1, NMAX + 1):
            for T in range(0, N + 1):
                for (parity, every) in ((0, 1), (1, 1), (0, 2), (1, 3), (0, None)):       # flush after every draw / every 2nd / every 3rd / only finalize
                    E = Env(mir, L); vm = E.vm; vm.hm_parity = parity; vm.loop_bound = 200
                    vm.add_model(r'^<Arc<.*> as Deref>::deref$', lambda vm, m, c, a: ret(m, a[0]))
                    vm.add_model(r'^<\[&str; 2\]>::contains$|^core::slice::<impl \[&str\]>::contains$', lambda vm, m, c, a: ret(m, deref_val(vm, m, a[1]).s in ('draw', 'chain')))
                    m = Machine(); m.ghost['writes'] = []; m.ghost['rank'] = 2; m.ghost['shape_cell'] = m.alloc(Seq([1, 1000]))
                    def mkbuf(t):
                        o = vm.run(new, [E.item(t), c], m); return o[0][2]
                    hm = lambda pairs: hm_new(vm, [Struct((Str(k), v)) for k, v in pairs])
                    arrays = L.make('ArrayCollection', {f: hm([(nm, Opaque('%s/%s' % (f, nm))) for nm in (('x',) if 'draw' in f else ('s',))]) for f in L.fields('ArrayCollection', file=SF)}, file=SF)
                    st = L.make('ZarrChainStorage', {'draw_buffers': hm([('x', mkbuf('U64'))]), 'stats_buffers': hm([('s', mkbuf('String'))]), 'arrays': arrays, 'chain': 0, 'last_sample_was_warmup': True,
                                                     'event_dim_of_stat': hm([]), 'warmup_event_counts': hm([])}, file=SF)
                    sc = m.alloc(st); store = {}; xs = []; ss = []; ok = True; nruns += 1
                    def apply_writes(m):
                        for (kind, idx, sub, vals, arr) in m.ghost['writes']:
                            if kind == 'chunk': off = idx[1] * c; cnt = c; chain = idx[0]
                            elif kind == 'chunk_subset': off = idx[1] * c + sub[0][1]; cnt = sub[1][1]; chain = idx[0] + sub[0][0]
                            else: off = sub[0][1]; cnt = sub[1][1]; chain = sub[0][0]
                            if chain != 0 or len(vals) != cnt: bad.setdefault('sync.store.extent', ('write extent / chain row wrong', (c, N, T)))
                            for j in range(cnt): store.setdefault(arr, {})[off + j] = vals[j]
                        m.ghost['writes'] = []
                    def check(when, d):
                        warm = min(d + 1, T)
                        for arr, vals in (('warmup_draw_arrays/x', xs[:warm]), ('sample_draw_arrays/x', xs[T:d + 1] if d + 1 > T else []), ('warmup_param_arrays/s', ss[:warm]), ('sample_param_arrays/s', ss[T:d + 1] if d + 1 > T else [])):
                            got = store.get(arr, {})
                            for j, v in enumerate(vals):
                                if j not in got or not eqv(got[j], v):
                                    bad.setdefault('sync.flush.content', ('%s draw %d (chunk size %d, %d tuning draws of %d): array %s does not hold recorded value %d (%s)' % (when, d, c, T, N, arr, j, 'missing' if j not in got else 'wrong value'), (c, N, T, parity))); return
                            if any(j >= len(vals) and not False for j in got if j >= len(vals)):
                                pass    # slots beyond the recorded draws may hold anything written by a partial chunk of the same phase: not observable for a reader that trusts the counts
                    for d in range(N):
                        xv = z3.Int('x_%d' % d); sv = Str('s%d' % d); xs.append(xv); ss.append(sv); en = vm.enums['Value']
                        stats = Seq([Struct((Str('s'), SOME(Enum(en.index('ScalarString'), 'ScalarString', (sv,), 'Value')))), Struct((Str('draw'), SOME(Enum(en.index('ScalarU64'), 'ScalarU64', (d,), 'Value')))), Struct((Str('absent'), NONE()))])
                        draws = Seq([Struct((Str('x'), SOME(Enum(en.index('ScalarU64'), 'ScalarU64', (xv,), 'Value'))))])
                        info = L.make('Progress', {'draw': d, 'chain': 0, 'diverging': False, 'tuning': d < T, 'step_size': E.A.fresh('eps'), 'num_steps': 1})
                        o = vm.merge_outcomes(vm.run(rec, [Ref(sc), Ref(m.alloc(Opaque('settings'))), stats, draws, Ref(m.alloc(info))], m))
                        if len(o) != 1 or o[0][1] != 'ret' or o[0][2].name != 'Ok': bad.setdefault('sync.record', ('record_sample fails / forks: %s' % str([(k, str(v)[:120]) for (_, k, v) in o][:2]), (c, N, T))); ok = False; break
                        m = o[0][0]; apply_writes(m)
                        if every is None or (d + 1) % every != 0: continue
                        before = m.mem[sc]
                        o = vm.merge_outcomes(vm.run(flush, [Ref(sc)], m))
                        if len(o) != 1 or o[0][1] != 'ret' or o[0][2].name != 'Ok': bad.setdefault('sync.flush', ('flush fails / forks: %s' % str([(k, str(v)[:120]) for (_, k, v) in o][:2]), (c, N, T))); ok = False; break
                        m = o[0][0]; apply_writes(m); nflush += 1
                        if not vm._same(before, m.mem[sc]): bad.setdefault('sync.flush.mutates', ('flush changes the chain storage', (c, N, T)))
                        check('after flush following', d)
                    if not ok: continue
                    o = vm.merge_outcomes(vm.run(fin, [m.mem[sc]], m))
                    if len(o) != 1 or o[0][1] != 'ret' or o[0][2].name != 'Ok': bad.setdefault('sync.finalize', ('finalize fails / forks: %s' % str([(k, str(v)[:120]) for (_, k, v) in o][:2]), (c, N, T))); continue
                    apply_writes(o[0][0]); check('after finalize following', N - 1)
                    rep.absorb_vm(vm)
    rep.paths += nruns
    for key, (what, where) in bad.items(): rep.violated('C15.C ' + key, key, '%s %s' % (what, where), model={'where': str(where)})
    if not bad: rep.holds('C15.C sync ZarrChainStorage end to end (chunk size 1-3, 1-%d draws, every warm-up/sampling split, flush after every draw / every 2nd / every 3rd / never, finalize): every array holds exactly the draws of its phase recorded so far, in order; flush does not change the storage (%d runs, %d flushes)' % (NMAX, nruns, nflush), time.time() - t0)
    rep.cover('C15.C flushes executed', nflush > 0)


def async_writer(rep, mir, L):
    """C15.D  the async chunk writer store_zarr_chunk_async (the state machine rustc generates for the async fn, driven poll by poll with every zarrs
    future answering Ready or - a bounded number of times - Pending) is the twin of the sync writer store_zarr_chunk, which C15.A / C15.C decide:
    for every chunk (all six value kinds, full / partial / empty, chunk index 0..2, chain row 0 and 3, scalar and width-2 items) both issue the same
    zarrs store calls with the same indices, subsets and values on the same array, and return Ok; a failing store call makes the writer return Err."""
    from ..vm import Coro
    t0 = time.time(); sync = mir.find(r'^store_zarr_chunk$'); mk = mir.find(r'^store_zarr_chunk_async$'); bad = {}; n = 0; reached = set()
    MAXPEND = 1
    kinds = ('F64', 'F32', 'Bool', 'I64', 'U64', 'String')
    for t in kinds:
        for (width, rank) in ((1, 2), (2, 3)):
            if t == 'String' and width == 2: continue
            for c in (1, 2, 3):
                for ln in range(0, c + 1):
                    for cidx in ((0, 2) if rep.tier == 'quick' else (0, 1, 2)):
                        for chain in (0, 3):
                            for fail in (False, True):
                                E = Env(mir, L); vm = E.vm; _install_tokio(vm, mir, MAXPEND); A = E.A
                                en = vm.enums['SampleBufferValue']
                                if t in ('F64', 'F32'): vals = [A.fresh('v%d' % j) for j in range(ln * width)]
                                elif t == 'Bool': vals = [z3.Bool('v%d' % j) for j in range(ln * width)]
                                elif t == 'String': vals = [Str('s%d' % j) for j in range(ln * width)]
                                else: vals = [z3.Int('v%d' % j) for j in range(ln * width)]
                                def chunk(): return L.make('Chunk', {'chunk_idx': cidx, 'len': ln, 'full_at': c, 'values': Enum(en.index(t), t, (Seq(list(vals)),), 'SampleBufferValue')})
                                def machine():
                                    m = Machine(); m.ghost['writes'] = []; m.ghost['events'] = []; m.ghost['rank'] = rank; m.ghost['fail'] = fail
                                    m.ghost['shape_cell'] = m.alloc(Seq([8, 1000] + ([width] if rank == 3 else []))); return m
                                # zarrs async stores: the call builds a future, its poll performs (logs) the store or answers Pending
                                def mkfut(kind):
                                    return lambda vm, m, c_, a: ret(m, Struct((kind, tuple(a)), 'ZFut'))
                                for kind in ('chunk', 'chunk_subset', 'array_subset'): vm.add_model(r'::async_store_%s::<' % kind, mkfut(kind))
                                def poll_store(vm, m, c_, a):
                                    f = a[0]
                                    while not (isinstance(f, Struct) and f.ty == 'ZFut'): f = deref_val(vm, m, f.f[0] if isinstance(f, Struct) else f)
                                    kind, args = f.f; outs = []
                                    if len([e for e in m.ghost['events'] if e == ('pending:store',)]) < MAXPEND:
                                        m2 = m.clone(); m2.log('events', ('pending:store',)); outs.append((m2, 'ret', Enum(1, 'Pending', (), 'Poll')))
                                    m1 = m.clone()
                                    h = [hh for (rx, hh) in vm.models if rx.pattern == r'::store_%s::<' % kind][0]
                                    for (m3, k3, v3) in h(vm, m1, 'store', list(args)): outs.append((m3, k3, Enum(0, 'Ready', (v3,), 'Poll')))
                                    return outs
                                vm.add_model(r'^<\{async fn body of .*::async_store_(chunk|chunk_subset|array_subset)<.*>\(\)\} as Future>::poll$', poll_store)
                                # sync reference
                                ms = machine(); arr = Opaque('array'); arr.tag = 'the array'
                                o = vm.merge_outcomes(vm.run(sync, [Ref(ms.alloc(arr)), chunk(), chain], ms))
                                if len(o) != 1 or o[0][1] != 'ret': bad.setdefault('sync', ('store_zarr_chunk forks or panics', (t, width, c, ln, cidx, chain, fail))); continue
                                (ms, _, rs) = o[0]
                                # async twin: build the coroutine, then poll until Ready
                                ma = machine(); arr2 = Opaque('array'); arr2.tag = 'the array'
                                o = vm.run(mk, [Ref(ma.alloc(arr2)), chunk(), chain], ma)
                                if len(o) != 1 or o[0][1] != 'ret' or not isinstance(o[0][2], Coro): bad.setdefault('coroutine', ('store_zarr_chunk_async does not build its coroutine', str(o[0][2])[:100])); continue
                                (ma, _, coro) = o[0]; poll = mir.get('store_zarr_chunk_async::{closure#0}'); cell = ma.alloc(coro); work = [(ma, 0)]; finals = []
                                while work:
                                    mm, k = work.pop()
                                    if k > 3 * MAXPEND + 4: raise VMError('async writer: poll bound exceeded')
                                    for (m2, kk, v) in vm.exec_fn(mm, poll, [Struct((Ref(cell),), 'Pin'), Ref(mm.alloc(Opaque('task context')))]):
                                        if kk != 'ret': finals.append((m2, kk, v)); continue
                                        if v.name == 'Ready': finals.append((m2, 'ret', v.f[0]))
                                        else: work.append((m2, k + 1))
                                n += len(finals); rep.absorb_vm(vm)
                                where = {'kind': t, 'width': width, 'chunk size': c, 'len': ln, 'chunk_idx': cidx, 'chain': chain, 'store fails': fail}
                                for (m2, kk, v) in finals:
                                    if kk != 'ret': bad.setdefault('panic', ('the async writer panics where the sync one does not: %s' % (str(v)[:120],), where)); continue
                                    if any(e == ('pending:store',) for e in m2.ghost['events']): reached.add('pending')
                                    if v.name != rs.name: bad.setdefault('result', ('async writer returns %s, sync writer %s' % (v.name, rs.name), where)); continue
                                    if fail:
                                        reached.add('fail' if ms.ghost['writes'] == [] and ln > 0 else 'fail-empty'); continue
                                    wa, ws = m2.ghost['writes'], ms.ghost['writes']
                                    same = len(wa) == len(ws) and all(x[0] == y[0] and x[1] == y[1] and x[2] == y[2] and x[4] == y[4] and len(x[3]) == len(y[3]) and all(eqv(p, q) or (isinstance(p, Str) and isinstance(q, Str) and p.s == q.s) for p, q in zip(x[3], y[3])) for x, y in zip(wa, ws))
                                    if not same: bad.setdefault('writes', ('the async writer issues different store calls than the sync writer: async %s, sync %s' % (str(wa)[:200], str(ws)[:200]), where))
                                    reached.add('empty' if ln == 0 else ('full' if ln == c else 'partial') + ('-string' if t == 'String' else ''))
    rep.paths += n
    for r in ('full', 'partial', 'empty', 'full-string', 'partial-string', 'pending', 'fail'): rep.cover('C15.D async writer case exercised: ' + r, r in reached)
    for key, (what, where) in bad.items():
        rep.violated('C15.D async writer ' + key, 'async.writer.' + key, '%s (%s)' % (what, where), model={'where': str(where)})
    if not bad: rep.holds('C15.D store_zarr_chunk_async (coroutine, polled with Pending answers) issues exactly the store calls of the sync writer store_zarr_chunk and returns Ok; Err when a store call fails (%d polled runs)' % n, time.time() - t0)

def native_zarr(rep):
    """model validation through the real build (not a deciding step): the same seeded two-chain run is stored by the HashMap backend and by the sync
    Zarr backend (MemoryStore); after finalisation a fresh reader of the Zarr store must see the HashMap values - this exercises the real zarrs
    store_chunk / store_chunk_subset / store_array_subset semantics that the write-log model of C15.A / C15.C assumes."""
    from .. import native
    cases = [(10, 15, 13), (1, 3, 2)] if rep.tier == 'quick' else [(100, 20, 10), (10, 20, 10), (5, 20, 10), (1, 20, 10), (10, 15, 13), (4, 14, 9), (7, 20, 10), (4, 0, 9), (3, 7, 0), (2, 1, 1)]
    n = 0; bad = []
    for (c, t, d) in cases:
        r = native.run_zarr({'chunk': c, 'num_tune': t, 'num_draws': d})
        if r is None: rep.notes.append('C15.V native Zarr driver unavailable (not built / scratch copy): validation skipped'); return
        n += 2 * (t + d)
        if r.get('confirmed'): bad.append(r)
    rep.validated += n
    if bad: rep.validation_mismatch += bad; rep.errors.append('C15.V the real sync Zarr backend and the HashMap backend disagree after finalisation: %s' % str(bad[0])[:300])
    else: rep.notes.append('C15.V %d recorded draws (2 chains, %d (chunk, tune, draws) cases) read back identically from the real sync Zarr backend and the HashMap backend' % (n, len(cases)))
    rep.cover('C15.V native Zarr-vs-HashMap comparison ran', n > 0)


def async_queue(rep, mir, L):
    """queue_write (async backend: what push does with a full chunk) including its spawned async block: the chunk is put on the write queue exactly once
    and only after the queue has been drained below max_queued_writes; a failed or panicked earlier write surfaces as Err of this call (it is
    not lost); Ok means the chunk was queued."""
    from ..vm import Coro
    fns = [f for n, f in mir.fns.items() if n == 'queue_write']
    if len(fns) != 1: rep.unknown('C15.B2 queue_write not found in the MIR'); return
    fn = fns[0].parse(); A = RealAlg(); vm = VM(mir, A); install_misc(vm); vm.loop_bound = 64; vm.max_stmts = 5000000
    ev = _install_tokio(vm, mir, 1)
    vm.add_model(r'^<Handle as Clone>::clone$', lambda vm, m, c, a: ret(m, Opaque('handle')))
    vm.add_model(r'^<tokio::sync::MutexGuard<.*> as Deref>::deref$', lambda vm, m, c, a: ret(m, deref_val(vm, m, a[0]).f[0]))
    vm.add_model(r'^Handle::spawn::<\{async block@', lambda vm, m, c, a: ret(m, Struct((a[1],), 'JoinHandle')))
    def block_on_handle(vm, m, c, a):
        """block_on(JoinHandle of the spawned task): the task runs to completion (our block_on model on its coroutine); Ok(result), or Err(JoinError) if it panicked"""
        co = a[1].f[0]; outs = []
        for (m2, k, v) in vm.call(m, 'Handle::block_on::<{async block@src/storage/zarr/async_impl.rs (spawned task)}>', [a[0], co]):
            if k == 'ret': outs.append((m2, 'ret', OK(v)))
            else: outs.append((m2, k, v))
        return outs
    vm.add_model(r'^Handle::block_on::<tokio::task::JoinHandle<', block_on_handle)
    def spawn_on(vm, m, c, a):
        m.ghost['pending'] += 1; m.ghost['maxq'] = max(m.ghost['maxq'], m.ghost['pending']); co = a[1]
        m.log('events', ('spawn_on:%s:%s' % (getattr(co.f[0], 'tag', co.f[0]), getattr(co.f[1], 'tag', co.f[1])),)); return ret(m, Opaque('abort handle'))
    vm.add_model(r'^JoinSet::<.*>::spawn_on::<', spawn_on)
    t0 = time.time(); bad = {}; npaths = 0; seen = set()
    for pending in (0, 1, 2, 3):
        for maxq in (1, 2):
            m = Machine(); m.ghost['events'] = []; m.ghost['pending'] = pending; m.ghost['maxq'] = 0; m.ghost['joinset'] = m.alloc(Opaque('JoinSet'))
            outs = list(vm.exec_fn(m, fn, [Ref(m.alloc(Opaque('handle'))), Opaque('queue arc'), maxq, Opaque('the array'), Opaque('the chunk'), 0])); npaths += len(outs)
            for (m2, k, v) in outs:
                e = ev(m2); fail = [x for x in e if x in ('write:failed', 'write:panicked')]; sp = [x for x in e if x.startswith('spawn_on:')]
                if k == 'panic': bad.setdefault('async.queue.panic', 'queue_write panics: %s (events %s)' % (str(v)[:100], e[-5:])); continue
                seen.add((v.name, bool(fail)))
                if v.name == 'Ok':
                    if fail: bad.setdefault('async.queue.swallowed', 'queue_write returns Ok although an earlier queued write failed (%s): the failure is lost' % fail)
                    if sp != ['spawn_on:the array:the chunk']: bad.setdefault('async.queue.lost', 'queue_write returns Ok but the chunk was not put on the queue exactly once with its own array (%s)' % sp)
                else:
                    if not fail: bad.setdefault('async.queue.spurious_err', 'queue_write returns Err although no write failed (events %s)' % e[-6:])
                    if sp: bad.setdefault('async.queue.err_but_queued', 'queue_write reports Err but queued the chunk anyway')
    rep.paths += npaths; rep.absorb_vm(vm)
    for key, what in bad.items(): rep.violated('C15.B2 ' + key, key, what, model={})
    if not bad: rep.holds('C15.B2 queue_write with its spawned async block (0..3 writes already queued, max_queued_writes 1..2, every completion outcome): Ok <=> the chunk was queued exactly once with its array and no reaped write had failed (how far the queue is drained first is back-pressure, not completeness, and is not judged); a failed or panicked earlier write makes the call return Err (%d paths)' % npaths, time.time() - t0)
    rep.cover('C15.B2 queue_write: Ok and Err|fault both reachable', ('Ok', False) in seen and ('Err', True) in seen)
