"""C14 - storage backends return exactly what the chains recorded: HashMap backend and its value buffers (DESIGN section 4, C14)."""
import itertools, time
import z3
from ..driver import load_mir, REPO, parts
from ..layout import Layouts
from ..vm import BoundExceeded, VM, Machine, Struct, Enum, Seq, Ref, SliceRef, Str, Opaque, UNIT, NONE, SOME, OK, ERR, ret, VMError, Unmodelled
from ..alg import RealAlg, Fl
from ..mathenv import install_misc
from ..intrinsics import deref_val
from .. import native

ITEMS = ['U64', 'I64', 'F64', 'F32', 'Bool', 'String', 'DateTime64', 'TimeDelta64']
# Value variants a derived Storable can emit for an item type (C16): scalar and vector forms
ALLOWED = {'U64': ['ScalarU64', 'U64'], 'I64': ['ScalarI64', 'I64'], 'F64': ['ScalarF64', 'F64'], 'F32': ['ScalarF32', 'F32'], 'Bool': ['ScalarBool', 'Bool'],
           'String': ['ScalarString', 'Strings'], 'DateTime64': ['DateTime64'], 'TimeDelta64': ['TimeDelta64']}

class H:
    def __init__(self, mir, L):
        self.mir = mir; self.L = L; self.A = RealAlg(); self.vm = VM(mir, self.A); install_misc(self.vm)
        self.vm.add_model(r'^<std::string::String as Clone>::clone$', lambda vm, m, c, a: ret(m, deref_val(vm, m, a[0])))
        self.vm.add_model(r'^<ItemType as Clone>::clone$|^<HashMapValue as Clone>::clone$|^<\(std::string::String, ItemType\) as Clone>::clone$', lambda vm, m, c, a: ret(m, deref_val(vm, m, a[0])))
        self.n = 0
    def item(self, t):
        en = self.vm.enums['ItemType']; unit = Enum(0, 'Seconds', (), 'DateTimeUnit')
        return Enum(en.index(t), t, (unit,) if t in ('DateTime64', 'TimeDelta64') else (), 'ItemType')
    def fresh_elem(self, t):
        self.n += 1
        if t in ('U64', 'I64', 'DateTime64', 'TimeDelta64'): return z3.Int('v%d' % self.n)
        if t in ('F64', 'F32'): return self.A.fresh('v%d' % self.n)
        if t == 'Bool': return z3.Bool('v%d' % self.n)
        return Str('string %d' % self.n)
    def value(self, t, variant, k=2):
        en = self.vm.enums['Value']; unit = Enum(0, 'Seconds', (), 'DateTimeUnit')
        if variant.startswith('Scalar'):
            e = self.fresh_elem(t); return Enum(en.index(variant), variant, (e,), 'Value'), [e]
        es = [self.fresh_elem(t) for _ in range(k)]
        if variant in ('DateTime64', 'TimeDelta64'): return Enum(en.index(variant), variant, (unit, Seq(es)), 'Value'), es
        return Enum(en.index(variant), variant, (Seq(es),), 'Value'), es

def same_list(a, b):
    if len(a) != len(b): return False
    for x, y in zip(a, b):
        if isinstance(x, Fl): x = x.v
        if isinstance(y, Fl): y = y.v
        if z3.is_expr(x) or z3.is_expr(y):
            if not (z3.is_expr(x) and z3.is_expr(y) and x.eq(y)): return False
        elif x != y: return False
    return True

def run(rep):
    mir = load_mir(rep); L = Layouts(REPO)
    rep.bounds = {'backend': 'HashMap only', 'keys': 'one statistic per item type and value form', 'draws': 'two warm-up and two sampling draws', 'vector length': 2}
    rep.assumptions += ['std::collections::HashMap is a string-keyed map whose iteration order is unspecified: maps created one after the other iterate in opposite orders (insertion / reverse insertion) and every query is run with both assignments', 'Value / ItemType pairs are those a derived Storable can emit (C16)']
    rep.outside += ['Arrow, ndarray and Zarr encodings and files; of the CSV backend only the column-name / element-index mapping of multi-dimensional variables is covered', 'cross-backend agreement', 'store_warmup', 'multi-chain assembly in the sampler']
    parts(rep, [lambda: buffers(rep, mir, L), lambda: chain_storage(rep, mir, L), lambda: unique_names(rep, mir, L), lambda: csv_index(rep, mir, L), lambda: trace_finalize(rep, mir, L), lambda: csv_special_values(rep, mir, L)])

def buffers(rep, mir, L):
    """HashMapValue::new(t).push(v): no panic and exactly the value(s) appended, for every declared item type and every value form it can receive"""
    new = mir.method('HashMapValue', None, 'new'); push = mir.method('HashMapValue', None, 'push'); bad = []; n = 0
    for t in ITEMS:
        for variant in ALLOWED[t]:
            h = H(mir, L); m = Machine()
            outs = h.vm.merge_outcomes(h.vm.run(new, [h.item(t)], m))
            if len(outs) != 1 or outs[0][1] != 'ret': bad.append(('HashMapValue::new panics', t)); continue
            (m, _, buf) = outs[0]; c = m.alloc(buf); want = []
            ok = True
            for rnd in range(2):
                v, es = h.value(t, variant); want += es
                o2 = h.vm.merge_outcomes(h.vm.run(push, [Ref(c), v], m)); n += len(o2)
                if len(o2) != 1 or o2[0][1] != 'ret': bad.append(('push panics for a value of the declared type', t, variant, str(o2[0][2])[:100])); ok = False; break
                m = o2[0][0]
            rep.absorb_vm(h.vm)
            if ok and not same_list(list(m.mem[c].f[0].items), want): bad.append(('buffer content differs from the pushed values', t, variant))
    rep.paths += n
    rep.cover('C14.a at least 14 (type, value form) pairs pushed', n >= 28)
    if bad: rep.violated('C14.a value buffers', 'hashmap.buffer', 'HashMap value buffer: %s' % (bad[0],), model={'problems': [str(b) for b in bad]})
    else: rep.holds('C14.a HashMapValue::new/push: every declared item type accepts every value form it can receive and appends exactly the values in order (%d pushes)' % n)

ALLDRAWVARS = [('x', 'F64', 'F64'), ('y', 'F64', 'ScalarF64'), ('z', 'I64', 'ScalarI64')]
def chain_storage(rep, mir, L):
    for parity in (0, 1): _chain_storage(rep, mir, L, parity, ALLDRAWVARS)

class _Probe:
    """a throw-away report used to classify a finalize panic (does it persist with a single draw variable?)"""
    def __init__(self): self.keys = []; self.paths = 0
    def violated(self, name, key, *a, **k): self.keys.append(key)
    def holds(self, *a, **k): pass
    def cover(self, *a, **k): pass
    def absorb_vm(self, vm): pass

def _chain_storage(rep, mir, L, parity, DRAWVARS):
    """new -> record_sample (warm-up, warm-up, sample, sample) -> finalize: no panic, every key returns warm-up values followed by sample values"""
    h = H(mir, L); vm = h.vm; vm.hm_parity = parity; m = Machine()
    keys = []
    for t in ITEMS:
        for variant in ALLOWED[t]: keys.append(('%s_%s' % (t.lower(), variant), t, variant))
    types = Seq([Struct((Str(k), h.item(t))) for (k, t, v) in keys])
    pc = m.alloc(types); dc = m.alloc(Seq([Struct((Str(nm), h.item(t))) for (nm, t, vr) in DRAWVARS]))
    new = mir.method('HashMapChainStorage', None, 'new'); rec = mir.method('HashMapChainStorage', 'ChainStorage', 'record_sample'); fin = mir.method('HashMapChainStorage', 'ChainStorage', 'finalize')
    outs = vm.merge_outcomes(vm.run(new, [SliceRef(pc, (), 0, len(keys)), SliceRef(dc, (), 0, len(DRAWVARS))], m))
    if len(outs) != 1 or outs[0][1] != 'ret': rep.violated('C14.b HashMapChainStorage::new', 'hashmap.new', 'HashMapChainStorage::new panics: %s' % str(outs[0][2])[:200]); return
    (m, _, st) = outs[0]; sc = m.alloc(st)
    want = {k: {'warm': [], 'samp': []} for (k, t, v) in keys}; wantx = {nm: {'warm': [], 'samp': []} for (nm, t, vr) in DRAWVARS}
    for tuning in (True, True, False, False):
        stats = []
        for (k, t, variant) in keys:
            v, es = h.value(t, variant); stats.append(Struct((Str(k), SOME(v)))); want[k]['warm' if tuning else 'samp'] += es
        stats.append(Struct((Str('absent_statistic_placeholder'), NONE())))
        stats = [s for s in stats if s.f[0].s != 'absent_statistic_placeholder'] + [Struct((Str(keys[0][0]), NONE()))]   # an absent (None) statistic records nothing
        dvals = []
        for (nm, t, vr) in DRAWVARS:
            xv, xs = h.value(t, vr); wantx[nm]['warm' if tuning else 'samp'] += xs; dvals.append(Struct((Str(nm), SOME(xv))))
        info = L.make('Progress', {'draw': z3.Int('d'), 'chain': 0, 'diverging': False, 'tuning': tuning, 'step_size': h.A.fresh('eps'), 'num_steps': 3})
        o = vm.merge_outcomes(vm.run(rec, [Ref(sc), Ref(m.alloc(Opaque('settings'))), Seq(stats), Seq(dvals), Ref(m.alloc(info))], m))
        if len(o) != 1 or o[0][1] != 'ret' or o[0][2].name != 'Ok':
            rep.violated('C14.b record_sample', 'hashmap.record', 'record_sample fails for values of the declared types: %s' % str(o[0][2])[:300]); return
        m = o[0][0]
    rep.paths += 4; rep.cover('C14.b four draws recorded (2 warm-up, 2 sampling)', True)
    o = vm.run(fin, [m.mem[sc]], m); rep.paths += len(o); rep.absorb_vm(vm)
    pan = [x for x in o if x[1] == 'panic']
    if pan:
        msg = str(pan[0][2])[:300]
        only_draws = False
        if len(DRAWVARS) > 1 and not isinstance(rep, _Probe):
            pr = _Probe(); _chain_storage(pr, mir, L, parity, DRAWVARS[:1]); only_draws = not any(k.startswith('hashmap.finalize.panic') for k in pr.keys)
        if only_draws:    # the panic disappears with a single draw variable: no native driver with several differently typed draw variables exists, the symbolic trace is the evidence
            rep.violated('C14.b finalize does not panic for any set of draw variables', 'hashmap.finalize.panic.draws', 'HashMapChainStorage::finalize panics when combining the warm-up and sampling values of the draw variables %s (HashMap iteration orders: parity %d): %s' % ([d[0] for d in DRAWVARS], parity, msg), model={'draw variables': [list(d) for d in DRAWVARS], 'parity': parity})
            return
        nat = native.run('hashmap_finalize', {}) if not isinstance(rep, _Probe) else None
        rep.violated('C14.b finalize does not panic for any declared statistic type', 'hashmap.finalize.panic', 'HashMapChainStorage::finalize panics when combining warm-up and sampling values: %s' % msg, model={'keys': [k for (k, t, v) in keys]}, native=nat)
        return
    res = o[0][2]
    if res.name != 'Ok': rep.violated('C14.b finalize Ok', 'hashmap.finalize.err', 'finalize returns Err'); return
    r = res.f[0]; stats = {p.f[0].s: p.f[1] for p in L.get('HashMapResult', r, 'stats').f[0].items}; draws = {p.f[0].s: p.f[1] for p in L.get('HashMapResult', r, 'draws').f[0].items}
    bad = []
    for (k, t, v) in keys:
        if k not in stats: bad.append(('statistic missing from the finalized trace', k)); continue
        if not same_list(list(stats[k].f[0].items), want[k]['warm'] + want[k]['samp']): bad.append(('finalized values are not warm-up followed by sampling values in recording order', k))
    for (nm, t, vr) in DRAWVARS:
        if nm not in draws or not same_list(list(draws[nm].f[0].items), wantx[nm]['warm'] + wantx[nm]['samp']): bad.append(('draw variable does not come back as its own warm-up values followed by its own sampling values', nm))
    if bad: rep.violated('C14.b finalize content', 'hashmap.finalize.content', 'HashMap trace differs from what was recorded: %s' % (bad[0],), model={'problems': [str(b) for b in bad]})
    else: rep.holds('C14.b HashMapChainStorage new/record_sample/finalize: every statistic of every declared type comes back as warm-up values followed by sampling values in recording order; absent values record nothing (%d statistics, %d draw variables; HashMap iteration orders: parity %d)' % (len(keys), len(DRAWVARS), parity))

def unique_names(rep, mir, L):
    """a keyed backend stores one buffer per statistic name: the names declared by every preset must be distinct, otherwise two statistics are
    merged into one buffer and the trace holds twice as many values as draws for that name"""
    from .c16 import PRESETS, derived_impls, mk_vm, strs
    impls = derived_impls(mir); bad = []
    for preset, (top, inst) in PRESETS.items():
        prefix = [p for (sn, f), p in impls.items() if sn == top]
        if len(prefix) != 1: rep.unknown('C14.c %s' % preset, 'stats struct not found'); continue
        A, vm = mk_vm(mir, L, inst); m = Machine()
        (m1, k1, nm) = vm.run(mir.get(prefix[0] + '::names'), [Ref(m.alloc(Opaque('parent')))], m)[0]
        names = strs(vm, m1, nm); rep.absorb_vm(vm); rep.paths += 1
        dup = sorted({x for x in names if names.count(x) > 1})
        if dup: bad.append((preset, dup))
    if bad:
        nat = native.run('hashmap_finalize', {'sampler': 'mclmc'}) if any('Mclmc' in p for p, _ in bad) else None
        rep.violated('C14.c statistic names are unique per preset', 'stat_names.duplicate', 'presets %s declare the same statistic name twice (%s): keyed backends record both values into one buffer (2 values per draw)' % ([p for p, _ in bad], bad[0][1]),
                     model={'duplicates': bad}, native=nat)
    else: rep.holds('C14.c every preset declares distinct statistic names (one buffer per statistic in keyed backends)')

def csv_index(rep, mir, L):
    """CSV backend: for a variable of shape (n1,..,nk) the generated column `i1.i2...ik` must read element ((i1*n2)+i2)*n3+... of the recorded flat
    vector (row-major, last index fastest), every element exactly once - all shapes of rank <= 3 with sizes <= 3 (concrete execution of the MIR)"""
    import itertools
    fn = mir.find(r'^cartesian_product_with_indices_column_major$')
    bad = []; n = 0
    for rank in (1, 2, 3):
        for shape in itertools.product((1, 2, 3), repeat=rank):
            h = H(mir, L); vm = h.vm
            install_strings(vm)
            m = Machine()
            coords = Seq([Seq([Str(str(i + 1)) for i in range(sz)]) for sz in shape])
            cc = m.alloc(coords); sc = m.alloc(Seq(list(shape)))
            try: outs = vm.merge_outcomes(vm.run(fn, [SliceRef(cc, (), 0, rank), SliceRef(sc, (), 0, rank)], m))
            except BoundExceeded as e:
                # concrete inputs, recursion / loop deeper than any shape of rank <= 3 needs: the enumeration does not terminate
                bad.append(('does not terminate (%s beyond the bound on a concrete shape)' % e, shape, '')); continue
            n += 1; rep.absorb_vm(vm)
            if len(outs) != 1 or outs[0][1] != 'ret': bad.append(('panics', shape, str(outs[0][2])[:200])); continue
            names, idxs = outs[0][2].f
            names = [x.s for x in names.items]; idxs = list(idxs.items)
            want_names = []; want_idx = []
            for tup in itertools.product(*[range(sz) for sz in shape]):
                want_names.append('.'.join(str(t + 1) for t in tup))
                lin = 0
                for t, sz in zip(tup, shape): lin = lin * sz + t
                want_idx.append(lin)
            if names != want_names: bad.append(('column names wrong', shape, names[:6]))
            elif idxs != want_idx: bad.append(('column -> element index mapping is not row-major (an element is read twice / never)', shape, list(zip(names, idxs))[:8]))
    rep.paths += n
    if bad: rep.violated('C14.d CSV column/index mapping', 'csv.index', 'CSV backend maps matrix columns to the wrong elements: %s' % (bad[0],), model={'problems': [str(b)[:300] for b in bad[:5]]})
    else: rep.holds('C14.d CSV: column `i1.i2..` of a multi-dimensional variable reads the row-major element, each element once (all %d shapes of rank <= 3, sizes <= 3)' % n)

def install_strings(vm):
    from ..vm import Iter
    vm.add_model(r'^std::string::String::new$|^String::new$', lambda vm, m, c, a: ret(m, Str('')))
    vm.add_model(r'^<std::string::String as Clone>::clone$', lambda vm, m, c, a: ret(m, deref_val(vm, m, a[0])))
    def push(vm, m, c, a):
        r = a[0]; s0 = vm.read_at(m, r.cell, r.path); ch = a[1]
        vm.write_at(m, r.cell, list(r.path), Str(s0.s + (ch.s if isinstance(ch, Str) else str(ch)))); return ret(m, UNIT)
    vm.add_model(r'^(std::string::)?String::push$', push)
    def push_str(vm, m, c, a):
        r = a[0]; s0 = vm.read_at(m, r.cell, r.path); t = deref_val(vm, m, a[1]); vm.write_at(m, r.cell, list(r.path), Str(s0.s + t.s)); return ret(m, UNIT)
    vm.add_model(r'^(std::string::)?String::push_str$', push_str)
    vm.add_model(r'^<std::string::String as Deref>::deref$', lambda vm, m, c, a: ret(m, deref_val(vm, m, a[0])))


def trace_finalize(rep, mir, L):
    """HashMapTraceStorage::finalize / inspect (multi-chain assembly of the HashMap backend): the per-chain results come back in chain order and the
    first per-chain error - if any chain failed - is handed to the sampler (which turns it into SamplerWaitResult::Err, C13)"""
    import itertools
    fin = mir.method('HashMapTraceStorage', 'TraceStorage', 'finalize'); bad = []; n = 0
    for k in (0, 1, 2, 3):
        for pat in itertools.product((True, False), repeat=k):
            h = H(mir, L); vm = h.vm; m = Machine()
            traces = Seq([OK(Opaque('result %d' % i)) if ok else ERR(Opaque('error %d' % i)) for i, ok in enumerate(pat)])
            st = L.make('HashMapTraceStorage', {f: Opaque(f) for f in L.fields('HashMapTraceStorage')})
            outs = vm.run(fin, [st, traces], m); n += len(outs)
            for (m2, kk, v) in outs:
                if kk != 'ret' or v.name != 'Ok': bad.append(('finalize panics or fails', pat, str(v)[:100])); continue
                err, res = v.f[0].f
                want_err = next((i for i, ok in enumerate(pat) if not ok), None)
                got_res = [getattr(x, 'tag', None) for x in res.items]
                if got_res != ['result %d' % i for i, ok in enumerate(pat) if ok]: bad.append(('per-chain results are not returned in chain order', pat, got_res))
                if want_err is None and err.name != 'None': bad.append(('an error is reported although every chain finalised', pat))
                if want_err is not None and not (err.name == 'Some' and getattr(err.f[0], 'tag', None) == 'error %d' % want_err): bad.append(('the first per-chain error is not handed on', pat, str(err)[:80]))
    rep.paths += n
    if bad: rep.violated('C14.e HashMap trace assembly', 'hashmap.trace_finalize', 'HashMapTraceStorage::finalize: %s' % (bad[0],), model={'problems': [str(b)[:200] for b in bad[:6]]})
    else: rep.holds('C14.e HashMapTraceStorage::finalize (0-3 chains, every Ok/Err pattern): results in chain order, the first per-chain error handed on, no error otherwise (%d paths)' % n)


NAN_TOKENS = ('NA', 'NaN', 'nan', 'NAN', '')
PINF_TOKENS = ('Inf', 'inf', '+Inf', '+inf', 'Infinity', 'INF')
NINF_TOKENS = ('-Inf', '-inf', '-Infinity', '-INF')
TRUE_TOKENS = ('1', 'true', 'True', 'TRUE')
FALSE_TOKENS = ('0', 'false', 'False', 'FALSE')

def csv_special_values(rep, mir, L):
    """CsvChainStorage::format_value on floating-point cells: NaN is printed as NA, +infinity as Inf, -infinity as -Inf (for f64 and f32, scalars and
    the first element of vectors), and only finite values go through the numeric formatter; booleans print as 1 / 0"""
    from ..alg import FP64Alg
    fns = [f for n, f in mir.fns.items() if n.endswith('::format_value') and 'csv' in n]
    if len(fns) != 1: rep.unknown('C14.f CsvChainStorage::format_value not found'); return
    fn = fns[0].parse(); bad = []; n = 0
    for variant in ('ScalarF64', 'ScalarF32', 'F64', 'F32', 'ScalarBool'):
        A = FP64Alg(); vm = VM(mir, A); install_misc(vm)
        vm.add_model(r'^<str as ToString>::to_string$|^<&str as ToString>::to_string$|^<str as ToOwned>::to_owned$', lambda vm, m, c, a: ret(m, deref_val(vm, m, a[0])))
        vm.add_model(r'^<(u64|i64|usize) as ToString>::to_string$', lambda vm, m, c, a: ret(m, Opaque('integer text')))
        en = vm.enums['Value']; x = A.fresh('x'); b = z3.Bool('b')
        if variant.startswith('Scalar'): val = Enum(en.index(variant), variant, (b if variant == 'ScalarBool' else x,), 'Value')
        else: val = Enum(en.index(variant), variant, (Seq([x, A.fresh('x_other')]),), 'Value')
        m = Machine(); st = L.make('CsvChainStorage', {f: (3 if f == 'precision' else Opaque(f)) for f in L.fields('CsvChainStorage')})
        try: outs = vm.run(fn, [Ref(m.alloc(st)), Ref(m.alloc(val))], m)
        except Exception as e:
            rep.unknown('C14.f format_value %s' % variant, '%s: %s' % (type(e).__name__, str(e)[:200])); continue
        n += len(outs); rep.absorb_vm(vm)
        for (m2, k, v) in outs:
            if k != 'ret': bad.append((variant, 'format_value panics', str(v)[:100])); continue
            text = v.s if isinstance(v, Str) else None
            sol = z3.Solver(); sol.set('timeout', 30000); sol.add(*m2.pc)
            if variant == 'ScalarBool':
                sol.add(z3.Not(z3.And(text in TRUE_TOKENS + FALSE_TOKENS, b == (text in TRUE_TOKENS)))) if text in TRUE_TOKENS + FALSE_TOKENS else sol.add(z3.BoolVal(True))
            else:
                isnan, ispinf, isninf = z3.fpIsNaN(x.v), z3.And(z3.fpIsInf(x.v), z3.fpIsPositive(x.v)), z3.And(z3.fpIsInf(x.v), z3.fpIsNegative(x.v))
                # the spelling of the three special values is the backend's convention (NA / Inf / -Inf today); what the property needs is that the printed
                # token denotes the recorded value: any customary spelling of the right class is accepted, a token of another class is not
                want = {}
                for t_ in NAN_TOKENS: want[t_] = isnan
                for t_ in PINF_TOKENS: want[t_] = ispinf
                for t_ in NINF_TOKENS: want[t_] = isninf
                if text in want: sol.add(z3.Not(want[text]))
                else: sol.add(z3.Or(isnan, ispinf, isninf))          # anything else (the numeric formatter) must only see finite values
            if sol.check() != z3.unsat: bad.append((variant, 'prints %r for a value it does not denote' % (text if text is not None else 'a formatted number'), str(sol.model())[:120]))
    # the remaining cell kinds: integers print their own value, booleans 1 / 0, strings themselves; a vector cell prints its first element, an empty one NA
    for variant in ('ScalarU64', 'ScalarI64', 'ScalarString', 'U64', 'I64', 'Bool', 'Strings'):
        for empty in ((False, True) if not variant.startswith('Scalar') else (False,)):
            A = FP64Alg(); vm = VM(mir, A); install_misc(vm)
            vm.add_model(r'^<str as ToString>::to_string$|^<&str as ToString>::to_string$|^<str as ToOwned>::to_owned$|^<std::string::String as Clone>::clone$|^<String as Clone>::clone$', lambda vm, m, c, a: ret(m, deref_val(vm, m, a[0])))
            vm.add_model(r'^<(u64|i64|usize) as ToString>::to_string$', lambda vm, m, c, a: ret(m, Struct((deref_val(vm, m, a[0]),), 'IntText')))
            en = vm.enums['Value']
            if variant in ('ScalarU64', 'ScalarI64', 'U64', 'I64'): first, other = z3.Int('x'), z3.Int('x_other')
            elif variant == 'Bool': first, other = z3.Bool('b'), z3.Bool('b_other')
            else: first, other = Str('first string'), Str('other string')
            payload = first if variant.startswith('Scalar') else Seq([] if empty else [first, other])
            val = Enum(en.index(variant), variant, (payload,), 'Value')
            m = Machine(); m.pc += [z3.Int('x') >= 0, z3.Int('x') < 2 ** 63]
            st = L.make('CsvChainStorage', {f: (3 if f == 'precision' else Opaque(f)) for f in L.fields('CsvChainStorage')})
            try: outs = vm.run(fn, [Ref(m.alloc(st)), Ref(m.alloc(val))], m)
            except Exception as e:
                rep.unknown('C14.f format_value %s' % variant, '%s: %s' % (type(e).__name__, str(e)[:200])); continue
            n += len(outs); rep.absorb_vm(vm)
            for (m2, k, v) in outs:
                if k != 'ret': bad.append((variant, 'format_value panics', str(v)[:100])); continue
                if empty:
                    if not (isinstance(v, Str) and v.s in NAN_TOKENS): bad.append((variant, 'an empty vector cell does not print a missing-value token', str(v)[:60]))
                elif variant in ('ScalarU64', 'ScalarI64', 'U64', 'I64'):
                    if not (isinstance(v, Struct) and v.ty == 'IntText' and z3.is_expr(v.f[0]) and v.f[0].eq(first)): bad.append((variant, 'does not print the (first) integer of the cell', str(v)[:60]))
                elif variant == 'Bool':
                    sol = z3.Solver(); sol.add(*m2.pc)
                    if not (isinstance(v, Str) and v.s in TRUE_TOKENS + FALSE_TOKENS): bad.append((variant, 'a boolean cell prints neither a true nor a false token', str(v)[:60])); continue
                    sol.add(first != (v.s in TRUE_TOKENS))
                    if sol.check() != z3.unsat: bad.append((variant, 'prints %s for the opposite boolean' % v.s, ''))
                else:
                    if not (isinstance(v, Str) and v.s == first.s): bad.append((variant, 'does not print the (first) string of the cell', str(v)[:60]))
    rep.paths += n
    if bad: rep.violated('C14.f CSV special values', 'csv.special', 'CsvChainStorage::format_value: %s' % (bad[0],), model={'problems': [str(b)[:200] for b in bad[:6]]})
    elif n: rep.holds('C14.f CsvChainStorage::format_value: NaN -> NA, +inf -> Inf, -inf -> -Inf for f64 and f32 cells (scalar and first vector element), the numeric formatter only sees finite values; integer, boolean and string cells print their own (first) value, empty vector cells NA; booleans print 1 / 0 (%d paths)' % n)
