"""C01 - reversibility of the NUTS transition (DESIGN section 4, C01): re-rooting invariance of the doubling
tree, detailed balance of the multinomial selection, one fair bit per doubling, order-normalised U-turn test."""
import time, itertools, os, multiprocessing as mp
import z3
from ..driver import load_mir, REPO, dump_mir
from ..layout import Layouts
from ..mir import Mir
from ..treecheck import explore, path_code, accepted_range, KINDS
from ..tree import TreeHarness, W, TURN, leaves
from ..vm import is_sym, Struct, Ref, Machine

def mirrored(k, a, depth, fwd_dirs, kind):
    """direction script that rebuilds [a, a+2^depth) from site k; plus the rejected doubling in the same absolute direction"""
    ds = [(((k - a) >> j) & 1) == 0 for j in range(depth)]
    if kind in ('turn_rej',): ds.append(fwd_dirs[depth])
    return ds

def turn_part(pc): return [c for c in pc if 'turn_' in str(c) and 'w_' not in str(c) and 'acc_' not in str(c)]

def reroot_job(mirpath, D, idx_lo, idx_hi):
    mir = Mir(mirpath, REPO); L = Layouts(REPO)
    H, outs = explore(mir, L, D)
    res = {'pairs': 0, 'bad': [], 'stmts': H.vm.nstmt, 'nq': H.vm.nq, 'fns': sorted(H.vm.fns_used), 'sample': None, 'npaths': len(outs), 'err': None}
    try:
        for o in outs[idx_lo:idx_hi]:
            if o['kind'] != 'ret' or o['result'] != 'Ok': continue
            depth, kind = path_code(o); a, b = accepted_range(0, o['dirs'], depth)
            tp = turn_part(o['pc'])
            for k in range(a, b + 1):
                if k == 0: continue
                ds = mirrored(k, a, depth, o['dirs'], kind)
                oracle = lambda m, j, ds=ds: [ds[j]] if j < len(ds) else [True, False]
                H2, outs2 = explore(mir, L, D, start=k, dir_oracle=oracle, extra_pc=tp)
                res['stmts'] += H2.vm.nstmt; res['nq'] += H2.vm.nq; res['pairs'] += 1
                if not outs2:
                    res['bad'].append({'fwd_dirs': o['dirs'], 'k': k, 'why': 'no feasible mirrored path', 'fwd': (depth, kind, a, b), 'turn': [str(c) for c in tp]}); continue
                for o2 in outs2:
                    if o2['kind'] != 'ret' or o2['result'] != 'Ok':
                        res['bad'].append({'fwd_dirs': o['dirs'], 'k': k, 'why': 'mirrored run ends with %s' % o2['kind'], 'fwd': (depth, kind, a, b)}); continue
                    d2, k2 = path_code(o2); a2, b2 = accepted_range(k, o2['dirs'], d2)
                    if (d2, k2, a2, b2) != (depth, kind, a, b):
                        res['bad'].append({'fwd_dirs': o['dirs'], 'k': k, 'mirrored_dirs': o2['dirs'], 'fwd': (depth, kind, a, b), 'mirrored': (d2, k2, a2, b2),
                                           'turn_table': [str(c) for c in turn_part(o2['pc'])]})
                if res['sample'] is None and depth == 2:
                    res['sample'] = {'forward dirs': o['dirs'], 'accepted': [a, b], 'stop': kind, 'root k': k, 'mirrored dirs': ds, 'turn literals': [str(c) for c in tp][:8]}
    except Exception as e:
        import traceback; res['err'] = '%s: %s | %s' % (type(e).__name__, str(e)[:300], traceback.format_exc()[-500:])
    return res

def shannon_prob(expr, target, accepts):
    """P(expr == target) over independent accept bits (list of (Bool, p)); result: z3 Real term over the weights.
    The merged draw handle is a nested if-then-else; each accept bit belongs to one merge, so the expectation is taken bit by bit
    at the outermost ite whose condition mentions it (linear in the size of the term instead of 2^bits)."""
    pmap = {}
    for (b, p) in accepts:
        if is_sym(b): pmap[b.decl().name()] = (b, p)
    memo = {}
    def bits_of(e): return {n for n in _bool_names(e) if n in pmap}
    def prob(e):
        if not is_sym(e): return z3.RealVal(1 if e == target else 0)
        e = z3.simplify(e)
        if z3.is_int_value(e): return z3.RealVal(1 if e.as_long() == target else 0)
        key = e.get_id()
        if key in memo: return memo[key]
        if not (z3.is_app(e) and e.decl().kind() == z3.Z3_OP_ITE): raise ValueError('unexpected draw expression %s' % e)
        c, a, b = e.arg(0), e.arg(1), e.arg(2)
        cb = bits_of(c)
        if not cb:
            r = z3.If(c, prob(a), prob(b))
        else:
            nm = sorted(cb)[0]; bit, p = pmap[nm]
            et = z3.simplify(z3.substitute(e, (bit, z3.BoolVal(True)))); ef = z3.simplify(z3.substitute(e, (bit, z3.BoolVal(False))))
            r = p * prob(et) + (1 - p) * prob(ef)
        memo[key] = r
        return r
    return prob(expr)

def _bool_names(e, acc=None):
    acc = set() if acc is None else acc
    stack = [e]; seen = set()
    while stack:
        t = stack.pop()
        if t.get_id() in seen: continue
        seen.add(t.get_id())
        if z3.is_const(t) and t.decl().kind() == z3.Z3_OP_UNINTERPRETED and z3.is_bool(t): acc.add(t.decl().name())
        stack.extend(t.children())
    return acc

def balance_job(mirpath, D, idx_lo, idx_hi):
    mir = Mir(mirpath, REPO); L = Layouts(REPO)
    H, outs = explore(mir, L, D)
    res = {'queries': 0, 'bad': [], 'unknown': [], 'stmts': H.vm.nstmt, 'solver_s': 0.0, 'sample': None, 'err': None}
    try:
        for o in outs[idx_lo:idx_hi]:
            if o['kind'] != 'ret' or o['result'] != 'Ok': continue
            depth, kind = path_code(o); a, b = accepted_range(0, o['dirs'], depth)
            tp = turn_part(o['pc'])
            site_of = {sid: st['site'] for sid, st in o['states'].items()}
            sid_of_site = {v: k for k, v in site_of.items()}
            for k in range(a, b + 1):
                if k == 0: continue
                if k not in sid_of_site: continue
                pf = shannon_prob(o['draw_sid'], sid_of_site[k], o['accepts'])
                ds = mirrored(k, a, depth, o['dirs'], kind)
                oracle = lambda m, j, ds=ds: [ds[j]] if j < len(ds) else [True, False]
                H2, outs2 = explore(mir, L, D, start=k, dir_oracle=oracle, extra_pc=tp)
                res['stmts'] += H2.vm.nstmt
                pb = z3.RealVal(0)
                for o2 in outs2:
                    if o2['kind'] != 'ret' or o2['result'] != 'Ok': continue
                    s2 = {st['site']: sid for sid, st in o2['states'].items()}
                    if 0 not in s2: continue
                    w_pc = [c for c in o2['pc'] if c not in tp and 'acc_' not in str(c)]
                    pb = pb + shannon_prob(o2['draw_sid'], s2[0], o2['accepts'])
                span = 2 ** D
                pos = [W(s) > 0 for s in range(a - span, b + span + 1)]
                s = z3.Solver(); s.set('timeout', 120000)
                s.add(*pos); s.add(*tp); s.add(W(0) * pf != W(k) * pb)
                t0 = time.time(); r = s.check(); res['solver_s'] += time.time() - t0; res['queries'] += 1
                if r == z3.sat:
                    mdl = s.model()
                    res['bad'].append({'dirs': o['dirs'], 'k': k, 'accepted': [a, b], 'stop': kind, 'weights': {d.name(): str(mdl[d]) for d in mdl.decls() if d.name().startswith('w_')},
                                       'P_fwd': str(mdl.eval(pf)), 'P_bwd': str(mdl.eval(pb)), 'turn': [str(c) for c in tp][:10]})
                elif r == z3.unknown: res['unknown'].append({'dirs': o['dirs'], 'k': k})
                if res['sample'] is None and depth == 2 and k == b:
                    res['sample'] = {'dirs': o['dirs'], 'accepted': [a, b], 'k': k, 'P(0->k)': str(z3.simplify(pf))[:400]}
    except Exception as e:
        import traceback; res['err'] = '%s: %s | %s' % (type(e).__name__, str(e)[:300], traceback.format_exc()[-600:])
    return res

def run(rep):
    mir = load_mir(rep); L = Layouts(REPO); mirpath = mir.path
    D1 = 3 if rep.tier == 'quick' else 4      # re-rooting
    D2 = 2 if rep.tier == 'quick' else 3      # detailed balance
    rep.bounds = {'re-rooting maxdepth': '1..=%d' % D1, 'detailed balance maxdepth': '1..=%d' % D2, 'tree options': 'mindepth 0, extra_doublings 0, check_turning true',
                  'weights': 'all w[s] > 0 (reals) - trajectories without divergence', 'u_turn table': 'arbitrary'}
    rep.assumptions += ['oracle Hamiltonian: energies enter only through weights w[s] = exp(-(E[s]-E[0])), U-turn through an arbitrary bit per ordered pair of sites (is_turning orders its arguments by index, obligation C01.4)',
                        'random_bool(p) is a Bernoulli(p) draw independent of everything else; random::<bool>() is one fair bit (rand contract)',
                        'logaddexp(ln a, ln b) = ln(a+b) (obligation C01.2a, from logaddexp own MIR), ln monotone, exp(ln a - ln b) = a/b',
                        'floating-point rounding of log weights is outside the claim']
    rep.outside += ['maxdepth above the bound', 'transformations / integrator (C02)', 'momentum refresh law']
    logaddexp_lemma(rep, mir)
    fair_bit(rep, mir, L, D1)
    ncpu = min(16, os.cpu_count() or 4)
    # ---- (1) re-rooting
    for D in range(1, D1 + 1):
        H, outs = explore(mir, L, D); n = len(outs); rep.absorb_vm(H.vm)
        pans = [o for o in outs if o['kind'] == 'panic']
        if pans:
            rep.violated('C01 no panic on divergence-free trajectories (maxdepth=%d)' % D, 'tree.panic', 'nuts::draw panics on a divergence-free trajectory: %r dirs=%s' % (pans[0]['panic'], pans[0]['dirs']), model={'dirs': list(pans[0]['dirs']), 'panic': str(pans[0]['panic'])})
        chunks = max(1, min(ncpu, n)); step = (n + chunks - 1) // chunks
        jobs = [(mirpath, D, i, min(n, i + step)) for i in range(0, n, step)]
        t0 = time.time()
        with mp.Pool(ncpu) as pool: results = pool.starmap(reroot_job, jobs)
        pairs = sum(r['pairs'] for r in results); bad = [b for r in results for b in r['bad']]; errs = [r['err'] for r in results if r['err']]
        rep.stmts += sum(r['stmts'] for r in results); rep.feas_queries += sum(r['nq'] for r in results); rep.paths += pairs
        for r in results:
            rep.functions |= set(r['fns'])
            if r['sample']: rep.sample(r['sample'])
        name = 'C01.1 re-rooting invariance maxdepth=%d (%d forward paths, %d (path, root) pairs)' % (D, n, pairs)
        if errs: rep.unknown(name, errs[0]); continue
        if bad:
            rep.violated(name, 'reroot', 'the trajectory rebuilt from another of its points with mirrored doubling choices differs (first of %d): %s' % (len(bad), bad[0]), model=bad[0], extra={'all': bad[:20]})
        else: rep.holds(name, time.time() - t0)
        rep.cover('C01.1 pairs explored at maxdepth=%d' % D, pairs > 0)
    # ---- (2) detailed balance
    for D in range(1, D2 + 1):
        H, outs = explore(mir, L, D); n = len(outs)
        chunks = max(1, min(ncpu, n)); step = (n + chunks - 1) // chunks
        jobs = [(mirpath, D, i, min(n, i + step)) for i in range(0, n, step)]
        t0 = time.time()
        with mp.Pool(ncpu) as pool: results = pool.starmap(balance_job, jobs)
        q = sum(r['queries'] for r in results); bad = [b for r in results for b in r['bad']]; unk = [u for r in results for u in r['unknown']]; errs = [r['err'] for r in results if r['err']]
        rep.stmts += sum(r['stmts'] for r in results); rep.solver_s += sum(r['solver_s'] for r in results); rep.paths += q
        for r in results:
            if r['sample']: rep.sample(r['sample'])
        name = 'C01.2 detailed balance w[r] P(r->k|B) = w[k] P(k->r|B) for all w > 0, maxdepth=%d (%d queries)' % (D, q)
        if errs: rep.unknown(name, errs[0]); continue
        if unk: rep.unknown(name, 'solver unknown on %d queries, e.g. %s' % (len(unk), unk[0])); continue
        if bad:
            rep.violated(name, 'detailed_balance', 'selection probabilities violate detailed balance (first of %d): %s' % (len(bad), bad[0]), model=bad[0])
        else: rep.holds(name, time.time() - t0)
        rep.cover('C01.2 queries discharged at maxdepth=%d' % D, q > 0)

def logaddexp_lemma(rep, mir):
    """logaddexp(a, b) = ln(exp a + exp b) on every path of its own MIR (finite arguments), with explicit axiom instances"""
    from ..alg import RealAlg
    from ..vm import VM
    A = RealAlg(); vm = VM(mir, A); fn = mir.find(r'^logaddexp$')
    a, b = A.fresh('a'), A.fresh('b'); m = Machine()
    outs = vm.run(fn, [a, b], m); rep.paths += len(outs)
    Ea, Eb = z3.Real('EA'), z3.Real('EB')      # EA = exp(a), EB = exp(b)
    exp, ln, ln1p = A.uf['exp'], A.uf['ln'], A.uf['ln_1p']
    av, bv = a.v, b.v
    ax = [Ea > 0, Eb > 0, ln(Ea) == av, ln(Eb) == bv,
          exp(av - bv) == Ea / Eb, exp(bv - av) == Eb / Ea, exp(-(av - bv)) == Eb / Ea,
          ln1p(exp(av - bv)) == ln(1 + Ea / Eb), ln1p(exp(-(av - bv))) == ln(1 + Eb / Ea), ln1p(exp(bv - av)) == ln(1 + Eb / Ea),
          ln(1 + Eb / Ea) == ln(Ea + Eb) - av, ln(1 + Ea / Eb) == ln(Ea + Eb) - bv, ln(z3.RealVal(2)) == ln(Ea + Ea) - av]
    rep.axioms += ['logaddexp lemma: EA=exp(a)>0, EB=exp(b)>0, ln(EA)=a, ln(EB)=b, exp(a-b)=EA/EB, ln_1p(x)=ln(1+x), ln(1+EB/EA)=ln(EA+EB)-a, ln(2)=ln(2EA)-a (instances on occurring terms)']
    ok = True
    for (mm, k, v) in outs:
        if k != 'ret': rep.violated('C01.2a logaddexp no panic', 'logaddexp.panic', 'logaddexp can panic'); ok = False; continue
        cons = list(mm.pc) + ax + [v.v != ln(Ea + Eb)]
        extra = [z3.Implies(av == bv, Ea == Eb)]
        verdict, model = rep.check('C01.2a logaddexp(a,b) = ln(exp a + exp b) on path %s' % [str(c) for c in mm.pc], cons + extra)
        if verdict == 'violated':
            rep.violated('C01.2a logaddexp', 'logaddexp.value', 'logaddexp deviates from ln(exp a + exp b): %s' % model, model={str(d): str(model[d]) for d in model.decls()}); ok = False
    rep.absorb_vm(vm)
    # concrete translator validation against the repo's own test inputs (check_logaddexp / check_neginf)
    from ..alg import ConcAlg, Fl
    import math
    C = ConcAlg(); vm2 = VM(mir, C)
    for (x, y) in [(1.0, 2.0), (-3.5, 0.25), (700.0, -700.0), (-math.inf, 3.0), (3.0, -math.inf), (-math.inf, -math.inf), (5.0, 5.0)]:
        (mm, k, v) = vm2.run(fn, [Fl(x), Fl(y)])[0]
        if x == -math.inf and y == -math.inf: refv = -math.inf
        elif x == -math.inf: refv = y
        elif y == -math.inf: refv = x
        else: refv = max(x, y) + math.log1p(math.exp(-abs(x - y))) if x != y else x + math.log(2.0)
        rep.validated += 1
        if not (v.v == refv or abs(v.v - refv) <= 4e-16 * max(1, abs(refv))): rep.validation_mismatch.append({'logaddexp': (x, y), 'vm': v.v, 'ref': refv})
    if rep.validation_mismatch: rep.errors.append('translator validation mismatch (logaddexp)')

def fair_bit(rep, mir, L, D):
    """one fair bit per attempted doubling, Forward <=> bit set"""
    H, outs = explore(mir, L, D, faults=True); rep.absorb_vm(H.vm); rep.paths += len(outs)
    bad = []
    for o in outs:
        if o['kind'] != 'ret': continue
        depth, kind = path_code(o)
        if kind == 'err': continue
        want = depth if kind in ('maxdepth', 'turn_acc') else depth + 1
        if len(o['dirs']) != want: bad.append((o['dirs'], depth, kind))
        # every doubling moved in the direction the bit says
        for j, bit in enumerate(o['dirs']):
            sites = [s for (s, kd) in o['leapfrogs']]
    if bad: rep.violated('C01.3 one random direction per doubling', 'fairbit.count', 'number of direction draws differs from the number of attempted doublings: %s' % (bad[0],), model={'path': str(bad[0])})
    else: rep.holds('C01.3 exactly one random::<Direction>() per attempted doubling (maxdepth=%d, %d paths)' % (D, len(outs)))
    # Forward <=> bit: execute the real Distribution<Direction>::sample for both bit values
    res = {}
    for bit in (True, False):
        H2 = TreeHarness(mir, L, 1, dir_oracle=lambda m, k, bit=bit: [bit])
        m = H2.initial_machine()
        out = list(H2.vm.exec_fn(m, H2.fn['dir_sample'], [Ref(m.alloc(Struct((), 'StandardUniform'))), Ref(m.alloc(Struct((), 'rng')))]))
        res[bit] = out[0][2].name
    if res[True] != res[False] and {res[True], res[False]} == {'Forward', 'Backward'}: rep.holds('C01.3 Direction is a bijection of one fair bit: %s' % res)
    else: rep.violated('C01.3 direction bijection', 'fairbit.map', 'both bit values map to the same direction: %s' % res, model=res)
    # direction actually used: forward doublings extend to higher sites
    for o in outs:
        lo = hi = 0
        for (site, kd) in o['leapfrogs']:
            pass
