"""C07 - step-size adaptation (DESIGN section 4, C07).  Engine S, policy R (exact reals) with
axiom instances for exp/ln/sqrt/powf/powi on the terms that occur."""
import time, random, math
import z3
from ..vm import VM, Machine, Struct, Enum, Seq, Ref, Opaque, UNIT, NONE, SOME, OK, ERR, ret, Unmodelled, VMError
from ..alg import RealAlg, ConcAlg, Fl
from ..layout import Layouts
from ..driver import load_mir, REPO, model_to_json

def _da(L, A, tag, shared):
    opts = L.make('DualAverageOptions', {'k': shared['k'], 't0': shared['t0'], 'gamma': shared['gamma'], 'max_step_size': shared['max']})
    return L.make('DualAverage', {'log_step': A.fresh('log_step' + tag), 'log_step_adapted': A.fresh('adapted' + tag), 'hbar': A.fresh('hbar' + tag),
                                   'mu': shared['mu'], 'count': shared['count'], 'settings': opts})

def run(rep):
    mir = load_mir(rep); L = Layouts(REPO)
    rep.bounds = {'policy': 'R (exact reals)', 'count': '1 <= count < 2^40 (u64->f64 exact)', 'induction': 'one step from an arbitrary state',
                  'init_search_unroll': 3 if rep.tier == 'quick' else 6}
    rep.assumptions += ['floats are exact reals (rounding, NaN and infinities are outside this claim)',
                        'exp/ln/sqrt/powf/powi are uninterpreted; only the listed axiom instances are used',
                        'acceptance statistics in [0,1], 0 < target < 1', 'DualAverageOptions: t0 >= 0, gamma > 0, max_step_size > 0, k arbitrary with 0 < count^-k <= 1 (k >= 0)',
                        'AdamOptions: 0 < beta1 < 1, 0 < beta2 < 1, epsilon > 0, learning_rate > 0']
    rep.outside += ['closed-loop "mean acceptance close to target" (statistical)', 'floating-point rounding of the recurrences',
                    'exp(ln(max_step_size)) <= max_step_size in FP64 (one-ulp question)']
    dual_average(rep, mir, L)
    adam(rep, mir, L)
    estimator_feed(rep, mir, L)
    collector(rep, mir, L)
    validate(rep, mir, L)
    from ..driver import parts
    parts(rep, [lambda: init_search(rep, mir, L)])

# ------------------------------------------------------------------------------------------------
def dual_average(rep, mir, L):
    A = RealAlg(); vm = VM(mir, A)
    adv = mir.method('DualAverage', None, 'advance')
    cnt = z3.Int('count')
    sh = {'k': A.fresh('k'), 't0': A.fresh('t0'), 'gamma': A.fresh('gamma'), 'max': A.fresh('max_step'), 'mu': A.fresh('mu'), 'count': cnt}
    tgt = A.fresh('target')
    sq = A.uf['sqrt'](z3.ToReal(cnt)); pw = A.uf2['powf'](z3.ToReal(cnt), -sh['k'].v)
    pre = [cnt >= 1, cnt < 2 ** 40, sh['t0'].v >= 0, sh['gamma'].v > 0, sh['max'].v > 0, tgt.v > 0, tgt.v < 1,
           z3.Real('accept1') >= 0, z3.Real('accept1') <= 1, z3.Real('accept2') >= 0, z3.Real('accept2') <= 1,
           sq > 0, sq * sq == z3.ToReal(cnt), pw > 0, pw <= 1]
    rep.axioms += ['sqrt(count) > 0 and sqrt(count)^2 = count', '0 < powf(count, -k) <= 1 (count >= 1, k >= 0)']
    outs = []
    for tag in ('1', '2'):
        m = Machine(); m.pc = list(pre)
        c = m.alloc(_da(L, A, tag, sh)); acc = A.fresh('accept' + tag)
        res = vm.merge_outcomes(vm.run(adv, [Ref(c), acc, tgt], m))      # a branching but panic-free body is one outcome with ite values
        ok = [(mm, v) for (mm, k, v) in res if k == 'ret']
        pn = [(mm, v) for (mm, k, v) in res if k == 'panic']
        rep.paths += len(res)
        if len(ok) != 1 or pn:
            rep.violated('C07.advance.no_panic', 'advance.panic', 'DualAverage::advance can panic for count < 2^40: %r' % (pn[:1],)); return
        outs.append((ok[0][0], ok[0][0].mem[c], acc))
    (m1, d1, a1), (m2, d2, a2) = outs
    g = lambda d, f: L.get('DualAverage', d, f).v
    v = lambda n: z3.Real(n)
    # (1) monotonicity, relational one-step induction
    hyp = [v('hbar1') <= v('hbar2'), v('adapted1') >= v('adapted2'), a1.v >= a2.v]
    bad = z3.Or(g(d1, 'hbar') > g(d2, 'hbar'), g(d1, 'log_step') < g(d2, 'log_step'), g(d1, 'log_step_adapted') < g(d2, 'log_step_adapted'))
    verdict, model = rep.check('C07.1 monotone: higher acceptance history never lowers hbar-order/log_step/log_step_adapted (1-step relational induction)',
                               pre + m1.pc + m2.pc + hyp + [bad])
    if verdict == 'violated':
        rep.violated('C07.1 monotone', 'dual_avg.monotone', 'raising an acceptance statistic can lower a later step size: ' + str(model_to_json(model)), model_to_json(model),
                     native=native_da_monotone(model))
    rep.sample({'obligation': 'C07.1', 'log_step_after': str(z3.simplify(g(d1, 'log_step')))[:300]})
    # (2) bounds
    lnmax = A.uf['ln'](sh['max'].v)
    verdict, model = rep.check('C07.2a log_step <= ln(max_step_size) after every advance', pre + m1.pc + [g(d1, 'log_step') > lnmax])
    if verdict == 'violated':
        rep.violated('C07.2a', 'dual_avg.clamp', 'log_step can exceed ln(max_step_size): ' + str(model_to_json(model)), model_to_json(model))
    css = mir.method('DualAverage', None, 'current_step_size'); cssa = mir.method('DualAverage', None, 'current_step_size_adapted')
    mm = m1.clone(); cc = mm.alloc(d1)
    (mm, k, step) = vm.run(css, [Ref(cc)], mm)[0]
    ls = g(d1, 'log_step')
    ax = [A.uf['exp'](ls) > 0, z3.Implies(ls <= lnmax, A.uf['exp'](ls) <= A.uf['exp'](lnmax)), A.uf['exp'](lnmax) == sh['max'].v]
    rep.axioms += ['exp(t) > 0', 'exp monotone on (log_step, ln(max))', 'exp(ln(max)) = max for max > 0']
    verdict, model = rep.check('C07.2b 0 < current_step_size <= max_step_size', pre + m1.pc + ax + [z3.Or(step.v <= 0, step.v > sh['max'].v)])
    if verdict == 'violated':
        rep.violated('C07.2b', 'dual_avg.step_bounds', 'step size not in (0, max]: ' + str(model_to_json(model)), model_to_json(model))
    if not (z3.eq(step.v, A.uf['exp'](ls))):
        verdict, model = rep.check('C07.2c current_step_size = exp(log_step)', pre + m1.pc + [step.v != A.uf['exp'](ls)])
        if verdict == 'violated': rep.violated('C07.2c', 'dual_avg.css', 'current_step_size is not exp(log_step)', model_to_json(model))
    else: rep.holds('C07.2c current_step_size = exp(log_step) (syntactic)')
    (mm, k, stepa) = vm.run(cssa, [Ref(cc)], mm)[0]
    la = g(d1, 'log_step_adapted')
    verdict, model = rep.check('C07.2d current_step_size_adapted = exp(log_step_adapted)', pre + m1.pc + [stepa.v != A.uf['exp'](la)])
    if verdict == 'violated': rep.violated('C07.2d', 'dual_avg.cssa', 'current_step_size_adapted is not exp(log_step_adapted)', model_to_json(model))
    # (3) documented Hoffman-Gelman recurrences (reference written here)
    mcount = z3.ToReal(cnt); w = 1 / (mcount + sh['t0'].v)
    hbar_ref = (1 - w) * v('hbar1') + w * (tgt.v - a1.v)
    ls_raw = sh['mu'].v - hbar_ref * sq / sh['gamma'].v
    ls_ref = z3.If(ls_raw <= lnmax, ls_raw, lnmax)
    la_ref = pw * ls_ref + (1 - pw) * v('adapted1')
    for nm, got, ref in (('hbar', g(d1, 'hbar'), hbar_ref), ('log_step', g(d1, 'log_step'), ls_ref), ('log_step_adapted', g(d1, 'log_step_adapted'), la_ref)):
        verdict, model = rep.check('C07.3 %s follows the documented dual-averaging recurrence' % nm, pre + m1.pc + [got != ref])
        if verdict == 'violated':
            rep.violated('C07.3 ' + nm, 'dual_avg.recurrence.' + nm, '%s deviates from the documented recurrence: %s' % (nm, model_to_json(model)), model_to_json(model),
                         native=native_da_formula(model, nm))
    c2 = L.get('DualAverage', d1, 'count')
    verdict, model = rep.check('C07.3 count increases by one', pre + m1.pc + [c2 != cnt + 1])
    if verdict == 'violated': rep.violated('C07.3 count', 'dual_avg.count', 'count does not increase by one', model_to_json(model))
    # DualAverage::new
    new = mir.method('DualAverage', None, 'new'); m = Machine(); init = A.fresh('initial_step')
    o = L.make('DualAverageOptions', {'k': sh['k'], 't0': sh['t0'], 'gamma': sh['gamma'], 'max_step_size': sh['max']})
    (mn, k, d0) = vm.run(new, [o, init], m)[0]
    lni = A.uf['ln'](init.v); ln10 = A.uf['ln'](10 * init.v)
    verdict, model = rep.check('C07.3 new(): log_step = log_step_adapted = ln(initial), mu = ln(10 initial), hbar = 0, count = 1',
                               [z3.Or(g(d0, 'log_step') != lni, g(d0, 'log_step_adapted') != lni, g(d0, 'mu') != ln10, g(d0, 'hbar') != 0, L.get('DualAverage', d0, 'count') != 1)])
    if verdict == 'violated': rep.violated('C07.3 new', 'dual_avg.new', 'DualAverage::new deviates from the documented initialisation', model_to_json(model))
    # vacuity: the clamp branch and the non-clamp branch are both reachable
    for nm, cond in (('advance: clamp active', ls_raw > lnmax), ('advance: clamp inactive', ls_raw < lnmax)):
        s = z3.Solver(); s.add(*pre); s.add(cond); rep.cover('C07 ' + nm, s.check() == z3.sat)
    rep.absorb_vm(vm)

# ------------------------------------------------------------------------------------------------
def adam(rep, mir, L):
    A = RealAlg(); vm = VM(mir, A)
    adv = mir.method('Adam', None, 'advance')
    b1, b2, eps, lr = A.fresh('beta1'), A.fresh('beta2'), A.fresh('epsilon'), A.fresh('lr')
    t = z3.Int('t'); ls, mm_, vv = A.fresh('log_step'), A.fresh('m'), A.fresh('v')
    opts = L.make('AdamOptions', {'beta1': b1, 'beta2': b2, 'epsilon': eps, 'learning_rate': lr})
    st = L.make('Adam', {'log_step': ls, 'm': mm_, 'v': vv, 't': t, 'settings': opts})
    pre = [z3.Real('accept') >= 0, z3.Real('accept') <= 1, z3.Real('target') > 0, z3.Real('target') < 1, t >= 0, t < 2 ** 31 - 1, b1.v > 0, b1.v < 1, b2.v > 0, b2.v < 1, eps.v > 0, lr.v > 0, vv.v >= 0]
    m = Machine(); m.pc = list(pre); c = m.alloc(st); acc, tgt = A.fresh('accept'), A.fresh('target')
    res = vm.merge_outcomes(vm.run(adv, [Ref(c), acc, tgt], m)); rep.paths += len(res)
    ok = [(mm, v) for (mm, k, v) in res if k == 'ret']
    if len(ok) != 1 or len(res) != 1:
        rep.violated('C07.4 adam.no_panic', 'adam.panic', 'Adam::advance can panic for t < 2^31-1: %r' % ([v for (_, k, v) in res if k == 'panic'][:1],)); return
    m1 = ok[0][0]; d = m1.mem[c]; g = lambda f: L.get('Adam', d, f)
    ax = []
    for (n, args, term) in A.used:
        if n == 'powi': ax += [term > 0, term < 1]                       # 0 < beta^t < 1 for 0 < beta < 1, t >= 1
        if n == 'sqrt': ax += [term >= 0]
    rep.axioms += ['0 < powi(beta, t) < 1 for 0 < beta < 1, t >= 1', 'sqrt(x) >= 0']
    m_ref = b1.v * mm_.v + (1 - b1.v) * (acc.v - tgt.v)
    verdict, model = rep.check('C07.4a Adam first moment m\' = beta1 m + (1-beta1)(accept-target)', pre + m1.pc + [g('m').v != m_ref])
    if verdict == 'violated': rep.violated('C07.4a', 'adam.m', 'Adam first moment deviates: ' + str(model_to_json(model)), model_to_json(model))
    dl = g('log_step').v - ls.v; m2 = g('m').v
    bad = z3.Or(z3.And(m2 > 0, dl <= 0), z3.And(m2 < 0, dl >= 0), z3.And(m2 == 0, dl != 0))
    verdict, model = rep.check('C07.4b Adam: sign(log_step\' - log_step) = sign(m\')', pre + m1.pc + ax + [bad], timeout_ms=60000)
    if verdict == 'violated':
        rep.violated('C07.4b', 'adam.sign', 'Adam moves the step size against the smoothed acceptance error: ' + str(model_to_json(model)), model_to_json(model), native=native_adam(model))
    verdict, model = rep.check('C07.4c Adam second moment stays >= 0 and t increases by one', pre + m1.pc + [z3.Or(g('v').v < 0, g('t') != t + 1)])
    if verdict == 'violated': rep.violated('C07.4c', 'adam.v', 'Adam second moment / counter wrong', model_to_json(model))
    css = mir.method('Adam', None, 'current_step_size'); cc = m1.alloc(d)
    (mm, k, step) = vm.run(css, [Ref(cc)], m1)[0]
    verdict, model = rep.check('C07.4d Adam current_step_size = exp(log_step) > 0', pre + [A.uf['exp'](g('log_step').v) > 0, z3.Or(step.v != A.uf['exp'](g('log_step').v), step.v <= 0)])
    if verdict == 'violated': rep.violated('C07.4d', 'adam.css', 'Adam step size not exp(log_step)', model_to_json(model))
    rep.absorb_vm(vm)

# ------------------------------------------------------------------------------------------------
def estimator_feed(rep, mir, L):
    """C07.7: Strategy::update_estimator_early / _late hand the estimator in use (dual averaging or Adam) the asymmetric (early) resp. the symmetric
    (late) acceptance statistic of the last trajectory as the statistic and target_accept as the target - decided differentially: the post-state
    of the call site equals the post-state of the estimator's own advance(statistic, target) from the same symbolic pre-state."""
    from ..mathenv import install_misc
    t0_ = time.time(); bad = []; n = 0
    for which, statname in (('update_estimator_early', 'last_mean_tree_accept'), ('update_estimator_late', 'last_sym_mean_tree_accept')):
        for method in ('DualAverage', 'Adam', 'Fixed'):
            A = RealAlg(); vm = VM(mir, A); install_misc(vm); vm.enums.setdefault('Either', ['Left', 'Right'])
            R = A.fresh; I = z3.Int
            da_opts = L.make('DualAverageOptions', {'k': R('k'), 't0': R('t0'), 'gamma': R('gamma'), 'max_step_size': R('max_step')})
            adam_opts = L.make('AdamOptions', {'beta1': R('beta1'), 'beta2': R('beta2'), 'epsilon': R('adam_eps'), 'learning_rate': R('lr')})
            en = vm.enums['StepSizeAdaptMethod']
            meth = Enum(en.index('Fixed'), 'Fixed', (R('fixed_val'),), 'StepSizeAdaptMethod') if method == 'Fixed' else Enum(en.index(method), method, (), 'StepSizeAdaptMethod')
            ao = L.make('StepSizeAdaptOptions', {'method': meth, 'dual_average': da_opts, 'adam': adam_opts})
            ss = L.make('StepSizeSettings', {'target_accept': R('target'), 'initial_step': R('initial_step'), 'jitter': NONE(), 'adapt_options': ao})
            if method == 'DualAverage':
                inner = L.make('DualAverage', {'log_step': R('log_step'), 'log_step_adapted': R('log_step_adapted'), 'hbar': R('hbar'), 'mu': R('mu'), 'count': I('da_count'), 'settings': da_opts})
                adaptation = SOME(Enum(0, 'Left', (inner,), 'Either')); ty = 'DualAverage'; fields = ('log_step', 'log_step_adapted', 'hbar', 'mu', 'count')
            elif method == 'Adam':
                inner = L.make('Adam', {'log_step': R('log_step'), 'm': R('adam_m'), 'v': R('adam_v'), 't': I('adam_t'), 'settings': adam_opts})
                adaptation = SOME(Enum(1, 'Right', (inner,), 'Either')); ty = 'Adam'; fields = ('log_step', 'm', 'v', 't')
            else: inner = None; adaptation = NONE()
            strat = L.make('Strategy', {'adaptation': adaptation, 'options': ss, 'last_mean_tree_accept': R('last_mean'), 'last_sym_mean_tree_accept': R('last_sym'),
                                        'last_n_steps': I('old_nsteps'), 'last_max_energy_error': R('old_maxerr')}, file='stepsize')
            pre = [I('da_count') >= 1, I('da_count') < 2 ** 40, I('adam_t') >= 0, I('adam_t') < 2 ** 31 - 1, I('old_nsteps') >= 0, I('old_nsteps') < 2 ** 40,
                   z3.Real('last_mean') >= 0, z3.Real('last_mean') <= 1, z3.Real('last_sym') >= 0, z3.Real('last_sym') <= 1, z3.Real('target') > 0, z3.Real('target') < 1,
                   z3.Real('last_mean') != z3.Real('last_sym'), z3.Real('last_mean') != z3.Real('target'), z3.Real('last_sym') != z3.Real('target')]
            fn = mir.method('Strategy', None, which, file='stepsize')
            m = Machine(); m.pc = list(pre); c = m.alloc(strat)
            res = vm.merge_outcomes(vm.run(fn, [Ref(c)], m)); rep.paths += len(res); n += 1
            if len(res) != 1 or res[0][1] != 'ret':
                bad.append('%s [%s]: %d outcomes, %r' % (which, method, len(res), [(k, str(v)[:80]) for (_, k, v) in res][:2])); continue
            m1 = res[0][0]; post = m1.mem[c]
            if method == 'Fixed':
                if repr(post) != repr(strat): bad.append('%s [Fixed]: the strategy state changes although no estimator is in use' % which)
                continue
            ad_post = L.get('Strategy', post, 'adaptation', file='stepsize')
            got = ad_post.f[0].f[0] if isinstance(ad_post, Enum) and ad_post.name == 'Some' else None
            if got is None: bad.append('%s [%s]: estimator dropped' % (which, method)); continue
            # reference: the estimator's own advance on the same pre-state, fed (statistic, target)
            adv = mir.method(ty, None, 'advance'); m2 = Machine(); m2.pc = list(pre); c2 = m2.alloc(inner)
            stat = R('last_mean') if statname == 'last_mean_tree_accept' else R('last_sym')
            ref = vm.merge_outcomes(vm.run(adv, [Ref(c2), stat, R('target')], m2))
            if len(ref) != 1 or ref[0][1] != 'ret': bad.append('%s::advance: %d outcomes' % (ty, len(ref))); continue
            want = ref[0][0].mem[c2]
            diffs = []
            for f in fields:
                a, b = L.get(ty, got, f), L.get(ty, want, f); a = getattr(a, 'v', a); b = getattr(b, 'v', b)
                diffs.append(a != b)
            # uninterpreted functions are congruent, so syntactically different but equal terms are decided by the solver
            verdict, model = rep.check('C07.7 %s [%s]: the estimator receives (%s, target_accept)' % (which, method, statname), pre + m1.pc + ref[0][0].pc + [z3.Or(*diffs)], timeout_ms=60000)
            if verdict == 'violated':
                bad.append('%s [%s]: the estimator is not advanced with (%s, target_accept): %s' % (which, method, statname, str(model_to_json(model))[:300]))
            # the other fields of the strategy are untouched
            for f in ('last_mean_tree_accept', 'last_sym_mean_tree_accept', 'last_n_steps', 'last_max_energy_error'):
                if repr(L.get('Strategy', post, f, file='stepsize')) != repr(L.get('Strategy', strat, f, file='stepsize')): bad.append('%s [%s]: field %s changes' % (which, method, f))
            rep.absorb_vm(vm)
    if bad: rep.violated('C07.7 estimator call sites', 'estimator.feed', '; '.join(bad))
    else: rep.holds('C07.7 update_estimator_early/late feed the estimator in use (DualAverage, Adam; none for Fixed) with (asymmetric resp. symmetric statistic, target_accept) - differential against the estimator\'s own advance (%d call sites)' % n, time.time() - t0_)

# ------------------------------------------------------------------------------------------------
def collector(rep, mir, L):
    A = RealAlg(); vm = VM(mir, A)
    vm.add_model(r'^State::<M, P>::energy$', lambda vm, m, c, a: ret(m, vm.read_at(m, a[0].cell, a[0].path).f[0]))
    reg = mir.method('AcceptanceRateCollector', 'Collector', 'register_leapfrog')
    def rm(tag): return L.make('RunningMean', {'sum': A.fresh('sum' + tag), 'count': z3.Int('cnt' + tag)})
    e0, e1, mx = A.fresh('initial_energy'), A.fresh('end_energy'), A.fresh('max_err')
    col = L.make('AcceptanceRateCollector', {'initial_energy': e0, 'mean': rm('a'), 'mean_sym': rm('s'), 'max_energy_error': mx})
    pre = [z3.Int('cnta') >= 0, z3.Int('cnta') < 2 ** 40, z3.Int('cnts') >= 0, z3.Int('cnts') < 2 ** 40]
    # a divergence is described by a full DivergenceInfo (every field present, the energy error absent or any value): whatever the collector reads
    # from it, a divergent leapfrog counts as acceptance 0 in both statistics
    try: dfields = list(L.fields('DivergenceInfo'))
    except Exception: dfields = []
    for div in (False, 'no energy error', 'some energy error'):
        m = Machine(); m.pc = list(pre); c = m.alloc(col); s_end = m.alloc(Struct((e1,), 'AbsState')); s_start = m.alloc(Struct((e0,), 'AbsState'))
        if div and dfields:
            dv = {f: Opaque('divergence.' + f) for f in dfields}
            if 'energy_error' in dv: dv['energy_error'] = NONE() if div == 'no energy error' else SOME(A.fresh('div_energy_error'))
            dstruct = L.make('DivergenceInfo', dv)
        else: dstruct = Struct((), 'DivergenceInfo')
        dinfo = SOME(Ref(m.alloc(dstruct))) if div else NONE()
        res = vm.run(reg, [Ref(c), Ref(m.alloc(UNIT)), Ref(s_start), Ref(s_end), dinfo], m); rep.paths += len(res)
        for (mm, k, v) in res:
            if k == 'panic':
                rep.violated('C07.5 no_panic', 'collector.panic', 'register_leapfrog can panic: %r' % (v,)); continue
            d = mm.mem[c]
            mean, msym = L.get('AcceptanceRateCollector', d, 'mean'), L.get('AcceptanceRateCollector', d, 'mean_sym')
            da = L.get('RunningMean', mean, 'sum').v - z3.Real('suma'); ds = L.get('RunningMean', msym, 'sum').v - z3.Real('sums')
            ax = []
            for (n, args, term) in A.used:
                if n == 'exp':
                    x = args[0]; ax += [term > 0, z3.Implies(x <= 0, term <= 1), z3.Implies(x >= 0, term >= 1)]
            name = 'C07.5 %s: each added acceptance statistic lies in [0,1]%s' % ('divergent leapfrog' if div else 'regular leapfrog', ' and is 0' if div else '')
            bad = [z3.Or(da < 0, da > 1, ds < 0, ds > 1)] if not div else [z3.Or(da != 0, ds != 0)]
            verdict, model = rep.check(name, pre + mm.pc + ax + bad)
            if verdict == 'violated':
                rep.violated(name, 'collector.range.' + ('div' if div else 'reg'), 'acceptance statistic outside [0,1]: ' + str(model_to_json(model)), model_to_json(model))
            cnts = [L.get('RunningMean', mean, 'count'), L.get('RunningMean', msym, 'count')]
            verdict, model = rep.check('C07.5 %s: both counts increase by one' % ('div' if div else 'reg'), pre + mm.pc + [z3.Or(cnts[0] != z3.Int('cnta') + 1, cnts[1] != z3.Int('cnts') + 1)])
            if verdict == 'violated': rep.violated('C07.5 counts', 'collector.count', 'leapfrog count wrong', model_to_json(model))
            if not div:
                dd = e0.v - e1.v; emin = A.uf['exp'](z3.If(dd <= 0, dd, 0)); ed = A.uf['exp'](dd)
                verdict, model = rep.check('C07.5 regular: statistics are min(1,e^d) and 2 min(1,e^d)/(1+e^d), d = E0 - E1',
                                           pre + mm.pc + [z3.Or(da != emin, ds != 2 * emin / (1 + ed))])
                if verdict == 'violated':
                    rep.violated('C07.5 formulas', 'collector.formula', 'acceptance statistic formula deviates: ' + str(model_to_json(model)), model_to_json(model))
    rep.axioms += ['exp(x) > 0; x <= 0 => exp(x) <= 1; x >= 0 => exp(x) >= 1']
    # RunningMean invariant 0 <= sum <= count  =>  current() in [0,1]
    cur = mir.method('RunningMean', None, 'current'); m = Machine(); s, n = A.fresh('sum'), z3.Int('n')
    c = m.alloc(L.make('RunningMean', {'sum': s, 'count': n}))
    (mm, k, v) = vm.run(cur, [Ref(c)], m)[0]
    verdict, model = rep.check('C07.5 mean of statistics in [0,1] given 0 <= sum <= count, count >= 1', [n >= 1, n < 2 ** 40, s.v >= 0, s.v <= z3.ToReal(n), z3.Or(v.v < 0, v.v > 1)])
    if verdict == 'violated': rep.violated('C07.5 mean', 'collector.mean', 'RunningMean::current outside [0,1]', model_to_json(model))
    rep.absorb_vm(vm)

# ------------------------------------------------------------------------------------------------
def validate(rep, mir, L):
    """translator validation: concrete VM run of advance vs. the closed formulas in python doubles (same operation order)"""
    C = ConcAlg(); vm = VM(mir, C); adv = mir.method('DualAverage', None, 'advance')
    rnd = random.Random(rep.seed); n = 50 if rep.tier == 'quick' else 500
    for i in range(n):
        k, t0, gamma, mx = 0.75, 10.0, 0.05, math.pi
        ls, la, hb, mu, cnt = rnd.uniform(-5, 1), rnd.uniform(-5, 1), rnd.uniform(-1, 1), rnd.uniform(-3, 3), rnd.randint(1, 2000)
        acc, tgt = rnd.random(), 0.8
        opts = L.make('DualAverageOptions', {'k': Fl(k), 't0': Fl(t0), 'gamma': Fl(gamma), 'max_step_size': Fl(mx)})
        d = L.make('DualAverage', {'log_step': Fl(ls), 'log_step_adapted': Fl(la), 'hbar': Fl(hb), 'mu': Fl(mu), 'count': cnt, 'settings': opts})
        m = Machine(); c = m.alloc(d); vm.run(adv, [Ref(c), Fl(acc), Fl(tgt)], m); d2 = m.mem[c]
        w = 1.0 / (float(cnt) + t0); hb2 = (1.0 - w) * hb + w * (tgt - acc); ls2 = min(mu - hb2 * math.sqrt(float(cnt)) / gamma, math.log(mx))
        mk = math.pow(float(cnt), -k); la2 = mk * ls2 + (1.0 - mk) * la
        got = (L.get('DualAverage', d2, 'hbar').v, L.get('DualAverage', d2, 'log_step').v, L.get('DualAverage', d2, 'log_step_adapted').v, L.get('DualAverage', d2, 'count'))
        if got != (hb2, ls2, la2, cnt + 1): rep.validation_mismatch.append({'input': [ls, la, hb, mu, cnt, acc], 'vm': got, 'ref': (hb2, ls2, la2)})
        rep.validated += 1
    if rep.validation_mismatch: rep.errors.append('translator validation mismatch (DualAverage::advance)')

# native replays are filled in by the replay crate when available
def native_da_monotone(model): return None
def native_da_formula(model, nm): return None
def native_adam(model): return None

# ------------------------------------------------------------------------------------------------
def init_search(rep, mir, L, prefix='C07.6'):
    """Strategy::init (doubling / halving search) from the MIR with an oracle Hamiltonian whose leapfrog returns Ok with an arbitrary energy,
    a divergence or an error; the real AcceptanceRateCollector sees every trial.  Also decides C05(3): a faulty trial only discards that trial."""
    K = 3 if rep.tier == 'quick' else 6
    from ..mathenv import install_misc
    results = {'bad': {}, 'kinds': set(), 'paths': 0}
    en_m = None
    for method in ('DualAverage', 'Adam', 'Fixed'):
        A = RealAlg(); vm = VM(mir, A); install_misc(vm); vm.enums.setdefault('Either', ['Left', 'Right'])
        fn = mir.method('Strategy', None, 'init', file='stepsize')
        en = vm.enums['StepSizeAdaptMethod']
        da_opts = L.make('DualAverageOptions', {'k': A.fresh('k'), 't0': A.fresh('t0'), 'gamma': A.fresh('gamma'), 'max_step_size': A.fresh('max_step')})
        adam_opts = L.make('AdamOptions', {'beta1': A.fresh('beta1'), 'beta2': A.fresh('beta2'), 'epsilon': A.fresh('adam_eps'), 'learning_rate': A.fresh('lr')})
        meth = Enum(en.index('Fixed'), 'Fixed', (A.fresh('fixed_val'),), 'StepSizeAdaptMethod') if method == 'Fixed' else Enum(en.index(method), method, (), 'StepSizeAdaptMethod')
        ao = L.make('StepSizeAdaptOptions', {'method': meth, 'dual_average': da_opts, 'adam': adam_opts})
        init_step = A.fresh('initial_step'); target = A.fresh('target')
        ss = L.make('StepSizeSettings', {'target_accept': target, 'initial_step': init_step, 'jitter': NONE(), 'adapt_options': ao})
        # the estimator object as Strategy::new builds it
        new = mir.method('Strategy', None, 'new', file='stepsize'); m = Machine(); m.ghost['events'] = []
        (m, k, strat) = vm.run(new, [ss], m)[0]; sc = m.alloc(strat)
        step_cell = m.alloc(A.fresh('old_step')); m.pc += [init_step.v > 0, target.v > 0, target.v < 1]
        vm.add_model(r' as Hamiltonian<M>>::step_size_mut$', lambda vm, m, c, a, step_cell=step_cell: ret(m, Ref(step_cell)))
        vm.add_model(r' as Hamiltonian<M>>::step_size$', lambda vm, m, c, a, step_cell=step_cell: ret(m, vm.read_at(m, step_cell, [])))
        def init_state(vm, m, c, a):
            outs = []
            for ok in (True, False):
                m2 = m.clone(); m2.log('events', ('init_state', ok))
                outs.append((m2, 'ret', OK(Ref(m2.alloc(Struct((A.fresh('E_start'),), 'AbsState')))) if ok else Enum(1, 'Err', (Struct((), 'NutsError'),), 'Result')))
            return outs
        vm.add_model(r' as Hamiltonian<M>>::init_state$', init_state)
        vm.add_model(r' as Hamiltonian<M>>::initialize_trajectory::<R>$', lambda vm, m, c, a: (m.log('events', ('initialize_trajectory', a[3])), ret(m, OK(UNIT)))[1])
        vm.add_model(r'^State::<M, P>::point$', lambda vm, m, c, a: ret(m, a[0]))
        def deref_state(vm, m, r):
            v = r
            while isinstance(v, Ref): v = vm.read_at(m, v.cell, v.path)
            return v
        vm.add_model(r'^<P as Point<M>>::initial_energy$', lambda vm, m, c, a: ret(m, deref_state(vm, m, a[0]).f[0]))
        vm.add_model(r'^State::<M, P>::energy$', lambda vm, m, c, a: ret(m, deref_state(vm, m, a[0]).f[0]))
        reg = mir.method('AcceptanceRateCollector', 'Collector', 'register_leapfrog')
        def leapfrog(vm, m, c, a):
            ntr = len([e for e in m.ghost['events'] if e[0] == 'trial'])
            kinds = ['ok', 'div', 'err'] if ntr <= K else ['err']
            outs = []
            for kd in kinds:
                m2 = m.clone(); eps_now = vm.read_at(m2, step_cell, [])
                if kd == 'ok':
                    e = A.fresh('E_trial_%d' % ntr); end = Ref(m2.alloc(Struct((e,), 'AbsState')))
                    for (m3, k3, v3) in list(vm.exec_fn(m2, reg, [a[7], a[1], a[2], end, NONE()])):
                        if k3 != 'ret': outs.append((m3, k3, v3)); continue
                        m3.log('events', ('trial', 'ok', a[3].name, eps_now.v, e.v, a[4].v, a[5].v)); outs.append((m3, 'ret', Enum(0, 'Ok', (end,), 'LeapfrogResult')))
                elif kd == 'div':
                    m2.log('events', ('trial', 'div', a[3].name, eps_now.v, None, a[4].v, a[5].v)); outs.append((m2, 'ret', Enum(1, 'Divergence', (Struct((), 'DivergenceInfo'),), 'LeapfrogResult')))
                else:
                    m2.log('events', ('trial', 'err', a[3].name, eps_now.v, None, a[4].v, a[5].v)); outs.append((m2, 'ret', Enum(2, 'Err', (Struct(('unrec',), 'LogpErrOracle'),), 'LeapfrogResult')))
            return outs
        vm.add_model(r' as Hamiltonian<M>>::leapfrog::<AcceptanceRateCollector>$', leapfrog)
        vm.add_model(r'^State::<M, P>::energy$', lambda vm, m, c, a: ret(m, deref_state(vm, m, a[0]).f[0]))
        pos = m.alloc(Seq([A.fresh('x0')]))
        from ..vm import SliceRef
        vm.solver.set('timeout', 5000); vm.unknown_is_feasible = True
        ax_bg = []
        outs = list(vm.exec_fn(m, fn, [Ref(sc), Ref(m.alloc(Opaque('math'))), Ref(m.alloc(Opaque('nuts_options'))), Ref(m.alloc(Opaque('ham'))), SliceRef(pos, (), 0, 1), Ref(m.alloc(Opaque('rng')))]))
        results['paths'] += len(outs); rep.absorb_vm(vm); rep.paths += len(outs)
        exp = A.uf['exp']
        for (m2, k, v) in outs:
            ev = m2.ghost['events']; trials = [e for e in ev if e[0] == 'trial']; where = {'method': method, 'trials': [(t[1], t[2]) for t in trials]}
            ax = []
            for (nm, args, term) in A.used:
                if nm == 'exp': ax += [term > 0, z3.Implies(args[0] <= 0, term <= 1), z3.Implies(args[0] >= 0, term >= 1)]
            sol = z3.Solver(); sol.set('timeout', 20000); sol.add(*m2.pc); sol.add(*ax)
            if sol.check() == z3.unsat: continue          # infeasible once exp is constrained
            if k == 'panic': results['bad'].setdefault('panic', ('Strategy::init panics: %s' % (str(v)[:120],), where)); continue
            step = vm.read_at(m2, step_cell, []).v
            if any(e == ('init_state', False) for e in ev):
                if v.name != 'Err': results['bad'].setdefault('init_err', ('a failing init_state is not reported', where))
                results['kinds'].add('init_err'); continue
            if v.name != 'Ok': results['bad'].setdefault('spurious_err', ('Strategy::init returns Err although init_state succeeded (faulty trial steps must only be discarded)', where)); continue
            if method == 'Fixed':
                sol.push(); sol.add(step != z3.Real('fixed_val')); r = sol.check(); sol.pop()
                if r != z3.unsat or trials: results['bad'].setdefault('fixed', ('Fixed step size not installed / search run for a fixed step size', where))
                results['kinds'].add('fixed'); continue
            # every trial is one full-size step from the start state, measured against the start state's energy
            if trials:
                sol.push(); sol.add(z3.Or(*[z3.Or(t[5] != 1, t[6] != z3.Real('E_start')) for t in trials])); r = sol.check(); sol.pop()
                if r != z3.unsat: results['bad'].setdefault('trial_args', ('a trial step of the search is not taken with step_size_factor = 1 and the start state\'s energy as baseline (the acceptance it measures is not that of the step size being tested)', where))
            if trials and trials[-1][1] != 'ok':
                results['kinds'].add('faulty_trial')
                sol.push(); sol.add(step != init_step.v); r = sol.check(); sol.pop()
                if r != z3.unsat: results['bad'].setdefault('fault_keeps_initial', ('after a faulty trial step the step size is not reset to initial_step', where))
                continue
            if len(trials) > K + 1: continue
            # acceptance exit: acc_j = exp(min(0, E_start - E_j)); direction from the first trial
            accs = [exp(z3.If(z3.Real('E_start') - t[4] <= 0, z3.Real('E_start') - t[4], 0)) for t in trials]
            if len(trials) >= 2:
                results['kinds'].add('bracket')
                # the direction is the code's (doubling = later trials run Forward); what is checked is that it is justified by the first trial and that the
                # exit brackets the target.  Ties (an acceptance exactly equal to target_accept) may be resolved either way: all comparisons are non-strict.
                upc = trials[1][2] == 'Forward'; up = z3.BoolVal(upc)
                sol.push(); sol.add((accs[0] < target.v) if upc else (accs[0] > target.v)); r = sol.check(); sol.pop()
                if r == z3.sat: results['bad'].setdefault('bracket', ('the search direction contradicts the first trial (doubling although its acceptance is below the target, or halving although above)', where))
                loop = accs[1:]; last = loop[-1]; earlier = loop[:-1]
                capped = z3.Or(step >= z3.RealVal(100000), step <= z3.RealVal('1/10000000000'))
                brack = z3.And(last <= target.v, *[e >= target.v for e in earlier]) if upc else z3.And(last >= target.v, *[e <= target.v for e in earlier])
                sol.push(); sol.add(z3.Not(z3.Or(brack, capped))); r = sol.check(); sol.pop()
                if r == z3.sat: results['bad'].setdefault('bracket', ('the search stops although the last two trial steps do not bracket target_accept', where))
                # the adopted step is initial * 2^(+-(n-1)) and the estimator is re-created at it
                n = len(loop); want = init_step.v * (z3.If(up, z3.RealVal(2), z3.RealVal('1/2')) ** 1 if False else 1)
                f = z3.RealVal(1)
                for _ in range(n - 1): f = f * z3.If(up, z3.RealVal(2), z3.RealVal('1/2'))
                sol.push(); sol.add(step != init_step.v * f); r = sol.check(); sol.pop()
                if r == z3.sat: results['bad'].setdefault('adopted_step', ('the adopted step size is not initial_step * 2^(+-(trials-1))', where))
    for need in ('bracket', 'faulty_trial', 'fixed', 'init_err'): rep.cover('%s step-size search outcome explored: %s' % (prefix, need), need in results['kinds'])
    for key, (what, where) in results['bad'].items():
        rep.violated('%s Strategy::init: %s' % (prefix, key), 'init_search.' + key, '%s %s' % (what, where), model={'where': str(where)})
    if not results['bad']: rep.holds('%s Strategy::init: exits through the acceptance test only when the last trial is on the other side of target_accept than all earlier ones (or at the 1e5 / 1e-10 caps), adopts initial*2^(+-n), a faulty trial resets to initial_step and returns Ok, Fixed installs the fixed value, no panic (<= %d trials, %d paths)' % (prefix, K + 1, results['paths']))
