"""C06 - warm-up ends exactly at num_tune and the kernel is frozen afterwards (DESIGN section 4, C06)."""
import time
import z3
from ..driver import load_mir, REPO, model_to_json
from ..layout import Layouts
from ..adaptq import AdaptQuery, ExternalAdaptQuery, METHODS
from ..vm import VM, Machine, Struct, Enum, Ref, Opaque, UNIT, NONE, SOME, OK, ERR, ret
from ..alg import RealAlg, Fl
from .. import native

CUR = {}
def run(rep):
    mir = load_mir(rep); L = Layouts(REPO)
    rep.bounds = {'draws': 'unbounded (one inductive step of adapt(draw) from an arbitrary schedule state satisfying the invariant)', 'integers': 'all schedule integers in [0, 2^32)',
                  'methods': list(METHODS), 'jitter': 'None and Some(j), 0 < j < 1'}
    rep.assumptions += ['invariant I (checked for initiation on GlobalStrategy::new and for preservation here): early_end <= num_tune, final_step_size_window <= num_tune, last_update <= draw, tuning <=> draw <= num_tune, 1 <= growth <= 1024 (so that window arithmetic stays below 2^64)',
                        'the mass-matrix strategy A, the Hamiltonian, the RNG (jitter u in [1-j, 1+j)) and the step-size search Strategy::init are the environment; A::adapt may report a change or not (both explored)',
                        'exact reals; exp/ln/sqrt/pow uninterpreted', 'Some(jitter) with j <= 0 or j >= 1 is outside (Uniform::new(..).expect("Invalid jitter") is an explicit precondition of the code)']
    rep.outside += ['closed-loop behaviour of the mass-matrix strategies (C08/C09)', 'low-rank / flow internals', 'u64 -> f64 exactness above 2^32']
    s = z3.Solver(); s.set('timeout', 30000)
    def sat(cs):
        s.push(); s.add(*cs); s.add(*CUR['A'].lemmas); r = s.check(); md = s.model() if r == z3.sat else None; s.pop()
        if r == z3.unknown: r, md = rep.solve(list(cs) + list(CUR['A'].lemmas))      # the incremental solver gave up: fresh solvers, other seeds
        if r == z3.unknown: rep.unknown('C06 solver unknown')
        return (r == z3.sat), md
    I = z3.Int; draw, nt, fw = I('draw'), I('num_tune'), I('final_window')
    for strat, method, jit in [(s_, m_, j_) for s_ in ('GlobalStrategy', 'ExternalTransformAdaptation') for m_ in METHODS for j_ in (True, False)]:
        if True:
            t0 = time.time(); q = (AdaptQuery if strat == 'GlobalStrategy' else ExternalAdaptQuery)(mir, L, method, jit); outs = q.run(); rep.paths += len(outs); rep.absorb_vm(q.vm)
            A = q.A; CUR['A'] = A; exp = A.uf['exp']; R = z3.Real
            tag = 'C06 %s::adapt() %s jitter=%s' % (strat, method, 'Some' if jit else 'None'); bad = []
            reached = set()
            for (m, k, v) in outs:
                if k == 'panic':
                    bad.append(('panic', 'reachable panic in adapt: %s' % (v,), {})); continue
                p = q.post(m); ev = p['events']; names = [e[0] for e in ev]
                def chk(what, cond, key):
                    ok, md = sat(m.pc + [cond])
                    if ok: bad.append((key, what, {d.name(): str(md[d]) for d in md.decls() if not d.name().startswith(('exp', 'ln', 'sqrt', 'powf', 'powi', '/'))}))
                # (a) invariant preserved for draw+1
                chk('invariant not re-established after adapt(draw)', z3.Or(_b(p['tuning']) != (draw + 1 <= nt), p['last_update'] > draw, p['num_tune'] != nt, p['final_window'] != fw, p['early_end'] != I('early_end')), 'invariant')
                # (b) tuning flag after the call
                chk('is_tuning() after adapt(draw) differs from draw < num_tune', _b(p['tuning']) != (draw < nt), 'tuning_flag')
                # (c) frozen transformation from the final window on
                if any(n in ('switch', 'mm_adapt', 'step_size_init', 'update_estimators', 'update_params') for n in names):
                    chk('mass-matrix strategy touched at draw >= final_step_size_window', draw >= fw, 'frozen_transformation')
                # (d) after warm-up: estimator frozen, step = base * u
                u = R('jitter_u') if jit else z3.RealVal(1)
                if method == 'DualAverage':
                    same = z3.And(p['da_log_step'].v == R('log_step'), p['da_log_step_adapted'].v == R('log_step_adapted'), p['da_hbar'].v == R('hbar'), p['da_count'] == I('da_count'))
                    base_post = exp(p['da_log_step_adapted'].v)
                elif method == 'Adam':
                    same = z3.And(p['adam_log_step'].v == R('log_step'), p['adam_m'].v == R('adam_m'), p['adam_v'].v == R('adam_v'), p['adam_t'] == I('adam_t'))
                    base_post = exp(p['adam_log_step'].v)
                else: same = z3.BoolVal(True); base_post = R('fixed_val')
                if v.name == 'Ok': chk('estimator advanced or step size not (final averaged step) * jitter after warm-up', z3.And(draw >= nt, z3.Or(z3.Not(same), p['step_size'].v != base_post * u)), 'post_warmup_step')
                # (d') the step installed by the last tuning draw (used by the first sampling draw) is the final averaged one
                if 'step_size_init' not in names and v.name == 'Ok':      # an Err return stops the chain: no step is "installed"
                    chk('the step size installed by adapt(num_tune-1) - the one the first sampling draw uses - is not the final averaged step size', z3.And(draw == nt - 1, p['step_size'].v != base_post * u), 'last_tuning_step')
                ok, _ = sat(m.pc + [draw >= nt]); reached.add('post') if ok else None
                ok, _ = sat(m.pc + [draw == nt - 1]); reached.add('last') if ok else None
            for r in ('post', 'last'): rep.cover('%s region reachable: %s' % (tag, r), r in reached)
            keys = {}
            for key, what, md in bad: keys.setdefault(key, (what, md))
            for key, (what, md) in keys.items():
                nat = None
                if key == 'last_tuning_step' and method == 'DualAverage': nat = _replay_last_step(md, 'last_step' if strat == 'GlobalStrategy' else 'flow_last_step')
                rep.violated('%s: %s' % (tag, key), ('adapt.%s' if strat == 'GlobalStrategy' else 'external_adapt.%s') % key, '%s [%s, jitter %s] e.g. %s' % (what, method, jit, md), model=md, native=nat)
            if not keys: rep.holds('%s: invariant inductive, tuning flag <=> draw < num_tune, transformation untouched from the final window on, estimator frozen and step = averaged*jitter after warm-up (%d paths)' % (tag, len(outs)), time.time() - t0)
            if method == 'DualAverage' and jit: rep.sample({'query': tag, 'paths': len(outs), 'example events': [e for e in q.post(outs[0][0])['events']]})
    new_no_panic(rep, mir, L)
    window_boundaries(rep, mir, L)
    from ..driver import parts
    parts(rep, [lambda: window_boundaries_flow(rep, mir, L)])
    progress_order(rep, mir, L)
    from ..driver import parts as _parts
    _parts(rep, [lambda: chain_constructors(rep, mir, L)])
    native_traces(rep)

def _b(v): return z3.BoolVal(v) if isinstance(v, bool) else v

def _replay_last_step(md, family):
    """native replay of a `last tuning draw installs the averaged step` counterexample: the warm-up length / final-window size of the solver's
    model first (when they are small enough to run), then a few standard configurations; the first run that reproduces is reported"""
    cfgs = []
    try:
        nt, fw = int(md.get('num_tune', '0')), int(md.get('final_window', '0'))
        if 1 <= nt <= 400 and 0 <= fw <= nt: cfgs.append({'num_tune': nt, 'step_size_window': (nt - fw) / nt})
    except (TypeError, ValueError): pass
    cfgs += [{'num_tune': 5, 'step_size_window': 0.15}, {'num_tune': 30, 'step_size_window': 0.0}, {'num_tune': 16, 'step_size_window': 0.125}, {'num_tune': 100, 'step_size_window': 0.15}]
    last = None
    for c in cfgs:
        r = native.run(family, c)
        if r is None: continue
        last = r
        if r.get('confirmed'): return r
    return last

def new_no_panic(rep, mir, L):
    """GlobalStrategy::new for every num_tune >= 0 with the default window fractions: no panic, invariant established"""
    A = RealAlg(); vm = VM(mir, A); fn = mir.method('GlobalStrategy', 'AdaptStrategy', 'new')
    vm.add_model(r'^<A as MassMatrixAdaptStrategy<M>>::new$', lambda vm, m, c, a: ret(m, Struct((), 'MMOracle')))
    vm.add_model(r'^stepsize::adapt::Strategy::new$', lambda vm, m, c, a: ret(m, Struct((), 'StepOracle')))
    nt = z3.Int('num_tune'); m = Machine(); m.pc = [nt >= 0, nt < 2 ** 32]
    opts = L.make('EuclideanAdaptOptions', {'step_size_settings': Opaque('ss'), 'mass_matrix_options': Opaque('mm'), 'early_window': A.const(0.3), 'step_size_window': A.const(0.15),
                                            'mass_matrix_switch_freq': 80, 'early_mass_matrix_switch_freq': 10, 'mass_matrix_update_freq': 1, 'mass_matrix_window_growth': A.const(1.5)})
    outs = vm.run(fn, [Ref(m.alloc(Opaque('math'))), opts, nt, z3.Int('chain')], m); rep.paths += len(outs); rep.absorb_vm(vm)
    s = z3.Solver()
    pan = [(mm, v) for (mm, k, v) in outs if k == 'panic']
    if pan:
        mm, v = pan[0]; s.add(*mm.pc); s.add(*A.lemmas); s.check(); md = s.model()
        rep.violated('C06.e GlobalStrategy::new does not panic for any num_tune >= 0 (default fractions)', 'new.panic', 'GlobalStrategy::new panics (%s) e.g. for num_tune = %s' % (v[1] if len(v) > 1 else v, md[nt]),
                     model={'num_tune': str(md[nt])}, native=native.run('num_tune', {'num_tune': int(str(md[nt]))}))
    else: rep.holds('C06.e GlobalStrategy::new does not panic for any num_tune in [0, 2^32) with the default fractions')
    for (mm, k, v) in outs:
        if k != 'ret': continue
        g = lambda f: L.get('GlobalStrategy', v, f)
        s2 = z3.Solver(); s2.add(*mm.pc); s2.add(*A.lemmas); s2.add(z3.Or(g('early_end') > nt, g('final_step_size_window') > nt, g('num_tune') != nt, _b(g('tuning')) != True, g('last_update') != 0))
        if s2.check() != z3.unsat: rep.violated('C06 invariant initiation', 'new.invariant', 'GlobalStrategy::new does not establish the schedule invariant: %s' % s2.model())
        else: rep.holds('C06 invariant I established by GlobalStrategy::new (early_end <= num_tune, final window <= num_tune, tuning, last_update = 0)')

def window_boundaries(rep, mir, L):
    """GlobalStrategy::new places the windows where the configuration says: the final step-size window is the last trunc(step_size_window * num_tune)
    draws of warm-up (all of it when the fraction is >= 1), the early window the first trunc(early_window * num_tune) draws - for every num_tune and
    every pair of fractions, overlapping windows included"""
    A = RealAlg(); vm = VM(mir, A); fn = mir.method('GlobalStrategy', 'AdaptStrategy', 'new')
    vm.add_model(r'^<A as MassMatrixAdaptStrategy<M>>::new$', lambda vm, m, c, a: ret(m, Struct((), 'MMOracle')))
    vm.add_model(r'^stepsize::adapt::Strategy::new$', lambda vm, m, c, a: ret(m, Struct((), 'StepOracle')))
    nt = z3.Int('num_tune'); ew, sw = A.fresh('early_window'), A.fresh('step_size_window'); m = Machine()
    m.pc = [nt >= 0, nt < 2 ** 32, ew.v >= 0, ew.v <= 1, sw.v >= 0, sw.v <= 4]
    opts = L.make('EuclideanAdaptOptions', {'step_size_settings': Opaque('ss'), 'mass_matrix_options': Opaque('mm'), 'early_window': ew, 'step_size_window': sw,
                                            'mass_matrix_switch_freq': z3.Int('switch_freq'), 'early_mass_matrix_switch_freq': z3.Int('early_switch_freq'), 'mass_matrix_update_freq': z3.Int('update_freq'), 'mass_matrix_window_growth': A.const(1.5)})
    outs = vm.run(fn, [Ref(m.alloc(Opaque('math'))), opts, nt, z3.Int('chain')], m); rep.paths += len(outs); rep.absorb_vm(vm)
    t0 = time.time(); bad = None; nok = 0
    for (mm, k, v) in outs:
        s = z3.Solver(); s.set('timeout', 60000); s.add(*mm.pc); s.add(*A.lemmas)
        if k == 'panic':
            if s.check() != z3.unsat: bad = ('GlobalStrategy::new panics for fractions in range: %s' % (v,), s.model())
            continue
        nok += 1; g = lambda f: L.get('GlobalStrategy', v, f)
        wlen = z3.ToInt(sw.v * z3.ToReal(nt)); elen = z3.ToInt(ew.v * z3.ToReal(nt))
        # the property fixes the windows as fractions of warm-up, not how the fraction is rounded: any whole number of draws between floor and ceil of
        # fraction x num_tune is accepted (the code truncates)
        wx = sw.v * z3.ToReal(nt); ex = ew.v * z3.ToReal(nt); fwin = g('final_step_size_window'); een = g('early_end')
        wlen_hi = z3.If(z3.ToReal(wlen) == wx, wlen, wlen + 1); elen_hi = z3.If(z3.ToReal(elen) == ex, elen, elen + 1)
        lo_f = z3.If(nt >= wlen_hi, nt - wlen_hi, 0); hi_f = z3.If(nt >= wlen, nt - wlen, 0)
        s.add(z3.Or(fwin < lo_f, fwin > hi_f, een < elen, een > elen_hi, g('current_window_size') != z3.Int('switch_freq'), g('last_update') != 0))
        r = s.check()
        if r == z3.sat: bad = ('window boundaries differ from the configuration', s.model())
        elif r != z3.unsat: rep.unknown('C06.f window boundaries', 'solver: ' + s.reason_unknown()); return
    if bad:
        md = {d.name(): str(bad[1][d]) for d in bad[1].decls() if d.arity() == 0}
        rep.violated('C06.f GlobalStrategy::new places the windows as configured', 'new.windows', '%s, e.g. %s' % (bad[0], md), model=md)
    else: rep.holds('C06.f GlobalStrategy::new: final step-size window = the last step_size_window fraction of warm-up (length between floor and ceil of fraction x num_tune, saturating), early window = the first early_window fraction likewise, for all num_tune < 2^32 and all fractions (overlap included)', time.time() - t0)
    rep.cover('C06.f a non-panicking path of new exists', nok > 0)

def window_boundaries_flow(rep, mir, L):
    """ExternalTransformAdaptation::new (flow presets): the final step-size window starts at floor(num_tune x (1 - step_size_window)) - the last
    step_size_window fraction of warm-up - and never after num_tune"""
    A = RealAlg(); vm = VM(mir, A); fn = mir.method('ExternalTransformAdaptation', 'AdaptStrategy', 'new')
    vm.add_model(r'^stepsize::adapt::Strategy::new$', lambda vm, m, c, a: ret(m, Struct((), 'StepOracle')))
    nt = z3.Int('num_tune'); sw = A.fresh('step_size_window'); m = Machine(); m.pc = [nt >= 0, nt < 2 ** 32, sw.v >= 0, sw.v <= 1]
    opts = L.make('FlowSettings', {f: (sw if f == 'step_size_window' else Opaque(f)) for f in L.fields('FlowSettings')})
    outs = vm.run(fn, [Ref(m.alloc(Opaque('math'))), opts, nt, z3.Int('chain')], m); rep.paths += len(outs); rep.absorb_vm(vm); bad = None; nok = 0; t0 = time.time()
    for (mm, k, v) in outs:
        s = z3.Solver(); s.set('timeout', 60000); s.add(*mm.pc); s.add(*A.lemmas)
        if k == 'panic':
            if s.check() != z3.unsat: bad = ('ExternalTransformAdaptation::new panics: %s' % (v,), s.model())
            continue
        nok += 1; g = lambda f: L.get('ExternalTransformAdaptation', v, f)
        fx = z3.ToReal(nt) * (1 - sw.v); flo = z3.ToInt(fx); fhi = z3.If(z3.ToReal(flo) == fx, flo, flo + 1)      # rounding of the fraction is not part of the property
        s.add(z3.Or(g('final_window_size') < flo, g('final_window_size') > fhi, g('final_window_size') > nt, g('num_tune') != nt, _b(g('tuning')) != True))
        r = s.check()
        if r == z3.sat: bad = ('final window of the flow adaptation is not the last step_size_window fraction of warm-up', s.model())
        elif r != z3.unsat: rep.unknown('C06.f flow window boundary', 'solver: ' + s.reason_unknown()); return
    if bad:
        md = {d.name(): str(bad[1][d]) for d in bad[1].decls() if d.arity() == 0}
        rep.violated('C06.f ExternalTransformAdaptation::new places the final window as configured', 'new.windows.flow', '%s, e.g. %s' % (bad[0], md), model=md)
    else: rep.holds('C06.f ExternalTransformAdaptation::new: final window starts at num_tune x (1 - step_size_window) rounded down or up, never after num_tune, tuning = true, for all num_tune < 2^32 and fractions in [0, 1]', time.time() - t0)
    rep.cover('C06.f a non-panicking path of the flow strategy\'s new exists', nok > 0)

def chain_constructors(rep, mir, L):
    """NutsChain::new / MclmcChain::new start counting draws at 0 (the tuning flag of draw d is decided from the draw index) and keep the chain id"""
    import re as _re
    bad = []; n = 0
    for ty, pat in (('NutsChain', r'^chain::<impl at src/chain.rs:\d+:1: \d+:\d+>::new$'), ('MclmcChain', r'^mclmc::<impl at src/mclmc.rs:\d+:1: \d+:\d+>::new$')):
        fns = [f for nm, f in mir.fns.items() if _re.match(pat, nm) and ty in f.header.split('->')[-1]]
        if len(fns) != 1: rep.unknown('C06.g %s::new not found' % ty); continue
        fn = fns[0].parse(); A = RealAlg(); vm = VM(mir, A)
        vm.add_model(r'^(?!<u64|<f64|core::|std::ops|std::cmp|[a-z_][a-z_0-9]*$).*', lambda vm, m, c, a: ret(m, Opaque(c[:40])))      # collaborators built inside new() do not matter here (bare crate-local helpers are executed)
        args = []
        for (nm, t) in fn.args:
            if t == 'u64': args.append(z3.Int('arg_' + nm))
            elif t == 'f64': args.append(A.fresh('arg_' + nm))
            elif t == 'bool': args.append(z3.Bool('arg_' + nm))
            else: args.append(Opaque(t[:30]))
        try: outs = vm.run(fn, args, Machine())
        except Exception as e:
            rep.unknown('C06.g %s::new' % ty, '%s: %s' % (type(e).__name__, str(e)[:200])); continue
        n += len(outs); rep.absorb_vm(vm)
        u64s = [a_ for (nm, t), a_ in zip(fn.args, args) if t == 'u64']
        for (m2, k, v) in outs:
            if k != 'ret': bad.append((ty, 'new panics', str(v)[:100])); continue
            dc = L.get(ty, v, 'draw_count'); ch = L.get(ty, v, 'chain')
            if isinstance(dc, Opaque) or isinstance(ch, Opaque): rep.unknown('C06.g %s::new' % ty, 'draw counter / chain id computed by a call the harness stubs'); continue
            if not (isinstance(dc, int) and dc == 0): bad.append((ty, 'a new chain does not start counting draws at 0 (draw %s would be the first): the first num_tune draws are not the tuning draws' % dc))
            if not any(z3.is_expr(ch) and z3.eq(ch, u) for u in u64s): bad.append((ty, 'the chain id is not the one passed to new', str(ch)))
            if L.get(ty, v, 'last_info').name != 'None': bad.append((ty, 'a new chain already has trajectory info'))
    rep.paths += n
    if bad: rep.violated('C06.g chain constructors', 'chain_new', 'chain constructor: %s' % (bad[0],), model={'problems': [str(b)[:200] for b in bad]})
    elif n: rep.holds('C06.g NutsChain::new and MclmcChain::new: draw counter 0, chain id kept, no trajectory info yet (%d paths)' % n)

def progress_order(rep, mir, L):
    """Progress.tuning of draw d must be is_tuning() *after* adapt(d) (NutsChain::draw and MclmcChain::draw)"""
    for chain, ty in (('NutsChain', 'NutsChain'), ('MclmcChain', 'MclmcChain')):
        A = RealAlg(); vm = VM(mir, A)
        try:
            fn = mir.method(ty, 'Chain', 'draw')
        except KeyError as e:
            rep.unknown('C06 %s::draw not found' % chain, str(e)); continue
        order = order_of_calls(fn, mir)
        name = 'C06.b %s::draw builds Progress.tuning from is_tuning() after adapt()' % chain
        if order is None: rep.unknown(name, 'cannot locate adapt / is_tuning calls in the MIR'); continue
        rep.functions.add(fn.name)
        if order['is_tuning_after_adapt']:
            rep.holds(name + ' (is_tuning call dominated by the adapt call on every path of the MIR CFG)')
        else:
            rep.violated(name, 'progress_order.%s' % chain, '%s::draw reads is_tuning() before adapt(): with the one-step result "is_tuning() before adapt(d) <=> d <= num_tune" draw num_tune is still reported as tuning (num_tune + 1 tuning draws)' % chain,
                         model={'chain': chain, 'witness path': order['witness']}, native=native.run('mclmc_tuning', {'num_tune': 20}) if chain == 'MclmcChain' else None)

def _helper_reads_tuning(mir, fn, callee, depth=2):
    """a private helper of the same source file (e.g. an extracted `fn progress(&self, ..)`) that itself calls is_tuning() counts as an is_tuning() site"""
    import re as _re
    if mir is None or depth == 0: return False
    mm = _re.search(r'::([a-z_][a-z_0-9]*)(?:::<.*>)?$', callee); src = _re.search(r'src/[\w/]+\.rs', fn.name)
    if not mm or not src or '::' not in callee or callee.startswith('<'): return False
    for nm, g in mir.fns.items():
        if nm.endswith('::' + mm.group(1)) and src.group(0) in nm and g is not fn:
            try: g.parse()
            except Exception: continue
            for bb in g.blocks:
                for st in g.stmts(bb):
                    if st.kind == 'call' and (st.b.endswith('::is_tuning') or _helper_reads_tuning(mir, g, st.b, depth - 1)): return True
    return False

def order_of_calls(fn, mir=None):
    """CFG reachability over the real MIR: is there a path from entry to an is_tuning() call that does not pass an adapt() call?"""
    fn.parse(); adapt_bbs = set(); tun_bbs = set(); succ = {}
    for bb in fn.blocks:
        if bb in fn.cleanup: continue
        sts = fn.stmts(bb); term = sts[-1] if sts else None; nxt = []
        for st in sts:
            if st.kind == 'call':
                if st.b.endswith('::adapt::<R>') or '::adapt::<' in st.b and 'AdaptStrategy' in st.b: adapt_bbs.add(bb)
                if st.b.endswith('::is_tuning') or _helper_reads_tuning(mir, fn, st.b): tun_bbs.add(bb)
        if term is not None:
            if term.kind == 'goto': nxt = [term.a]
            elif term.kind == 'switch': nxt = [t for _, t in term.b] + ([term.c] if term.c is not None else [])
            elif term.kind == 'call': nxt = [term.d] if term.d is not None else []
            elif term.kind == 'drop': nxt = [term.b]
            elif term.kind == 'assert': nxt = [term.c]
        succ[bb] = nxt
    if not adapt_bbs or not tun_bbs: return None
    # search from entry avoiding adapt blocks
    seen = {0}; stack = [(0, [0])]; witness = None
    while stack:
        b, path = stack.pop()
        if b in tun_bbs and b not in adapt_bbs: witness = path; break
        if b in adapt_bbs: continue
        for n in succ.get(b, []):
            if n not in seen: seen.add(n); stack.append((n, path + [n]))
    return {'is_tuning_after_adapt': witness is None, 'witness': witness}


def native_traces(rep):
    """model validation against the real build (not a deciding step): real DiagNutsSettings chains over a matrix of warm-up lengths and final-window
    fractions must show what the one-step result implies for whole runs - draw d is a tuning draw iff d < num_tune, and with jitter off the step
    size reported from the last tuning draw on never changes.  A disagreement means the model missed something: the run is inconclusive."""
    n = 0; bad = []
    for nt in ((0, 1, 2, 3, 4, 7, 16, 33) if rep.tier == 'thorough' else (0, 3, 16)):
        for w in ((0.0, 0.125, 0.5) if rep.tier == 'thorough' else (0.125,)):
            cfg = {'num_tune': nt, 'num_draws': 5, 'step_size_window': w, 'early_window': 0.25, 'switch_freq': 6, 'early_switch_freq': 3, 'seed': 1 + nt}
            r = native.run('schedule', cfg, timeout=120)
            if not r or not r.get('confirmed'): rep.notes.append('C06.V native trace unavailable for %s: %s' % (cfg, str(r)[:120])); continue
            tun = r['tuning']; st = r['step_size']; n += len(tun)
            if any(t != (d < nt) for d, t in enumerate(tun)): bad.append({'config': cfg, 'problem': 'tuning flags', 'tuning': tun})
            tail = st[max(nt - 1, 0):]
            if nt > 0 and any(x != tail[0] for x in tail): bad.append({'config': cfg, 'problem': 'step size changes after the last tuning draw (jitter off)', 'steps': tail})
    rep.validated += n
    if bad: rep.validation_mismatch += bad; rep.errors.append('C06.V a native run contradicts what the one-step result implies: %s' % str(bad[0])[:300])
    elif n: rep.notes.append('C06.V %d draws of native DiagNuts chains agree with the one-step result (tuning <=> d < num_tune; step size frozen from the last tuning draw on)' % n)
    rep.cover('C06.V native traces compared', n > 0)
