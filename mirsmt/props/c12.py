"""C12 - pause stops chains within a bounded number of draws; resume loses nothing: the per-thread part.
The property quantifies over interleavings of the controller and the chain threads.  The only interaction that matters for it is the command
channel of each chain (std::sync::mpsc, FIFO).  From the chain's side every interleaving is a sequence of messages together with the poll at
which each one becomes visible; the chain closure of ChainProcess::start is executed from the MIR against exactly that: an explicit FIFO queue into
which the environment may put Pause / Resume messages before any poll (bounded number of messages).  From the controller's side the command loop is
executed for the Pause / Continue commands: the message is sent to every chain before the caller of pause()/resume() is answered."""
import re, time
import z3
from ..driver import load_mir, REPO, parts
from ..layout import Layouts
from ..vm import VM, Machine, Struct, Enum, Seq, Ref, Opaque, Closure, UNIT, NONE, SOME, OK, ERR, ret
from ..alg import RealAlg
from ..mathenv import install_misc
from ..intrinsics import deref_val

TECHNIQUE = 'symbolic execution of rustc MIR (chain closure and controller command loop) against an explicit FIFO model of the command channel; message sequences and arrival times enumerated symbolically (bounded)'

def run(rep):
    mir = load_mir(rep); L = Layouts(REPO)
    maxmsg, total = (3, 2) if rep.tier == 'quick' else (4, 3)
    rep.bounds = {'messages per chain': '<= %d Pause/Resume messages, arriving before any poll of the channel' % maxmsg, 'draws': 'a run of %d draws' % total, 'chains (controller side)': 2}
    rep.assumptions += ['std::sync::mpsc channels are FIFO and try_recv/recv return the oldest undelivered message (documented); a message sent while a draw is in progress is visible at the next poll',
                        'pause()/resume() of the Sampler return only after the controller answered (Sampler::pause waits on the response channel; read from the source)',
                        'mutexes are not poisoned; every fallible call of the draw loop succeeds (failures are C13)']
    rep.outside += ['that the OS schedules the threads at all (progress)', 'C10 / C11 (determinism across thread counts, deadlock freedom)', 'more messages or draws than the bound']
    parts(rep, [lambda: chain_side(rep, mir, L, maxmsg, total), lambda: controller_side(rep, mir, L)])

def _fork(outs_spec):
    return outs_spec

def chain_side(rep, mir, L, MAXMSG, TOTAL):
    fn = [f for n, f in mir.fns.items() if re.search(r'sampler::<impl at src/sampler.rs:\d+:1: \d+:\d+>::start::\{closure#0\}::\{closure#0\}$', n)]
    if len(fn) != 1: rep.unknown('C12 chain closure not found in the MIR'); return
    fn = fn[0].parse(); caps = fn.captures()
    A = RealAlg(); vm = VM(mir, A); install_misc(vm); vm.loop_bound = 600; vm.max_stmts = 30000000
    m = Machine(); m.ghost['events'] = []; m.ghost['queue'] = (); m.ghost['sent'] = 0
    prog = L.make('ChainProgress', {f: Opaque(f) for f in L.fields('ChainProgress')})
    m.ghost['cells'] = {'progress': m.alloc(prog)}
    def ev(m): return m.ghost['events']
    en = vm.enums
    def cmd(name): return Enum(en['ChainCommand'].index(name), name, (), 'ChainCommand')
    def tre(name): return Enum(en['TryRecvError'].index(name), name, (), 'TryRecvError')
    def arrivals(m):
        """the environment may put any further messages into the queue before this poll (FIFO), within the bound"""
        outs = [m]; frontier = [m]
        while frontier:
            nxt = []
            for mm in frontier:
                if mm.ghost['sent'] >= MAXMSG: continue
                for kind in ('Pause', 'Resume'):
                    m2 = mm.clone(); mid = m2.ghost['sent']; m2.ghost['sent'] = mid + 1
                    ndraw = len([e for e in ev(m2) if e[0] == 'draw'])
                    m2.ghost['queue'] = m2.ghost['queue'] + ((mid, kind),); m2.log('events', ('sent', mid, kind, len(m2.ghost['queue']) - 1, ndraw)); nxt.append(m2)
            outs += nxt; frontier = nxt
        return outs
    def try_recv(vm, m, c, a):
        outs = []
        for m2 in arrivals(m):
            q = m2.ghost['queue']
            if q:
                (mid, kind) = q[0]; m2.ghost['queue'] = q[1:]; m2.log('events', ('delivered', mid, kind, 'try_recv')); outs.append((m2, 'ret', OK(cmd(kind))))
            else:
                m3 = m2.clone(); m3.log('events', ('poll_empty',)); outs.append((m3, 'ret', ERR(tre('Empty'))))
                if m2.ghost['sent'] >= 1 or True:
                    m4 = m2.clone(); m4.log('events', ('disconnected',)); outs.append((m4, 'ret', ERR(tre('Disconnected'))))
        return outs
    def recv(vm, m, c, a):
        outs = []
        for m2 in arrivals(m):
            q = m2.ghost['queue']
            if q:
                (mid, kind) = q[0]; m2.ghost['queue'] = q[1:]; m2.log('events', ('delivered', mid, kind, 'recv')); outs.append((m2, 'ret', OK(cmd(kind))))
            else:
                # nothing queued: the blocking receive returns only when the sender is dropped (or a later message arrives: covered by the arrivals above)
                m2.log('events', ('disconnected',)); outs.append((m2, 'ret', ERR(Struct((), 'RecvError'))))
        return outs
    vm.add_model(r'^std::sync::mpsc::Receiver::<ChainCommand>::try_recv$', try_recv)
    vm.add_model(r'^std::sync::mpsc::Receiver::<ChainCommand>::recv$', recv)
    vm.add_model(r'^<RecvError as Into<std::sync::mpmc::TryRecvError>>::into$|^<std::sync::mpmc::TryRecvError as From<RecvError>>::from$', lambda vm, m, c, a: ret(m, tre('Disconnected')))
    def context(vm, m, c, a): return ret(m, a[0])
    vm.add_model(r'anyhow::Context<.*>>::context::<|^anyhow::error::<impl anyhow::Error>::context::<', context)
    vm.add_model(r'^<M as Model>::math::<', lambda vm, m, c, a: ret(m, OK(Opaque('logp'))))
    vm.add_model(r' as Math>::dim$', lambda vm, m, c, a: ret(m, 2))
    vm.add_model(r'^<S as Settings>::new_chain::<', lambda vm, m, c, a: ret(m, Opaque('chain')))
    vm.add_model(r'^<S as Settings>::hint_num_tune$', lambda vm, m, c, a: ret(m, 1))
    vm.add_model(r'^<S as Settings>::hint_num_draws$', lambda vm, m, c, a: ret(m, TOTAL - 1))
    vm.add_model(r'^std::sync::Mutex::<ChainProgress>::lock$', lambda vm, m, c, a: ret(m, OK(Struct((Ref(m.ghost['cells']['progress']),), 'MutexGuard'))))
    vm.add_model(r'^<std::sync::MutexGuard<.*> as DerefMut>::deref_mut$|^<std::sync::MutexGuard<.*> as Deref>::deref$', lambda vm, m, c, a: ret(m, deref_val(vm, m, a[0]).f[0]))
    vm.add_model(r'^<Arc<.*> as Deref>::deref$', lambda vm, m, c, a: ret(m, a[0]))
    vm.add_model(r'^<M as Model>::init_position::<', lambda vm, m, c, a: ret(m, OK(UNIT)))
    vm.add_model(r' as chain::Chain<.*>>::set_position$', lambda vm, m, c, a: ret(m, OK(UNIT)))
    vm.add_model(r'^Instant::(now|elapsed)$', lambda vm, m, c, a: ret(m, Opaque('time')))
    def draw(vm, m, c, a): m.log('events', ('draw',)); return ret(m, OK(Struct((Opaque('point'), Opaque('draw_data'), Opaque('stats'), Opaque('info')))))
    vm.add_model(r' as chain::Chain<.*>>::expanded_draw$', draw)
    vm.add_model(r'^std::sync::Mutex::<std::option::Option<.*ChainStorage>>::lock$', lambda vm, m, c, a: ret(m, OK(Struct((Ref(m.alloc(SOME(Opaque('chain storage')))),), 'MutexGuard'))))
    vm.add_model(r'^ChainProgress::update$', lambda vm, m, c, a: ret(m, UNIT))
    vm.add_model(r' as chain::Chain<.*>>::math$', lambda vm, m, c, a: ret(m, Opaque('math ref')))
    vm.add_model(r'^<std::cell::Ref<.*> as Deref>::deref$', lambda vm, m, c, a: ret(m, Opaque('math')))
    vm.add_model(r'^<StatsDims as From<.*>>::from$', lambda vm, m, c, a: ret(m, Opaque('dims')))
    vm.add_model(r' as Storable<.*>>::get_all$', lambda vm, m, c, a: ret(m, Opaque('values')))
    def record(vm, m, c, a): m.log('events', ('record',)); return ret(m, OK(UNIT))
    vm.add_model(r' as ChainStorage>::record_sample::<', record)
    names = {'model': Opaque('model'), 'rng': Opaque('rng'), 'settings': Opaque('settings'), 'chain_id': z3.Int('chain_id'), 'progress': Opaque('progress arc'), 'stop_marker_rx': Opaque('rx'), 'chain_trace': Opaque('trace arc')}
    fields = [None] * len(caps)
    for nm, (idx, byref) in caps.items():
        if nm not in names: rep.unknown('C12 closure capture %s unknown' % nm); return
        fields[idx] = Ref(m.alloc(names[nm])) if byref else names[nm]
    clo = Ref(m.alloc(Closure(fn.args[0][1], fields, None)))
    t0 = time.time(); outs = list(vm.exec_fn(m, fn, [clo])); rep.paths += len(outs); rep.absorb_vm(vm)
    bad = {}; finished = 0; paused_paths = 0; late = 0
    for (m2, k, v) in outs:
        e = ev(m2); kinds = [x[0] for x in e]
        if k == 'panic': bad.setdefault('chain.panic', 'the chain closure panics: %s' % (str(v)[:120],)); continue
        if v.name != 'Ok': bad.setdefault('chain.err', 'the chain closure returns Err although nothing failed (events %s)' % kinds[-8:]); continue
        # (1) while paused nothing is drawn or recorded
        paused = False
        for x in e:
            if x[0] == 'delivered': paused = (x[2] == 'Pause')
            elif x[0] in ('draw', 'record') and paused:
                bad.setdefault('chain.draws_while_paused', 'a draw is made / recorded after a Pause was received and before the next Resume (events %s)' % [y[:3] for y in e][-10:]); break
        if any(x[0] == 'delivered' and x[2] == 'Pause' for x in e): paused_paths += 1
        # (2) pause latency: between the moment a Pause enters the queue with q messages ahead of it and its delivery at most q draws complete
        #     (plus the one that may be in progress when it is sent, which the model places before the send)
        for x in e:
            if x[0] == 'sent' and x[2] == 'Pause':
                mid, q, nd0 = x[1], x[3], x[4]
                deliv = [i for i, y in enumerate(e) if y[0] == 'delivered' and y[1] == mid]
                upto = deliv[0] if deliv else len(e)
                nd = len([y for y in e[:upto] if y[0] == 'draw']) - nd0
                if nd > q: bad.setdefault('chain.pause_latency', 'after a Pause was queued behind %d other command(s) the chain completed %d further draws before acting on it (events %s)' % (q, nd, [y[:3] for y in e][-12:]))
                if q > 0: late += 1
        # (3) every draw is recorded once, in order, and the channel is polled after every recorded draw
        seq = [x[0] for x in e if x[0] in ('draw', 'record')]
        if seq != ['draw', 'record'] * (len(seq) // 2) or len(seq) % 2: bad.setdefault('chain.draw_record', 'draws and records are not strictly alternating (a draw lost, duplicated or recorded twice): %s' % seq)
        ndraws = len(seq) // 2
        cut = 'disconnected' in kinds
        if not cut:
            finished += 1
            if ndraws != TOTAL: bad.setdefault('chain.count', 'an uninterrupted-by-disconnect run records %d draws instead of %d whatever pauses/resumes happen' % (ndraws, TOTAL))
        elif ndraws > TOTAL: bad.setdefault('chain.count', 'more draws than requested')
        # a poll separates consecutive draws
        last = None
        for x in e:
            if x[0] == 'draw':
                if last == 'draw-no-poll': bad.setdefault('chain.poll', 'two draws without polling the command channel in between'); break
                last = 'draw-no-poll'
            elif x[0] in ('delivered', 'poll_empty', 'disconnected'): last = 'polled'
    for key, what in bad.items(): rep.violated('C12 ' + key, key, what, model={})
    if not bad: rep.holds('C12.a chain closure vs FIFO command queue (<= %d messages, %d draws): nothing is drawn or recorded between receiving Pause and receiving Resume (also before the first draw); a Pause queued behind q commands is acted on after at most q further draws; the channel is polled after every draw; whatever the pauses, a run that is not disconnected records exactly %d draws, each once and in order (%d paths)' % (MAXMSG, TOTAL, TOTAL, len(outs)), time.time() - t0)
    rep.cover('C12.a a run with a delivered Pause and a complete run are both explored', paused_paths > 0 and finished > 0)
    rep.cover('C12.a a Pause queued behind another command is explored', late > 0)

def controller_side(rep, mir, L):
    """Pause / Continue commands: the controller sends the message to every chain (ignoring chains that are gone) and only then answers the caller"""
    from .c13 import find_command_loop, _storage_models, _controller_models, _chainproc, _ev
    loop = find_command_loop(mir)
    if loop is None: rep.unknown('C12 controller command loop not found in the MIR'); return
    A = RealAlg(); vm = VM(mir, A); install_misc(vm); _storage_models(vm); vm.loop_bound = 64
    _controller_models(vm, 2)
    # the real ChainProcess::pause / resume (drop the oracle models of C13) with the channel send logged
    vm.models = [x for x in vm.models if 'pause|resume' not in x[0].pattern]
    en = vm.enums
    def send(vm, m, c, a):
        ch = deref_val(vm, m, a[0]); outs = []
        for ok in (True, False):
            m2 = m.clone(); m2.log('events', ('chain_send:%s:%s:%s' % (getattr(ch, 'tag', ch), a[1].name, 'ok' if ok else 'gone'),)); outs.append((m2, 'ret', OK(UNIT) if ok else ERR(Struct((a[1],), 'SendError'))))
        return outs
    vm.add_model(r'^std::sync::mpsc::Sender::<ChainCommand>::send$', send)
    NCH = 2
    m = Machine(); m.ghost['events'] = []
    chains = m.alloc(Seq([_chainproc(L, i) for i in range(NCH)]))
    caps = loop.captures(); env = {'callback': Ref(m.alloc(NONE())), 'chains': Ref(chains), 'commands_rx': Ref(m.alloc(Opaque('commands rx'))), 'responses_tx': Ref(m.alloc(Opaque('responses tx'))), 'trace': Ref(m.alloc(Opaque('trace')))}
    fields = [None] * len(caps)
    for nm, (idx, byref) in caps.items():
        if nm not in env: rep.unknown('C12 command loop capture %s unknown' % nm); return
        fields[idx] = env[nm]
    t0 = time.time(); clo = Ref(m.alloc(Closure(loop.args[0][1], fields, None)))
    outs = list(vm.exec_fn(m, loop, [clo])); rep.paths += len(outs); rep.absorb_vm(vm); bad = {}; seen = set()
    for (m2, k, v) in outs:
        e = _ev(m2)
        if k == 'panic': bad.setdefault('controller.panic', 'the command loop panics: %s' % (str(v)[:100],)); continue
        # split the event list per served command
        i = 0
        while i < len(e):
            if e[i] in ('cmd:pause', 'cmd:continue'):
                want = 'Pause' if e[i] == 'cmd:pause' else 'Resume'; j = i + 1; sends = []
                while j < len(e) and not e[j].startswith('cmd:') and not e[j].startswith('respond:'):
                    if e[j].startswith('chain_send:'): sends.append(e[j])
                    j += 1
                answered = j < len(e) and e[j].startswith('respond:')
                targets = [s.split(':')[1] for s in sends]; kinds = {s.split(':')[2] for s in sends}
                if answered:
                    seen.add(want)
                    if sorted(targets) != ['tx%d' % c for c in range(NCH)] or kinds != {want}:      # every chain exactly once, in any order
                        bad.setdefault('controller.forward', 'the caller of %s() is answered although the %s message was not sent to every chain exactly once (sends before the answer: %s)' % ('pause' if want == 'Pause' else 'resume', want, sends))
                i = j
            else: i += 1
    for key, what in bad.items(): rep.violated('C12 ' + key, key, what, model={})
    if not bad: rep.holds('C12.b controller command loop (2 chains, <= 2 commands): Pause / Continue are forwarded as Pause / Resume to every chain, each exactly once (in any order), before the caller is answered; a chain that is already gone does not stop the others (%d paths)' % len(outs), time.time() - t0)
    rep.cover('C12.b both Pause and Continue commands answered on some path', seen == {'Pause', 'Resume'})
