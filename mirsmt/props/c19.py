"""C19 - settings survive serialisation: the derive level (DESIGN section 4, C19).

The serde derive output of every settings type is in the crate's MIR: `serialize` (one `serialize_field(name, &self.field)` per field, or a variant
call for enums) and the visitor the derive generates for `deserialize` (`visit_str` mapping names to fields, `visit_map` collecting the values and
building the struct, `visit_enum`).  Both are executed from the MIR against one environment: a lossless, self-describing format, i.e. a Serializer
that records the (name, value) entries it is given and a Deserializer that hands exactly those entries back, in order.  Obligation, per type and for
symbolic field values: deserialize(serialize(v)) = Ok(v), field by field.  A field that is skipped, renamed or replaced by a default on one side
breaks it.  serde_json's printing / parsing of numbers, the bit-identical-draws consequence and the trace metadata are outside."""
import re, time
import z3
from ..driver import load_mir, REPO
from ..layout import Layouts
from ..vm import VM, Machine, Struct, Enum, Seq, Ref, Str, Opaque, Closure, UNIT, NONE, SOME, OK, ERR, ret, VMError, Unmodelled, is_sym
from ..alg import RealAlg, Fl
from ..mathenv import install_misc
from ..intrinsics import deref_val

LEVEL = 'model_checking'
TECHNIQUE = 'symbolic execution of rustc MIR (serde derive output of every settings type) against a recording Serializer / replaying Deserializer; symbolic field values compared as z3 terms'

def _types(mir):
    """(type name, serialize fn, file, line of the Deserialize derive) for every type that has a Serialize impl (derived or hand-written: any
    `serialize(&T, S) -> Result<S::Ok, S::Error>`) and a derived Deserialize"""
    de = {}
    for n, f in mir.fns.items():
        mm = re.match(r'^(.*)::_::<impl at (src/[^:]+):(\d+):\d+: \d+:\d+>::deserialize$', n)
        if not mm: continue
        f.parse(); r = re.match(r'^(?:std::result::)?Result<([A-Za-z_]\w*)', f.ret.strip())
        if r: de[r.group(1)] = (mm.group(2), int(mm.group(3)))
    out = []
    for n, f in mir.fns.items():
        if not n.endswith('::serialize') or n.count('::serialize') != 1: continue
        f.parse()
        if len(f.args) != 2 or 'Serializer>::Ok' not in f.ret: continue
        ty = re.sub(r'<.*$', '', f.args[0][1].lstrip('&').strip())
        if ty.startswith('__') or ty not in de: continue
        out.append((ty, f, de[ty][0], de[ty][1]))
    return sorted(out, key=lambda t: t[0])

def _de_fns(mir, file, line):
    """the functions of the Deserialize derive written on the same line of the same file"""
    pre = re.compile(r'^.*::_::<impl at %s:%d:\d+: \d+:\d+>::deserialize' % (re.escape(file), line))
    fns = {n: f for n, f in mir.fns.items() if pre.match(n)}
    def pick(suffix, arg_pat=None):
        hits = [f for n, f in fns.items() if n.endswith('::' + suffix)]
        if arg_pat: hits = [f for f in hits if re.search(arg_pat, f.parse().header if hasattr(f, 'header') else '') or True]
        return hits
    return fns, pick

def _install(vm, mir, fns):
    """the format: a Serializer that records and a MapAccess / EnumAccess that replays"""
    A = vm.alg
    def log(m, *e): m.log('entries', e)
    # ---- Serializer side
    vm.add_model(r'^<(?:__)?S as Serializer>::serialize_struct$', lambda vm, m, c, a: (log(m, 'struct', a[1].s, a[2]), ret(m, OK(Struct(('state',), 'SerState'))))[1])
    def ser_field(vm, m, c, a):
        v = deref_val(vm, m, a[2]); ty = re.search(r'serialize_field::<(.*)>$', c).group(1)
        if '__SerializeWith' in ty:
            # `serialize_with` / `with`: the derive wraps the field; the wrapper's Serialize impl (crate MIR) calls the user's function, which talks to a
            # value-level serializer: the tree of primitive calls it makes is what gets written
            cands = [f for n_, f in mir.fns.items() if n_.endswith('::serialize') and f.parse().args and f.args[0][1].lstrip('&').startswith('__SerializeWith')]
            span = getattr(vm.cur_fn, 'name', '')
            pre = re.match(r'^(.*::_::<impl at [^>]+>)', span)
            if pre: cands = [f for f in cands if f.name.startswith(pre.group(1))] or cands
            if len(cands) != 1: raise Unmodelled('serialize_with wrapper: %d candidates' % len(cands))
            outs = []
            for (m2, k, r) in vm.exec_fn(m, cands[0], [a[2], Struct(('value serializer',), 'VSer')]):
                if k != 'ret': outs.append((m2, k, r)); continue
                if r.name != 'Ok' or not (isinstance(r.f[0], Struct) and r.f[0].ty == 'VTree'): raise Unmodelled('serialize_with function that does not end in a primitive serializer call: %r' % (r,))
                m2.log('entries', ('field', a[1].s, 'tree', r.f[0].f[0])); outs.append((m2, 'ret', OK(UNIT)))
            return outs
        log(m, 'field', a[1].s, ty, v); return ret(m, OK(UNIT))
    def vtree(t): return OK(Struct((t,), 'VTree'))
    def ser_prim(vm, m, c, a):
        n = re.search(r'serialize_(\w+?)(?:::<.*>)?$', c).group(1)
        if n == 'none': return ret(m, vtree(('none',)))
        if n == 'unit': return ret(m, vtree(('unit',)))
        if n == 'some':
            x = deref_val(vm, m, a[1])
            if isinstance(x, (Struct, Enum, Seq)): raise Unmodelled('serialize_some of a compound value')
            return ret(m, vtree(('some', x)))
        if n in ('f64', 'f32', 'u64', 'u32', 'u16', 'u8', 'i64', 'i32', 'i16', 'i8', 'bool', 'str', 'char'): return ret(m, vtree(('prim', deref_val(vm, m, a[1]))))
        return NotImplemented
    vm.add_model(r'^<(?:__)?S as Serializer>::serialize_(none|unit|some|f64|f32|u64|u32|u16|u8|i64|i32|i16|i8|bool|str|char)(?:::<.*>)?$', ser_prim)
    vm.add_model(r'^<(f64|f32|u64|u32|usize|i64|i32|bool) as (?:\w+::)*Serialize>::serialize::<', lambda vm, m, c, a: ret(m, vtree(('prim', deref_val(vm, m, a[0])))))
    vm.add_model(r' as SerializeStruct>::serialize_field::<', ser_field)
    vm.add_model(r' as SerializeStruct>::skip_field$', lambda vm, m, c, a: (log(m, 'skip', a[1].s), ret(m, OK(UNIT)))[1])
    vm.add_model(r' as SerializeStruct>::end$', lambda vm, m, c, a: (log(m, 'end'), ret(m, OK(Struct(('done',), 'SerOk'))))[1])
    vm.add_model(r'^<(?:__)?S as Serializer>::serialize_unit_variant$', lambda vm, m, c, a: (log(m, 'unit_variant', a[1].s, a[2], a[3].s), ret(m, OK(Struct(('done',), 'SerOk'))))[1])
    def newtype_variant(vm, m, c, a):
        log(m, 'newtype_variant', a[1].s, a[2], a[3].s, deref_val(vm, m, a[4])); return ret(m, OK(Struct(('done',), 'SerOk')))
    vm.add_model(r'^<(?:__)?S as Serializer>::serialize_newtype_variant::<', newtype_variant)
    # ---- Deserializer side: replays m.ghost['replay'] = list of (name, value)
    def visit_str_of(c):
        # the __Field visitor of the derive in whose visit_map / visit_enum we are: same impl span prefix
        hits = [f for n, f in fns.items() if n.endswith('::visit_str')]
        return hits
    def next_key(vm, m, c, a):
        rp = m.ghost['replay']; k = m.ghost['pos']
        if k >= len(rp): return ret(m, OK(NONE()))
        name = rp[k][0]; outs = []
        cands = [f for f in visit_str_of(c) if '__Field' in f.parse().ret or 'Field' in f.ret]
        if len(cands) != 1: raise Unmodelled('field visitor of the derive: %d candidates' % len(cands))
        for (m2, kd, v) in vm.exec_fn(m, cands[0], [Struct((), '__FieldVisitor'), Str(name)]):
            if kd != 'ret': outs.append((m2, kd, v)); continue
            if v.name != 'Ok': outs.append((m2, 'ret', v)); continue
            outs.append((m2, 'ret', OK(SOME(v.f[0]))))
        return outs
    vm.add_model(r'^<__A as MapAccess<\'_>>::next_key::<', next_key)
    def next_value(vm, m, c, a):
        rp = m.ghost['replay']; k = m.ghost['pos']; m.ghost['pos'] = k + 1
        ty = re.search(r'next_value::<(.*)>$', c).group(1)
        if ty.endswith('IgnoredAny'): m.log('ignored', rp[k][0]); return ret(m, OK(Struct((), 'IgnoredAny')))
        if '__DeserializeWith' in ty:
            # `deserialize_with` / `with`: the wrapper's Deserialize impl (crate MIR) calls the user's function on a value-level deserializer
            cands = [f for n_, f in fns.items() if n_.endswith('::deserialize') and '__DeserializeWith' in f.parse().ret]
            if len(cands) > 1: cands = [f for f in cands if '::visit_map::' in f.name] or cands      # visit_seq has its own copy of the wrapper
            if len(cands) > 1:
                # one wrapper per `with` field: take the one whose return type is the one asked for
                c2 = [f for f in cands if _norm(f.ret).find(_norm(ty).split('::')[-1]) >= 0]; cands = c2 if len(c2) == 1 else cands
            if len(cands) != 1: raise Unmodelled('deserialize_with wrapper: %d candidates' % len(cands))
            return vm.exec_fn(m, cands[0], [Struct((_to_tree(rp[k]),), 'VDe')])
        if rp[k][1] == 'tree':
            back = _from_tree(rp[k][2], ty)
            if back is None: return ret(m, ERR(Struct(('the written value tree cannot be read as', ty, str(rp[k][2])[:60]), 'DeError')))
            return ret(m, OK(back))
        if _norm(ty) != _norm(rp[k][1]): return ret(m, ERR(Struct(('type mismatch', rp[k][0], ty, rp[k][1]), 'DeError')))
        return ret(m, OK(rp[k][2]))
    vm.add_model(r'^<__A as MapAccess<\'_>>::next_value::<', next_value)
    def de_prim(vm, m, c, a):
        # serde's own Deserialize impls for primitives and Option, on the value-level deserializer of a self-describing format
        ty = _norm(re.match(r'^<(.*) as (?:\w+::)*Deserialize<', c).group(1)); d = a[0]
        if not (isinstance(d, Struct) and d.ty == 'VDe'): return NotImplemented
        r = _read_tree(vm, d.f[0], ty)
        if isinstance(r, str): return ret(m, ERR(Struct((r,), 'DeError')))
        return ret(m, OK(r))
    vm.add_model(r'^<(?:std::option::)?(?:Option<)?(?:f64|f32|u64|u32|usize|i64|i32|bool)>? as (?:\w+::)*Deserialize<\'_>>::deserialize::<', de_prim)
    def missing(vm, m, c, a):
        from ..mir import split_top
        g = re.search(r'missing_field::<(.*)>$', c); targs = [t.strip() for t in split_top(g.group(1))] if g else []
        vty = next((t for t in targs if not t.startswith("'")), '')
        m.log('missing', a[0].s)
        if _norm(vty).startswith('Option<'): return ret(m, OK(NONE()))      # serde: a missing Option field reads as None
        return ret(m, ERR(Struct(('missing field', a[0].s), 'DeError')))
    vm.add_model(r'missing_field::<', missing)
    vm.add_model(r' as (?:\w+::)*de::Error>::duplicate_field$| as Error>::duplicate_field$', lambda vm, m, c, a: ret(m, Struct(('duplicate field', a[0].s), 'DeError')))
    vm.add_model(r' as (?:\w+::)*de::Error>::unknown_field$| as Error>::unknown_field$|unknown_field$', lambda vm, m, c, a: ret(m, Struct(('unknown field', deref_val(vm, m, a[0]).s), 'DeError')))
    vm.add_model(r' as (?:\w+::)*de::Error>::unknown_variant$| as Error>::unknown_variant$|unknown_variant$', lambda vm, m, c, a: ret(m, Struct(('unknown variant', deref_val(vm, m, a[0]).s), 'DeError')))
    vm.add_model(r' as (?:\w+::)*de::Error>::invalid_length$| as Error>::invalid_length$', lambda vm, m, c, a: ret(m, Struct(('invalid length',), 'DeError')))
    vm.add_model(r' as (?:\w+::)*de::Error>::invalid_value$| as Error>::invalid_value$', lambda vm, m, c, a: ret(m, Struct(('invalid value',), 'DeError')))
    # enums: EnumAccess::variant hands back (field, variant access); unit_variant / newtype_variant
    def variant(vm, m, c, a):
        name = m.ghost['replay'][0][0]; outs = []
        cands = [f for f in visit_str_of(c)]
        if len(cands) != 1: raise Unmodelled('variant visitor of the derive: %d candidates' % len(cands))
        for (m2, kd, v) in vm.exec_fn(m, cands[0], [Struct((), '__FieldVisitor'), Str(name)]):
            if kd != 'ret' or v.name != 'Ok': outs.append((m2, kd, v)); continue
            outs.append((m2, 'ret', OK(Struct((v.f[0], Struct(('variant access',), 'VariantAccess'))))))
        return outs
    vm.add_model(r'^<__A as EnumAccess<\'_>>::variant::<', variant)
    def unit_variant(vm, m, c, a):
        e = m.ghost['replay'][0]
        if e[1] != 'unit': return ret(m, ERR(Struct(('expected a unit variant',), 'DeError')))
        return ret(m, OK(UNIT))
    vm.add_model(r' as VariantAccess<\'_>>::unit_variant$', unit_variant)
    def newtype(vm, m, c, a):
        e = m.ghost['replay'][0]
        if e[1] != 'newtype': return ret(m, ERR(Struct(('expected a newtype variant',), 'DeError')))
        return ret(m, OK(e[2]))
    vm.add_model(r' as VariantAccess<\'_>>::newtype_variant::<', newtype)
    # a tuple variant used as a function (`.map(StepSizeAdaptMethod::Fixed)`)
    def ctor(vm, m, c, a):
        mm = re.match(r'^(?:\w+::)*(\w+)::(\w+)$', c)
        if mm and mm.group(1) in vm.enums and mm.group(2) in vm.enums[mm.group(1)]:
            return ret(m, Enum(vm.enums[mm.group(1)].index(mm.group(2)), mm.group(2), tuple(a), mm.group(1)))
        return NotImplemented
    vm.add_model(r'^(?:\w+::)*[A-Z]\w*::[A-Z]\w*$', ctor)

def _norm(t): return re.sub(r'\b(?:std|core|alloc)::(?:\w+::)*', '', t).replace(' ', '')

def _same(vm, a, b):
    if isinstance(a, Fl) and isinstance(b, Fl): return z3.eq(a.v, b.v)
    if is_sym(a) and is_sym(b): return z3.eq(a, b)
    if isinstance(a, (Struct, Enum)) and isinstance(b, type(a)):
        return getattr(a, 'ty', None) == getattr(b, 'ty', None) and getattr(a, 'idx', None) == getattr(b, 'idx', None) and len(a.f) == len(b.f) and all(_same(vm, x, y) for x, y in zip(a.f, b.f))
    if isinstance(a, Str) and isinstance(b, Str): return a.s == b.s
    if isinstance(a, Opaque) and isinstance(b, Opaque): return a is b or a.tag == b.tag
    return type(a) == type(b) and a == b

def _symbolic_value(L, A, ty, tag, enums):
    """an arbitrary value of a settings field type: scalars are symbolic, nested settings types are opaque atoms (their own round trip is a separate
    obligation), Option<T> is explored as Some / None by the caller"""
    t = _norm(ty)
    if t in ('f64', 'f32'): return A.fresh(tag)
    if re.match(r'^(u8|u16|u32|u64|usize|i8|i16|i32|i64|isize)$', t): return z3.Int(tag)
    if t == 'bool': return z3.Bool(tag)
    o = Opaque('value of %s (%s)' % (t, tag)); return o

def run(rep):
    mir = load_mir(rep); L = Layouts(REPO)
    rep.bounds = {'types': 'every type with a derived Serialize in the crate', 'values': 'every field symbolic; Option fields as Some and as None; every enum variant',
                  'format': 'a lossless self-describing format: entries are handed back as written, in the written order and sorted by name (thorough: also reversed and every rotation)'}
    rep.assumptions += ['the Serializer records the entries it is given and the Deserializer replays exactly those (any format that is lossless on the field types has this behaviour)',
                        'nested settings values are atoms here: each nested type has its own round-trip obligation']
    rep.outside += ['serde_json printing / parsing of numbers and strings', 'a chain built from the deserialised settings produces bit-identical draws (determinism: C10, not applicable)',
                    'the sampler_settings attribute written to the Zarr store', 'deserialising input that was not produced by serialize (older files, hand-written JSON)']
    types = _types(mir)
    if not types: rep.unknown('C19 no derived Serialize impl found in the MIR'); return
    ntypes = 0
    for (ty, ser, file, line) in types:
        t0 = time.time(); fns, pick = _de_fns(mir, file, line)
        if not fns: rep.unknown('C19 %s: no derived Deserialize on the same line' % ty); continue
        is_enum = ty in mir.load_enums() and ty not in L.structs
        bad = []; npaths = 0
        try:
            cases = _enum_cases(mir, L, ty) if is_enum else _struct_cases(mir, L, ty)
        except (KeyError, VMError) as e:
            rep.unknown('C19 %s' % ty, 'cannot build a value: %s' % (str(e)[:150],)); continue
        for (label, build) in cases:
            A = RealAlg(); vm = VM(mir, A, inst={}); install_misc(vm); _install(vm, mir, fns)
            # the derive's private field / variant enum: one variant per field (or variant) plus, for structs, the catch-all
            vm.enums = dict(vm.enums); vm.enums['__Field'] = _field_variants(fns)
            m = Machine(); m.ghost['entries'] = []; val = build(A, vm)
            outs = vm.run(ser, [Ref(m.alloc(val)), Struct(('serializer',), 'Ser')], m); npaths += len(outs)
            for (m1, k, v) in outs:
                if k != 'ret' or v.name != 'Ok': bad.append((label, 'serialize fails', str(v)[:100])); continue
                ent = m1.ghost['entries']
                if is_enum:
                    e = ent[-1]
                    replay = [(e[3], 'unit', None)] if e[0] == 'unit_variant' else [(e[3], 'newtype', e[4])]
                    entry = [f for n, f in fns.items() if n.endswith('::visit_enum')]
                else:
                    replay = [(e[1], e[2], e[3]) for e in ent if e[0] == 'field']
                    if len({r[0] for r in replay}) != len(replay): bad.append((label, 'two fields are written under the same name', [r[0] for r in replay]))
                    entry = [f for n, f in fns.items() if n.endswith('::visit_map')]
                if len(entry) != 1: rep.unknown('C19 %s' % ty, 'visitor entry: %d candidates' % len(entry)); break
                # a self-describing format need not keep the order of the entries (serde_json::Value sorts object keys): written order, sorted by name and,
                # in the thorough tier, reversed and every rotation
                orders = [replay, sorted(replay, key=lambda r: r[0])]
                if rep.tier != 'quick': orders += [list(reversed(replay))] + [replay[i:] + replay[:i] for i in range(1, len(replay))]
                outs2 = []
                for rp in orders:
                    m2 = m1.clone(); m2.ghost['replay'] = rp; m2.ghost['pos'] = 0
                    outs2 += vm.run(entry[0], [Struct((), '__Visitor'), Struct(('access',), 'Access')], m2)
                npaths += len(outs2)
                for (m3, k3, back) in outs2:
                    if k3 != 'ret': bad.append((label, 'deserialize panics', str(back)[:100])); continue
                    if back.name != 'Ok': bad.append((label, 'what serialize wrote is rejected by deserialize', str(back.f[0])[:160])); continue
                    if not _same(vm, back.f[0], val):
                        diff = _diff(L, ty, back.f[0], val) if not is_enum else 'variant %s' % label
                        bad.append((label, 'the value read back differs from the one written', diff))
                    if m3.ghost.get('ignored'): bad.append((label, 'an entry that serialize wrote is ignored by deserialize', m3.ghost['ignored']))
            rep.absorb_vm(vm)
        rep.paths += npaths; ntypes += 1
        if bad: rep.violated('C19 %s round trip' % ty, 'roundtrip.%s' % ty, '%s: %s' % (ty, bad[0]), model={'problems': [str(b)[:300] for b in bad[:6]]})
        else: rep.holds('C19 %s: deserialize(serialize(v)) = Ok(v) for every field value%s (%d cases, %d paths)' % (ty, ' and variant' if is_enum else '', len(cases), npaths), time.time() - t0)
    rep.cover('C19 at least ten settings types checked', ntypes >= 10)

def _diff(L, ty, a, b):
    try: names = L.fields(ty)
    except Exception: return ''
    out = []
    for i, n in enumerate(names):
        if i < len(a.f) and i < len(b.f) and not _same(None, a.f[i], b.f[i]): out.append('%s: read %s, written %s' % (n, str(a.f[i])[:40], str(b.f[i])[:40]))
    return '; '.join(out)[:300]

def _struct_cases(mir, L, ty):
    names = L.fields(ty); hits = L.structs.get(ty, [])
    if len(hits) != 1: raise KeyError('struct %s: %d definitions' % (ty, len(hits)))
    ftys = dict(hits[0][1])
    opt = [n for n in names if _norm(ftys[n]).startswith('Option<')]
    import itertools
    cases = []
    for pattern in itertools.product((True, False), repeat=len(opt)):
        some = dict(zip(opt, pattern))
        def build(A, vm, some=some):
            vals = {}
            for n in names:
                t = _norm(ftys[n])
                if t.startswith('Option<'):
                    inner = t[len('Option<'):-1]; vals[n] = SOME(_symbolic_value(L, A, inner, n, None)) if some[n] else NONE()
                else: vals[n] = _symbolic_value(L, A, t, n, None)
            return L.make(ty, vals)
        cases.append((', '.join('%s=%s' % (k, 'Some' if v else 'None') for k, v in some.items()) or 'all fields', build))
    return cases

def _enum_cases(mir, L, ty):
    variants = mir.load_enums()[ty]; cases = []
    payload = _enum_payloads(ty)
    for i, v in enumerate(variants):
        def build(A, vm, i=i, v=v):
            p = payload.get(v)
            return Enum(i, v, (_symbolic_value(L, A, p, 'payload', None),) if p else (), ty)
        cases.append((v, build))
    return cases


def _enum_payloads(ty):
    """variant -> payload type text (newtype variants) from the crate sources"""
    import os
    from ..mir import match_close, split_top
    for root, dirs, files in os.walk(REPO):
        dirs[:] = [d for d in dirs if d not in ('target', '.git')]
        for f in files:
            if not f.endswith('.rs'): continue
            txt = open(os.path.join(root, f)).read(); txt = re.sub(r'//[^\n]*', '', txt)
            mm = re.search(r'\benum %s\s*\{' % re.escape(ty), txt)
            if not mm: continue
            k = match_close(txt, mm.end() - 1); body = re.sub(r'#\[[^\]]*\]', '', txt[mm.end():k]); out = {}
            for part in split_top(body):
                m2 = re.match(r'^\s*(\w+)\s*\((.*)\)\s*$', part.strip(), re.S)
                if m2: out[m2.group(1)] = m2.group(2).strip()
            return out
    return {}


def _field_variants(fns):
    """the variants of the derive's private `__Field` enum, in declaration order, read off its visitor (fields that are not deserialised have none)"""
    nums = set(); ignore = False
    for n, f in fns.items():
        if not (n.endswith('::visit_str') or n.endswith('::visit_u64')): continue
        txt = '\n'.join(f._lines)
        nums |= {int(x) for x in re.findall(r'__Field::__field(\d+)', txt)}
        ignore = ignore or '__Field::__ignore' in txt
    return ['__field%d' % i for i in sorted(nums)] + (['__ignore'] if ignore else [])


INTS = ('u8', 'u16', 'u32', 'u64', 'usize', 'i8', 'i16', 'i32', 'i64', 'isize')
def _to_tree(entry):
    """the value tree of a recorded entry (name, type, value): what a self-describing format holds for it"""
    if entry[1] == 'tree': return entry[2]
    v = entry[2]
    if isinstance(v, Enum) and v.ty == 'Option': return ('some', v.f[0]) if v.name == 'Some' else ('none',)
    return ('prim', v)

def _read_tree(vm, tree, ty):
    """serde's Deserialize for `ty` applied to a value tree; a string is an error.  A self-describing format hands an integer to a floating-point
    visitor by conversion (and the reverse): for 64-bit integers that conversion is lossy, which is reported as such"""
    if ty.startswith('Option<'):
        if tree[0] == 'none': return NONE()
        inner = _read_tree(vm, ('prim', tree[1]) if tree[0] == 'some' else tree, ty[len('Option<'):-1])
        return inner if isinstance(inner, str) else SOME(inner)
    if tree[0] != 'prim': return 'expected a %s, found %s' % (ty, tree[0])
    x = tree[1]
    if ty in ('f64', 'f32'):
        if isinstance(x, Fl): return x
        return 'an integer entry is read through a floating-point visitor: integers above 2^53 do not survive the conversion'
    if ty in INTS:
        if isinstance(x, Fl): return 'a floating-point entry is read through an integer visitor'
        if isinstance(x, bool) or z3.is_bool(x): return 'a boolean entry is read through an integer visitor'
        return x
    if ty == 'bool': return x if (isinstance(x, bool) or z3.is_bool(x)) else 'expected a boolean'
    return 'no value-level reader for %s' % ty

def _from_tree(tree, ty):
    r = _read_tree(None, tree, _norm(ty))
    return None if isinstance(r, str) else r
