"""C13 - failures in any chain surface as errors of the parallel sampler: sequential part (DESIGN section 4, C13).
The per-chain closure of ChainProcess::start is executed from the MIR with every call outcome symbolic."""
import re, time
import z3
from ..driver import load_mir, REPO, parts
from ..layout import Layouts
from ..vm import VM, Machine, Struct, Enum, Seq, Ref, SliceRef, Str, Opaque, Closure, UNIT, NONE, SOME, OK, ERR, ret, VMError, Unmodelled
from ..alg import RealAlg, Fl
from ..mathenv import install_misc
from ..intrinsics import deref_val
from .. import native

MAX_SUCCESS_ATTEMPT = 2      # initialisation may succeed at attempt 1 or 2, or never (all 500 fail)
MAX_DRAWS = 2                # loop iterations explored
NCHAINS = 2; MAXCMD = 2      # controller queries

def run(rep):
    global MAX_DRAWS, MAXCMD
    mir = load_mir(rep); L = Layouts(REPO)
    if rep.tier == 'thorough': MAX_DRAWS = 3; MAXCMD = 3
    rep.bounds = {'chain closure': 'from its start through at most %d draw-loop iterations' % MAX_DRAWS, 'initialisation': 'success explored at attempts 1..%d and "never" (all 500 attempts fail); init_position failure at attempts 1..%d' % (MAX_SUCCESS_ATTEMPT, MAX_SUCCESS_ATTEMPT + 1),
                  'controller': '%d chains, <= %d commands in the command loop, <= 1 inside the thread-body query; <= 3 receives in wait_timeout' % (NCHAINS, MAXCMD), 'call outcomes': 'model construction, init_position, set_position, expanded_draw, record_sample, channel receive, trace slot: every outcome symbolic'}
    rep.assumptions += ['mutexes are not poisoned (the two lock().expect("Poisoned mutex") are excluded, listed here)', 'rayon / channels / threads are not modelled: only the sequential closure body',
                        'recoverable density errors never leave leapfrog as Err (C05.1), so only unrecoverable ones reach expanded_draw as Err']
    rep.outside += ['hanging, interleavings with other chains and the controller, what rayon does with a panic (C10-C12 not applicable)']
    parts(rep, [lambda: chain_closure(rep, mir, L), lambda: chain_flush(rep, mir, L), lambda: wait_and_abort(rep, mir, L), lambda: controller_loop(rep, mir, L), lambda: controller_scope(rep, mir, L)])

def chain_closure(rep, mir, L):
    fn = [f for n, f in mir.fns.items() if re.search(r'sampler::<impl at src/sampler.rs:\d+:1: \d+:\d+>::start::\{closure#0\}::\{closure#0\}$', n)]
    if len(fn) != 1: rep.unknown('C13 chain closure not found in the MIR'); return
    fn = fn[0].parse(); caps = fn.captures()
    A = RealAlg(); vm = VM(mir, A); install_misc(vm)
    m = Machine(); m.ghost['events'] = []
    prog = L.make('ChainProgress', {f: Opaque(f) for f in L.fields('ChainProgress')})
    m.ghost['cells'] = {'progress': m.alloc(prog), 'trace': m.alloc(Opaque('trace slot'))}
    def ev(m): return [e[0] for e in m.ghost['events']]
    def fork(name, kinds):
        def h(vm, m, c, a):
            outs = []
            for k, mk in kinds:
                m2 = m.clone(); m2.log('events', (name + ':' + k,)); outs.append((m2, 'ret', mk(m2, a)))
            return outs
        return h
    anyerr = lambda tag: ERR(Opaque('anyhow(%s)' % tag))
    vm.add_model(r'^<M as Model>::math::<', fork('math', [('ok', lambda m, a: OK(Opaque('logp'))), ('err', lambda m, a: anyerr('math'))]))
    def context(vm, m, c, a):
        v = a[0]
        if isinstance(v, Enum) and v.name == 'Ok': return ret(m, v)
        if isinstance(v, Enum) and v.name == 'Err': return ret(m, ERR(Struct((v.f[0], a[1]), 'Context')))
        return ret(m, Struct((v, a[1]), 'Context'))
    vm.add_model(r'anyhow::Context<.*>>::context::<|^anyhow::error::<impl anyhow::Error>::context::<', context)
    vm.add_model(r' as Math>::dim$', lambda vm, m, c, a: ret(m, 2))
    vm.add_model(r'^<S as Settings>::new_chain::<', lambda vm, m, c, a: ret(m, Opaque('chain')))
    vm.add_model(r'^<S as Settings>::hint_num_(tune|draws)$', lambda vm, m, c, a: ret(m, z3.Int(c.split('::')[-1])))
    vm.add_model(r'^std::sync::Mutex::<ChainProgress>::lock$', lambda vm, m, c, a: ret(m, OK(Struct((Ref(m.ghost['cells']['progress']),), 'MutexGuard'))))
    vm.add_model(r'^<std::sync::MutexGuard<.*> as DerefMut>::deref_mut$|^<std::sync::MutexGuard<.*> as Deref>::deref$', lambda vm, m, c, a: ret(m, deref_val(vm, m, a[0]).f[0]))
    vm.add_model(r'^<Arc<.*> as Deref>::deref$', lambda vm, m, c, a: ret(m, a[0]))
    vm.add_model(r'^std::vec::from_elem::<f64>$', lambda vm, m, c, a: ret(m, Seq([a[0]] * a[1])))
    def init_position(vm, m, c, a):
        k = len([e for e in ev(m) if e.startswith('init_position')]) + 1
        kinds = [('ok', lambda m, a: OK(UNIT))]
        if k <= MAX_SUCCESS_ATTEMPT + 1: kinds.append(('err', lambda m, a: anyerr('init_position')))     # a failing init_position is explored at attempts 1..3
        return fork('init_position', kinds)(vm, m, c, a)
    vm.add_model(r'^<M as Model>::init_position::<', init_position)
    vm.max_stmts = 20000000
    def set_position(vm, m, c, a):
        k = len([e for e in ev(m) if e.startswith('set_position')]) + 1
        kinds = [('err', lambda m, a: ERR(Opaque('NutsError(set_position)')))]
        if k <= MAX_SUCCESS_ATTEMPT: kinds.insert(0, ('ok', lambda m, a: OK(UNIT)))
        return fork('set_position', kinds)(vm, m, c, a)
    vm.add_model(r' as chain::Chain<.*>>::set_position$', set_position)
    en = vm.enums
    def cmd(name): return Enum(en['ChainCommand'].index(name), name, (), 'ChainCommand')
    def tre(name): return Enum(en['TryRecvError'].index(name), name, (), 'TryRecvError')
    def try_recv(vm, m, c, a):
        n = len([e for e in ev(m) if e.startswith('expanded_draw')])
        if n >= MAX_DRAWS: m.log('events', ('try_recv:disconnected(bound)',)); return ret(m, ERR(tre('Disconnected')))
        return fork('try_recv', [('empty', lambda m, a: ERR(tre('Empty'))), ('disconnected', lambda m, a: ERR(tre('Disconnected'))), ('pause', lambda m, a: OK(cmd('Pause'))), ('resume', lambda m, a: OK(cmd('Resume')))])(vm, m, c, a)
    vm.add_model(r'^std::sync::mpsc::Receiver::<ChainCommand>::try_recv$', try_recv)
    def recv(vm, m, c, a):
        n = len([e for e in ev(m) if e.startswith('recv')])
        kinds = [('resume', lambda m, a: OK(cmd('Resume'))), ('closed', lambda m, a: ERR(Struct((), 'RecvError')))]
        if n < 1: kinds.append(('pause', lambda m, a: OK(cmd('Pause'))))
        return fork('recv', kinds)(vm, m, c, a)
    vm.add_model(r'^std::sync::mpsc::Receiver::<ChainCommand>::recv$', recv)
    vm.add_model(r'^<RecvError as Into<std::sync::mpmc::TryRecvError>>::into$|^<std::sync::mpmc::TryRecvError as From<RecvError>>::from$', lambda vm, m, c, a: ret(m, tre('Disconnected')))
    vm.add_model(r'^Instant::(now|elapsed)$', lambda vm, m, c, a: ret(m, Opaque('time')))
    vm.add_model(r' as chain::Chain<.*>>::expanded_draw$', fork('expanded_draw', [('ok', lambda m, a: OK(Struct((Opaque('point'), Opaque('draw_data'), Opaque('stats'), Opaque('info'))))), ('err', lambda m, a: ERR(Opaque('NutsError(draw)')))]))
    def lock_trace(vm, m, c, a):
        outs = []
        for k in ('present', 'removed'):
            m2 = m.clone(); m2.log('events', ('trace:' + k,)); cell = m2.alloc(SOME(Opaque('chain storage')) if k == 'present' else NONE())
            outs.append((m2, 'ret', OK(Struct((Ref(cell),), 'MutexGuard'))))
        return outs
    vm.add_model(r'^std::sync::Mutex::<std::option::Option<.*ChainStorage>>::lock$', lock_trace)
    vm.add_model(r'^ChainProgress::update$', lambda vm, m, c, a: ret(m, UNIT))
    vm.add_model(r' as chain::Chain<.*>>::math$', lambda vm, m, c, a: ret(m, Opaque('math ref')))
    vm.add_model(r'^<std::cell::Ref<.*> as Deref>::deref$', lambda vm, m, c, a: ret(m, Opaque('math')))
    vm.add_model(r'^<StatsDims as From<.*>>::from$', lambda vm, m, c, a: ret(m, Opaque('dims')))
    vm.add_model(r' as Storable<.*>>::get_all$', lambda vm, m, c, a: ret(m, Opaque('values')))
    vm.add_model(r' as ChainStorage>::record_sample::<', fork('record_sample', [('ok', lambda m, a: OK(UNIT)), ('err', lambda m, a: anyerr('record'))]))
    # captured environment of the closure
    names = {'model': Opaque('model'), 'rng': Opaque('rng'), 'settings': Opaque('settings'), 'chain_id': z3.Int('chain_id'), 'progress': Opaque('progress arc'), 'stop_marker_rx': Opaque('rx'), 'chain_trace': Opaque('trace arc')}
    fields = [None] * len(caps)
    for nm, (idx, byref) in caps.items():
        if nm not in names: rep.unknown('C13 closure capture %s unknown' % nm); return
        fields[idx] = Ref(m.alloc(names[nm])) if byref else names[nm]
    if any(f is None for f in fields): rep.unknown('C13 closure captures changed: %s' % sorted(caps)); return
    clo = Ref(m.alloc(Closure(fn.args[0][1], fields, None)))
    m.pc += [z3.Int('hint_num_tune') >= 0, z3.Int('hint_num_draws') >= 0, z3.Int('hint_num_tune') < 2 ** 40, z3.Int('hint_num_draws') < 2 ** 40]
    t0 = time.time()
    outs = list(vm.exec_fn(m, fn, [clo])); rep.paths += len(outs); rep.absorb_vm(vm)
    bad = {}; kinds = set()
    for (m2, k, v) in outs:
        e = ev(m2); nset = len([x for x in e if x.startswith('set_position')])
        fail = [x for x in e if x in ('math:err', 'init_position:err', 'expanded_draw:err', 'record_sample:err')]
        if nset == 500 and all(x != 'set_position:ok' for x in e): fail.append('all 500 initialisation attempts failed')
        if k == 'panic':
            key = 'closure.panic.' + (fail[0].split(':')[0] if fail else 'nofault')
            bad.setdefault(key, ('the chain closure panics instead of returning Err after %s: %s' % (fail or 'no fault', str(v)[:160]), e[-8:]))
            kinds.add('panic'); continue
        kinds.add(v.name + ('|fault' if fail else ''))
        if fail and v.name != 'Err': bad.setdefault('closure.swallowed', ('a failure (%s) is swallowed: the closure returns Ok' % fail, e[-8:]))
        if not fail and v.name != 'Ok': bad.setdefault('closure.spurious_err', ('the closure returns Err although every fallible call succeeded (or was retried successfully)', e[-10:]))
    for need in ('Ok', 'Err|fault'): rep.cover('C13 closure outcome reachable: %s' % need, need in kinds)
    rep.cover('C13 "all initialisation points failed" path reachable', any(len([x for x in ev(mm) if x.startswith('set_position')]) == 500 for (mm, _, _) in outs))
    for key, (what, tail) in bad.items():
        nat = native.run('chain_failure', {'kind': 'draw_unrecoverable'}) if key == 'closure.panic.expanded_draw' else None
        rep.violated('C13 ' + key, key, what + ' (events: %s)' % tail, model={'events': tail}, native=nat)
    if not bad: rep.holds('C13 chain closure: every failing call (model construction, init_position, all 500 set_position attempts, expanded_draw, record_sample) makes the closure return Err, never a panic or Ok; retried initialisation that succeeds is not an error (%d paths)' % len(outs), time.time() - t0)
    rep.sample({'paths': len(outs), 'example events': ev(outs[0][0])[:12]})


def _fork(name, kinds):
    def h(vm, m, c, a):
        outs = []
        for k, mk in kinds:
            m2 = m.clone(); m2.log('events', (name + ':' + k,)); outs.append((m2, 'ret', mk(m2, a)))
        return outs
    return h
def _ev(m): return [e[0] for e in m.ghost['events']]
def _context(vm, m, c, a):
    v = a[0]
    if isinstance(v, Enum) and v.name == 'Ok': return ret(m, v)
    if isinstance(v, Enum) and v.name == 'Err': return ret(m, ERR(Struct((v.f[0], a[1]), 'Context')))
    return ret(m, Struct((v, a[1]), 'Context'))
def _find(mir, pat):
    fn = [f for n, f in mir.fns.items() if re.search(pat, n)]
    return fn[0].parse() if len(fn) == 1 else None

def find_command_loop(mir):
    """the controller's command loop: the closure nested in the scope closure of Sampler::new whose body calls recv_timeout on the command channel
    (closure numbering shifts when another closure is added before it)"""
    hits = []
    for n, f in mir.fns.items():
        if re.search(r'sampler::<impl at src/sampler.rs:\d+:1: \d+:\d+>::new::\{closure#0\}::\{closure#1\}::\{closure#\d+\}$', n) and any('Receiver::<SamplerCommand>::recv_timeout' in l for l in f._lines): hits.append(f)
    return hits[0].parse() if len(hits) == 1 else None

def chain_flush(rep, mir, L):
    """ChainProcess::flush (what the controller calls for every chain on a Flush command): the storage's flush outcome is symbolic"""
    fn = _find(mir, r'sampler::<impl at src/sampler.rs:\d+:1: \d+:\d+>::flush$')
    fns = [f for n, f in mir.fns.items() if re.search(r'sampler::<impl at src/sampler.rs:\d+:1: \d+:\d+>::flush$', n)]
    fn = next((f.parse() for f in fns if 'ChainProcess' in f.header), None) if fns else None
    if fn is None: rep.unknown('C13.2 ChainProcess::flush not found in the MIR'); return
    A = RealAlg(); vm = VM(mir, A); install_misc(vm)
    vm.add_model(r'anyhow::Context<.*>>::context::<|^anyhow::error::<impl anyhow::Error>::context::<', _context)
    vm.add_model(r'^<Arc<.*> as Deref>::deref$', lambda vm, m, c, a: ret(m, a[0]))
    def lock_trace(vm, m, c, a):
        outs = []
        for k in ('present', 'removed'):
            m2 = m.clone(); m2.log('events', ('trace:' + k,)); cell = m2.alloc(SOME(Opaque('chain storage')) if k == 'present' else NONE())
            outs.append((m2, 'ret', OK(Struct((Ref(cell),), 'MutexGuard'))))
        return outs
    vm.add_model(r'^std::sync::Mutex::<std::option::Option<.*ChainStorage>>::lock$', lock_trace)
    vm.add_model(r'^<std::sync::MutexGuard<.*> as DerefMut>::deref_mut$|^<std::sync::MutexGuard<.*> as Deref>::deref$', lambda vm, m, c, a: ret(m, deref_val(vm, m, a[0]).f[0]))
    vm.add_model(r' as ChainStorage>::flush$', _fork('storage_flush', [('ok', lambda m, a: OK(UNIT)), ('err', lambda m, a: ERR(Opaque('anyhow(flush)')))]))
    m = Machine(); m.ghost['events'] = []
    cp = L.make('ChainProcess', {'stop_marker': Opaque('tx'), 'trace': Opaque('trace arc'), 'progress': Opaque('progress arc')})
    t0 = time.time(); outs = list(vm.exec_fn(m, fn, [Ref(m.alloc(cp))])); rep.paths += len(outs); rep.absorb_vm(vm)
    bad = {}; seen = set()
    for (m2, k, v) in outs:
        e = _ev(m2); failed = 'storage_flush:err' in e
        if k == 'panic': bad.setdefault('flush.panic', 'ChainProcess::flush panics: %s' % (str(v)[:120],)); continue
        seen.add((v.name, failed))
        if failed and v.name != 'Err': bad.setdefault('flush.swallowed', 'the storage backend failed to flush (events %s) but ChainProcess::flush returns Ok: the controller answers the Flush command with success' % e)
        if not failed and v.name != 'Ok': bad.setdefault('flush.spurious_err', 'ChainProcess::flush returns Err although the storage flushed (events %s)' % e)
    rep.cover('C13.2 flush: failing and succeeding storage flush both reachable', ('Err', True) in seen or any(f for (_, f) in seen)); rep.cover('C13.2 flush: removed trace slot reachable', any('trace:removed' in _ev(mm) for (mm, _, _) in outs))
    for key, what in bad.items(): rep.violated('C13.2 ' + key, key, what, model={})
    if not bad: rep.holds('C13.2 ChainProcess::flush returns Err iff the chain storage\'s flush fails; a chain whose storage was already taken is skipped (%d paths)' % len(outs), time.time() - t0)

def wait_and_abort(rep, mir, L):
    """Sampler::abort and Sampler::wait_timeout: the outcome of joining the controller thread / receiving on the results channel is symbolic"""
    ab = next((f.parse() for n, f in mir.fns.items() if re.search(r'sampler::<impl at src/sampler.rs:\d+:1: \d+:\d+>::abort$', n)), None)
    wt = next((f.parse() for n, f in mir.fns.items() if re.search(r'sampler::<impl at src/sampler.rs:\d+:1: \d+:\d+>::wait_timeout$', n)), None)
    if ab is None or wt is None: rep.unknown('C13.3 Sampler::abort / wait_timeout not found in the MIR'); return
    A = RealAlg(); vm = VM(mir, A); install_misc(vm); vm.loop_bound = 64
    join_kinds = [('ok_none', lambda m, a: OK(OK(Struct((NONE(), Opaque('trace')))))), ('ok_some', lambda m, a: OK(OK(Struct((SOME(Opaque('anyhow(finalize)')), Opaque('trace')))))),
                  ('err', lambda m, a: OK(ERR(Opaque('anyhow(controller)')))), ('panicked', lambda m, a: ERR(Opaque('panic payload')))]
    vm.add_model(r'^JoinHandle::<.*>::join$', _fork('join', join_kinds))
    def resume_unwind(vm, m, c, a):
        m.log('events', ('resume_unwind',)); return [(m, 'panic', ('resume_unwind', 'payload of the controller thread', None))]
    vm.add_model(r'^(std::panic::)?resume_unwind$', resume_unwind)
    vm.add_model(r'^Instant::(now|elapsed)$', lambda vm, m, c, a: ret(m, Opaque('time')))
    MAXR = 3
    def checked_sub(vm, m, c, a):
        return _fork('checked_sub', [('some', lambda m, a: SOME(Opaque('duration'))), ('none', lambda m, a: NONE())])(vm, m, c, a)
    vm.add_model(r'^Duration::checked_sub$', checked_sub)
    en = vm.enums
    def rte(name): return Enum(en['RecvTimeoutError'].index(name), name, (), 'RecvTimeoutError')
    def recv_timeout(vm, m, c, a):
        n = len([e for e in _ev(m) if e.startswith('recv:')])
        kinds = [('chain_err', lambda m, a: OK(ERR(Opaque('anyhow(chain)')))), ('disconnected', lambda m, a: ERR(rte('Disconnected'))), ('timeout', lambda m, a: ERR(rte('Timeout')))]
        if n >= MAXR: kinds = kinds[1:]            # bound on the number of receives (also ends the loop of a changed wait_timeout that keeps waiting after an error)
        if n < MAXR - 1: kinds.insert(0, ('chain_ok', lambda m, a: OK(OK(UNIT))))
        return _fork('recv', kinds)(vm, m, c, a)
    vm.add_model(r'^std::sync::mpsc::Receiver::<std::result::Result<\(\), anyhow::Error>>::recv_timeout$', recv_timeout)
    if 'RecvTimeoutError' not in en: rep.unknown('C13.3 RecvTimeoutError layout unknown'); return
    def sampler(m): return L.make('Sampler', {'main_thread': Opaque('join handle'), 'commands': Opaque('commands tx'), 'responses': Opaque('responses rx'), 'results': Opaque('results rx')})
    # ---- abort
    m = Machine(); m.ghost['events'] = []; t0 = time.time()
    outs = list(vm.exec_fn(m, ab, [sampler(m)])); rep.paths += len(outs); bad = {}; seen = set()
    for (m2, k, v) in outs:
        e = _ev(m2); seen.add(e[-1] if e else '?')
        if k == 'panic':
            if 'join:panicked' in e and 'resume_unwind' in e: continue      # documented: a panic of the controller thread is re-raised (the closure never panics: C13.1)
            bad.setdefault('abort.panic', 'Sampler::abort panics without a panicked controller thread: %s' % (str(v)[:100],)); continue
        if 'join:err' in e and v.name != 'Err': bad.setdefault('abort.swallowed', 'the controller thread returned Err but abort() returns Ok')
        if 'join:ok_some' in e and not (v.name == 'Ok' and v.f[0].f[0].name == 'Some'): bad.setdefault('abort.lost_finalize_error', 'abort() drops the finalisation error')
        if 'join:ok_none' in e and not (v.name == 'Ok' and v.f[0].f[0].name == 'None'): bad.setdefault('abort.spurious', 'abort() reports an error although the controller finished cleanly')
    for key, what in bad.items(): rep.violated('C13.3 ' + key, key, what, model={})
    if not bad: rep.holds('C13.3 Sampler::abort: controller Err -> Err, finalisation error -> Ok((Some(err), trace)), clean -> Ok((None, trace)); only a panicked controller thread is re-raised (%d paths)' % len(outs), time.time() - t0)
    rep.cover('C13.3 abort: all four join outcomes explored', len(outs) >= 4)
    # ---- wait_timeout (abort is the real function, called from the MIR)
    m = Machine(); m.ghost['events'] = []; t0 = time.time()
    outs = list(vm.exec_fn(m, wt, [sampler(m), Opaque('timeout')])); rep.paths += len(outs); rep.absorb_vm(vm); bad = {}; res = set()
    for (m2, k, v) in outs:
        e = _ev(m2)
        if k == 'panic':
            if 'join:panicked' in e and 'resume_unwind' in e: continue
            bad.setdefault('wait.panic', 'Sampler::wait_timeout panics: %s (events %s)' % (str(v)[:100], e[-4:])); continue
        res.add(v.name)
        err_delivered = 'recv:chain_err' in e or 'join:err' in e or 'join:ok_some' in e
        if err_delivered and v.name != 'Err': bad.setdefault('wait.swallowed', 'an error was delivered (events %s) but wait_timeout returns %s' % (e[-4:], v.name))
        if not err_delivered and v.name == 'Err': bad.setdefault('wait.spurious_err', 'wait_timeout returns Err without any error delivered (events %s)' % e[-4:])
        if v.name == 'Trace' and not ('recv:disconnected' in e and 'join:ok_none' in e): bad.setdefault('wait.trace_without_finish', 'wait_timeout returns Trace although the controller did not finish cleanly (events %s)' % e[-4:])
    for key, what in bad.items(): rep.violated('C13.3 ' + key, key, what, model={})
    if not bad: rep.holds('C13.3 Sampler::wait_timeout (<= %d receives): a chain error or controller/finalisation error always yields SamplerWaitResult::Err, Trace only after a clean finish, Timeout otherwise (%d paths)' % (MAXR, len(outs)), time.time() - t0)
    for r in ('Err', 'Trace', 'Timeout'): rep.cover('C13.3 wait_timeout result reachable: %s' % r, r in res)

def _storage_models(vm):
    vm.add_model(r'anyhow::Context<.*>>::context::<|^anyhow::error::<impl anyhow::Error>::context::<', _context)
    vm.add_model(r'^<Arc<.*> as Deref>::deref$', lambda vm, m, c, a: ret(m, a[0]))
    def lock_trace(vm, m, c, a):
        outs = []
        for k in ('present', 'removed'):
            m2 = m.clone(); m2.log('events', ('trace:' + k,)); cell = m2.alloc(SOME(Opaque('chain storage')) if k == 'present' else NONE())
            outs.append((m2, 'ret', OK(Struct((Ref(cell),), 'MutexGuard'))))
        return outs
    vm.add_model(r'^std::sync::Mutex::<std::option::Option<.*ChainStorage>>::lock$', lock_trace)
    vm.add_model(r'^<std::sync::MutexGuard<.*> as DerefMut>::deref_mut$|^<std::sync::MutexGuard<.*> as Deref>::deref$', lambda vm, m, c, a: ret(m, deref_val(vm, m, a[0]).f[0]))
    vm.add_model(r' as ChainStorage>::flush$', _fork('storage_flush', [('ok', lambda m, a: OK(UNIT)), ('err', lambda m, a: ERR(Opaque('anyhow(flush)')))]))
    vm.add_model(r' as ChainStorage>::inspect$', _fork('storage_inspect', [('ok', lambda m, a: OK(SOME(Opaque('chain view')))), ('err', lambda m, a: ERR(Opaque('anyhow(inspect chain)')))]))

def _controller_models(vm, maxcmd):
    en = vm.enums
    vm.add_model(r'^Instant::(now|elapsed)$', lambda vm, m, c, a: ret(m, Opaque('time')))
    vm.add_model(r'^Duration::(checked_sub)$', _fork('checked_sub', [('some', lambda m, a: SOME(Opaque('duration'))), ('none', lambda m, a: NONE())]))
    vm.add_model(r'^Duration::saturating_sub$|^<Duration as AddAssign>::add_assign$', lambda vm, m, c, a: ret(m, Opaque('duration') if 'saturating' in c else UNIT))
    def scmd(name): return Enum(en['SamplerCommand'].index(name), name, (), 'SamplerCommand')
    def rte(name): return Enum(en['RecvTimeoutError'].index(name), name, (), 'RecvTimeoutError')
    def recv_cmd(vm, m, c, a):
        n = len([e for e in _ev(m) if e.startswith('cmd:')])
        if n >= maxcmd: m.log('events', ('cmd:disconnected(bound)',)); return ret(m, ERR(rte('Disconnected')))
        kinds = [(x.lower(), (lambda x: lambda m, a: OK(scmd(x)))(x)) for x in ('Pause', 'Continue', 'Progress', 'Flush', 'Inspect')]
        kinds += [('disconnected', lambda m, a: ERR(rte('Disconnected')))]
        if n == 0: kinds.append(('timeout', lambda m, a: ERR(rte('Timeout'))))
        return _fork('cmd', kinds)(vm, m, c, a)
    vm.add_model(r'^std::sync::mpsc::Receiver::<SamplerCommand>::recv_timeout$', recv_cmd)
    vm.add_model(r'^ChainProcess::<T>::(pause|resume)$', _fork('chain_signal', [('ok', lambda m, a: OK(UNIT)), ('gone', lambda m, a: ERR(Opaque('anyhow(send)')))]))
    vm.add_model(r'^ChainProcess::<T>::progress$', lambda vm, m, c, a: ret(m, Opaque('progress')))
    vm.add_model(r'^SyncSender::<SamplerResponse<.*>>::send$', _fork('respond', [('ok', lambda m, a: OK(UNIT)), ('closed', lambda m, a: ERR(Struct((a[1],), 'SendError')))]))
    vm.add_model(r'^<Vec<ChainProgress> as Into<Box<\[ChainProgress\]>>>::into$', lambda vm, m, c, a: ret(m, a[0]))
    vm.add_model(r'^<T as TraceStorage>::inspect$', _fork('trace_inspect', [('ok', lambda m, a: OK(Struct((NONE(), Opaque('view'))))), ('err', lambda m, a: ERR(Opaque('anyhow(inspect)')))]))

def _chainproc(L, i): return L.make('ChainProcess', {'stop_marker': Opaque('tx%d' % i), 'trace': Opaque('trace arc %d' % i), 'progress': Opaque('progress arc %d' % i)})
LOOP_FAULTS = ('storage_flush:err', 'trace_inspect:err', 'respond:closed')    # a per-chain inspect error is handed to TraceStorage::inspect as data, not a sampler failure

def controller_loop(rep, mir, L):
    """(A) the controller thread's command loop (`main_loop`), every fallible call's outcome symbolic"""
    loop = find_command_loop(mir)
    if loop is None: rep.unknown('C13.4 controller command loop not found in the MIR'); return
    A = RealAlg(); vm = VM(mir, A); install_misc(vm); _storage_models(vm); vm.loop_bound = 64
    if 'SamplerCommand' not in vm.enums: rep.unknown('C13.4 SamplerCommand layout unknown'); return
    _controller_models(vm, MAXCMD)
    m = Machine(); m.ghost['events'] = []
    chains = m.alloc(Seq([_chainproc(L, i) for i in range(NCHAINS)]))
    caps = loop.captures(); env = {'callback': Ref(m.alloc(NONE())), 'chains': Ref(chains), 'commands_rx': Ref(m.alloc(Opaque('commands rx'))), 'responses_tx': Ref(m.alloc(Opaque('responses tx'))), 'trace': Ref(m.alloc(Opaque('trace')))}
    fields = [None] * len(caps)
    for nm, (idx, byref) in caps.items():
        if nm not in env: rep.unknown('C13.4 command loop capture %s unknown' % nm); return
        fields[idx] = env[nm]
    t0 = time.time(); clo = Ref(m.alloc(Closure(loop.args[0][1], fields, None)))
    outs = list(vm.exec_fn(m, loop, [clo])); rep.paths += len(outs); bad = {}; seen = set()
    for (m2, k, v) in outs:
        e = _ev(m2); fail = [x for x in e if x in LOOP_FAULTS]
        if k == 'panic': bad.setdefault('controller.loop.panic', 'the controller command loop panics: %s (events %s)' % (str(v)[:100], e[-5:])); continue
        seen.add((v.name, bool(fail)))
        if fail and v.name != 'Err': bad.setdefault('controller.loop.swallowed.' + fail[0].split(':')[0], 'the command loop continues / returns Ok after %s (events %s)' % (fail, e[-6:]))
        if not fail and v.name != 'Ok': bad.setdefault('controller.loop.spurious_err', 'the command loop returns Err although nothing failed (events %s)' % e[-6:])
        ncmd = len([x for x in e if x in ('cmd:pause', 'cmd:continue', 'cmd:progress', 'cmd:flush', 'cmd:inspect')]); nresp = len([x for x in e if x.startswith('respond:')])
        if not fail and ncmd != nresp: bad.setdefault('controller.loop.unanswered', 'a served command got no response (the caller of pause/flush/... would block): %d commands, %d responses (events %s)' % (ncmd, nresp, e[-6:]))
    for key, what in bad.items(): rep.violated('C13.4 ' + key, key, what, model={})
    if not bad: rep.holds('C13.4 controller command loop (%d chains, <= %d commands): a failing storage flush / inspect or a closed response channel ends the loop with Err; every served command is answered exactly once; chains that are gone are ignored on pause/continue (%d paths)' % (NCHAINS, MAXCMD, len(outs)), time.time() - t0)
    rep.cover('C13.4 command loop: Ok and Err|fault outcomes reachable', ('Ok', False) in seen and ('Err', True) in seen)
    rep.absorb_vm(vm)

def controller_scope(rep, mir, L):
    """(B) the whole scope closure of the controller thread: model construction, trace creation, per-chain trace, chain start, the real command loop
    (<= 1 command), finalisation"""
    scope = _find(mir, r'sampler::<impl at src/sampler.rs:\d+:1: \d+:\d+>::new::\{closure#0\}::\{closure#1\}$')
    if scope is None: rep.unknown('C13.5 controller scope closure not found in the MIR'); return
    A = RealAlg(); vm = VM(mir, A); install_misc(vm); _storage_models(vm); _controller_models(vm, 1); vm.loop_bound = 64
    anyerr = lambda tag: ERR(Opaque('anyhow(%s)' % tag))
    vm.add_model(r'^<S as Settings>::num_chains$', lambda vm, m, c, a: ret(m, NCHAINS))
    vm.add_model(r'^<S as Settings>::seed$', lambda vm, m, c, a: ret(m, z3.Int('seed')))
    vm.add_model(r'^<ChaCha8Rng as SeedableRng>::seed_from_u64$', lambda vm, m, c, a: ret(m, Opaque('rng')))
    vm.add_model(r'^ChaCha8Rng::set_stream$', lambda vm, m, c, a: ret(m, UNIT))
    vm.add_model(r'^<M as Model>::math::<', _fork('math', [('ok', lambda m, a: OK(Opaque('logp'))), ('err', lambda m, a: anyerr('math'))]))
    vm.add_model(r'^<C as StorageConfig>::new_trace::<', _fork('new_trace', [('ok', lambda m, a: OK(Opaque('trace'))), ('err', lambda m, a: anyerr('new_trace'))]))
    vm.add_model(r'^<T as TraceStorage>::initialize_trace_for_chain$', _fork('chain_trace', [('ok', lambda m, a: OK(Opaque('chain storage'))), ('err', lambda m, a: anyerr('chain_trace'))]))
    vm.add_model(r'^<std::sync::mpsc::Sender<.*> as Clone>::clone$', lambda vm, m, c, a: ret(m, Opaque('results tx')))
    def start(vm, m, c, a):
        return _fork('start', [('ok', lambda m, a: OK(_chainproc(L, len([e for e in _ev(m) if e.startswith('start:')])))), ('err', lambda m, a: anyerr('start'))])(vm, m, c, a)
    vm.add_model(r'^ChainProcess::<T>::start::<', start)
    def partition_result(vm, m, c, a):
        from ..iters import to_iter
        it = to_iter(vm, m, a[0]); oks = [x.f[0] for x in it.items if x.name == 'Ok']; errs = [x.f[0] for x in it.items if x.name == 'Err']
        return ret(m, Struct((Seq(oks), Seq(errs))))
    vm.add_model(r' as Itertools>::partition_result::<', partition_result)
    fin = [('ok_none', lambda m, a: OK(Struct((NONE(), Opaque('finalized'))))), ('ok_some', lambda m, a: OK(Struct((SOME(Opaque('anyhow(chain finalize)')), Opaque('finalized'))))), ('err', lambda m, a: anyerr('finalize'))]
    vm.add_model(r'^ChainProcess::<T>::finalize_many$', _fork('finalize', fin))
    m = Machine(); m.ghost['events'] = []
    caps = scope.captures()
    env = {'results_tx': Opaque('results tx'), 'settings': Opaque('settings'), 'model_ref': Ref(m.alloc(Opaque('model'))), 'trace_config': Opaque('trace config'), 'settings_ref': Ref(m.alloc(Opaque('settings'))),
           'callback': NONE(), 'commands_rx': Opaque('commands rx'), 'responses_tx': Opaque('responses tx')}
    fields = [None] * len(caps)
    for nm, (idx, byref) in caps.items():
        if nm not in env: rep.unknown('C13.5 scope closure capture %s unknown (have %s)' % (nm, sorted(caps))); return
        fields[idx] = env[nm]
    if any(f is None for f in fields): rep.unknown('C13.5 scope closure captures changed: %s' % sorted(caps)); return
    t0 = time.time(); clo = Closure(scope.args[0][1], fields, None)
    outs = list(vm.exec_fn(m, scope, [clo, Ref(m.alloc(Opaque('scope')))])); rep.paths += len(outs); bad = {}; seen = set()
    for (m2, k, v) in outs:
        e = _ev(m2); fail = [x for x in e if x in LOOP_FAULTS + ('math:err', 'new_trace:err', 'chain_trace:err', 'start:err', 'finalize:err')]
        if k == 'panic': bad.setdefault('controller.scope.panic', 'the controller thread panics: %s (events %s)' % (str(v)[:100], e[-5:])); continue
        seen.add((v.name, bool(fail)))
        if fail and v.name != 'Err': bad.setdefault('controller.scope.swallowed.' + fail[0].split(':')[0], 'the controller thread returns Ok after %s (events %s)' % (fail, e[-6:]))
        if not fail and v.name != 'Ok': bad.setdefault('controller.scope.spurious_err', 'the controller thread returns Err although nothing failed (events %s)' % e[-6:])
        if not fail and v.name == 'Ok':
            want = 'Some' if 'finalize:ok_some' in e else 'None'
            if v.f[0].f[0].name != want: bad.setdefault('controller.scope.finalize_error_lost', 'the per-chain finalisation error reported by the storage is not passed on (events %s)' % e[-6:])
    for key, what in bad.items(): rep.violated('C13.5 ' + key, key, what, model={})
    if not bad: rep.holds('C13.5 controller thread body (%d chains, <= 1 command): failure of model construction, trace creation, per-chain trace creation, chain start, flush/inspect, response channel or finalisation => the thread returns Err (which abort()/wait_timeout() deliver, C13.3); a per-chain finalisation error is passed on (%d paths)' % (NCHAINS, len(outs)), time.time() - t0)
    rep.cover('C13.5 controller thread: Ok and Err|fault outcomes reachable', ('Ok', False) in seen and ('Err', True) in seen)
    rep.absorb_vm(vm)
