"""C13 - failures in any chain surface as errors of the parallel sampler: sequential part (DESIGN section 4, C13).
The per-chain closure of ChainProcess::start is executed from the MIR with every call outcome symbolic."""
import re, time
import z3
from ..driver import load_mir, REPO, parts
from ..layout import Layouts
from ..vm import VM, Machine, Struct, Enum, Seq, Ref, SliceRef, Str, Opaque, Closure, UNIT, NONE, SOME, OK, ERR, ret, VMError, Unmodelled
from ..alg import RealAlg, Fl
from ..mathenv import install_misc
from ..intrinsics import deref_val
from .. import native

MAX_SUCCESS_ATTEMPT = 2      # initialisation may succeed at attempt 1 or 2, or never (all 500 fail)
MAX_DRAWS = 2                # loop iterations explored

def run(rep):
    mir = load_mir(rep); L = Layouts(REPO)
    rep.bounds = {'chain closure': 'from its start through at most %d draw-loop iterations' % MAX_DRAWS, 'initialisation': 'success explored at attempts 1..%d and "never" (all 500 attempts fail)' % MAX_SUCCESS_ATTEMPT,
                  'call outcomes': 'model construction, init_position, set_position, expanded_draw, record_sample, channel receive, trace slot: every outcome symbolic'}
    rep.assumptions += ['mutexes are not poisoned (the two lock().expect("Poisoned mutex") are excluded, listed here)', 'rayon / channels / threads are not modelled: only the sequential closure body',
                        'recoverable density errors never leave leapfrog as Err (C05.1), so only unrecoverable ones reach expanded_draw as Err']
    rep.outside += ['hanging, interleavings with other chains and the controller, what rayon does with a panic (C10-C12 not applicable)']
    fn = [f for n, f in mir.fns.items() if re.search(r'sampler::<impl at src/sampler.rs:\d+:1: \d+:\d+>::start::\{closure#0\}::\{closure#0\}$', n)]
    if len(fn) != 1: rep.unknown('C13 chain closure not found in the MIR'); return
    fn = fn[0].parse(); caps = fn.captures()
    A = RealAlg(); vm = VM(mir, A); install_misc(vm)
    m = Machine(); m.ghost['events'] = []
    prog = L.make('ChainProgress', {f: Opaque(f) for f in L.fields('ChainProgress')})
    m.ghost['cells'] = {'progress': m.alloc(prog), 'trace': m.alloc(Opaque('trace slot'))}
    def ev(m): return [e[0] for e in m.ghost['events']]
    def fork(name, kinds):
        def h(vm, m, c, a):
            outs = []
            for k, mk in kinds:
                m2 = m.clone(); m2.log('events', (name + ':' + k,)); outs.append((m2, 'ret', mk(m2, a)))
            return outs
        return h
    anyerr = lambda tag: ERR(Opaque('anyhow(%s)' % tag))
    vm.add_model(r'^<M as Model>::math::<', fork('math', [('ok', lambda m, a: OK(Opaque('logp'))), ('err', lambda m, a: anyerr('math'))]))
    def context(vm, m, c, a):
        v = a[0]
        if isinstance(v, Enum) and v.name == 'Ok': return ret(m, v)
        if isinstance(v, Enum) and v.name == 'Err': return ret(m, ERR(Struct((v.f[0], a[1]), 'Context')))
        return ret(m, Struct((v, a[1]), 'Context'))
    vm.add_model(r'anyhow::Context<.*>>::context::<|^anyhow::error::<impl anyhow::Error>::context::<', context)
    vm.add_model(r' as Math>::dim$', lambda vm, m, c, a: ret(m, 2))
    vm.add_model(r'^<S as Settings>::new_chain::<', lambda vm, m, c, a: ret(m, Opaque('chain')))
    vm.add_model(r'^<S as Settings>::hint_num_(tune|draws)$', lambda vm, m, c, a: ret(m, z3.Int(c.split('::')[-1])))
    vm.add_model(r'^std::sync::Mutex::<ChainProgress>::lock$', lambda vm, m, c, a: ret(m, OK(Struct((Ref(m.ghost['cells']['progress']),), 'MutexGuard'))))
    vm.add_model(r'^<std::sync::MutexGuard<.*> as DerefMut>::deref_mut$|^<std::sync::MutexGuard<.*> as Deref>::deref$', lambda vm, m, c, a: ret(m, deref_val(vm, m, a[0]).f[0]))
    vm.add_model(r'^<Arc<.*> as Deref>::deref$', lambda vm, m, c, a: ret(m, a[0]))
    vm.add_model(r'^std::vec::from_elem::<f64>$', lambda vm, m, c, a: ret(m, Seq([a[0]] * a[1])))
    vm.add_model(r'^<M as Model>::init_position::<', fork('init_position', [('ok', lambda m, a: OK(UNIT)), ('err', lambda m, a: anyerr('init_position'))]))
    def set_position(vm, m, c, a):
        k = len([e for e in ev(m) if e.startswith('set_position')]) + 1
        kinds = [('err', lambda m, a: ERR(Opaque('NutsError(set_position)')))]
        if k <= MAX_SUCCESS_ATTEMPT: kinds.insert(0, ('ok', lambda m, a: OK(UNIT)))
        return fork('set_position', kinds)(vm, m, c, a)
    vm.add_model(r' as chain::Chain<.*>>::set_position$', set_position)
    en = vm.enums
    def cmd(name): return Enum(en['ChainCommand'].index(name), name, (), 'ChainCommand')
    def tre(name): return Enum(en['TryRecvError'].index(name), name, (), 'TryRecvError')
    def try_recv(vm, m, c, a):
        n = len([e for e in ev(m) if e.startswith('expanded_draw')])
        if n >= MAX_DRAWS: m.log('events', ('try_recv:disconnected(bound)',)); return ret(m, ERR(tre('Disconnected')))
        return fork('try_recv', [('empty', lambda m, a: ERR(tre('Empty'))), ('disconnected', lambda m, a: ERR(tre('Disconnected'))), ('pause', lambda m, a: OK(cmd('Pause'))), ('resume', lambda m, a: OK(cmd('Resume')))])(vm, m, c, a)
    vm.add_model(r'^std::sync::mpsc::Receiver::<ChainCommand>::try_recv$', try_recv)
    def recv(vm, m, c, a):
        n = len([e for e in ev(m) if e.startswith('recv')])
        kinds = [('resume', lambda m, a: OK(cmd('Resume'))), ('closed', lambda m, a: ERR(Struct((), 'RecvError')))]
        if n < 1: kinds.append(('pause', lambda m, a: OK(cmd('Pause'))))
        return fork('recv', kinds)(vm, m, c, a)
    vm.add_model(r'^std::sync::mpsc::Receiver::<ChainCommand>::recv$', recv)
    vm.add_model(r'^<RecvError as Into<std::sync::mpmc::TryRecvError>>::into$|^<std::sync::mpmc::TryRecvError as From<RecvError>>::from$', lambda vm, m, c, a: ret(m, tre('Disconnected')))
    vm.add_model(r'^Instant::(now|elapsed)$', lambda vm, m, c, a: ret(m, Opaque('time')))
    vm.add_model(r' as chain::Chain<.*>>::expanded_draw$', fork('expanded_draw', [('ok', lambda m, a: OK(Struct((Opaque('point'), Opaque('draw_data'), Opaque('stats'), Opaque('info'))))), ('err', lambda m, a: ERR(Opaque('NutsError(draw)')))]))
    def lock_trace(vm, m, c, a):
        outs = []
        for k in ('present', 'removed'):
            m2 = m.clone(); m2.log('events', ('trace:' + k,)); cell = m2.alloc(SOME(Opaque('chain storage')) if k == 'present' else NONE())
            outs.append((m2, 'ret', OK(Struct((Ref(cell),), 'MutexGuard'))))
        return outs
    vm.add_model(r'^std::sync::Mutex::<std::option::Option<.*ChainStorage>>::lock$', lock_trace)
    vm.add_model(r'^ChainProgress::update$', lambda vm, m, c, a: ret(m, UNIT))
    vm.add_model(r' as chain::Chain<.*>>::math$', lambda vm, m, c, a: ret(m, Opaque('math ref')))
    vm.add_model(r'^<std::cell::Ref<.*> as Deref>::deref$', lambda vm, m, c, a: ret(m, Opaque('math')))
    vm.add_model(r'^<StatsDims as From<.*>>::from$', lambda vm, m, c, a: ret(m, Opaque('dims')))
    vm.add_model(r' as Storable<.*>>::get_all$', lambda vm, m, c, a: ret(m, Opaque('values')))
    vm.add_model(r' as ChainStorage>::record_sample::<', fork('record_sample', [('ok', lambda m, a: OK(UNIT)), ('err', lambda m, a: anyerr('record'))]))
    # captured environment of the closure
    names = {'model': Opaque('model'), 'rng': Opaque('rng'), 'settings': Opaque('settings'), 'chain_id': z3.Int('chain_id'), 'progress': Opaque('progress arc'), 'stop_marker_rx': Opaque('rx'), 'chain_trace': Opaque('trace arc')}
    fields = [None] * len(caps)
    for nm, (idx, byref) in caps.items():
        if nm not in names: rep.unknown('C13 closure capture %s unknown' % nm); return
        fields[idx] = Ref(m.alloc(names[nm])) if byref else names[nm]
    if any(f is None for f in fields): rep.unknown('C13 closure captures changed: %s' % sorted(caps)); return
    clo = Ref(m.alloc(Closure(fn.args[0][1], fields, None)))
    m.pc += [z3.Int('hint_num_tune') >= 0, z3.Int('hint_num_draws') >= 0, z3.Int('hint_num_tune') < 2 ** 40, z3.Int('hint_num_draws') < 2 ** 40]
    t0 = time.time()
    outs = list(vm.exec_fn(m, fn, [clo])); rep.paths += len(outs); rep.absorb_vm(vm)
    bad = {}; kinds = set()
    for (m2, k, v) in outs:
        e = ev(m2); nset = len([x for x in e if x.startswith('set_position')])
        fail = [x for x in e if x in ('math:err', 'init_position:err', 'expanded_draw:err', 'record_sample:err')]
        if nset == 500 and all(x != 'set_position:ok' for x in e): fail.append('all 500 initialisation attempts failed')
        if k == 'panic':
            key = 'closure.panic.' + (fail[0].split(':')[0] if fail else 'nofault')
            bad.setdefault(key, ('the chain closure panics instead of returning Err after %s: %s' % (fail or 'no fault', str(v)[:160]), e[-8:]))
            kinds.add('panic'); continue
        kinds.add(v.name + ('|fault' if fail else ''))
        if fail and v.name != 'Err': bad.setdefault('closure.swallowed', ('a failure (%s) is swallowed: the closure returns Ok' % fail, e[-8:]))
        if not fail and v.name != 'Ok': bad.setdefault('closure.spurious_err', ('the closure returns Err although every fallible call succeeded (or was retried successfully)', e[-10:]))
    for need in ('Ok', 'Err|fault'): rep.cover('C13 closure outcome reachable: %s' % need, need in kinds)
    rep.cover('C13 "all initialisation points failed" path reachable', any(len([x for x in ev(mm) if x.startswith('set_position')]) == 500 for (mm, _, _) in outs))
    for key, (what, tail) in bad.items():
        nat = native.run('chain_failure', {'kind': 'draw_unrecoverable'}) if key == 'closure.panic.expanded_draw' else None
        rep.violated('C13 ' + key, key, what + ' (events: %s)' % tail, model={'events': tail}, native=nat)
    if not bad: rep.holds('C13 chain closure: every failing call (model construction, init_position, all 500 set_position attempts, expanded_draw, record_sample) makes the closure return Err, never a panic or Ok; retried initialisation that succeeds is not an error (%d paths)' % len(outs), time.time() - t0)
    rep.sample({'paths': len(outs), 'example events': ev(outs[0][0])[:12]})
