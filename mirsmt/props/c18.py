"""C18 - MCLMC structural invariants (DESIGN section 4, C18): step count, retry stack, divergence fallback, kind switch,
unit-norm momentum after every refresh.  mclmc_kernel / MclmcChain::draw / partial_momentum_refresh are executed from the MIR."""
import time, re
import z3
from ..driver import load_mir, REPO, parts
from ..layout import Layouts
from ..vm import VM, Machine, Struct, Enum, Seq, Ref, SliceRef, Str, Opaque, UNIT, NONE, SOME, OK, ERR, ret, VMError, Unmodelled
from ..alg import RealAlg, Fl
from ..mathenv import MathEnv, StateEnv, install_misc
from ..intrinsics import deref_val

MAX_HALVINGS_EXPLORED = 2

class Kernel:
    def __init__(self, mir, L, K, dynamic, with_L=True):
        self.mir = mir; self.L = L; self.K = K; self.dynamic = dynamic
        A = self.A = RealAlg(); vm = self.vm = VM(mir, A, inst={}); self.env = MathEnv(vm, 1, 'uf', L); self.se = StateEnv(vm, mir); install_misc(vm)
        vm.unknown_is_feasible = False
        self.eps = A.fresh('eps'); self.Ldec = A.fresh('L'); self.freq = A.fresh('subsample_frequency')
        H = self
        def TH(name): return r'^<TransformedHamiltonian<M, T> as Hamiltonian<M>>::%s(::<.*>)?$' % name
        vm.add_model(TH('step_size'), lambda vm, m, c, a: ret(m, H.eps))
        vm.add_model(TH('momentum_decoherence_length'), lambda vm, m, c, a: ret(m, SOME(H.Ldec) if with_L else NONE()))
        def pt(m, h): return h.f[0].cell
        def setf(m, cell, **kw):
            p = m.mem[cell]; names = L.fields('TransformedPoint'); vals = {n: p.f[i] for i, n in enumerate(names)}; vals.update(kw); m.mem[cell] = L.make('TransformedPoint', vals)
        def copy_state(vm, m, c, a):
            src = H.se.handle_of(m, a[2]); m2, h = H.se.new_state(m, a[1]); m2.mem[pt(m2, h)] = m2.mem[pt(m2, src)]
            m2.log('events', ('copy_state', pt(m2, src), pt(m2, h))); return ret(m2, h)
        vm.add_model(TH('copy_state'), copy_state)
        def init_traj(vm, m, c, a):
            h = H.se.handle_of(m, a[2]); k = m.fresh_id(); m.log('events', ('initialize_trajectory', pt(m, h), a[3]))
            if a[3] is True: setf(m, pt(m, h), velocity=Seq([A.fresh('vel_init_%d' % k)]))
            setf(m, pt(m, h), index_in_trajectory=0); return ret(m, OK(UNIT))
        vm.add_model(TH('initialize_trajectory'), init_traj)
        def refresh(vm, m, c, a):
            h = H.se.handle_of(m, a[2]); k = m.fresh_id(); m.log('events', ('refresh', pt(m, h), str(z3.simplify(a[5].v))))
            setf(m, pt(m, h), velocity=Seq([A.fresh('vel_refresh_%d' % k)])); return ret(m, OK(UNIT))
        vm.add_model(TH('partial_momentum_refresh'), refresh)
        def leapfrog(vm, m, c, a):
            src = H.se.handle_of(m, a[2]); fac = z3.simplify(a[4].v); outs = []
            depth = len([e for e in m.ghost['events'] if e[0] == 'leapfrog' and e[2] == 'div']) - 0
            halv = m.ghost.get('halvings', 0)
            kinds = ['ok', 'err'] + (['div'] if halv < MAX_HALVINGS_EXPLORED else [])
            for kd in kinds:
                m2 = m.clone(); m2.log('events', ('leapfrog', str(fac), kd, str(z3.simplify(a[6].v)), str(z3.simplify(a[5].v))))
                if kd == 'ok':
                    m3, h = H.se.new_state(m2, a[1]); k = m3.fresh_id()
                    m3.mem[pt(m3, h)] = m3.mem[pt(m3, src)]
                    setf(m3, pt(m3, h), untransformed_position=Seq([A.fresh('pos_%d' % k)]), velocity=Seq([A.fresh('vel_lf_%d' % k)]), kinetic_energy=A.fresh('ke_%d' % k), logp=A.fresh('logp_%d' % k))
                    outs.append((m3, 'ret', Enum(0, 'Ok', (h,), 'LeapfrogResult')))
                elif kd == 'div':
                    m2.ghost['halvings'] = halv + 1
                    info = L.make('DivergenceInfo', {f: NONE() for f in L.fields('DivergenceInfo')})
                    outs.append((m2, 'ret', Enum(1, 'Divergence', (info,), 'LeapfrogResult')))
                else: outs.append((m2, 'ret', Enum(2, 'Err', (Struct(('unrec',), 'LogpErrOracle'),), 'LeapfrogResult')))
            return outs
        vm.add_model(TH('leapfrog'), leapfrog)
        vm.add_model(r'^RefCell::<M>::get_mut$', lambda vm, m, c, a: ret(m, Ref(m.ghost['math_cell'])))
        vm.add_model(r'^<u64 as ToPrimitive>::to_f64$', lambda vm, m, c, a: ret(m, SOME(A.from_int(deref_val(vm, m, a[0])))))
        vm.add_model(r'^<u64 as TryInto<usize>>::try_into$', lambda vm, m, c, a: ret(m, OK(a[0])))
        vm.add_model(r' as Collector<M, TransformedPoint<M>>>::register_draw$', lambda vm, m, c, a: (m.log('events', ('register_draw', H.se.handle_of(m, a[2]).f[0].cell)), ret(m, UNIT))[1])
        vm.add_model(r'^<NutsError as Into<anyhow::Error>>::into$', lambda vm, m, c, a: ret(m, Struct((a[0],), 'anyhow')))
        vm.add_model(r'^<<M as Math>::LogpErr as Into<Box<dyn \w+(::\w+)* \+ Send \+ Sync>>>::into$', lambda vm, m, c, a: ret(m, a[0]))
        vm.add_model(r'^<std::option::Option<DivergenceInfo> as Clone>::clone$', lambda vm, m, c, a: ret(m, deref_val(vm, m, a[0])))
        vm.inst['Self'] = ('TransformedPoint', None)

    def run(self):
        L = self.L; A = self.A; vm = self.vm; mir = self.mir
        fn = mir.method('MclmcChain', None, 'mclmc_kernel')
        m = Machine(); m.ghost['events'] = []; m.ghost['math_cell'] = m.alloc(Opaque('math')); math = Ref(m.ghost['math_cell'])
        m, st = self.se.new_state(m, math); cell = st.f[0].cell
        names = L.fields('TransformedPoint'); p = m.mem[cell]; vals = {n: p.f[i] for i, n in enumerate(names)}
        vals.update({'untransformed_position': Seq([A.fresh('pos_start')]), 'velocity': Seq([A.fresh('vel_start')]), 'kinetic_energy': A.fresh('ke_start'), 'logp': A.fresh('logp_start'), 'logdet': A.fresh('logdet'), 'initial_energy': A.fresh('E0')})
        m.mem[cell] = L.make('TransformedPoint', vals); self.start_cell = cell
        tk = vm.enums['MclmcTrajectoryKind']
        chain = {f: Opaque(f) for f in L.fields('MclmcChain')}
        chain.update({'hamiltonian': Opaque('ham'), 'state': st, 'rng': Opaque('rng'), 'chain': 0, 'draw_count': z3.Int('draw_count'), 'subsample_frequency': self.freq, 'dynamic_step_size': self.dynamic,
                      'max_energy_error': A.fresh('max_energy_error'), 'math': Opaque('refcell'), 'last_info': NONE(), 'tmp_velocity': Seq([A.fresh('tmp_vel')]), 'collector': Opaque('collector'), 'switch_draw': z3.Int('switch_draw')})
        cc = m.alloc(L.make('MclmcChain', chain)); self.chain_cell = cc
        q = self.freq.v * self.Ldec.v / self.eps.v
        m.pc += [self.eps.v > 0, self.Ldec.v > 0, self.freq.v > 0, q == self.K]
        resample = z3.Bool('resample_velocity')
        outs = []
        for rs in (True, False):
            mm = m.clone(); outs += [(o, rs) for o in vm.exec_fn(mm, fn, [Ref(cc), rs])]
        return outs

def run(rep):
    mir = load_mir(rep); L = Layouts(REPO)
    Ks = (1, 2) if rep.tier == 'quick' else (1, 2, 3)
    rep.bounds = {'base steps per draw': list(Ks), 'halvings explored': '<= %d per draw (the code allows 10)' % MAX_HALVINGS_EXPLORED, 'leapfrog outcomes': 'Ok / Divergence / unrecoverable Err at every step (symbolic)',
                  'switch': 'one call of MclmcChain::draw from an arbitrary draw counter, under the invariant "EarlyThenMicrocanonical chains are Euclidean iff draw_count <= switch_draw"'}
    rep.assumptions += ['the Hamiltonian (leapfrog, partial_momentum_refresh, initialize_trajectory, copy_state) is the environment in the kernel query; partial_momentum_refresh itself is checked from its MIR with the Math environment',
                        'array_normalize / esh_momentum_update return a unit vector (their numerical content is outside)', 'exact reals; round() lemma']
    rep.outside += ['floating-point rounding of the norm; the ESH closed form and its kinetic-energy change (the NRA queries over exp/sqrt did not finish within 3 minutes each - z3 returned unknown - so they are not claimed); array_normalize is decided over exact reals', 'more than %d halvings in one draw' % MAX_HALVINGS_EXPLORED]
    parts(rep, [lambda: kernel(rep, mir, L, Ks), lambda: refresh_real(rep, mir, L), lambda: switch(rep, mir, L), lambda: switch_draw_config(rep, mir, L), lambda: chain_draw(rep, mir, L), lambda: unit_norm(rep, mir, L)])

def kernel(rep, mir, L, Ks):
    for K in Ks:
        for dynamic in (False, True):
            from ..vm import BoundExceeded
            t0 = time.time(); Q = Kernel(mir, L, K, dynamic); Q.vm.loop_bound = 16 * (K + 2)      # unwinding assertion: <= K * 2^(halvings explored) + retries iterations of the step loop
            try: outs = Q.run()
            except BoundExceeded as e:
                rep.absorb_vm(Q.vm)
                rep.violated('C18 kernel K=%d dynamic=%s: termination' % (K, dynamic), 'kernel.termination', 'the step loop of mclmc_kernel runs more than %d times for a draw of %d base steps with at most %d halvings (unwinding assertion failed at %s): a draw does not take its bounded number of steps' % (Q.vm.loop_bound, K, MAX_HALVINGS_EXPLORED, e), model={'K': K, 'dynamic': dynamic})
                continue
            rep.paths += len(outs); rep.absorb_vm(Q.vm); A = Q.A
            bad = {}; kinds = set()
            for ((m, k, v), rs) in outs:
                ev = m.ghost['events']; lf = [e for e in ev if e[0] == 'leapfrog']; oks = [e for e in lf if e[2] == 'ok']; divs = [e for e in lf if e[2] == 'div']; errs = [e for e in lf if e[2] == 'err']
                where = {'K': K, 'dynamic': dynamic, 'leapfrogs': [(e[1], e[2]) for e in lf]}
                if k == 'panic': bad.setdefault('panic', ('mclmc_kernel panics: %s' % (str(v)[:160],), where)); continue
                inits = [e for e in ev if e[0] == 'initialize_trajectory']
                if not inits or inits[0][2] is not rs: bad.setdefault('first_init', ('the trajectory start is not initialised with the caller\'s resample flag', where))
                if errs:
                    kinds.add('err')
                    if v.name != 'Err': bad.setdefault('err_swallowed', ('an unrecoverable error during a step does not make the kernel return Err', where))
                    continue
                if v.name != 'Ok': bad.setdefault('spurious_err', ('kernel returns Err without an unrecoverable error', where)); continue
                state, info = v.f[0].f; gi = lambda f: L.get('MclmcInfo', info, f)
                steps = gi('num_steps'); diverging = gi('diverging')
                maxh = 10 if dynamic else 0
                recorded_div = (diverging is True)
                # factor discipline: every factor is 2^-j, j = current stack depth
                depth = 0; stack = []; remaining = K; okdisc = True; time_sum = 0
                for e in lf:
                    want = '1' if depth == 0 else '1/%d' % (2 ** depth)
                    if e[1] != want: okdisc = False
                    if e[2] == 'ok':
                        time_sum += 2.0 ** (-depth); remaining -= 1
                        while remaining == 0 and stack: remaining = stack.pop() - 1; depth -= 1
                    elif e[2] == 'div':
                        if depth >= maxh: break
                        stack.append(remaining); remaining = 2; depth += 1
                if not okdisc: bad.setdefault('factor', ('step-size factors do not follow the halving stack (power of two per stack level, two successes per halving)', where))
                pos_start = z3.Real('pos_start')
                pcell = Q.se.handle_of(m, state).f[0].cell; pt = m.mem[pcell]; pos = L.get('TransformedPoint', pt, 'untransformed_position').items[0].v; vel = L.get('TransformedPoint', pt, 'velocity').items[0].v
                if recorded_div:
                    kinds.add('div')
                    if len(divs) == 0: bad.setdefault('div_flag', ('draw flagged divergent without a divergent step', where))
                    if dynamic and len(divs) <= MAX_HALVINGS_EXPLORED and len(stack) < maxh and False: pass
                    if not pos.eq(pos_start): bad.setdefault('div_position', ('a divergent draw does not return the pre-draw position', where))
                    last_init = [e for e in ev if e[0] == 'initialize_trajectory'][-1]
                    if last_init[1] != pcell or last_init[2] is not True or not str(vel).startswith('vel_init_'):
                        bad.setdefault('div_momentum', ('a divergent draw does not refresh the momentum of the returned state (initialize_trajectory(resample = true) on it)', where))
                    if gi('divergence_info').name != 'Some': bad.setdefault('div_info', ('divergence info missing on a divergent draw', where))
                else:
                    kinds.add('ok')
                    if steps != len(oks): bad.setdefault('steps_count', ('num_steps differs from the number of successful steps', where))
                    if not divs and steps != K: bad.setdefault('steps_exact', ('a draw without divergence takes %s steps instead of max(1, round(f L / eps)) = %d' % (steps, K), where))
                    if steps < K: bad.setdefault('steps_min', ('fewer steps than base steps', where))
                    if abs(time_sum - K) > 1e-12: bad.setdefault('time', ('integrated time %s differs from %d full steps (retry stack broken)' % (time_sum, K), where))
                    s = z3.Solver(); s.add(*m.pc); s.add(*A.lemmas); s.add(gi('average_step_size').v * steps != K * Q.eps.v)
                    if s.check() != z3.unsat: bad.setdefault('avg_step', ('average_step_size * num_steps differs from num_base_steps * eps', where))
                    if not str(vel).startswith('vel_refresh_'): bad.setdefault('final_refresh', ('the returned state was not passed through the post-step momentum refresh', where))
                rd = [e for e in ev if e[0] == 'register_draw']
                if len(rd) != 1: bad.setdefault('register_draw', ('register_draw not called exactly once', where))
                # refresh before and after every step
                for i, e in enumerate(ev):
                    if e[0] == 'leapfrog' and (i == 0 or ev[i - 1][0] != 'refresh'): bad.setdefault('refresh_before', ('a step is not preceded by a partial momentum refresh', where))
            for need in (('ok', 'div', 'err') if not dynamic else ('ok', 'err')): rep.cover('C18 kernel outcome reachable K=%d dynamic=%s: %s' % (K, dynamic, need), need in kinds)
            for key, (what, where) in bad.items():
                rep.violated('C18 kernel K=%d dynamic=%s: %s' % (K, dynamic, key), 'kernel.' + key, '%s %s' % (what, where), model=where)
            if dynamic: rep.cover('C18 a retry (halving) path explored K=%d' % K, any(any(e[0] == 'leapfrog' and e[2] == 'div' for e in mm.ghost['events']) for ((mm, _, _), _) in outs))
            if not bad: rep.holds('C18 mclmc_kernel K=%d dynamic=%s: exactly K full steps without divergence, halving-stack discipline with integrated time K*eps, divergence => pre-draw position + fresh momentum, unrecoverable => Err, no panic (%d paths)' % (K, dynamic, len(outs)), time.time() - t0)
            if K == 1 and dynamic: rep.sample({'K': K, 'dynamic': dynamic, 'paths': len(outs), 'example': [e[:3] for e in outs[0][0][0].ghost['events']][:10]})
    # invalid number of steps -> Err, not a panic (L / eps not finite is outside the R policy; covered by reading the `bail!` path reachable)

def refresh_real(rep, mir, L):
    """partial_momentum_refresh from its MIR: microcanonical => the last velocity write is a normalisation of p + (scalar) z; Euclidean => kinetic energy consistent.
    The noise scale nu and the Ornstein-Uhlenbeck coefficients are not fixed by the property and are not judged (they were, until a review of over-specific obligations)"""
    fn = mir.method('TransformedHamiltonian', 'Hamiltonian', 'partial_momentum_refresh'); bad = []; n = 0
    for kind in ('Microcanonical', 'Euclidean', 'ExactNormal'):
        A = RealAlg(); vm = VM(mir, A, inst={}); env = MathEnv(vm, 2, 'uf', L); se = StateEnv(vm, mir); install_misc(vm)
        m = Machine(); m.ghost['events'] = []; math = Ref(m.alloc(Opaque('math')))
        m, st = se.new_state(m, math); cell = st.f[0].cell; names = L.fields('TransformedPoint'); p = m.mem[cell]; vals = {n_: p.f[i] for i, n_ in enumerate(names)}
        v0 = [A.fresh('v0'), A.fresh('v1')]; vals.update({'velocity': Seq(v0)}); m.mem[cell] = L.make('TransformedPoint', vals)
        en = vm.enums['KineticEnergyKind']; eps, Ld, fac = A.fresh('eps'), A.fresh('L'), A.fresh('factor')
        ham = L.make('TransformedHamiltonian', {'ones': Seq([A.const(1.0)] * 2), 'zeros': Seq([A.const(0.0)] * 2), 'step_size': eps, 'momentum_decoherence_length': SOME(Ld), 'transformation': Opaque('T'),
                                                'kinetic_energy_kind': Enum(en.index(kind), kind, (), 'KineticEnergyKind'), 'pool': Opaque('pool')})
        z = [A.fresh('z0'), A.fresh('z1')]
        outs = vm.run(fn, [Ref(m.alloc(ham)), math, Ref(m.alloc(st)), Ref(m.alloc(Seq(z))), Ref(m.alloc(Opaque('rng'))), fac], m); n += len(outs); rep.absorb_vm(vm)
        for (m2, k, v) in outs:
            if k != 'ret' or v.name != 'Ok': bad.append((kind, 'partial_momentum_refresh fails', str(v)[:100])); continue
            vel = [t.v for t in L.get('TransformedPoint', m2.mem[cell], 'velocity').items]
            if kind == 'Microcanonical':
                units = m2.ghost.get('unit_vectors', [])
                if not units or not all(a.eq(b) for a, b in zip(vel, units[-1])): bad.append((kind, 'velocity after the refresh is not the output of a normalisation', [str(x) for x in vel]))
                # what is normalised is the old momentum plus a multiple of the fresh noise, p + nu z (the statement fixes neither nu nor its dependence on the
                # decoherence length: any common scalar is accepted)
                ins = m2.ghost.get('normalize_inputs', [])
                if ins:
                    s = z3.Solver(); s.add((ins[-1][0] - v0[0].v) * z[1].v != (ins[-1][1] - v0[1].v) * z[0].v)
                    if s.check() != z3.unsat: bad.append((kind, 'the vector that is normalised is not the old momentum plus a multiple of the noise vector', str(s.model())[:200]))
            else:
                # Euclidean / exact-normal phase: the refreshed velocity is a combination a v + b z of the old velocity and the noise with common scalars (the
                # Ornstein-Uhlenbeck coefficients themselves are not part of this property)
                ke = L.get('TransformedPoint', m2.mem[cell], 'kinetic_energy').v
                s = z3.Solver(); s.add(ke != z3.RealVal('1/2') * z3.Sum([x * x for x in vel]))
                if s.check() != z3.unsat: bad.append((kind, 'kinetic energy not updated with the refreshed velocity',))
    rep.paths += n
    if bad: rep.violated('C18 partial_momentum_refresh', 'refresh', 'momentum refresh: %s' % (bad[0],), model={'problems': [str(b)[:300] for b in bad]})
    else: rep.holds('C18 partial_momentum_refresh: the microcanonical velocity afterwards is the output of a normalisation of (old momentum + a multiple of the noise); in the Euclidean / exact-normal phase the kinetic energy is that of the refreshed velocity (%d paths)' % n)

def switch_draw_config(rep, mir, L):
    """the three MCLMC presets' new_chain: the switch draw handed to the chain is trajectory_switch_fraction x num_tune (truncated), the trajectory
    kind and subsample frequency are those of the settings, and the initial kinetic energy is microcanonical only for the Microcanonical kind"""
    import re as _re
    fns = [f for n, f in mir.fns.items() if _re.match(r'^sampler::<impl at src/sampler.rs:\d+:1: \d+:\d+>::new_chain$', n) and 'MclmcSettings' in f.header]
    rep.cover('C18 three MCLMC new_chain implementations found', len(fns) == 3); bad = []; n = 0
    tk = VM(mir, RealAlg()).enums.get('MclmcTrajectoryKind') or []
    for fn in fns:
        fn.parse()
        for tkind in tk:
            A = RealAlg(); vm = VM(mir, A, inst={}); install_misc(vm); sname = 'MclmcSettings'
            frac = A.fresh('trajectory_switch_fraction'); nt = z3.Int('num_tune'); freq = A.fresh('subsample_frequency')
            fields = L.fields(sname); vals = {f: Opaque(f) for f in fields}
            vals.update({'trajectory_switch_fraction': frac, 'num_tune': nt, 'num_draws': z3.Int('num_draws'), 'num_chains': z3.Int('num_chains'), 'seed': z3.Int('seed'), 'subsample_frequency': freq, 'trajectory_kind': Enum(tk.index(tkind), tkind, (), 'MclmcTrajectoryKind'), 'momentum_decoherence_length': A.fresh('L'),
                         'adapt_options': Struct(tuple(Opaque('ao%d' % i) for i in range(12)), 'AdaptOptionsOpaque')})
            def chain_new(vm, m, c, a): m.log('events', ('chain_new', list(a))); return ret(m, Opaque('chain'))
            vm.add_model(r'^MclmcChain::<.*>::new$', chain_new)
            def ham_new(vm, m, c, a): m.log('events', ('ham_new', a[2])); return ret(m, Opaque('hamiltonian'))
            vm.add_model(r'^TransformedHamiltonian::<.*>::new$', ham_new)
            # everything else new_chain calls builds components that do not enter the checked arguments
            # (plain crate-local helper functions - a bare name - are executed, not stubbed: a refactoring may move the computation of a checked argument into one)
            vm.add_model(r'^(?!MclmcChain::|TransformedHamiltonian::<.*>::new$|<f64|<u64|f64::|core::|std::ops|std::cmp|std::num|[a-z_][a-z_0-9]*$).*', lambda vm, m, c, a: ret(m, Opaque(c[:40])))
            m = Machine(); m.ghost['events'] = []; m.pc += [nt >= 0, nt < 2 ** 32, frac.v >= 0, frac.v <= 1, z3.Int('num_draws') >= 0, z3.Int('num_draws') < 2 ** 32]
            try: outs = vm.run(fn, [Ref(m.alloc(L.make(sname, vals))), z3.Int('chain_id'), Opaque('math'), Ref(m.alloc(Opaque('rng')))], m)
            except Exception as e:
                rep.unknown('C18 new_chain %s' % fn.header[:60], '%s: %s' % (type(e).__name__, str(e)[:200])); continue
            n += len(outs); rep.absorb_vm(vm)
            for (m2, k, v) in outs:
                if k != 'ret': bad.append(('new_chain panics', str(v)[:100])); continue
                cn = [e for e in m2.ghost['events'] if e[0] == 'chain_new']; hn = [e for e in m2.ghost['events'] if e[0] == 'ham_new']
                if len(cn) != 1 or len(hn) != 1: bad.append(('MclmcChain::new / TransformedHamiltonian::new not called exactly once',)); continue
                args = cn[0][1]; ints = [x for x in args if z3.is_expr(x) and z3.is_int(x)]
                s_ = z3.Solver(); s_.set('timeout', 30000); s_.add(*m2.pc); s_.add(*A.lemmas)
                want = z3.ToInt(frac.v * z3.ToReal(nt))
                s_.add(z3.And(*[x != want for x in ints]) if ints else z3.BoolVal(True))
                if s_.check() != z3.unsat: bad.append(('no argument of MclmcChain::new is trajectory_switch_fraction x num_tune (truncated): the switch does not happen at the configured draw', fn.header[40:110]))
                kinds = [x for x in args if isinstance(x, Enum) and x.ty == 'MclmcTrajectoryKind']
                if not kinds or kinds[0].name != tkind: bad.append(('the chain is built with another trajectory kind than the settings say',))
                ik = hn[0][1]
                if isinstance(ik, Opaque): rep.unknown('C18 new_chain initial kinetic-energy kind', 'computed by a call the harness stubs: %s' % ik.tag); continue
                if not (isinstance(ik, Enum) and (ik.name == 'Microcanonical') == (tkind == 'Microcanonical') and ik.name in ('Microcanonical', 'Euclidean')): bad.append(('initial kinetic-energy kind %s for trajectory kind %s' % (getattr(ik, 'name', ik), tkind),))
    rep.paths += n
    if bad: rep.violated('C18 MCLMC presets hand the configured switch draw to the chain', 'switch_config', 'MclmcSettings::new_chain: %s' % (bad[0],), model={'problems': [str(b)[:300] for b in bad[:5]]})
    elif n: rep.holds('C18 the three MCLMC presets build the chain with switch_draw = trunc(trajectory_switch_fraction x num_tune), the configured trajectory kind, and a Euclidean start unless the kind is Microcanonical (%d paths)' % n)

def chain_draw(rep, mir, L):
    """MclmcChain::draw bookkeeping around the kernel: the position returned is that of the kernel's state, adapt() gets that state and the
    current draw index, the reported step size is the one in force for this draw (read before adapt installs the next), counters advance by one,
    the next draw starts from the returned state; a kernel error changes nothing"""
    from ..vm import SliceRef
    fn = mir.method('MclmcChain', 'Chain', 'draw'); bad = []; n = 0; kk = VM(mir, RealAlg()).enums['KineticEnergyKind']; tk = VM(mir, RealAlg()).enums.get('MclmcTrajectoryKind')
    for ok in (True, False):
        A = RealAlg(); vm = VM(mir, A, inst={}); install_misc(vm)
        m = Machine(); m.ghost['events'] = []; m.ghost['math'] = m.alloc(Opaque('math')); m.ghost['step'] = m.alloc(A.fresh('eps_in_force'))
        new_state = Struct(('returned state',), 'StateTok'); old_state = Struct(('previous state',), 'StateTok')
        info = L.make('MclmcInfo', {'energy_change': A.fresh('de'), 'diverging': z3.Bool('kernel_div'), 'divergence_info': NONE(), 'num_steps': z3.Int('kernel_steps'), 'average_step_size': A.fresh('avg')})
        vm.add_model(r'^MclmcChain::<M, R, A, T>::mclmc_kernel$', lambda vm, m, c, a, ok=ok: (m.log('events', ('kernel',)), ret(m, OK(Struct((new_state, info))) if ok else ERR(Opaque('kernel error'))))[1])
        vm.add_model(r'^RefCell::<M>::borrow_mut$', lambda vm, m, c, a: ret(m, Struct((Ref(m.ghost['math']),), 'RefMut')))
        vm.add_model(r'^<RefMut<.*> as DerefMut>::deref_mut$', lambda vm, m, c, a: ret(m, vm.read_at(m, a[0].cell, a[0].path).f[0]))
        vm.add_model(r'^<M as Math>::dim$', lambda vm, m, c, a: ret(m, 2))
        vm.add_model(r'::write_position$', lambda vm, m, c, a: (m.log('events', ('write_position', vm.read_at(m, a[0].cell, a[0].path).f[0])), ret(m, UNIT))[1])
        vm.add_model(r'^<Vec<f64> as Into<Box<\[f64\]>>>::into$', lambda vm, m, c, a: ret(m, Struct((Struct((SliceRef(m.alloc(a[0]), (), 0, len(a[0].items)),)), UNIT), 'Box')))
        vm.add_model(r' as Hamiltonian<M>>::step_size$', lambda vm, m, c, a: ret(m, vm.read_at(m, m.ghost['step'], [])))
        def adapt(vm, m, c, a):
            st = vm.read_at(m, a[6].cell, a[6].path); m.log('events', ('adapt', a[4], st.f[0])); vm.write_at(m, m.ghost['step'], [], A.fresh('eps_next')); return ret(m, OK(UNIT))
        vm.add_model(r' as AdaptStrategy<M>>::adapt::<R>$', adapt)
        vm.add_model(r' as AdaptStrategy<M>>::new_collector$', lambda vm, m, c, a: (m.log('events', ('new_collector',)), ret(m, Opaque('fresh collector')))[1])
        vm.add_model(r' as AdaptStrategy<M>>::is_tuning$', lambda vm, m, c, a: ret(m, z3.Bool('tuning_after_adapt') if any(e[0] == 'adapt' for e in m.ghost['events']) else z3.Bool('tuning_before_adapt')))
        dc = z3.Int('draw_count')
        ham = L.make('TransformedHamiltonian', {'ones': Opaque('o'), 'zeros': Opaque('z'), 'step_size': A.fresh('eps_field'), 'momentum_decoherence_length': NONE(), 'transformation': Opaque('T'),
                                                'kinetic_energy_kind': Enum(kk.index('Microcanonical'), 'Microcanonical', (), 'KineticEnergyKind'), 'pool': Opaque('pool')})
        chain = {f: Opaque(f) for f in L.fields('MclmcChain')}
        chain.update({'hamiltonian': ham, 'draw_count': dc, 'switch_draw': z3.Int('switch_draw'), 'trajectory_kind': Enum(tk.index('Microcanonical'), 'Microcanonical', (), 'MclmcTrajectoryKind'), 'chain': z3.Int('chain_id'),
                      'state': old_state, 'last_info': NONE(), 'math': Opaque('refcell'), 'collector': Opaque('used collector')})
        cc = m.alloc(L.make('MclmcChain', chain)); m.pc += [dc >= 0, dc < 2 ** 40]
        outs = vm.run(fn, [Ref(cc)], m); n += len(outs); rep.absorb_vm(vm)
        for (m2, k, v) in outs:
            ev = m2.ghost['events']; after = m2.mem[cc]; g = lambda f: L.get('MclmcChain', after, f)
            if k != 'ret': bad.append(('MclmcChain::draw panics', str(v)[:100])); continue
            if not ok:
                if v.name != 'Err': bad.append(('a kernel error is swallowed',))
                if g('state').f[0] != 'previous state' or not z3.eq(g('draw_count') + 0, dc + 0) or any(e[0] == 'adapt' for e in ev): bad.append(('a failed draw changes the chain or adapts',))
                continue
            if v.name != 'Ok': bad.append(('draw returns Err although the kernel succeeded',)); continue
            pos, prog = v.f[0].f; gp = lambda f: L.get('Progress', prog, f)
            wp = [e for e in ev if e[0] == 'write_position']; ad = [e for e in ev if e[0] == 'adapt']
            if len(wp) != 1 or wp[0][1] != 'returned state': bad.append(('the returned position is not that of the state the kernel returned', ev))
            if len(ad) != 1 or ad[0][2] != 'returned state' or not z3.eq(z3.simplify(ad[0][1] + 0), z3.simplify(dc + 0)): bad.append(('adapt() is not called once with the returned state and the current draw index', ev))
            if [e[0] for e in ev].count('new_collector') != 1 or getattr(g('collector'), 'tag', None) != 'fresh collector': bad.append(('the collector is not replaced by a fresh one after adapt()',))
            if g('state').f[0] != 'returned state': bad.append(('the next draw would not start from the returned state',))
            sol = z3.Solver(); sol.add(*m2.pc)
            sol.add(z3.Or(g('draw_count') != dc + 1, gp('draw') != dc, gp('chain') != z3.Int('chain_id'), gp('num_steps') != z3.Int('kernel_steps'), gp('step_size').v != z3.Real('eps_in_force'),
                          (gp('tuning') if z3.is_expr(gp('tuning')) else z3.BoolVal(gp('tuning'))) != z3.Bool('tuning_after_adapt'), (gp('diverging') if z3.is_expr(gp('diverging')) else z3.BoolVal(gp('diverging'))) != z3.Bool('kernel_div')))
            if sol.check() != z3.unsat: bad.append(('draw counter / Progress fields wrong (draw index, chain, steps and divergence of this kernel call, step size in force for this draw, tuning flag after adapt)', str(sol.model())[:200]))
    rep.paths += n
    if bad: rep.violated('C18 MclmcChain::draw bookkeeping', 'chain_draw', 'MclmcChain::draw: %s' % (bad[0],), model={'problems': [str(b)[:300] for b in bad[:5]]})
    else: rep.holds('C18 MclmcChain::draw: position of the kernel\'s state, adapt(draw_count, that state) once, fresh collector, Progress = (draw index, chain, kernel steps / divergence, step size in force for this draw, tuning flag after adapt), counter + 1, next draw starts from the returned state; a kernel error changes nothing (%d paths)' % n)

def switch(rep, mir, L):
    """MclmcChain::draw: the kind switches exactly at draw_count == switch_draw for EuclideanEarlyThenMicrocanonical, once, with a fresh momentum"""
    fn = mir.method('MclmcChain', 'Chain', 'draw'); bad = []; n = 0
    tkinds = ['Microcanonical', 'Euclidean', 'EuclideanEarlyThenMicrocanonical']
    A0 = RealAlg(); vm0 = VM(mir, A0)
    tk = vm0.enums.get('MclmcTrajectoryKind'); kk = vm0.enums['KineticEnergyKind']
    if not tk: rep.unknown('C18 switch', 'MclmcTrajectoryKind not found'); return
    for tkind in tk:
        for kind in kk:
            A = RealAlg(); vm = VM(mir, A, inst={}); install_misc(vm)
            m = Machine(); m.ghost['events'] = []
            vm.add_model(r'^MclmcChain::<M, R, A, T>::mclmc_kernel$', lambda vm, m, c, a: (m.log('events', ('kernel', a[1], deref_val(vm, m, a[0]))), ret(m, ERR(Opaque('stop here'))))[1])
            dc, sd = z3.Int('draw_count'), z3.Int('switch_draw')
            ham = L.make('TransformedHamiltonian', {'ones': Opaque('o'), 'zeros': Opaque('z'), 'step_size': A.fresh('eps'), 'momentum_decoherence_length': NONE(), 'transformation': Opaque('T'),
                                                    'kinetic_energy_kind': Enum(kk.index(kind), kind, (), 'KineticEnergyKind'), 'pool': Opaque('pool')})
            chain = {f: Opaque(f) for f in L.fields('MclmcChain')}
            chain.update({'hamiltonian': ham, 'draw_count': dc, 'switch_draw': sd, 'trajectory_kind': Enum(tk.index(tkind), tkind, (), 'MclmcTrajectoryKind'), 'chain': 0})
            cc = m.alloc(L.make('MclmcChain', chain)); m.pc += [dc >= 0, sd >= 0, dc < 2 ** 40, sd < 2 ** 40]
            # reachable states of an EarlyThenMicrocanonical chain: Euclidean up to and including the switch draw, microcanonical afterwards
            if tkind == 'EuclideanEarlyThenMicrocanonical': m.pc.append(dc <= sd if kind != 'Microcanonical' else dc > sd)
            outs = vm.run(fn, [Ref(cc)], m); n += len(outs); rep.absorb_vm(vm)
            for (m2, k, v) in outs:
                if k != 'ret': bad.append((tkind, kind, 'draw panics', str(v)[:100])); continue
                ke = [e for e in m2.ghost['events'] if e[0] == 'kernel']
                if len(ke) != 1: bad.append((tkind, kind, 'kernel not called exactly once')); continue
                resample = ke[0][1]; ch = ke[0][2]; hk = L.get('TransformedHamiltonian', L.get('MclmcChain', ch, 'hamiltonian'), 'kinetic_energy_kind').name
                should = z3.And(dc == sd) if (tkind == 'EuclideanEarlyThenMicrocanonical' and kind != 'Microcanonical') else z3.BoolVal(False)
                s = z3.Solver(); s.add(*m2.pc); s.add(z3.BoolVal(resample is True) != should)
                if s.check() != z3.unsat: bad.append((tkind, kind, 'momentum resample flag differs from "this is the configured switch draw"', str(s.model())))
                s = z3.Solver(); s.add(*m2.pc); s.add(z3.BoolVal(hk == 'Microcanonical' and kind != 'Microcanonical') != should)
                if s.check() != z3.unsat: bad.append((tkind, kind, 'kinetic-energy kind switched at the wrong draw (or not at the switch draw)', str(s.model())))
    rep.paths += n
    if bad: rep.violated('C18 trajectory switch', 'switch', 'Euclidean -> microcanonical switch: %s' % (bad[0],), model={'problems': [str(b)[:300] for b in bad]})
    else: rep.holds('C18 MclmcChain::draw: the kinetic-energy kind becomes Microcanonical exactly when kind = EuclideanEarlyThenMicrocanonical, draw_count = switch_draw and it is not microcanonical yet (hence once), and exactly then the kernel gets resample_velocity = true (%d paths)' % n)

def unit_norm(rep, mir, L):
    """the real CpuMath::array_normalize and CpuMath::esh_momentum_update (plain iterator code) over exact reals: the momentum has unit norm afterwards,
    the update is g_hat (1-z)(1+z+a(1-z)) + 2 z p renormalised with z = exp(-eps |g| / (n-1)), a = p.g_hat, and the reported kinetic-energy change is
    (delta - ln 2 + ln(1 + a + (1-a) z^2)) (n-1)"""
    from .. import cpuenv
    bad = []; nq = 0
    for n in (2, 3):
        A = RealAlg(); vm = VM(mir, A, inst={}); cpuenv.install(vm, 2)
        # ---- array_normalize
        fn = mir.method('CpuMath', 'Math', 'array_normalize'); m = Machine(); selfc = m.alloc(Struct((Opaque('logp'), Opaque('arch'), Seq(())), 'CpuMath'))
        x = [A.fresh('x%d' % i) for i in range(n)]; c = m.alloc(Seq(x))
        outs = vm.run(fn, [Ref(selfc), Ref(c)], m)
        (m1, k, v) = outs[0]
        if k != 'ret': bad.append(('array_normalize panics', str(v)[:100])); continue
        y = [t.v for t in m1.mem[c].items]; S = z3.Sum([t.v * t.v for t in x])
        ax = [z3.Implies(args[0] >= 0, z3.And(term * term == args[0], term >= 0)) for (nm, args, term) in A.used if nm == 'sqrt']
        sol = z3.Solver(); sol.set('timeout', 30000); sol.add(S > 0, *ax); sol.add(z3.Sum([t * t for t in y]) != 1); r = sol.check(); nq += 1
        if r == z3.sat: bad.append(('array_normalize does not produce a unit vector', n, str(sol.model())[:200]))
        elif r == z3.unknown: rep.unknown('C18 array_normalize unit norm n=%d' % n, 'solver unknown')
        for i in range(n):
            sol = z3.Solver(); sol.set('timeout', 30000); sol.add(S > 0, *ax); sol.add(y[i] * A.uf['sqrt'](S) != x[i].v); r = sol.check(); nq += 1
            if r == z3.sat: bad.append(('array_normalize changes the direction', n))
        rep.absorb_vm(vm)
        # ---- esh_momentum_update: every sqrt / exp / ln_1p application is replaced by a variable constrained by its defining facts (G = |g| > 0,
        # z = exp(-delta) > 0, R = norm of the raw vector > 0); sinh/cosh of delta are the rationals (1/z -+ z)/2 of z
        A = RealAlg(); vm = VM(mir, A, inst={}); cpuenv.install(vm, 2)
        fn = mir.method('CpuMath', 'Math', 'esh_momentum_update'); m = Machine(); selfc = m.alloc(Struct((Opaque('logp'), Opaque('arch'), Seq(())), 'CpuMath'))
        g = [A.fresh('g%d' % i) for i in range(n)]; u = [A.fresh('u%d' % i) for i in range(n)]; eps = A.fresh('eps'); gc = m.alloc(Seq(g)); uc = m.alloc(Seq(u))
        outs = [o for o in vm.run(fn, [Ref(selfc), Ref(gc), Ref(uc), eps], m)]
        rets = [o for o in outs if o[1] == 'ret']
        if len(rets) != 1 or len(outs) != 1: bad.append(('esh_momentum_update panics or forks for n=%d' % n, [k for (_, k, _) in outs])); continue
        (m1, k, v) = rets[0]; y = [t.v for t in m1.mem[uc].items]; dke = v.v
        used = list(A.used); kinds = [nm for (nm, a_, t_) in used]
        if kinds != ['sqrt', 'exp', 'sqrt', 'ln_1p']: rep.unknown('C18 ESH closed form n=%d' % n, 'unexpected transcendental calls %s' % kinds); continue
        fv = [z3.Real('%s_%d' % (nm, i)) for i, (nm, a_, t_) in enumerate(used)]; sub = [(t_, fv[i]) for i, (nm, a_, t_) in enumerate(used)]
        def ab(t):
            for _ in range(4): t = z3.substitute(t, *sub)
            return t
        G, Z, Rn, Lp = fv; S, C = z3.Real('sinh_delta'), z3.Real('cosh_delta')
        hyp = [G > 0, G * G == ab(used[0][1][0]), Z > 0, Rn > 0, Rn * Rn == ab(used[2][1][0]), 2 * Z * S == 1 - Z * Z, 2 * Z * C == 1 + Z * Z]
        e = [g[i].v / G for i in range(n)]; alpha = z3.Sum([u[i].v * e[i] for i in range(n)]); delta = eps.v * G / (n - 1)
        num = [u[i].v + e[i] * (S + alpha * (C - 1)) for i in range(n)]; den = C + alpha * S
        import math
        def prove(what, neg, extra=(), to=60000, only2=False, cheap=False):
            nonlocal nq
            if n == 3 and rep.tier != 'thorough' and not cheap: return      # quick tier, n = 3: only the statements that take milliseconds
            if only2 and n != 2: return      # z3 does not finish these two polynomial identities for n = 3 within minutes: stated as outside
            verdict, model = rep.check('C18 ESH n=%d: %s' % (n, what), hyp + list(extra) + [neg], timeout_ms=to); nq += 1
            if verdict == 'violated': bad.append(('ESH update: ' + what, n, str(model)[:200]))
        prove('z = exp(-delta) with delta = eps |g| / (n-1)', ab(used[1][1][0]) != -delta, cheap=True)
        for i in range(n): prove('new momentum %d is (2z/R) x [u + e (sinh d + (e.u)(cosh d - 1))], the closed-form ESH numerator' % i, ab(y[i]) * Rn != 2 * Z * num[i], only2=True)
        prove('new momentum has unit norm', z3.Sum([ab(t) * ab(t) for t in y]) != 1, to=240000)
        unit = [z3.Sum([u[i].v * u[i].v for i in range(n)]) == 1]
        prove('closed form stays on the sphere: |numerator|^2 = (cosh d + (e.u) sinh d)^2 when |u| = 1', z3.Sum([t * t for t in num]) != den * den, unit, to=480000)
        prove('denominator cosh d + (e.u) sinh d > 0 when |u| = 1', den <= 0, unit, cheap=True)
        prove('argument of ln_1p: 1 + a = 2 z (cosh d + (e.u) sinh d)', 1 + ab(used[3][1][0]) != 2 * Z * den, only2=True)
        prove('reported kinetic-energy change = (n-1)(delta - LN_2 + ln_1p(a))', ab(dke) != (delta - A.const(math.log(2)).v + Lp) * (n - 1), cheap=True)
        rep.absorb_vm(vm)
    # two positive multiples of one vector with the same norm are equal (links "direction of the numerator" + "unit norm" to the closed form u' = numerator / denominator)
    a_, b_, w0, w1, w2 = z3.Reals('lem_a lem_b lem_w0 lem_w1 lem_w2'); w2n = w0 * w0 + w1 * w1 + w2 * w2
    verdict, model = rep.check('C18 lemma: a, b > 0, |a w| = |b w| = 1  =>  a = b', [a_ > 0, b_ > 0, a_ * a_ * w2n == 1, b_ * b_ * w2n == 1, a_ != b_], timeout_ms=30000); nq += 1
    if verdict == 'violated': bad.append(('scaling lemma fails', str(model)[:100]))
    rep.axioms.append('ESH: sinh d = (1/z - z)/2, cosh d = (1/z + z)/2 for z = exp(-d); ln_1p(x) = ln(1 + x), ln(2 z X) = ln 2 + ln z + ln X, ln z = -d, LN_2 = ln 2 (so the reported change is (n-1) ln(cosh d + (e.u) sinh d))')
    rep.paths += nq
    if bad: rep.violated('C18 unit norm / ESH closed form', 'esh', 'microcanonical momentum update: %s' % (bad[0],), model={'problems': [str(b)[:300] for b in bad]})
    else: rep.holds('C18 CpuMath::array_normalize and esh_momentum_update over exact reals (n = 2, 3): unit norm afterwards; normalize keeps the direction; the ESH update is the unit vector along the closed-form numerator (= numerator / denominator by the sphere identity and the scaling lemma) and reports (n-1)(delta - LN_2 + ln_1p(a)) with 1 + a = 2z(cosh d + (e.u) sinh d) (%d queries)' % nq)
