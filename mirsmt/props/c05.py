"""C05 - density faults become divergences or errors, never panics or bad draws (DESIGN section 4, C05)."""
import time
import z3
from ..driver import load_mir, REPO
from ..layout import Layouts
from ..vm import VM, Machine, Struct, Enum, Seq, Ref, Opaque, UNIT, NONE, SOME, OK, ERR, ret, VMError
from ..alg import FP64Alg, FPUAlg, Fl
from ..mathenv import MathEnv, StateEnv, install_misc
from ..intrinsics import deref_val
from ..treecheck import explore, check_paths

def run(rep):
    mir = load_mir(rep); L = Layouts(REPO)
    D = 2 if rep.tier == 'quick' else 4
    rep.bounds = {'leapfrog': 'one call from an arbitrary start point; all three kinetic-energy kinds; both directions; FP64 for the energy comparison',
                  'tree': 'maxdepth <= %d, fault (divergence / unrecoverable) possible at every site' % D, 'faults per trajectory': 'the first fault ends the trajectory, later ones are unreachable by construction',
                  'init_state': 'd = 2, arbitrary FP64 log-density and gradient values (NaN, inf, 0 included)'}
    rep.assumptions += ['the transformation is the environment in the leapfrog query: init_from_transformed_position returns Ok((logp, logdet)) with arbitrary FP64 values, Err(recoverable) or Err(unrecoverable)',
                        'vector operations are the Math environment; array_vector_dot returns an arbitrary FP64 value (over-approximation)', 'FP64u policy: floating-point + - * / fma return arbitrary doubles (same expression = same value); comparisons, is_finite keep IEEE meaning; lemma: a finite sum/difference has finite operands (proved bit-precisely in this run)',
                        'State handles: try_point_mut succeeds iff the handle is unshared (reference count tracked by the harness)']
    rep.outside += ['panics inside user code / faer / allocation failure', 'MCLMC retry (C18)', 'faults across more than one transition (one inductive chain step only)']
    leapfrog_mapping(rep, mir, L)
    for Dm in range(1, D + 1):
        t0 = time.time(); H, outs = explore(mir, L, Dm, faults=True)
        nv, nob = check_paths(rep, 'C05.2 tree maxdepth=%d' % Dm, H, outs, Dm, 0, True); rep.absorb_vm(H.vm)
        if nv == 0: rep.holds('C05.2 tree: Err iff first fault reached is unrecoverable, divergence flagged, draw created before the fault, no site beyond the fault, no panic - maxdepth=%d (%d paths)' % (Dm, len(outs)), time.time() - t0)
    register_draw(rep, mir, L)
    from ..driver import parts
    parts(rep, [lambda: flow_collector(rep, mir, L), lambda: init_state_untransformed(rep, mir, L)])
    init_state(rep, mir, L)
    from ..driver import parts
    from .c07 import init_search
    parts(rep, [lambda: init_search(rep, mir, L, prefix='C05.3')])

# ------------------------------------------------------------------------------------------------
def leapfrog_mapping(rep, mir, L):
    A = FPUAlg()
    for nm, ok in FPUAlg.prove_lemmas():
        if ok: rep.holds('C05 IEEE lemma (bit-precise): finite a %s b => a and b finite' % nm)
        else: rep.unknown('C05 IEEE lemma ' + nm)
    lf = mir.method('TransformedHamiltonian', 'Hamiltonian', 'leapfrog')
    for kind in ('Euclidean', 'ExactNormal', 'Microcanonical'):
        for dname in ('Forward', 'Backward'):
            vm = VM(mir, A); env = MathEnv(vm, 1, 'fault', L, abstract_dot=True); se = StateEnv(vm, mir); install_misc(vm)
            def T_init(vm, m, c, a):
                k = m.fresh_id(); outs = []
                for kd in ('ok', 'rec', 'unrec'):
                    m2 = m.clone(); m2.log('events', ('T_init', kd))
                    if kd == 'ok':
                        lp, ld = A.fresh('logp_new'), A.fresh('logdet_new'); outs.append((m2, 'ret', OK(Struct((lp, ld)))))
                    else: outs.append((m2, 'ret', ERR(Struct((kd,), 'LogpErrOracle'))))
                return outs
            vm.add_model(r'^<T as Transformation<M>>::init_from_transformed_position$', T_init)
            vm.add_model(r'^<T as Transformation<M>>::transformation_id$', lambda vm, m, c, a: ret(m, z3.Int('tid_T')))
            def regl(vm, m, c, a):
                m.log('events', ('register_leapfrog', deref_val(vm, m, a[4]).name)); return ret(m, UNIT)
            vm.add_model(r'^<C as Collector<M, .*>>::register_leapfrog$', regl)
            m = Machine(); m.ghost['events'] = []
            math = Ref(m.alloc(Opaque('math')))
            m, start = se.new_state(m, math)
            names = L.fields('TransformedPoint'); pt = m.mem[start.f[0].cell]; vals = {n: pt.f[i] for i, n in enumerate(names)}
            for n in ('untransformed_position', 'untransformed_gradient', 'transformed_position', 'transformed_gradient', 'velocity'): vals[n] = Seq([A.fresh(n + '0')])
            idx0 = z3.Int('idx0'); tid0 = z3.Int('tid0')
            vals.update({'index_in_trajectory': idx0, 'logp': A.fresh('logp0'), 'logdet': A.fresh('logdet0'), 'kinetic_energy': A.fresh('ke0'), 'initial_energy': A.fresh('E0'), 'transform_id': tid0})
            m.mem[start.f[0].cell] = L.make('TransformedPoint', vals)
            m.pc += [idx0 > -2 ** 40, idx0 < 2 ** 40]
            ham = L.make('TransformedHamiltonian', {'ones': Seq([A.const(1.0)]), 'zeros': Seq([A.const(0.0)]), 'step_size': A.fresh('eps'), 'momentum_decoherence_length': NONE(),
                                                    'transformation': Opaque('T'), 'kinetic_energy_kind': Enum(vm.enums['KineticEnergyKind'].index(kind), kind, (), 'KineticEnergyKind'), 'pool': Opaque('pool')})
            hc = m.alloc(ham); sc = m.alloc(start)
            base, mx = A.fresh('baseline'), A.fresh('max_energy_error')
            before = set(m.mem)
            outs = vm.run(lf, [Ref(hc), math, Ref(sc), Enum(vm.enums['Direction'].index(dname), dname, (), 'Direction'), A.fresh('factor'), base, mx, Ref(m.alloc(Opaque('coll')))], m)
            rep.paths += len(outs); rep.absorb_vm(vm)
            s = z3.Solver(); s.set('timeout', 120000)
            def sat(cs):
                s.push(); s.add(*cs); s.add(*A.lemmas); r = s.check(); s.pop()
                if r == z3.unknown: rep.unknown('C05.1 %s %s: solver unknown' % (kind, dname))
                return r == z3.sat
            tag = 'C05.1 leapfrog %s %s' % (kind, dname); bad = []
            seen = set()
            for (mm, k, v) in outs:
                ev = mm.ghost['events']; t = next((e[1] for e in ev if e[0] == 'T_init'), None); regs = [e for e in ev if e[0] == 'register_leapfrog']
                if k == 'panic': bad.append(('panic', str(v))); continue
                seen.add((t, v.name))
                # the freshly created out-state: the only StateR cell that did not exist before
                newcells = [c for c in mm.mem if c not in before and isinstance(mm.mem[c], Struct) and mm.mem[c].ty == 'TransformedPoint']
                if t == 'unrec':
                    if v.name != 'Err' or regs: bad.append(('unrecoverable error must return Err without registering a leapfrog', v.name, regs))
                    continue
                if t == 'rec':
                    ok = v.name == 'Divergence' and len(regs) == 1 and regs[0][1] == 'Some' and L.get('DivergenceInfo', v.f[0], 'logp_function_error').name == 'Some'
                    if not ok: bad.append(('recoverable error must become a Divergence carrying the error, registered once', v.name, regs))
                    continue
                if len(newcells) != 1: bad.append(('cannot identify the out state', len(newcells))); continue
                out = mm.mem[newcells[0]]; g = lambda f: L.get('TransformedPoint', out, f)
                E = A.sub(g('kinetic_energy'), A.add(g('logp'), g('logdet'))); ee = A.sub(E, base)
                isbad = A.gt(ee, mx) if kind != 'Microcanonical' else A.ge(A.absf(ee), mx)
                should_div = z3.Or(isbad, z3.Not(A.is_finite(ee)))
                if v.name == 'Ok':
                    if len(regs) != 1 or regs[0][1] != 'None': bad.append(('Ok must register exactly one non-divergent leapfrog', regs))
                    if sat(mm.pc + [should_div]): bad.append(('Ok returned although the energy error is non-finite or above max_energy_error', _model(s, mm.pc + [should_div])))
                    if sat(mm.pc + [A.is_finite(base), z3.Not(A.is_finite(g('logp')))]): bad.append(('Ok returned with a non-finite log-density', _model(s, mm.pc + [A.is_finite(base), z3.Not(A.is_finite(g('logp')))])))
                    sign = 1 if dname == 'Forward' else -1
                    if sat(mm.pc + [z3.Or(g('index_in_trajectory') != idx0 + sign, g('transform_id') != z3.Int('tid_T'), z3.Not(g('initial_energy').v == z3.FP('E0', A.S)))]):
                        bad.append(('out point bookkeeping (index, transform id, initial energy) wrong',))
                elif v.name == 'Divergence':
                    if len(regs) != 1 or regs[0][1] != 'Some': bad.append(('Divergence must register exactly one divergent leapfrog', regs))
                    if sat(mm.pc + [z3.Not(should_div)]): bad.append(('Divergence although the energy error is finite and within max_energy_error', _model(s, mm.pc + [z3.Not(should_div)])))
                    info_ee = L.get('DivergenceInfo', v.f[0], 'energy_error')
                    if info_ee.name != 'Some' or sat(mm.pc + [z3.Not(info_ee.f[0].v == ee.v)]): bad.append(('divergence info does not carry the energy error',))
                else: bad.append(('Err returned although the density evaluation succeeded',))
            for need in (('ok', 'Ok'), ('ok', 'Divergence'), ('rec', 'Divergence'), ('unrec', 'Err')):
                rep.cover('%s outcome reachable: %s' % (tag, need), need in seen)
            if bad: rep.violated(tag, 'leapfrog.mapping.%s' % kind, 'leapfrog fault mapping broken (%s, %s): %s' % (kind, dname, bad[0],), model={'kind': kind, 'dir': dname, 'problems': [str(b)[:500] for b in bad[:5]]})
            else: rep.holds(tag + ': unrecoverable -> Err, recoverable -> Divergence(with error), non-finite or too large energy error -> Divergence, else Ok with finite error and finite logp (%d outcomes)' % len(outs))
            if kind == 'Euclidean' and dname == 'Forward':
                rep.sample({'query': tag, 'outcomes': [(k, getattr(v, 'name', str(v)), mm.ghost['events']) for (mm, k, v) in outs]})

def _model(s, cs):
    s.push(); s.add(*cs); s.check(); m = s.model(); s.pop()
    return {d.name(): str(m[d]) for d in m.decls()}

# ------------------------------------------------------------------------------------------------
def register_draw(rep, mir, L):
    """DrawGradCollector::register_draw: divergent draws count only when |index| > 4, others when index != 0"""
    from ..alg import RealAlg
    A = RealAlg(); vm = VM(mir, A); env = MathEnv(vm, 1, 'uf', L)
    fn = mir.method('DrawGradCollector', 'Collector', 'register_draw')
    idx = z3.Int('idx')
    vm.add_model(r'^State::<M, P>::point$', lambda vm, m, c, a: ret(m, a[0]))
    vm.add_model(r'^<P as Point<M>>::(position|gradient)$', lambda vm, m, c, a: ret(m, Ref(m.alloc(Seq([A.fresh('x')])))))
    vm.add_model(r'^State::<M, P>::index_in_trajectory$', lambda vm, m, c, a: ret(m, idx))
    bad = []; n = 0
    for div in (False, True):
        m = Machine(); m.pc = [idx > -2 ** 62, idx < 2 ** 62]
        col = L.make('DrawGradCollector', {'draw': Seq([A.fresh('d')]), 'grad': Seq([A.fresh('g')]), 'is_good': z3.Bool('old_good')})
        c = m.alloc(col)
        info = L.make('SampleInfo', {'depth': z3.Int('depth'), 'divergence_info': SOME(Struct((), 'DivergenceInfo')) if div else NONE(), 'reached_maxdepth': False})
        outs = vm.run(fn, [Ref(c), Ref(m.alloc(Opaque('math'))), Ref(m.alloc(Opaque('state'))), Ref(m.alloc(info))], m); n += len(outs)
        for (mm, k, v) in outs:
            if k != 'ret': bad.append(('panic', str(v))); continue
            good = L.get('DrawGradCollector', mm.mem[c], 'is_good')
            # "divergent or stuck draws are not counted": a stuck draw (index 0) is never counted, a moved non-divergent draw always is, a divergent draw
            # close to the start (|index| <= 4, the code's own notion of close) is not; divergent draws further away may be counted or not
            if div: viol = z3.And(idx >= -4, idx <= 4, _b(good))
            else: viol = z3.Not(_b(good) == (idx != 0))
            s = z3.Solver(); s.add(*mm.pc); s.add(viol)
            if s.check() != z3.unsat: bad.append(('is_good wrong', div, str(s.model())))
    rep.paths += n; rep.absorb_vm(vm)
    if bad: rep.violated('C05.5 register_draw', 'register_draw.is_good', 'mass-matrix collector accepts a draw it must reject (or vice versa): %s' % (bad[0],), model={'problems': [str(b) for b in bad]})
    else: rep.holds('C05.5 DrawGradCollector::register_draw: never counts a stuck draw or a divergent draw within 4 steps of the start, always counts a moved non-divergent draw (%d paths)' % n)

def _b(v): return z3.BoolVal(v) if isinstance(v, bool) else v

def init_state_untransformed(rep, mir, L):
    """init_state_untransformed (the start point the adaptation strategies build the initial mass matrix from): Ok iff the density call succeeded and
    position and gradient are finite; a density error becomes Err(LogpFailure)"""
    from ..vm import SliceRef
    A = FPUAlg(); d = 2
    vm = VM(mir, A, inst={}); env = MathEnv(vm, d, 'fault', L); se = StateEnv(vm, mir); install_misc(vm)
    fn = mir.method('TransformedHamiltonian', 'Hamiltonian', 'init_state_untransformed')
    def logp_array(vm, m, c, a):
        outs = []
        for kd in ('ok', 'rec', 'unrec'):
            m2 = m.clone(); m2.log('events', ('logp', kd))
            if kd == 'ok': env.setvec(m2, a[2], [A.fresh('ugrad_%d' % i) for i in range(d)]); outs.append((m2, 'ret', OK(A.fresh('logp'))))
            else: outs.append((m2, 'ret', ERR(Struct((kd,), 'LogpErrOracle'))))
        return outs
    vm.models = [x for x in vm.models if 'logp_array' not in x[0].pattern]
    vm.add_model(r'^<M as Math>::logp_array$', logp_array)
    m = Machine(); m.ghost['events'] = []; math = Ref(m.alloc(Opaque('math')))
    ham = L.make('TransformedHamiltonian', {'ones': Seq([A.const(1.0)] * d), 'zeros': Seq([A.const(0.0)] * d), 'step_size': A.fresh('eps'), 'momentum_decoherence_length': NONE(),
                                            'transformation': Opaque('T'), 'kinetic_energy_kind': Enum(0, 'Euclidean', (), 'KineticEnergyKind'), 'pool': Opaque('pool')})
    hc = m.alloc(ham); pos = [A.fresh('x_%d' % i) for i in range(d)]; pc = m.alloc(Seq(pos))
    outs = vm.run(fn, [Ref(hc), math, SliceRef(pc, (), 0, d)], m); rep.paths += len(outs); rep.absorb_vm(vm)
    bad = []; s = z3.Solver(); s.set('timeout', 120000); kinds = set()
    fin = z3.And(*([A.is_finite(x) for x in pos] + [A.is_finite(A.fresh('ugrad_%d' % i)) for i in range(d)]))
    for (mm, k, v) in outs:
        if k != 'ret': bad.append(('panic', str(v)[:100])); continue
        t = next((e[1] for e in mm.ghost['events'] if e[0] == 'logp'), None); kinds.add((t, v.name))
        if t in ('rec', 'unrec'):
            if v.name != 'Err': bad.append(('a density error at the start point is not reported', t))
            continue
        s.push(); s.add(*mm.pc); s.add(fin != z3.BoolVal(v.name == 'Ok')); r = s.check()
        if r != z3.unsat: bad.append(('init_state_untransformed %s a start point although its position and gradient are %s' % (('accepts', 'not all finite') if v.name == 'Ok' else ('rejects', 'finite')), str(s.model())[:300] if r == z3.sat else 'unknown'))
        s.pop()
        if v.name == 'Ok':
            pt = mm.mem[v.f[0].f[0].cell]
            if L.get('TransformedPoint', pt, 'transform_id') != -1: bad.append(('the whitened coordinates of the start point are not marked stale (transform_id = -1)',))
    rep.cover('C05.8 init_state_untransformed: Ok and Err reachable', ('ok', 'Ok') in kinds and ('ok', 'Err') in kinds)
    if bad: rep.violated('C05.8 init_state_untransformed', 'init_state_untransformed', 'init_state_untransformed: %s' % (bad[0],), model={'problems': [str(b)[:300] for b in bad[:5]]})
    else: rep.holds('C05.8 init_state_untransformed: Ok exactly for a successful density call with finite position and gradient (whitened coordinates marked stale); density errors -> Err (%d paths)' % len(outs))

def flow_collector(rep, mir, L):
    """DrawCollector (what the flow / external adaptation is trained on): a point is collected iff it is not divergent, its energy error is finite
    and not above the limit, and its position and gradient are finite - in orbit mode for every leapfrog end point, otherwise for the draw"""
    from ..alg import FP64Alg
    bad = []; n = 0
    for meth in ('register_leapfrog', 'register_draw'):
        for orbit in (True, False):
            for div in ((False, True) if meth == 'register_leapfrog' else (False,)):
                A = FP64Alg(); vm = VM(mir, A); fn = mir.method('DrawCollector', 'Collector', meth)
                ee = A.fresh('energy_error'); mx = A.fresh('max_energy_error'); fp, fg = z3.Bool('position_finite'), z3.Bool('gradient_finite')
                vm.add_model(r'^State::<M, P>::point$', lambda vm, m, c, a: ret(m, a[0]))
                vm.add_model(r'^<P as Point<M>>::energy_error$', lambda vm, m, c, a: ret(m, ee))
                vm.add_model(r'^<P as Point<M>>::position$', lambda vm, m, c, a: ret(m, Opaque('position')))
                vm.add_model(r'^<P as Point<M>>::gradient$', lambda vm, m, c, a: ret(m, Opaque('gradient')))
                vm.add_model(r'^<P as Point<M>>::logp$', lambda vm, m, c, a: ret(m, A.fresh('logp')))
                vm.add_model(r'^<M as Math>::array_all_finite$', lambda vm, m, c, a: ret(m, fp if getattr(a[1], 'tag', '') == 'position' else fg))
                vm.add_model(r'^<M as Math>::copy_array$', lambda vm, m, c, a: ret(m, Struct((a[1],), 'Copy')))
                m = Machine()
                col = L.make('DrawCollector', {'draws': Seq(()), 'grads': Seq(()), 'logps': Seq(()), 'collect_orbit': orbit, 'max_energy_error': mx})
                c = m.alloc(col); st = Ref(m.alloc(Opaque('state')))
                if meth == 'register_leapfrog': args = [Ref(c), Ref(m.alloc(Opaque('math'))), st, st, SOME(Ref(m.alloc(Struct((), 'DivergenceInfo')))) if div else NONE()]
                else: args = [Ref(c), Ref(m.alloc(Opaque('math'))), st, Ref(m.alloc(Opaque('info')))]
                outs = vm.run(fn, args, m); n += len(outs); rep.absorb_vm(vm)
                active = orbit if meth == 'register_leapfrog' else (not orbit)
                for (mm, k, v) in outs:
                    if k != 'ret': bad.append((meth, 'panics', str(v)[:80])); continue
                    after = mm.mem[c]; g = lambda f: L.get('DrawCollector', after, f)
                    took = len(g('draws').items) == 1
                    if len(g('draws').items) != len(g('grads').items) or len(g('draws').items) != len(g('logps').items): bad.append((meth, 'draws / grads / logps get out of step'))
                    want = z3.And(z3.BoolVal(not div), A.is_finite(ee), z3.Not(A.lt(mx, ee)) if hasattr(A, 'lt') else z3.Not(z3.fpGT(ee.v, mx.v)), fp, fg)
                    s = z3.Solver(); s.set('timeout', 60000); s.add(*mm.pc); s.add(z3.Not(z3.fpEQ(ee.v, mx.v)))     # an energy error exactly at the limit may go either way
                    s.add(z3.And(z3.BoolVal(took), z3.Not(want)))      # one direction only: which of the good points are kept (all, per draw, per leapfrog) is the strategy's business
                    r = s.check()
                    if r == z3.sat: bad.append((meth, 'orbit' if orbit else 'draws', 'a point is collected although it is divergent / has a non-finite or too large energy error / non-finite position or gradient', str(s.model())[:160]))
                    elif r == z3.unknown: rep.unknown('C05.7 flow collector %s' % meth, 'solver unknown')
    rep.paths += n
    if bad: rep.violated('C05.7 flow collector', 'flow_collector', 'DrawCollector: %s' % (bad[0],), model={'problems': [str(b)[:300] for b in bad[:5]]})
    else: rep.holds('C05.7 DrawCollector (flow adaptation): every collected point is non-divergent with a finite energy error <= max_energy_error and finite position and gradient, in both modes (%d paths)' % n)

# ------------------------------------------------------------------------------------------------
def init_state(rep, mir, L):
    """init_state: any non-finite position / gradient or zero transformed gradient is rejected with BadInitGrad; density errors become LogpFailure"""
    A = FPUAlg(); d = 2
    vm = VM(mir, A, inst={}); env = MathEnv(vm, d, 'fault', L); se = StateEnv(vm, mir); install_misc(vm)
    fn = mir.method('TransformedHamiltonian', 'Hamiltonian', 'init_state')
    def T_init_u(vm, m, c, a):
        # arbitrary transformation result: all four arrays arbitrary FP64 values
        k = m.fresh_id(); outs = []
        for kd in ('ok', 'rec', 'unrec'):
            m2 = m.clone(); m2.log('events', ('T_init', kd))
            if kd == 'ok':
                for j, nm in ((3, 'ugrad'), (4, 'tpos'), (5, 'tgrad')): env.setvec(m2, a[j], [A.fresh('%s_%d' % (nm, i)) for i in range(d)])
                outs.append((m2, 'ret', OK(Struct((A.fresh('logp'), A.fresh('logdet'))))))
            else: outs.append((m2, 'ret', ERR(Struct((kd,), 'LogpErrOracle'))))
        return outs
    vm.add_model(r'^<T as Transformation<M>>::init_from_untransformed_position$', T_init_u)
    vm.add_model(r'^<T as Transformation<M>>::transformation_id$', lambda vm, m, c, a: ret(m, z3.Int('tid_T')))
    m = Machine(); m.ghost['events'] = []
    math = Ref(m.alloc(Opaque('math')))
    ham = L.make('TransformedHamiltonian', {'ones': Seq([A.const(1.0)] * d), 'zeros': Seq([A.const(0.0)] * d), 'step_size': A.fresh('eps'), 'momentum_decoherence_length': NONE(),
                                            'transformation': Opaque('T'), 'kinetic_energy_kind': Enum(0, 'Euclidean', (), 'KineticEnergyKind'), 'pool': Opaque('pool')})
    hc = m.alloc(ham); pos = [A.fresh('x_%d' % i) for i in range(d)]; pc = m.alloc(Seq(pos))
    from ..vm import SliceRef
    before = set(m.mem)
    outs = vm.run(fn, [Ref(hc), math, SliceRef(pc, (), 0, d)], m); rep.paths += len(outs); rep.absorb_vm(vm)
    bad = []; s = z3.Solver(); s.set('timeout', 120000); kinds = set()
    for (mm, k, v) in outs:
        if k != 'ret': bad.append(('panic', str(v))); continue
        t = next((e[1] for e in mm.ghost['events'] if e[0] == 'T_init'), None); kinds.add((t, v.name))
        if t in ('rec', 'unrec'):
            if v.name != 'Err': bad.append(('density error at initialisation not reported', t, v.name))
            continue
        if v.name == 'Ok':
            cell = v.f[0].f[0].cell; pt = mm.mem[cell]; g = lambda f: L.get('TransformedPoint', pt, f).items
            allv = list(g('untransformed_position')) + list(g('untransformed_gradient')) + list(g('transformed_position')) + list(g('transformed_gradient'))
            cond = z3.Or(*([z3.Not(A.is_finite(x)) for x in allv] + [A.eq(x, A.const(0.0)) for x in g('transformed_gradient')]))
            s.push(); s.add(*mm.pc); s.add(cond); r = s.check()
            if r != z3.unsat: bad.append(('init_state accepts a start with a non-finite value or zero gradient', str(s.model())[:400] if r == z3.sat else 'unknown'))
            s.pop()
    # the converse: a start whose four arrays are finite with a non-zero whitened gradient is not rejected (otherwise no chain could start)
    for (mm, k, v) in outs:
        if k != 'ret' or v.name != 'Err': continue
        t = next((e[1] for e in mm.ghost['events'] if e[0] == 'T_init'), None)
        if t != 'ok': continue
        names = ['x_%d' % i for i in range(d)] + ['%s_%d' % (nm, i) for nm in ('ugrad', 'tpos', 'tgrad') for i in range(d)]
        allv = [A.fresh(nm) for nm in names]
        cond = [A.is_finite(x) for x in allv] + [z3.Not(A.eq(A.fresh('tgrad_%d' % i), A.const(0.0))) for i in range(d)]
        s.push(); s.add(*mm.pc); s.add(*cond); r = s.check()
        if r == z3.sat: bad.append(('init_state rejects a start whose position, gradient and whitened coordinates are all finite with a non-zero whitened gradient', str(s.model())[:300]))
        s.pop()
    rep.cover('C05.6 init_state Ok reachable', ('ok', 'Ok') in kinds); rep.cover('C05.6 init_state BadInitGrad reachable', ('ok', 'Err') in kinds)
    if bad: rep.violated('C05.6 init_state', 'init_state.check', 'init_state: %s' % (bad[0],), model={'problems': [str(b)[:400] for b in bad]})
    else: rep.holds('C05.6 init_state: Ok only for finite position/gradient/transformed coordinates with non-zero transformed gradient; density errors -> Err (%d paths)' % len(outs))
