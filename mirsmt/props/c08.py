"""C08 - mass-matrix adaptation whitens Gaussians exactly and never degenerates (DESIGN section 4, C08)."""
import time, re
import z3
from ..driver import load_mir, REPO
from ..layout import Layouts
from ..vm import VM, Machine, Struct, Enum, Seq, Ref, SliceRef, Closure, Opaque, UNIT, NONE, SOME, OK, ERR, ret, VMError, Unmodelled
from ..alg import RealAlg, FP64Alg, FPUAlg, Fl
from ..mathenv import MathEnv, install_misc
from ..intrinsics import deref_val

LO, HI = 1e-20, 1e20

def run(rep):
    mir = load_mir(rep); L = Layouts(REPO)
    NMAX = 4 if rep.tier == 'quick' else 6
    rep.bounds = {'draws in the window': '3..=%d, one coordinate (the estimator is coordinate-wise)' % NMAX, 'exactness': 'exact reals with sqrt axioms; scale^2 within the clamp [1e-20, 1e20]',
                  'degeneracy': 'the per-element closures of cpu_math.rs under FP64u for arbitrary inputs (NaN, inf, 0, negative, subnormal): comparisons, clamp, abs, is_finite bit-precise; * / sqrt uninterpreted with two IEEE lemmas proved bit-precisely in the same run'}
    rep.assumptions += ['gradient-based diagonal estimator (the default use_grad_based_estimate = true); Gaussian coordinate: gradient_i = -(x_i - m)/s^2',
                        'sqrt(t)^2 = t and sqrt(t) >= 0 for t >= 0; ln(1/s) = -ln s (instances)', 'previous scales are finite and > 0 (inductive hypothesis of the never-degenerate claim)']
    rep.outside += ['the low-rank estimation pipeline (rescale_points, SVD, QR, SPD mean, eigen-decomposition in faer): "recovers a full covariance" is not claimed',
                    'LowRankMassMatrix::update accepts finite but non-positive scales; whether the faer pipeline can produce them is undecided here (observation, not claimed either way)',
                    'use_grad_based_estimate = false (draw-variance estimator is not exact by construction)']
    for n in range(3, NMAX + 1): exactness(rep, mir, L, n)
    closures_fp(rep, mir, L)
    lowrank_guards(rep, mir, L)
    from ..driver import parts
    parts(rep, [lambda: initial_matrix(rep, mir, L), lambda: inner_matrix(rep, mir, L), lambda: too_few_draws(rep, mir, L), lambda: other_mutators(rep, mir, L)] + [(lambda n=n: rescale_points(rep, mir, L, n)) for n in ((3,) if rep.tier == 'quick' else (3, 4, 5))])

# ------------------------------------------------------------------------------------------------
def exactness(rep, mir, L, n):
    """A: the running estimators on n Gaussian draws satisfy  var_g * s^4 = var_x,  mean_g * s^2 = -(mean_x - m),  var_x > 0 unless all draws coincide
       B: from any estimator state with those relations, adapt() installs std = s, inv_std = 1/s, mean = m, logdet = -ln s"""
    A = RealAlg(); vm = VM(mir, A, inst={}); env = MathEnv(vm, 1, 'uf', L); install_misc(vm)
    F = 'diagonal'
    new = mir.method('Strategy', 'MassMatrixAdaptStrategy', 'new', file=F); upd = mir.method('Strategy', 'MassMatrixAdaptStrategy', 'update_estimators', file=F)
    adapt = mir.method('Strategy', 'MassMatrixAdaptStrategy', 'adapt', file=F)
    m = Machine(); math = Ref(m.alloc(Opaque('math')))
    settings = L.make('DiagAdaptExpSettings', {'store_mass_matrix': False, 'use_grad_based_estimate': True})
    (m, k, strat) = vm.run(new, [math, settings, 1000, 0], m)[0]
    sc = m.alloc(strat)
    mean, s = z3.Real('gauss_mean'), z3.Real('gauss_sd')
    xs = [z3.Real('x_%d' % i) for i in range(n)]
    for i in range(n):
        col = L.make('DrawGradCollector', {'draw': Seq([Fl(xs[i])]), 'grad': Seq([Fl(-(xs[i] - mean) / (s * s))]), 'is_good': True})
        outs = vm.merge_outcomes(vm.run(upd, [Ref(sc), math, Ref(m.alloc(col))], m))
        if len(outs) != 1 or outs[0][1] != 'ret': rep.violated('C08.1 update_estimators (n=%d)' % n, 'diag.exact.panic', 'update_estimators panics or forks: %s' % [(k, str(v)[:100]) for (_, k, v) in outs]); return
        m = outs[0][0]
    st = m.mem[sc]; rv = lambda f, fld: L.get('RunningVariance', L.get('Strategy', st, f, file=F), fld)
    vx, vg = rv('exp_variance_draw', 'variance').items[0].v, rv('exp_variance_grad', 'variance').items[0].v
    mx, mg = rv('exp_variance_draw', 'mean').items[0].v, rv('exp_variance_grad', 'mean').items[0].v
    pre = [s > 0]
    for nm, cond in (('var_grad * s^4 = var_draw', vg * s * s * s * s != vx), ('mean_grad * s^2 = -(mean_draw - m)', mg * s * s != -(mx - mean)),
                     ('counts = n on foreground and background', z3.Or(rv('exp_variance_draw', 'count') != n, rv('exp_variance_grad', 'count') != n, rv('exp_variance_draw_bg', 'count') != n)),
                     ('var_draw >= 0 and var_draw = 0 only if all draws coincide', z3.Or(vx < 0, z3.And(vx == 0, z3.Or(*[xs[i] != xs[0] for i in range(1, n)]))))):
        verdict, model = rep.check('C08.1A running estimators on %d Gaussian draws: %s' % (n, nm), pre + [cond], timeout_ms=120000)
        if verdict == 'violated':
            md = {d.name(): str(model[d]) for d in model.decls() if d.arity() == 0}
            rep.violated('C08.1A n=%d %s' % (n, nm), 'diag.estimator', 'running mean/variance estimator wrong on a Gaussian window (%s): %s' % (nm, md), model=md)
    # the background pair saw the same window: it must hold the same statistics (it becomes the estimator in use at the next switch)
    bx, bg_ = rv('exp_variance_draw_bg', 'variance').items[0].v, rv('exp_variance_grad_bg', 'variance').items[0].v
    bmx, bmg = rv('exp_variance_draw_bg', 'mean').items[0].v, rv('exp_variance_grad_bg', 'mean').items[0].v
    verdict, model = rep.check('C08.1A background estimators hold the same draw/gradient statistics as the foreground ones after %d common draws' % n,
                               pre + [z3.Or(bx != vx, bg_ != vg, bmx != mx, bmg != mg, rv('exp_variance_grad_bg', 'count') != n)], timeout_ms=120000)
    if verdict == 'violated':
        md = {d.name(): str(model[d]) for d in model.decls() if d.arity() == 0}
        rep.violated('C08.1A n=%d background estimators' % n, 'diag.estimator.background', 'background running estimators differ from the foreground ones although both saw the same draws and gradients: %s' % md, model=md)
    if n == 3:
        # window switch on the real strategy, then the relations again on the estimator now in use
        sw = mir.method('Strategy', 'MassMatrixAdaptStrategy', 'switch', file=F)
        o2 = vm.merge_outcomes(vm.run(sw, [Ref(sc), math], m.clone()))
        if len(o2) != 1 or o2[0][1] != 'ret': rep.violated('C08.1A switch', 'diag.exact.panic', 'switch panics or forks')
        else:
            st2 = o2[0][0].mem[sc]; rv2 = lambda f, fld: L.get('RunningVariance', L.get('Strategy', st2, f, file=F), fld)
            vx2, vg2 = rv2('exp_variance_draw', 'variance').items[0].v, rv2('exp_variance_grad', 'variance').items[0].v
            mx2, mg2 = rv2('exp_variance_draw', 'mean').items[0].v, rv2('exp_variance_grad', 'mean').items[0].v
            verdict, model = rep.check('C08.1A after a window switch the estimator in use still satisfies var_grad * s^4 = var_draw and mean_grad * s^2 = -(mean_draw - m) (n=3)',
                                       pre + [z3.Or(vg2 * s * s * s * s != vx2, mg2 * s * s != -(mx2 - mean), rv2('exp_variance_draw', 'count') != n, rv2('exp_variance_grad', 'count') != n)], timeout_ms=120000)
            if verdict == 'violated':
                md = {d.name(): str(model[d]) for d in model.decls() if d.arity() == 0}
                rep.violated('C08.1A after switch', 'diag.estimator.after_switch', 'after a window switch the estimators in use do not describe the Gaussian window: %s' % md, model=md)
            # the background estimator that starts at the switch must be *empty*: fed two more draws it has to agree with a brand-new estimator fed the same
            # two draws (a recycled buffer that keeps old sums would let draws older than two windows into a later transformation)
            ys = [z3.Real('y_%d' % i) for i in range(2)]
            def feed(mach, cell):
                for i in range(2):
                    col = L.make('DrawGradCollector', {'draw': Seq([Fl(ys[i])]), 'grad': Seq([Fl(-(ys[i] - mean) / (s * s))]), 'is_good': True})
                    o = vm.merge_outcomes(vm.run(upd, [Ref(cell), math, Ref(mach.alloc(col))], mach))
                    if len(o) != 1 or o[0][1] != 'ret': return None
                    mach = o[0][0]
                return mach
            ma = feed(o2[0][0].clone(), sc)
            (mf, kf, fresh) = vm.run(new, [math, settings, 1000, 0], Machine())[0]; fc = mf.alloc(fresh); mb = feed(mf, fc)
            if ma is None or mb is None: rep.violated('C08.1A estimator after switch', 'diag.exact.panic', 'update_estimators panics after a switch')
            else:
                sa = ma.mem[sc]; sb = mb.mem[fc]; ga = lambda f, fld: L.get('RunningVariance', L.get('Strategy', sa, f, file=F), fld); gb = lambda f, fld: L.get('RunningVariance', L.get('Strategy', sb, f, file=F), fld)
                diffs = []
                for (fa, fb) in (('exp_variance_draw_bg', 'exp_variance_draw'), ('exp_variance_grad_bg', 'exp_variance_grad')):
                    diffs += [ga(fa, 'mean').items[0].v != gb(fb, 'mean').items[0].v, ga(fa, 'variance').items[0].v != gb(fb, 'variance').items[0].v, ga(fa, 'count') != gb(fb, 'count')]
                verdict, model = rep.check('C08.1A the background estimators started by a switch are empty: after two further draws they equal brand-new estimators fed those two draws', pre + [z3.Or(*diffs)], timeout_ms=120000)
                if verdict == 'violated':
                    md = {d.name(): str(model[d]) for d in model.decls() if d.arity() == 0}
                    rep.violated('C08.1A fresh background after switch', 'diag.estimator.stale', 'the background estimator started by a window switch still carries sums of the retired window (draws older than two windows reach a later transformation): %s' % md, model=md)
    rep.absorb_vm(vm)
    if n == 3: rep.sample({'query': 'C08.1A n=3', 'var_draw term': str(z3.simplify(vx))[:300]})
    if n > 3: return
    # ---- B (independent of n): adapt from an abstract estimator state
    A = RealAlg(); vm = VM(mir, A, inst={}); env = MathEnv(vm, 1, 'uf', L); install_misc(vm)
    DV, GV, DM, GM = [z3.Real(x) for x in ('var_draw', 'var_grad', 'mean_draw', 'mean_grad')]; cnt = z3.Int('count')
    def rvs(mn, vr): return L.make('RunningVariance', {'mean': Seq([Fl(mn)]), 'variance': Seq([Fl(vr)]), 'count': cnt})
    strat = L.make('Strategy', {'exp_variance_draw': rvs(DM, DV), 'exp_variance_grad': rvs(GM, GV), 'exp_variance_grad_bg': rvs(GM, GV), 'exp_variance_draw_bg': rvs(DM, DV),
                                '_settings': settings, '_phantom': Struct((), 'PhantomData')}, file=F)
    m = Machine(); math = Ref(m.alloc(Opaque('math'))); sc = m.alloc(strat)
    mm_ = L.make('DiagMassMatrix', {'mean': Seq([A.fresh('old_mean')]), 'inv_stds': Seq([A.fresh('old_inv_std')]), 'stds': Seq([A.fresh('old_std')]), 'logdet': A.fresh('old_logdet'), 'store_mass_matrix': False, 'id': z3.Int('mm_id')})
    mc = m.alloc(mm_)
    lem = [s > 0, s * s >= z3.RealVal(LO), s * s <= z3.RealVal(HI), GV * s * s * s * s == DV, DV > 0, GM * s * s == -(DM - mean), cnt >= 3, cnt < 2 ** 40, z3.Int('mm_id') > -2 ** 40, z3.Int('mm_id') < 2 ** 40]
    m.pc += lem
    vm.unknown_is_feasible = True; vm.solver.set('timeout', 3000)
    outs = list(vm.exec_fn(m, adapt, [Ref(sc), math, Ref(mc)])); rep.paths += len(outs); nok = 0
    for (m2, k, v) in outs:
        ax = _sqrt_axioms(A); ln = A.uf['ln']; ax += [ln(1 / s) == -ln(s)]
        sol = z3.Solver(); sol.set('timeout', 120000); sol.add(*m2.pc); sol.add(*ax)
        r = sol.check()
        if r == z3.unsat: continue
        if k == 'panic':
            rep.violated('C08.1B adapt does not panic on a Gaussian window', 'diag.exact.panic', 'DiagAdaptStrategy::adapt panics: %s' % (v,)); continue
        nok += 1
        mat = m2.mem[mc]; g = lambda f: L.get('DiagMassMatrix', mat, f)
        std, inv, mu, ld = g('stds').items[0].v, g('inv_stds').items[0].v, g('mean').items[0].v, g('logdet').v
        chg = v if z3.is_expr(v) else z3.BoolVal(bool(v))
        for nm, cond in (('std = s', std != s), ('inv_std * s = 1', inv * s != 1), ('mean = m', mu != mean), ('reports a change and bumps the id', z3.Or(z3.Not(chg), g('id') != z3.Int('mm_id') + 1))):
            verdict, model = rep.check('C08.1B adapt() from a Gaussian estimator state: %s (path %d)' % (nm, nok), m2.pc + ax + [cond], timeout_ms=240000)
            if verdict == 'violated':
                md = {d.name(): str(model[d]) for d in model.decls() if d.arity() == 0}
                rep.violated('C08.1B %s' % nm, 'diag.exact', 'diagonal adaptation does not recover the Gaussian scale/mean exactly (%s): %s' % (nm, md), model=md)
        verdict, model = rep.check('C08.1B log-determinant term = -ln s (path %d)' % nok, m2.pc + ax + [inv * s == 1, ln(inv) == ln(1 / s), ld != -ln(s)], timeout_ms=60000)
        if verdict == 'violated': rep.violated('C08.1B logdet', 'diag.exact.logdet', 'logdet is not -ln s', model={})
    rep.cover('C08.1B a feasible Ok path of adapt exists', nok > 0)
    rep.axioms.append('sqrt(t)^2 = t, sqrt(t) >= 0 for every sqrt term whose argument is >= 0 on the path; ln(1/s) = -ln s')
    rep.absorb_vm(vm)

def _sqrt_axioms(A):
    ax = []
    for (nm, args, term) in A.used:
        if nm == 'sqrt': ax += [z3.Implies(args[0] >= 0, z3.And(term * term == args[0], term >= 0))]
    return ax

# ------------------------------------------------------------------------------------------------
def elem_closure(mir, method):
    hits = [n for n in mir.fns if n.endswith('::%s::{closure#0}::{closure#0}' % method) and 'cpu_math' in n]
    if len(hits) != 1: raise VMError('element closure of %s: %d candidates' % (method, len(hits)))
    return mir.get(hits[0])

def closures_fp(rep, mir, L):
    """FP64u (uninterpreted * / sqrt with bit-precisely proved IEEE lemmas, interpreted comparisons / clamp / abs / is_finite): outputs are either
    untouched or finite and > 0; an invalid estimate (non-finite or zero) leaves the previous value"""
    A = FPUAlg()
    for nm, ok in FPUAlg.prove_sqrt_recip_lemmas():
        if ok: rep.holds('C08 IEEE lemma (bit-precise FP64): ' + nm)
        else: rep.unknown('C08 IEEE lemma ' + nm)
    cases = [('array_update_var_inv_std_draw_grad', ['draw_var', 'grad_var'], {'fill_invalid': NONE()}, lambda v: A.call1('sqrt', A.div(v['draw_var'], v['grad_var']))),
             ('array_update_var_inv_std_draw', ['draw_var'], {'fill_invalid': NONE(), 'scale': None}, lambda v: A.mul(v['draw_var'], v['scale'])),
             ('array_update_var_inv_std_grad', ['grad'], {'fill_invalid': A.const(1.0)}, None)]
    for method, ins, scal, estimate in cases:
        vm = VM(mir, A); cfn = elem_closure(mir, method); caps = cfn.captures()
        m = Machine()
        vals = {'clamp__0': A.const(LO), 'clamp__1': A.const(HI)}
        for nm, val in scal.items(): vals[nm] = val if val is not None else A.fresh(nm)
        if set(vals) != set(caps):
            rep.unknown('C08.2 %s' % method, 'closure captures changed: %s' % sorted(caps)); continue
        fields = [None] * len(caps)
        for nm, (idx, byref) in caps.items(): fields[idx] = Ref(m.alloc(vals[nm])) if byref else vals[nm]
        clo = Ref(m.alloc(Closure(cfn.args[0][1], fields, None)))
        std0, inv0 = A.fresh('std_old'), A.fresh('inv_std_old'); sc, ic = m.alloc(std0), m.alloc(inv0)
        inv_ = {nm: A.fresh(nm) for nm in ins}
        if 'scale' in vals: inv_['scale'] = vals['scale']
        item = Struct([Ref(sc), Ref(ic)] + [Ref(m.alloc(inv_[nm])) for nm in ins])
        fin = lambda t: A.is_finite(t); pos = lambda t: A.gt(t, A.const(0.0))
        m.pc += [fin(std0), pos(std0), fin(inv0), pos(inv0)]
        vm.solver.set('timeout', 60000)
        outs = list(vm.exec_fn(m, cfn, [clo, item])); rep.paths += len(outs); rep.absorb_vm(vm)
        bad = []
        for (m2, k, v) in outs:
            if k != 'ret': bad.append(('panic', str(v))); continue
            s1, i1 = m2.mem[sc], m2.mem[ic]
            okv = lambda new, old: z3.Or(new.v == old.v, z3.And(fin(new), pos(new)))
            sol = z3.Solver(); sol.set('timeout', 240000); sol.add(*m2.pc); sol.add(*A.lemmas); sol.add(z3.Not(z3.And(okv(s1, std0), okv(i1, inv0))))
            r = sol.check()
            if r == z3.sat: bad.append(('a scale becomes non-finite or non-positive', {d.name(): str(sol.model()[d]) for d in sol.model().decls()}))
            elif r == z3.unknown: rep.unknown('C08.2 %s: solver unknown' % method)
            if estimate is not None:
                e = estimate(inv_); invalid = z3.Or(z3.Not(fin(e)), A.eq(e, A.const(0.0)))
                sol = z3.Solver(); sol.set('timeout', 240000); sol.add(*m2.pc); sol.add(*A.lemmas); sol.add(invalid, z3.Or(s1.v != std0.v, i1.v != inv0.v))
                r = sol.check()
                if r == z3.sat: bad.append(('an invalid estimate (non-finite or zero) replaces the previous scale', {d.name(): str(sol.model()[d]) for d in sol.model().decls()}))
                elif r == z3.unknown: rep.unknown('C08.2 %s (invalid keeps previous): solver unknown' % method)
        name = 'C08.2 %s (FP64, all inputs incl. NaN/inf/0): scales stay finite and > 0%s' % (method, '; invalid estimates keep the previous value' if estimate is not None else '; invalid gradient yields the fill value')
        if bad: rep.violated(name, 'closure.%s' % method, '%s: %s' % (method, bad[0]), model={'problems': [str(b)[:400] for b in bad[:4]]})
        else: rep.holds(name + ' (%d paths)' % len(outs))

# ------------------------------------------------------------------------------------------------
def lowrank_guards(rep, mir, L):
    """LowRankMassMatrix::update returns without any change when an input is non-finite"""
    A = RealAlg(); vm = VM(mir, A, inst={}); env = MathEnv(vm, 1, 'uf', L); install_misc(vm)
    fn = [f for n, f in mir.fns.items() if n.endswith('::update') and 'transform::low_rank' in n and 'adapt' not in n]
    if len(fn) != 1: rep.unknown('C08.3 LowRankMassMatrix::update not found'); return
    fn = fn[0].parse()
    flags = {}
    def all_finite(vm, m, c, a):
        v = a[0]
        while isinstance(v, Ref): v = vm.read_at(m, v.cell, v.path)
        b = z3.Bool('finite_%s' % v.tag); return ret(m, b)
    vm.add_model(r'^(col_all_finite|mat_all_finite)$', all_finite)
    vm.add_model(r'::as_ref$', lambda vm, m, c, a: ret(m, a[0]))
    vm.add_model(r'::try_as_col_major$', lambda vm, m, c, a: ret(m, SOME(a[0])))
    vm.add_model(r'::as_slice$', lambda vm, m, c, a: ret(m, SliceRef(m.alloc(Seq([A.fresh('col_%s' % deref_val(vm, m, a[0]).tag)])), (), 0, 1)))
    vm.add_model(r'^InnerMatrix::<M>::new$', lambda vm, m, c, a: (m.log('events', ('inner_new',)), ret(m, Struct((Opaque('vecs'), Opaque('vs'), Opaque('vsi'), A.fresh('inner_logdet'), Opaque('mu'), 0), 'InnerMatrix')))[1])
    m = Machine(); m.ghost['events'] = []
    diag = L.make('DiagMassMatrix', {'mean': Seq([A.fresh('dm')]), 'inv_stds': Seq([A.fresh('dis')]), 'stds': Seq([A.fresh('ds')]), 'logdet': A.fresh('dld'), 'store_mass_matrix': False, 'id': z3.Int('did')})
    lr = L.make('LowRankMassMatrix', {'diag': diag, 'inner': NONE(), 'settings': Opaque('settings'), 'logdet': A.fresh('ld'), 'id': z3.Int('lid')})
    m.pc += [z3.Int('did') > -2 ** 40, z3.Int('did') < 2 ** 40, z3.Int('lid') > -2 ** 40, z3.Int('lid') < 2 ** 40]
    c = m.alloc(lr)
    args = [Ref(c), Ref(m.alloc(Opaque('math')))] + [Opaque(n) for n in ('stds', 'mean', 'vals', 'vecs', 'mean_low_rank')]
    outs = vm.run(fn, args, m); rep.paths += len(outs); rep.absorb_vm(vm)
    allfin = z3.And(*[z3.Bool('finite_' + n) for n in ('stds', 'mean', 'vals', 'vecs')])
    bad = []; changed = 0
    for (m2, k, v) in outs:
        if k != 'ret': bad.append(('panic', str(v))); continue
        after = m2.mem[c]; same = after is lr or vm._same(after, lr)
        s = z3.Solver(); s.add(*m2.pc)
        if same:
            s.add(allfin)
            if s.check() == z3.sat: bad.append(('no update although every input is finite',))
        else:
            changed += 1; s.push(); s.add(z3.Not(allfin))
            if s.check() == z3.sat: bad.append(('transformation changed although an input is non-finite', str(s.model())))
            s.pop()
            g = lambda f: L.get('LowRankMassMatrix', after, f); dg = g('diag'); inner = g('inner')
            if inner.name != 'Some' or [e for e in m2.ghost['events'] if e[0] == 'inner_new'] != [('inner_new',)]: bad.append(('a finite update does not install the new low-rank factor',))
            s.add(z3.Or(g('logdet').v != z3.Real('inner_logdet') + L.get('DiagMassMatrix', dg, 'logdet').v, g('id') != z3.Int('lid') + 1, L.get('DiagMassMatrix', dg, 'id') != z3.Int('did') + 1))
            if s.check() != z3.unsat: bad.append(('after an update logdet is not (low-rank part) + (diagonal part) or an id is not bumped (stale whitened coordinates / missing update event)',))
    rep.cover('C08.3 update path that changes the transformation reachable', changed > 0)
    if bad: rep.violated('C08.3 LowRankMassMatrix::update guards', 'lowrank.guards', 'low-rank update guard broken: %s' % (bad[0],), model={'problems': [str(b) for b in bad]})
    else: rep.holds('C08.3 LowRankMassMatrix::update: any non-finite input (stds, mean, eigenvalues, eigenvectors) leaves the transformation and its id unchanged; finite inputs install the new diagonal and low-rank parts, logdet = low-rank part + diagonal part, both ids bumped (%d paths)' % len(outs))


def initial_matrix(rep, mir, L):
    """DiagMassMatrix::update_diag_grad (the matrix used before any draws exist, built from the gradient at the start point) over exact reals:
    std > 0, inv_std * std = 1, logdet = ln(inv_std), id bumped (the heuristic itself - variance 1/|g|, translation
    position + variance x gradient - is not fixed by the property and not judged)"""
    A = RealAlg(); vm = VM(mir, A, inst={}); env = MathEnv(vm, 1, 'uf', L); install_misc(vm)
    fn = mir.method('DiagMassMatrix', None, 'update_diag_grad')
    m = Machine(); math = Ref(m.alloc(Opaque('math')))
    mm_ = L.make('DiagMassMatrix', {'mean': Seq([A.fresh('old_mean')]), 'inv_stds': Seq([A.fresh('old_inv_std')]), 'stds': Seq([A.fresh('old_std')]), 'logdet': A.fresh('old_logdet'), 'store_mass_matrix': False, 'id': z3.Int('mm_id')})
    mc = m.alloc(mm_); x, g, fill = A.fresh('x'), A.fresh('g'), A.fresh('fill'); lo, hi = A.fresh('clamp_lo'), A.fresh('clamp_hi')
    m.pc += [lo.v > 0, lo.v <= hi.v, fill.v > 0, g.v != 0, z3.Int('mm_id') > -2 ** 40, z3.Int('mm_id') < 2 ** 40]
    vm.unknown_is_feasible = True; vm.solver.set('timeout', 3000)
    outs = list(vm.exec_fn(m, fn, [Ref(mc), math, Ref(m.alloc(Seq([x]))), Ref(m.alloc(Seq([g]))), fill, Struct((lo, hi))])); rep.paths += len(outs); nok = 0; bad = []
    for (m2, k, v) in outs:
        ax = _sqrt_axioms(A); sol = z3.Solver(); sol.set('timeout', 60000); sol.add(*m2.pc); sol.add(*ax)
        if sol.check() == z3.unsat: continue
        if k == 'panic': bad.append(('update_diag_grad panics', str(v)[:100])); continue
        nok += 1; mat = m2.mem[mc]; gg = lambda f: L.get('DiagMassMatrix', mat, f)
        std, inv, mu, ld = gg('stds').items[0].v, gg('inv_stds').items[0].v, gg('mean').items[0].v, gg('logdet').v
        absg = z3.If(g.v >= 0, g.v, -g.v); cl = z3.If(absg < lo.v, lo.v, z3.If(absg > hi.v, hi.v, absg))
        # which scale the start gradient is turned into (1/|g| here) and where the translation is put are heuristics the property does not fix; what it does ask
        # for is a scale that is finite and > 0, and a representation that is consistent (inv_std x std = 1, logdet = ln inv_std, id bumped)
        for nm, cond in (('std > 0 and inv_std x std = 1', z3.Or(std <= 0, inv * std != 1)),
                         ('id bumped', gg('id') != z3.Int('mm_id') + 1), ('logdet = ln(inv_std)', ld != A.uf['ln'](inv))):
            verdict, model = rep.check('C08.4 initial matrix from the gradient: %s (path %d)' % (nm, nok), m2.pc + ax + [cond], timeout_ms=60000)
            if verdict == 'violated': bad.append((nm, {d.name(): str(model[d]) for d in model.decls() if d.arity() == 0}))
    rep.absorb_vm(vm); rep.cover('C08.4 update_diag_grad has a feasible path', nok > 0)
    if bad: rep.violated('C08.4 initial mass matrix', 'diag.initial', 'DiagMassMatrix::update_diag_grad: %s' % (bad[0],), model={'problems': [str(b)[:300] for b in bad[:5]]})


def rescale_points(rep, mir, L, n, d=2):
    """C08.8  rescale_points (the coordinate-wise first stage of the low-rank estimator) on n draws of a Gaussian coordinate, over exact reals:
    the returned scale is the coordinate's standard deviation and the returned translation its mean, the rescaled and centred gradients are the
    negated rescaled and centred draws (whitened: gradient = -position), and the reported pre-centring means are those of the rescaled window."""
    from .. import cpuenv
    t0 = time.time(); A = RealAlg(); vm = VM(mir, A, inst={}); install_misc(vm); cpuenv.install_linalg(vm)
    hits = [f for f in mir.fns if re.search(r'(^|::)rescale_points$', f)]
    if len(hits) != 1: rep.unknown('C08.8 rescale_points not found'); return
    fn = mir.get(hits[0])
    mean = [z3.Real('gauss_mean_%d' % i) for i in range(d)]; sd = [z3.Real('gauss_sd_%d' % i) for i in range(d)]
    xs = [[z3.Real('x_%d_%d' % (i, j)) for j in range(n)] for i in range(d)]
    gs = [[-(xs[i][j] - mean[i]) / (sd[i] * sd[i]) for j in range(n)] for i in range(d)]
    m = Machine(); cd = m.alloc(Seq([Seq([Fl(xs[i][j]) for i in range(d)]) for j in range(n)])); cg = m.alloc(Seq([Seq([Fl(gs[i][j]) for i in range(d)]) for j in range(n)]))
    pre = [sd[i] > 0 for i in range(d)] + [z3.Or(*[xs[i][j] != xs[i][0] for j in range(1, n)]) for i in range(d)]
    try: outs = vm.merge_outcomes(vm.run(fn, [Ref(cd), Ref(cg)], m))
    except (Unmodelled, VMError) as e:
        rep.unknown('C08.8 rescale_points', '%s: %s' % (type(e).__name__, str(e)[:200])); return
    rep.paths += len(outs); rep.absorb_vm(vm)
    if len(outs) != 1 or outs[0][1] != 'ret':
        rep.violated('C08.8 rescale_points (n=%d)' % n, 'lowrank.rescale.panic', 'rescale_points panics or forks on a finite window: %s' % [(k, str(v)[:100]) for (_, k, v) in outs][:2]); return
    (m1, _, v) = outs[0]; stds, mu, dmo, gmo = [[x.v for x in deref_val(vm, m1, c).items] for c in v.f]
    dr = [[deref_val(vm, m1, c).items[i].v for c in m1.mem[cd].items] for i in range(d)]; gr = [[deref_val(vm, m1, c).items[i].v for c in m1.mem[cg].items] for i in range(d)]
    ax = _sqrt_axioms(A); bad = []
    sq = [(args[0], term) for (nm, args, term) in A.used if nm == 'sqrt']
    def ask(name, hyp, cond, key, use_ax=True):
        verdict, model = rep.check('C08.8 rescale_points n=%d: %s' % (n, name), pre + (ax if use_ax else []) + hyp + [cond], timeout_ms=120000)
        if verdict == 'violated':
            md = {dd.name(): str(model[dd]) for dd in model.decls() if dd.arity() == 0}
            bad.append(key); rep.violated('C08.8 n=%d %s' % (n, name), 'lowrank.rescale.' + key, 'rescale_points on a Gaussian window: %s fails: %s' % (name, md), model=md)
        return verdict == 'holds'
    for i in range(d):
        s_ = sd[i]; xbar = sum(xs[i]) / n
        # the ratio of the variances under the outer square roots is s^4 (the inner sqrt argument is found among the sqrt terms the code built)
        inner = [a for (a, t) in sq if z3.eq(t, [a2 for (a2, t2) in sq if z3.eq(t2, stds[i])][0])] if any(z3.eq(t2, stds[i]) for (a2, t2) in sq) else []
        if not inner: rep.violated('C08.8 n=%d scale' % n, 'lowrank.rescale.scale', 'the scale of coordinate %d is not the square root of the square root of a variance ratio' % i); return
        q = inner[0]
        ok = ask('coordinate %d: var(draws)/var(gradients) = s^4' % i, [], q != s_ * s_ * s_ * s_, 'ratio', use_ax=False)
        # scale = sqrt(sqrt(q)) with q = s^4 (just shown): decided on the abstraction q -> Q (a fresh real), so that the size of the window does not enter
        Q = z3.Real('ratio_%d' % i); t1 = [t for (a_, t) in sq if z3.eq(a_, q)][0]
        ax_i = [z3.substitute(z3.Implies(a_ >= 0, z3.And(t * t == a_, t >= 0)), (q, Q)) for (a_, t) in sq if z3.eq(a_, q) or z3.eq(a_, t1)]
        ok = ok and ask('coordinate %d: scale = s' % i, [Q == s_ * s_ * s_ * s_] + ax_i, z3.substitute(stds[i], (q, Q)) != s_, 'scale', use_ax=False)
        # from here on the proven equalities are used by substitution (scale -> s, then translation -> m): the remaining obligations are identities of
        # rational functions in the draws, no square-root term is left in them
        sub1 = lambda e: z3.substitute(e, (stds[i], s_))
        if ok: ok = ask('coordinate %d: translation = mean of the Gaussian' % i, [], sub1(mu[i]) != mean[i], 'translation', use_ax=False)
        if ok:
            sub2 = lambda e: z3.substitute(sub1(e), (sub1(mu[i]), mean[i]))
            for j in range(n):
                ask('coordinate %d, draw %d: rescaled centred draw is (x_j - mean(x))/s and the gradient its negation' % (i, j), [],
                    z3.Or(sub2(dr[i][j]) != (xs[i][j] - xbar) / s_, sub2(gr[i][j]) != -sub2(dr[i][j])), 'whitened', use_ax=False)
            ask('coordinate %d: reported pre-centring means are (mean(x) - m)/s and its negation' % i, [], z3.Or(sub2(dmo[i]) != (xbar - mean[i]) / s_, sub2(gmo[i]) != -(xbar - mean[i]) / s_), 'means', use_ax=False)
    if not bad: rep.holds('C08.8 rescale_points on %d Gaussian draws x %d coordinates: scale = s, translation = m, whitened gradients = -draws, reported means' % (n, d), time.time() - t0)

def inner_matrix(rep, mir, L):
    """InnerMatrix::new - the representation invariant that C02 assumes for a low-rank factor: vals_sqrt = sqrt(lambda), vals_sqrt_inv x vals_sqrt = 1,
    logdet_contribution = -1/2 sum ln(lambda), eigenvectors and translation copied unchanged"""
    from .. import cpuenv
    A = RealAlg(); vm = VM(mir, A, inst={}); env = MathEnv(vm, 2, 'uf', L); install_misc(vm); cpuenv.install_linalg(vm)
    fn = [f for n, f in mir.fns.items() if re.search(r'transform::low_rank::<impl at src/transform/low_rank.rs:\d+:1: \d+:\d+>::new$', n) and 'InnerMatrix' in f.header]
    if len(fn) != 1: rep.unknown('C08.5 InnerMatrix::new not found'); return
    fn = fn[0].parse(); r = 2; d = 2
    lam = [A.fresh('lam%d' % j) for j in range(r)]; U = [[A.fresh('u%d_%d' % (j, i)) for i in range(d)] for j in range(r)]; mu = [A.fresh('mu%d' % i) for i in range(d)]
    vm.add_model(r'::try_as_col_major$', lambda vm, m, c, a: ret(m, SOME(a[0])))
    vm.add_model(r'^col::col(ref|mut|own)::<impl .*>::as_slice(_mut)?$', lambda vm, m, c, a: ret(m, __import__('mirsmt.intrinsics', fromlist=['as_slice']).as_slice(vm, m, a[0])))
    from ..vm import Iter
    vm.add_model(r'^mat::mat(own|ref)::<impl faer::mat::generic::Mat<.*>>::col_iter$', lambda vm, m, c, a: ret(m, Iter([Ref(a[0].cell, a[0].path + (('i', j),)) for j in range(len(deref_val(vm, m, a[0]).items))])))
    def new_eig_vectors(vm, m, c, a):
        from ..iters import to_iter, pull
        it = to_iter(vm, m, a[1]); cols = []; mm = m
        for k in range(len(it.items)):
            (mm, kk, v) = pull(vm, mm, it, k)[0]; cols.append(Seq(__import__('mirsmt.intrinsics', fromlist=['slice_items']).slice_items(vm, mm, v)))
        return ret(mm, Seq(cols))
    vm.add_model(r'^<M as Math>::new_eig_vectors::<', new_eig_vectors)
    vm.add_model(r'^<M as Math>::new_eig_values$', lambda vm, m, c, a: ret(m, Seq(__import__('mirsmt.intrinsics', fromlist=['slice_items']).slice_items(vm, m, a[1]))))
    m = Machine(); m.pc += [x.v > 0 for x in lam]
    try: outs = vm.run(fn, [Ref(m.alloc(Opaque('math'))), Seq(lam), Seq([Seq(c) for c in U]), Seq(mu)], m)
    except Exception as e:
        rep.unknown('C08.5 InnerMatrix::new', '%s: %s' % (type(e).__name__, str(e)[:200])); return
    rep.paths += len(outs); rep.absorb_vm(vm); bad = []
    for (m2, k, v) in outs:
        if k != 'ret': bad.append(('InnerMatrix::new panics', str(v)[:100])); continue
        g = lambda f: L.get('InnerMatrix', v, f); ax = _sqrt_axioms(A); ln = A.uf['ln']
        vs = [t.v for t in g('vals_sqrt').items]; vi = [t.v for t in g('vals_sqrt_inv').items]
        conds = [('vals_sqrt^2 = lambda, > 0', z3.Or(*[z3.Or(vs[j] * vs[j] != lam[j].v, vs[j] <= 0) for j in range(r)])), ('vals_sqrt_inv x vals_sqrt = 1', z3.Or(*[vi[j] * vs[j] != 1 for j in range(r)])),
                 ('logdet contribution = -1/2 sum ln lambda', g('logdet_contribution').v != -z3.RealVal('1/2') * z3.Sum([ln(x.v) for x in lam])), ('num_eigenvalues = rank', z3.BoolVal(g('num_eigenvalues') != r)),
                 ('translation copied', z3.Or(*[a_.v != b_.v for a_, b_ in zip(g('mu').items, mu)])), ('eigenvectors copied column by column', z3.Or(*[cc.items[i].v != U[j][i].v for j, cc in enumerate(g('vecs').items) for i in range(d)]))]
        for nm, cond in conds:
            verdict, model = rep.check('C08.5 InnerMatrix::new: %s' % nm, m2.pc + ax + [cond], timeout_ms=60000)
            if verdict == 'violated': bad.append((nm, str(model)[:200]))
    rep.cover('C08.5 InnerMatrix::new returns', any(k == 'ret' for (_, k, _) in outs))
    if bad: rep.violated('C08.5 low-rank factor representation', 'lowrank.inner', 'InnerMatrix::new: %s' % (bad[0],), model={'problems': [str(b)[:300] for b in bad[:5]]})


def too_few_draws(rep, mir, L):
    """DiagAdaptStrategy::adapt with fewer than three samples in the estimator: the returned flag is consistent with what was done"""
    A = RealAlg(); vm = VM(mir, A, inst={}); env = MathEnv(vm, 1, 'uf', L); install_misc(vm); F = 'diagonal'
    adapt = mir.method('Strategy', 'MassMatrixAdaptStrategy', 'adapt', file=F); cnt = z3.Int('count')
    def rvs(t): return L.make('RunningVariance', {'mean': Seq([A.fresh('m_' + t)]), 'variance': Seq([A.fresh('v_' + t)]), 'count': cnt})
    settings = L.make('DiagAdaptExpSettings', {'store_mass_matrix': False, 'use_grad_based_estimate': True})
    strat = L.make('Strategy', {'exp_variance_draw': rvs('d'), 'exp_variance_grad': rvs('g'), 'exp_variance_grad_bg': rvs('gb'), 'exp_variance_draw_bg': rvs('db'), '_settings': settings, '_phantom': Struct((), 'PhantomData')}, file=F)
    m = Machine(); math = Ref(m.alloc(Opaque('math'))); sc = m.alloc(strat)
    mm_ = L.make('DiagMassMatrix', {'mean': Seq([A.fresh('old_mean')]), 'inv_stds': Seq([A.fresh('old_inv_std')]), 'stds': Seq([A.fresh('old_std')]), 'logdet': A.fresh('old_logdet'), 'store_mass_matrix': False, 'id': z3.Int('mm_id')})
    mc = m.alloc(mm_); m.pc += [cnt >= 0, cnt < 3, z3.Int('mm_id') > -2 ** 40, z3.Int('mm_id') < 2 ** 40]
    outs = list(vm.exec_fn(m, adapt, [Ref(sc), math, Ref(mc)])); rep.paths += len(outs); rep.absorb_vm(vm); bad = []
    for (m2, k, v) in outs:
        if k != 'ret': bad.append(('adapt panics with %s samples' % 'fewer than three', str(v)[:100])); continue
        # whether two samples are enough to adapt is the implementation's choice (the statement starts at three); what must hold is that the reported flag
        # tells the truth: "no change" with an untouched transformation, "changed" with a new id (C09 / C16 key the update events on both)
        changed = v if isinstance(v, bool) else not z3.is_false(z3.simplify(v))
        same = vm._same(m2.mem[mc], mm_)
        if changed is False and not same: bad.append(('adapt reports no change but modifies the transformation',))
        if changed is not False and same: bad.append(('adapt reports a change although the transformation (and its id) is untouched',))
    rep.cover('C08.6 adapt with < 3 samples has a path', len(outs) > 0)
    if bad: rep.violated('C08.6 diagonal adaptation with fewer than three samples', 'diag.too_few', 'DiagAdaptStrategy::adapt: %s' % (bad[0],), model={'problems': [str(b) for b in bad]})
    else: rep.holds('C08.6 DiagAdaptStrategy::adapt with fewer than three samples: the reported flag matches what happened to the transformation and its id (%d paths)' % len(outs))


def other_mutators(rep, mir, L):
    """the remaining functions that change a transformation: DiagMassMatrix::update_diag_draw (draw-variance estimator) and
    LowRankMassMatrix::update_from_grad (initial low-rank matrix) - consistent log-determinant, mean / factor as documented, id bumped"""
    bad = []; n = 0
    # update_diag_draw
    A = RealAlg(); vm = VM(mir, A, inst={}); env = MathEnv(vm, 1, 'uf', L); install_misc(vm)
    fn = mir.method('DiagMassMatrix', None, 'update_diag_draw'); m = Machine(); math = Ref(m.alloc(Opaque('math')))
    def diag0(tag): return L.make('DiagMassMatrix', {'mean': Seq([A.fresh(tag + 'mean')]), 'inv_stds': Seq([A.fresh(tag + 'inv_std')]), 'stds': Seq([A.fresh(tag + 'std')]), 'logdet': A.fresh(tag + 'logdet'), 'store_mass_matrix': False, 'id': z3.Int(tag + 'id')})
    mc = m.alloc(diag0('old_')); dm, dv, sc = A.fresh('draw_mean'), A.fresh('draw_var'), A.fresh('scale'); lo, hi = A.fresh('clamp_lo'), A.fresh('clamp_hi')
    m.pc += [lo.v > 0, lo.v <= hi.v, dv.v > 0, sc.v > 0, z3.Int('old_id') > -2 ** 40, z3.Int('old_id') < 2 ** 40]; vm.unknown_is_feasible = True; vm.solver.set('timeout', 3000)
    outs = list(vm.exec_fn(m, fn, [Ref(mc), math, Ref(m.alloc(Seq([dm]))), Ref(m.alloc(Seq([dv]))), sc, NONE(), Struct((lo, hi))])); n += len(outs); rep.absorb_vm(vm)
    for (m2, k, v) in outs:
        ax = _sqrt_axioms(A); sol = z3.Solver(); sol.set('timeout', 60000); sol.add(*m2.pc); sol.add(*ax)
        if sol.check() == z3.unsat: continue
        if k == 'panic': bad.append(('update_diag_draw panics', str(v)[:100])); continue
        g = lambda f: L.get('DiagMassMatrix', m2.mem[mc], f); std, inv = g('stds').items[0].v, g('inv_stds').items[0].v
        sol.add(z3.Or(g('id') != z3.Int('old_id') + 1, g('mean').items[0].v != dm.v, g('logdet').v != A.uf['ln'](inv), inv * std != 1, std <= 0))
        if sol.check() != z3.unsat: bad.append(('update_diag_draw: id not bumped / mean is not the draw mean / logdet is not ln(inv_std) / scales inconsistent', str(sol.model())[:200]))
    # update_from_grad
    A = RealAlg(); vm = VM(mir, A, inst={}); env = MathEnv(vm, 1, 'uf', L); install_misc(vm)
    fns = [f for n_, f in mir.fns.items() if n_.endswith('::update_from_grad') and 'transform::low_rank' in n_]
    if len(fns) == 1:
        fn = fns[0].parse(); m = Machine(); math = Ref(m.alloc(Opaque('math')))
        diag = L.make('DiagMassMatrix', {'mean': Seq([A.fresh('dm')]), 'inv_stds': Seq([A.fresh('dis')]), 'stds': Seq([A.fresh('ds')]), 'logdet': A.fresh('dld'), 'store_mass_matrix': False, 'id': z3.Int('did')})
        lr = L.make('LowRankMassMatrix', {'diag': diag, 'inner': SOME(Opaque('old factor')), 'settings': Opaque('settings'), 'logdet': A.fresh('ld'), 'id': z3.Int('lid')})
        c = m.alloc(lr); x, g_ = A.fresh('x'), A.fresh('g'); fill = A.fresh('fill'); lo, hi = A.fresh('clamp_lo'), A.fresh('clamp_hi')
        m.pc += [lo.v > 0, lo.v <= hi.v, fill.v > 0, g_.v != 0] + [z3.Int(t) > -2 ** 40 for t in ('did', 'lid')] + [z3.Int(t) < 2 ** 40 for t in ('did', 'lid')]; vm.unknown_is_feasible = True; vm.solver.set('timeout', 3000)
        outs = list(vm.exec_fn(m, fn, [Ref(c), math, Ref(m.alloc(Seq([x]))), Ref(m.alloc(Seq([g_]))), fill, Struct((lo, hi))])); n += len(outs); rep.absorb_vm(vm)
        for (m2, k, v) in outs:
            sol = z3.Solver(); sol.set('timeout', 60000); sol.add(*m2.pc); sol.add(*_sqrt_axioms(A))
            if sol.check() == z3.unsat: continue
            if k == 'panic': bad.append(('update_from_grad panics', str(v)[:100])); continue
            after = m2.mem[c]; gg = lambda f: L.get('LowRankMassMatrix', after, f)
            if gg('inner').name != 'None': bad.append(('update_from_grad keeps the old low-rank factor',))
            sol.add(z3.Or(gg('id') != z3.Int('lid') + 1, gg('logdet').v != L.get('DiagMassMatrix', gg('diag'), 'logdet').v, L.get('DiagMassMatrix', gg('diag'), 'id') != z3.Int('did') + 1))
            if sol.check() != z3.unsat: bad.append(('update_from_grad: id not bumped or logdet is not the diagonal part', str(sol.model())[:200]))
    else: rep.unknown('C08.7 LowRankMassMatrix::update_from_grad not found')
    rep.paths += n; rep.cover('C08.7 both mutators executed', n >= 2)
    if bad: rep.violated('C08.7 other transformation mutators', 'diag.mutators', 'transformation update: %s' % (bad[0],), model={'problems': [str(b)[:300] for b in bad[:5]]})
    else: rep.holds('C08.7 update_diag_draw and LowRankMassMatrix::update_from_grad: id bumped, logdet consistent with the new scales, mean = draw mean resp. low-rank factor cleared (%d paths)' % n)
